//go:build verif

package lib

// C07 – "a registration becomes usable only when every admission condition holds".
//
// Decision-table monitor.  Every case is a vector of factor levels (message fields × station
// configuration × liveness verdict × delivery count).  The message is marshalled and pushed through
// the REAL parseRegMessage + ingestRegistration (monitor "table") or through the REAL
// HandleRegUpdates worker pipeline (monitor "pipeline"); the station's detector channel is a fake
// Redis, its liveness tester a recording stub, its peer-station API a loopback HTTP server.
//
// Observables per (message, family): connectable (GetRegistrations(phantom) returns it), announced
// (StationToDetector{New} published), probed (calls on the stub with address/port), shared (request
// bodies received by the peer stand-in, matched by shared secret).  "Did not happen" for the
// asynchronous share is concluded only after a stack scan shows no goroutine inside
// tryShareRegistrationOverAPI / executeHTTPRequest / handleConnectingTpReg.
//
// The oracle (c07Reference / c07Decide) is written from the property text, not from the code; it
// does not know the order in which the station checks things.

import (
	"bytes"
	"context"
	"encoding/binary"
	"encoding/hex"
	"encoding/json"
	"fmt"
	"io"
	"math/rand"
	"net"
	"net/http"
	"net/netip"
	"os"
	"path/filepath"
	"runtime"
	"strings"
	"sync"
	"sync/atomic"
	"testing"
	"time"

	"github.com/go-redis/redis/v8"
	"google.golang.org/protobuf/proto"
	"google.golang.org/protobuf/types/known/anypb"

	kit "github.com/refraction-networking/conjure/internal/verifkit"
	"github.com/refraction-networking/conjure/pkg/core"
	"github.com/refraction-networking/conjure/pkg/station/liveness"
	"github.com/refraction-networking/conjure/pkg/station/log"
	"github.com/refraction-networking/conjure/pkg/transports/wrapping/min"
	"github.com/refraction-networking/conjure/pkg/transports/wrapping/obfs4"
	pb "github.com/refraction-networking/conjure/proto"
)

// ---------------------------------------------------------------------------------------------------
// factor space

const (
	fSrc = iota
	fTransport
	fGen
	fV4Sup
	fV6Sup
	fRegistrant
	fPh4
	fPh6
	fPort
	fCovert
	fPrescan
	fVerdict
	fDelivery
	fLibver
	fSecret
	fPayload
	fRegResp
	fDecoyAddr
	fStaV4
	fStaV6
	fStaShare
	fStaTransports
	fStaBlocklist
	fStaCovertMode
	c07NF
)

var c07FactorNames = [c07NF]string{"src", "transport", "gen", "v4sup", "v6sup", "registrant", "ph4", "ph6", "port", "covert", "prescan", "verdict",
	"delivery", "libver", "secret", "payload", "regresp", "decoyaddr", "sta.v4", "sta.v6", "sta.share", "sta.transports", "sta.blocklist", "sta.covertmode"}

// level 0 of every factor is the admissible base level
var c07Levels = [c07NF][]string{
	fSrc:           {"API", "Detector", "DetectorPrescan", "BidirectionalAPI", "DNS", "BidirectionalDNS", "absent"},
	fTransport:     {"Min", "Obfs4", "DTLS(not-enabled)", "enum77(unknown)", "absent"},
	fGen:           {"11", "12", "4242(unknown)", "absent", "13(v4-only-subnets)", "14(v6-only-subnets)"},
	fV4Sup:         {"true", "false", "absent"},
	fV6Sup:         {"true", "false", "absent"},
	fRegistrant:    {"v4-mapped16", "v4-4B", "v6", "absent", "len5", "len0"},
	fPh4:           {"derived", "pinned-ok", "pinned-blocklisted", "zero"},
	fPh6:           {"derived", "pinned-ok", "pinned-blocklisted", "ipv4-as-4B", "malformed-5B", "ipv4-mapped-16B", "ipv4-as-4B-blocklisted", "zero16", "len0"},
	fPort:          {"default", "override", "randomized-params"},
	fCovert:        {"ok-v4", "ok-v6", "ok-unless-allowlist", "blocked-subnet-v4", "blocked-subnet-v6", "no-port", "bad-port", "empty", "absent", "blocked-domain"},
	fPrescan:       {"flags-absent", "flags-without-prescanned", "false", "true"},
	fVerdict:       {"notlive/NotLive", "notlive/nil", "live/ErrLiveHost", "live/cached", "live/nil", "notlive/cached"},
	fDelivery:      {"once", "twice", "thrice"},
	fLibver:        {"4", "3", "2"},
	fSecret:        {"32B", "8B", "absent"},
	fPayload:       {"present", "absent"},
	fRegResp:       {"as-needed", "present-even-if-empty"},
	fDecoyAddr:     {"absent", "present"},
	fStaV4:         {"on", "off"},
	fStaV6:         {"on", "off"},
	fStaShare:      {"on", "off"},
	fStaTransports: {"min+obfs4", "min"},
	fStaBlocklist:  {"set", "none"},
	fStaCovertMode: {"blocklist", "allowlist"},
}

type c07Vec [c07NF]uint8

func (v c07Vec) String() string {
	var sb strings.Builder
	for i := 0; i < c07NF; i++ {
		if i > 0 {
			sb.WriteByte(' ')
		}
		sb.WriteString(c07FactorNames[i])
		sb.WriteByte('=')
		sb.WriteString(c07Levels[i][v[i]])
	}
	return sb.String()
}

// non-base levels only (compact form for witnesses)
func (v c07Vec) Short() string {
	var parts []string
	for i := 0; i < c07NF; i++ {
		if v[i] != 0 {
			parts = append(parts, c07FactorNames[i]+"="+c07Levels[i][v[i]])
		}
	}
	if len(parts) == 0 {
		return "(base)"
	}
	return strings.Join(parts, " ")
}

func (v c07Vec) staIndex() int {
	idx := 0
	for i := fStaV4; i <= fStaCovertMode; i++ {
		idx = idx<<1 | int(v[i])
	}
	return idx
}

var c07Bases = func() []c07Vec {
	var a, b, c, d, e c07Vec
	// a: API, dual stack
	b[fSrc] = 1 // Detector, dual stack
	c[fSrc], c[fV6Sup] = 1, 1
	d[fSrc], d[fV4Sup] = 1, 1
	e[fV6Sup] = 1 // API, v4 only
	return []c07Vec{a, b, c, d, e}
}()

// ---------------------------------------------------------------------------------------------------
// fixed environment (what the levels mean)

const c07PhantomToml = `[Networks]
    [Networks.11]
        Generation = 11
        [[Networks.11.WeightedSubnets]]
            Weight = 1
            RandomizeDstPort = true
            Subnets = ["100.64.0.0/10", "2001:db8:a::/48"]
    [Networks.12]
        Generation = 12
        [[Networks.12.WeightedSubnets]]
            Weight = 3
            Subnets = ["100.64.0.0/12", "2001:db8:a:1::/64"]
        [[Networks.12.WeightedSubnets]]
            Weight = 1
            Subnets = ["100.96.0.0/12", "2001:db8:a:2::/64"]
    [Networks.13]
        Generation = 13
        [[Networks.13.WeightedSubnets]]
            Weight = 1
            RandomizeDstPort = true
            Subnets = ["100.64.0.0/10"]
    [Networks.14]
        Generation = 14
        [[Networks.14.WeightedSubnets]]
            Weight = 1
            RandomizeDstPort = true
            Subnets = ["2001:db8:a::/48"]
`

var (
	c07PhantomBlocklist   = []string{"100.112.0.0/12", "2001:db8:a:c000::/50", "198.18.0.0/15", "2001:db8:b10c::/48"}
	c07CovertBlockSubnets = []string{"127.0.0.0/8", "10.0.0.0/8", "::1/128", "fc00::/7"}
	c07CovertAllowSubnets = []string{"203.0.113.0/24", "2001:db8:c0::/48"}
	c07CovertBlockDomains = []string{`blocked\.example$`}
	c07Coverts            = []string{"203.0.113.9:443", "[2001:db8:c0::5]:8443", "198.51.100.7:80", "10.1.2.3:443", "[::1]:22", "203.0.113.9", "203.0.113.9:99999", "", "", "www.blocked.example:443"}
	// does the covert of that level pass the covert policy? [level][mode: 0 blocklist, 1 allowlist] – by construction of the lists above
	c07CovertOK = [][2]bool{{true, true}, {true, true}, {true, false}, {false, false}, {false, false}, {false, false}, {false, false}, {false, false}, {false, false}, {false, false}}

	c07PhantomBlockPrefixes = func() []netip.Prefix {
		var out []netip.Prefix
		for _, s := range c07PhantomBlocklist {
			out = append(out, netip.MustParsePrefix(s))
		}
		return out
	}()
)

// reference blocklist membership (independent of the station's net.IPNet code)
func c07Blocklisted(ip net.IP, listSet bool) bool {
	if !listSet {
		return false
	}
	a, ok := netip.AddrFromSlice(ip)
	if !ok {
		return false
	}
	a = a.Unmap()
	for _, p := range c07PhantomBlockPrefixes {
		if p.Contains(a) {
			return true
		}
	}
	return false
}

type c07Verdict struct {
	live bool
	err  error
}

var c07Verdicts = []c07Verdict{
	{false, liveness.NotLive},
	{false, nil},
	{true, liveness.ErrLiveHost},
	{true, fmt.Errorf("%w: wrapped", liveness.ErrCachedPhantom)},
	{true, nil},
	{false, liveness.ErrCachedPhantom},
}

// ---------------------------------------------------------------------------------------------------
// instruments

type c07Call struct {
	T    int64
	Addr string
	Port uint16
}

type c07Live struct {
	mu      sync.Mutex
	cur     c07Verdict
	byAddr  map[string]c07Verdict // pipeline mode
	calls   []c07Call
	waitFor func() // optional: called inside the probe (gives a premature share the chance to arrive first)
}

func (l *c07Live) PhantomIsLive(addr string, port uint16) (bool, error) {
	l.mu.Lock()
	v := l.cur
	if l.byAddr != nil {
		if w, ok := l.byAddr[addr]; ok {
			v = w
		}
	}
	l.calls = append(l.calls, c07Call{T: kit.Tick(), Addr: addr, Port: port})
	w := l.waitFor
	l.mu.Unlock()
	if w != nil {
		w()
	}
	return v.live, v.err
}
func (*c07Live) PrintAndReset(*log.Logger) {}
func (*c07Live) PrintStats(*log.Logger)    {}
func (*c07Live) Reset()                    {}

func (l *c07Live) take() []c07Call {
	l.mu.Lock()
	defer l.mu.Unlock()
	out := l.calls
	l.calls = nil
	return out
}

type c07Share struct {
	T    int64
	Path string
	W    *pb.C2SWrapper
	Err  string
}

type c07Peer struct {
	ln  net.Listener
	srv *http.Server
	mu  sync.Mutex
	// by hex(shared secret)
	got map[string][]c07Share
	n   int64
}

func c07NewPeer() (*c07Peer, error) {
	ln, err := net.Listen("tcp", "127.0.0.1:0")
	if err != nil {
		return nil, err
	}
	p := &c07Peer{ln: ln, got: map[string][]c07Share{}}
	p.srv = &http.Server{Handler: http.HandlerFunc(func(w http.ResponseWriter, r *http.Request) {
		body, _ := io.ReadAll(io.LimitReader(r.Body, 1<<20))
		t := kit.Tick()
		sh := c07Share{T: t, Path: r.URL.Path}
		cw := &pb.C2SWrapper{}
		if err := proto.Unmarshal(body, cw); err != nil {
			sh.Err = err.Error()
		} else {
			sh.W = cw
		}
		key := hex.EncodeToString(cw.GetSharedSecret())
		p.mu.Lock()
		p.got[key] = append(p.got[key], sh)
		p.mu.Unlock()
		atomic.AddInt64(&p.n, 1)
		w.WriteHeader(http.StatusOK)
	})}
	go p.srv.Serve(ln)
	return p, nil
}

func (p *c07Peer) takeFor(secret []byte) []c07Share {
	key := hex.EncodeToString(secret)
	p.mu.Lock()
	defer p.mu.Unlock()
	out := p.got[key]
	delete(p.got, key)
	return out
}

func (p *c07Peer) has(secret []byte) bool {
	key := hex.EncodeToString(secret)
	p.mu.Lock()
	defer p.mu.Unlock()
	return len(p.got[key]) > 0
}

type c07LogBuf struct {
	mu sync.Mutex
	b  bytes.Buffer
}

func (s *c07LogBuf) Write(p []byte) (int, error) {
	s.mu.Lock()
	defer s.mu.Unlock()
	if s.b.Len() > 1<<16 {
		s.b.Reset()
	}
	return s.b.Write(p)
}
func (s *c07LogBuf) Take() string {
	s.mu.Lock()
	defer s.mu.Unlock()
	out := s.b.String()
	s.b.Reset()
	if len(out) > 2000 {
		out = "…" + out[len(out)-2000:]
	}
	return out
}
func (s *c07LogBuf) Peek() string {
	s.mu.Lock()
	defer s.mu.Unlock()
	return s.b.String()
}

// ---------------------------------------------------------------------------------------------------
// harness

type c07H struct {
	t      *testing.T
	rec    *kit.Rec
	fr     *kit.FakeRedis
	peer   *c07Peer
	live   *c07Live
	logbuf *c07LogBuf
	rms    [64]*RegistrationManager
	rng    *rand.Rand
	seq    uint32

	pending        []*c07Case
	lcf            *os.File
	lcLen          int
	shareWaitEvery int
}

type c07Case struct {
	n            uint32
	v            c07Vec
	secret       []byte
	msg          []byte
	regAddr      []byte
	pin4, pin6   net.IP
	portOverride int // -1 none
	transport    pb.TransportType
	ref          c07Ref
	obs          c07Obs
	mon          string
}

// lastCase is rec.Case without the open/truncate/close per case (0.7 ms each on this filesystem): the same
// <prop>.<mon>.lastcase file, rewritten in place through one descriptor and padded to its longest content.
func (h *c07H) lastCase(desc string) {
	h.rec.CaseCheap(desc)
	if h.lcf == nil {
		f, err := os.OpenFile(filepath.Join(kit.OutDir(), h.rec.Prop+"."+h.rec.Mon+".lastcase"), os.O_CREATE|os.O_WRONLY|os.O_TRUNC, 0o644)
		if err != nil {
			h.t.Fatal(err)
		}
		h.lcf = f
	}
	b, _ := json.Marshal(kit.Event{T: kit.Tick(), K: "case", Prop: h.rec.Prop, Mon: h.rec.Mon, Detail: desc})
	for len(b) < h.lcLen {
		b = append(b, ' ')
	}
	h.lcLen = len(b)
	h.lcf.WriteAt(b, 0)
}

func (h *c07H) station(idx int) *RegistrationManager {
	if h.rms[idx] != nil {
		return h.rms[idx]
	}
	bit := func(f int) bool { return idx>>(fStaCovertMode-f)&1 == 0 } // level 0?
	conf := &RegConfig{
		EnableIPv4:             bit(fStaV4),
		EnableIPv6:             bit(fStaV6),
		EnableShareOverAPI:     bit(fStaShare),
		PreshareEndpoint:       fmt.Sprintf("http://%s/share/%d", h.peer.ln.Addr().String(), idx),
		CovertBlocklistSubnets: c07CovertBlockSubnets,
		CovertBlocklistDomains: c07CovertBlockDomains,
		IngestWorkerCount:      40,
	}
	if bit(fStaBlocklist) {
		conf.PhantomBlocklist = c07PhantomBlocklist
	}
	if !bit(fStaCovertMode) {
		conf.CovertAllowlistSubnets = c07CovertAllowSubnets
	}
	conf.ParseBlocklists()
	if len(conf.phantomBlocklist) != len(conf.PhantomBlocklist) || len(conf.covertBlocklistSubnets) != len(conf.CovertBlocklistSubnets) ||
		len(conf.covertAllowlistSubnets) != len(conf.CovertAllowlistSubnets) || len(conf.covertBlocklistDomains) != len(conf.CovertBlocklistDomains) {
		h.t.Fatal("infrastructure: the station did not take over the configured lists")
	}
	rm := NewRegistrationManager(conf)
	if rm == nil {
		h.t.Fatal("infrastructure: NewRegistrationManager returned nil")
	}
	rm.Logger = log.New(h.logbuf, "[REG] ", 0)
	rm.LivenessTester = h.live
	if err := rm.AddTransport(pb.TransportType_Min, min.Transport{}); err != nil {
		h.t.Fatal(err)
	}
	if bit(fStaTransports) {
		if err := rm.AddTransport(pb.TransportType_Obfs4, obfs4.Transport{}); err != nil {
			h.t.Fatal(err)
		}
	}
	h.rms[idx] = rm
	return rm
}

func (h *c07H) purge() {
	for _, rm := range h.rms {
		if rm == nil {
			continue
		}
		r := rm.registeredDecoys
		r.m.Lock()
		r.decoys = make(map[string]map[string]*DecoyRegistration)
		r.decoysTimeouts = make(map[string]*DecoyTimeout)
		r.m.Unlock()
	}
}

func c07IP4(base uint32, n uint32) net.IP {
	b := make([]byte, 4)
	binary.BigEndian.PutUint32(b, base+n)
	return net.IP(b)
}

func c07IP6(prefix string, n uint32) net.IP {
	ip := net.ParseIP(prefix).To16()
	out := make(net.IP, 16)
	copy(out, ip)
	binary.BigEndian.PutUint32(out[12:], n+1)
	return out
}

// build turns a vector into a marshalled C2SWrapper.
func (h *c07H) build(v c07Vec) *c07Case {
	h.seq++
	n := h.seq
	c := &c07Case{n: n, v: v, portOverride: -1}
	w := &pb.C2SWrapper{}
	switch v[fSecret] {
	case 0:
		c.secret = make([]byte, 32)
	case 1:
		c.secret = make([]byte, 8)
	}
	if c.secret != nil {
		h.rng.Read(c.secret)
		// the case number makes secrets unique beyond doubt
		binary.BigEndian.PutUint32(c.secret[:4], n)
		w.SharedSecret = c.secret
	}
	switch v[fSrc] {
	case 0:
		w.RegistrationSource = pb.RegistrationSource_API.Enum()
	case 1:
		w.RegistrationSource = pb.RegistrationSource_Detector.Enum()
	case 2:
		w.RegistrationSource = pb.RegistrationSource_DetectorPrescan.Enum()
	case 3:
		w.RegistrationSource = pb.RegistrationSource_BidirectionalAPI.Enum()
	case 4:
		w.RegistrationSource = pb.RegistrationSource_DNS.Enum()
	case 5:
		w.RegistrationSource = pb.RegistrationSource_BidirectionalDNS.Enum()
	}
	switch v[fRegistrant] {
	case 0:
		c.regAddr = []byte(c07IP4(11<<24, n).To16())
	case 1:
		c.regAddr = []byte(c07IP4(11<<24, n))
	case 2:
		c.regAddr = []byte(c07IP6("2001:db8:c1::", n))
	case 4:
		c.regAddr = []byte{11, byte(n >> 16), byte(n >> 8), byte(n), 7}
	case 5:
		c.regAddr = []byte{}
	}
	w.RegistrationAddress = c.regAddr
	if v[fDecoyAddr] == 1 {
		w.DecoyAddress = []byte(net.ParseIP("192.0.2.200").To16())
	}
	if v[fPayload] == 0 {
		p := &pb.ClientToStation{}
		p.ClientLibVersion = proto.Uint32([]uint32{4, 3, 2}[v[fLibver]])
		switch v[fTransport] {
		case 0:
			c.transport = pb.TransportType_Min
		case 1:
			c.transport = pb.TransportType_Obfs4
		case 2:
			c.transport = pb.TransportType_DTLS
		case 3:
			c.transport = pb.TransportType(77)
		}
		if v[fTransport] != 4 {
			p.Transport = c.transport.Enum()
		}
		switch v[fGen] {
		case 0:
			p.DecoyListGeneration = proto.Uint32(11)
		case 1:
			p.DecoyListGeneration = proto.Uint32(12)
		case 2:
			p.DecoyListGeneration = proto.Uint32(4242)
		case 4:
			p.DecoyListGeneration = proto.Uint32(13)
		case 5:
			p.DecoyListGeneration = proto.Uint32(14)
		}
		switch v[fV4Sup] {
		case 0:
			p.V4Support = proto.Bool(true)
		case 1:
			p.V4Support = proto.Bool(false)
		}
		switch v[fV6Sup] {
		case 0:
			p.V6Support = proto.Bool(true)
		case 1:
			p.V6Support = proto.Bool(false)
		}
		if v[fCovert] != 8 {
			p.CovertAddress = proto.String(c07Coverts[v[fCovert]])
		}
		switch v[fPrescan] {
		case 1:
			p.Flags = &pb.RegistrationFlags{ProxyHeader: proto.Bool(true)}
		case 2:
			p.Flags = &pb.RegistrationFlags{Prescanned: proto.Bool(false)}
		case 3:
			p.Flags = &pb.RegistrationFlags{Prescanned: proto.Bool(true)}
		}
		if v[fPort] == 2 {
			a, err := anypb.New(&pb.GenericTransportParams{RandomizeDstPort: proto.Bool(true)})
			if err != nil {
				h.t.Fatal(err)
			}
			p.TransportParams = a
		}
		w.RegistrationPayload = p
	}
	var rr *pb.RegistrationResponse
	need := func() *pb.RegistrationResponse {
		if rr == nil {
			rr = &pb.RegistrationResponse{}
		}
		return rr
	}
	switch v[fPh4] {
	case 1:
		c.pin4 = c07IP4(172<<24|16<<16, n&0xfffff)
	case 2:
		c.pin4 = c07IP4(198<<24|18<<16, n&0xffff)
	case 3:
		need().Ipv4Addr = proto.Uint32(0) // present but zero: whatever phantom the registration ends up with is judged
	}
	if c.pin4 != nil {
		need().Ipv4Addr = proto.Uint32(binary.BigEndian.Uint32(c.pin4.To4()))
	}
	// the ipv6addr field is bytes: the registrar can put anything there, including an IPv4 address
	// (family-crossed override).  Crossed addresses come from ranges of their own so that they are
	// never mistaken for the IPv4 slot's phantom.
	switch v[fPh6] {
	case 1:
		c.pin6 = c07IP6("2001:db8:f00d::", n)
	case 2:
		c.pin6 = c07IP6("2001:db8:b10c::", n)
	case 3:
		c.pin6 = c07IP4(25<<24, n&0xffffff) // a 4-byte address in the IPv6 field
	case 4:
		c.pin6 = net.IP{0x20, 0x01, 0x0d, 0xb8, byte(n)}
	case 5:
		c.pin6 = c07IP4(25<<24, n&0xffffff).To16() // ::ffff:25.x.y.z
	case 6:
		c.pin6 = c07IP4(198<<24|19<<16, n&0xffff) // 4-byte, inside the phantom blocklist
	case 7:
		c.pin6 = make(net.IP, 16)
	case 8:
		c.pin6 = net.IP{}
	}
	if c.pin6 != nil {
		need().Ipv6Addr = []byte(c.pin6)
	}
	if v[fPort] == 1 {
		c.portOverride = 1024 + int(n%60000)
		need().DstPort = proto.Uint32(uint32(c.portOverride))
	}
	if v[fRegResp] == 1 {
		need()
	}
	w.RegistrationResponse = rr
	b, err := proto.Marshal(w)
	if err != nil {
		h.t.Fatalf("infrastructure: marshal: %v", err)
	}
	c.msg = b
	c.ref = c07Reference(v)
	return c
}

// ---------------------------------------------------------------------------------------------------
// the reference: written from the property statement

type c07Tri int

const (
	triMustNot c07Tri = iota
	triMay
	triMust
)

type c07FamRef struct {
	// fail: the admission conditions (in the order of the statement) that do NOT hold for this
	// (message, family), as far as they can be told without knowing the phantom
	fail []string
	// unspec: dimensions on which the statement is silent (the family is judged only if `fail` is
	// non-empty: an unspecified dimension can only make a registration less admissible)
	unspec []string
}

type c07Ref struct {
	skip        string // the whole message is outside what the statement specifies (recorded, not judged)
	srcDetector bool
	sharing     bool
	blocklist   bool
	prescanned  bool
	covertOK    bool
	live        bool
	v4sup       bool
	deliveries  int
	// fam[0] = the registration built for v4_support (phantom from the generation's IPv4 subnets or the
	// ipv4addr override), fam[1] = the one built for v6_support (IPv6 subnets or the ipv6addr override)
	fam [2]c07FamRef
	// finalV4[f]: the phantom this registration ENDS UP with is an IPv4 address.  Always true for fam[0];
	// true for fam[1] when the registrar put an IPv4 address (4 bytes or ::ffff:a.b.c.d) into ipv6addr.
	// The family conditions of the statement are judged on this.
	finalV4 [2]bool
}

func c07Crossed(v c07Vec) bool { return v[fPh6] == 3 || v[fPh6] == 5 || v[fPh6] == 6 }

func c07Reference(v c07Vec) c07Ref {
	r := c07Ref{
		srcDetector: v[fSrc] == 1,
		sharing:     v[fStaShare] == 0,
		blocklist:   v[fStaBlocklist] == 0,
		deliveries:  int(v[fDelivery]) + 1,
	}
	payload := v[fPayload] == 0
	r.prescanned = payload && v[fPrescan] == 3
	r.covertOK = payload && c07CovertOK[v[fCovert]][v[fStaCovertMode]]
	r.live = c07Verdicts[v[fVerdict]].live
	r.v4sup = payload && v[fV4Sup] == 0
	if v[fSecret] == 2 {
		// every message without a secret is the same registration as every other one: not judged
		r.skip = "no-shared-secret"
	}
	r.finalV4 = [2]bool{true, c07Crossed(v)}
	for f := 0; f < 2; f++ {
		fr := &r.fam[f]
		if f == 1 {
			switch v[fPh6] {
			case 4, 8:
				fr.unspec = append(fr.unspec, "malformed-ipv6-override")
			case 7:
				fr.unspec = append(fr.unspec, "unspecified-address-as-ipv6-override")
			case 3, 5, 6:
				// admissible or not when everything else fits?  The statement does not say what a station owes a
				// client that asked for IPv6 and was assigned an IPv4 phantom; what it does say - family enabled,
				// consistent with the registrant, probe for IPv4 phantoms, blocklist - is judged on the IPv4 phantom
				fr.unspec = append(fr.unspec, "ipv4-address-in-ipv6-override")
			}
		}
		// complete
		if !payload {
			fr.fail = append(fr.fail, "incomplete")
		}
		if v[fSrc] == 6 {
			fr.unspec = append(fr.unspec, "no-source")
		}
		// enabled transport
		switch {
		case !payload:
		case v[fTransport] == 0:
		case v[fTransport] == 1 && v[fStaTransports] == 0:
		default:
			fr.fail = append(fr.fail, "transport")
		}
		// known generation
		switch {
		case !payload:
		case v[fGen] == 0 || v[fGen] == 1:
		case v[fGen] == 4:
			// a known generation that offers no phantom of this family: the statement does not say what becomes of that half
			if f == 1 {
				fr.unspec = append(fr.unspec, "generation-without-v6-subnets")
			}
		case v[fGen] == 5:
			if f == 0 {
				fr.unspec = append(fr.unspec, "generation-without-v4-subnets")
			}
		default:
			fr.fail = append(fr.fail, "generation")
		}
		// its address family: asked for, enabled on the station, consistent with the registrant -
		// "its" family is the family of the phantom the registration ends up with
		sup := v[fV4Sup]
		if f == 1 {
			sup = v[fV6Sup]
		}
		sta := v[fStaV6]
		if r.finalV4[f] {
			sta = v[fStaV4]
		}
		if payload && sup != 0 {
			fr.fail = append(fr.fail, "family-not-requested")
		}
		if sta != 0 {
			fr.fail = append(fr.fail, "family-disabled")
		}
		switch v[fRegistrant] {
		case 0, 1: // an IPv4 registrant may use either family
		case 2, 3: // IPv6 / unknown registrant: an IPv4 phantom needs an IPv4 registrant
			if r.finalV4[f] {
				fr.fail = append(fr.fail, "family-inconsistent")
			}
		default: // not an address at all
			if r.finalV4[f] {
				fr.fail = append(fr.fail, "family-inconsistent")
			} else {
				fr.unspec = append(fr.unspec, "malformed-registrant-address")
			}
		}
	}
	return r
}

// c07Decision is the expected outcome for one (message, family) once the phantom is known.
type c07Decision struct {
	judged   bool
	admit    bool
	why      string // first failing condition (statement order), "" when admitted
	probe    c07Tri
	probeWhy string
}

func (r *c07Ref) decide(f int, phantom net.IP) c07Decision {
	fr := &r.fam[f]
	var d c07Decision
	fail := append([]string(nil), fr.fail...)
	v4 := r.finalV4[f]
	if phantom != nil {
		v4 = phantom.To4() != nil
	}
	bl := phantom != nil && c07Blocklisted(phantom, r.blocklist)
	if bl {
		fail = append(fail, "phantom-blocklisted")
	}
	if !r.covertOK {
		fail = append(fail, "covert")
	}
	if v4 && !r.prescanned && r.live {
		fail = append(fail, "liveness")
	}
	d.admit = len(fail) == 0
	if !d.admit {
		d.why = fail[0]
	}
	d.judged = r.skip == "" && (len(fail) > 0 || len(fr.unspec) == 0) && (phantom != nil || !r.blocklist || len(fr.fail) > 0 || !r.covertOK)
	// a probe is required only if everything else is in order and nobody scanned the phantom yet
	switch {
	case len(fr.fail) > 0:
		d.probe, d.probeWhy = triMustNot, "not-admissible("+fr.fail[0]+")"
	case !v4:
		d.probe, d.probeWhy = triMustNot, "ipv6-phantom"
	case r.prescanned:
		d.probe, d.probeWhy = triMustNot, "prescanned"
	case !r.covertOK:
		d.probe, d.probeWhy = triMustNot, "not-admissible(covert)"
	case bl && r.srcDetector && r.sharing:
		// the statement lets a locally blocklisted registration from the local detector be passed on
		// to peers "only after passing the liveness probe": the probe serves the share
		d.probe, d.probeWhy = triMay, "blocklisted-but-shareable"
	case bl && r.srcDetector:
		d.probe, d.probeWhy = triMustNot, "not-admissible(phantom-blocklisted,local-detector,sharing-off)"
	case bl:
		d.probe, d.probeWhy = triMustNot, "not-admissible(phantom-blocklisted)"
	case len(fr.unspec) > 0:
		d.probe, d.probeWhy = triMay, "unspecified"
	default:
		d.probe = triMust
	}
	return d
}

// ---------------------------------------------------------------------------------------------------
// observations and the judge

type c07Ann struct {
	Phantom, Client string
	Port            uint32
	Op              string
}

type c07FamObs struct {
	created  bool
	phantom  net.IP
	port     uint16
	visible  []bool // after each delivery
	tracked  bool
	probes   []c07Call
	probesBy []int // per delivery
	anns     []c07Ann
}

func (o *c07FamObs) isVisible() bool { return len(o.visible) > 0 && o.visible[len(o.visible)-1] }

type c07Obs struct {
	parseErr []string
	fam      [2]c07FamObs
	stray    []c07Ann // announcements that belong to no registration of the case
	log      string
}

func c07Visible(rm *RegistrationManager, phantom net.IP, secret []byte, tr pb.TransportType) bool {
	for _, r := range rm.GetRegistrations(phantom) {
		if bytes.Equal(r.SharedSecret(), secret) && r.TransportType() == tr {
			return true
		}
	}
	return false
}

func c07Tracked(rm *RegistrationManager, phantom net.IP, secret []byte) bool {
	r := rm.registeredDecoys
	r.m.RLock()
	defer r.m.RUnlock()
	for _, reg := range r.decoys[phantom.String()] {
		if reg.Keys != nil && bytes.Equal(reg.Keys.SharedSecret, secret) {
			return true
		}
	}
	return false
}

func c07DecodeAnn(p kit.Pub) c07Ann {
	m := &pb.StationToDetector{}
	if err := proto.Unmarshal(p.Payload, m); err != nil {
		return c07Ann{Op: "undecodable:" + err.Error()}
	}
	return c07Ann{Phantom: m.GetPhantomIp(), Client: m.GetClientIp(), Port: m.GetDstPort(), Op: m.GetOperation().String()}
}

func (h *c07H) viol(c *c07Case, sig, msg string, extra map[string]interface{}) {
	d := map[string]interface{}{
		"monitor": c.mon, "case": c.n, "factors": c.v.String(), "non_base_levels": c.v.Short(),
		"message_hex": hex.EncodeToString(c.msg), "secret": hex.EncodeToString(c.secret),
	}
	for f, name := range []string{"v4", "v6"} {
		o := c.obs.fam[f]
		if o.created || o.tracked || len(o.anns) > 0 || len(o.probes) > 0 {
			d["observed_"+name] = fmt.Sprintf("created=%v phantom=%v port=%d connectable_after_each_delivery=%v probes=%v announcements=%v", o.created, o.phantom, o.port, o.visible, o.probes, o.anns)
		}
	}
	if len(c.obs.parseErr) > 0 {
		d["parse_errors"] = c.obs.parseErr
	}
	if c.obs.log != "" {
		d["station_log"] = c.obs.log
	}
	for k, v := range extra {
		d[k] = v
	}
	h.rec.Count("violations_by_sig["+sig+"]", 1)
	h.rec.Violation(sig, msg, d)
}

var c07FamName = [2]string{"v4", "v6"}

// judgeAdmission compares connectable / announced / probed with the reference for both families.
func (h *c07H) judgeAdmission(c *c07Case, rm *RegistrationManager) {
	ref := &c.ref
	if ref.skip != "" {
		h.rec.Count("not_judged["+ref.skip+"]", 1)
	}
	nontrivial := false
	for f := 0; f < 2; f++ {
		o := &c.obs.fam[f]
		phantom := o.phantom
		if phantom == nil {
			if f == 0 {
				phantom = c.pin4
			} else if l := c.v[fPh6]; l != 4 && l != 8 {
				phantom = c.pin6
			}
		}
		if phantom == nil && len(ref.fam[f].fail) == 0 && ref.covertOK && c.v[fPayload] == 0 {
			// the registration was not built although nothing known so far stands against it; whether
			// its (derived) phantom is blocklisted decides – ask the selector for the address
			phantom = h.derive(c, rm, f)
		}
		d := ref.decide(f, phantom)
		visibleEver, visibleEnd := false, false
		for _, b := range o.visible {
			visibleEver = visibleEver || b
		}
		if len(o.visible) > 0 {
			visibleEnd = o.visible[len(o.visible)-1]
		}
		nNew := 0
		for _, a := range o.anns {
			if a.Op == "New" {
				nNew++
			}
		}
		fam := c07FamName[f]
		if f == 1 && ref.finalV4[1] {
			fam = "v6-slot-with-ipv4-override"
		}
		if !d.judged {
			if ref.skip == "" {
				why := "phantom-unknown"
				if len(ref.fam[f].unspec) > 0 {
					why = ref.fam[f].unspec[0]
				}
				h.rec.Count("not_judged["+why+"]", 1)
				h.rec.Count(fmt.Sprintf("not_judged_outcome[%s:%s:connectable=%v]", why, fam, visibleEnd), 1)
			} else {
				h.rec.Count(fmt.Sprintf("not_judged_outcome[%s:%s:connectable=%v]", ref.skip, fam, visibleEnd), 1)
			}
			// connectable and announced must still go together
			if ref.skip == "" && visibleEnd != (nNew > 0) {
				h.viol(c, "admit:connectable-and-announced-disagree:"+fam, "a registration is connectable but was not announced to the detector, or the reverse", map[string]interface{}{"connectable": visibleEnd, "announcements": nNew})
			}
			continue
		}
		h.rec.Count("family_decisions", 1)
		if d.admit {
			h.rec.Count("expected_admitted", 1)
			nontrivial = true
			twin := ""
			if u := ref.fam[1-f].unspec; len(u) > 0 && len(ref.fam[1-f].fail) == 0 {
				twin = ":twin=" + u[0]
			}
			switch {
			case !o.created && !o.tracked && !visibleEver:
				h.viol(c, "admit:admissible-registration-lost:"+fam+twin, "every admission condition of the statement holds for this registration, yet the station built no registration from the message", map[string]interface{}{"family": fam, "phantom": fmt.Sprint(phantom)})
			case !visibleEnd:
				h.viol(c, "admit:admissible-not-connectable:"+fam+twin, "every admission condition holds, yet the registration is not returned for an incoming connection", map[string]interface{}{"family": fam, "phantom": fmt.Sprint(phantom)})
			case len(o.visible) > 0 && !o.visible[0]:
				h.viol(c, "admit:admissible-not-connectable-after-first-delivery:"+fam, "every admission condition holds, yet the registration became connectable only after a repeated delivery", map[string]interface{}{"family": fam})
			}
			if (o.created || o.tracked) && nNew == 0 {
				h.viol(c, "admit:admissible-not-announced:"+fam+twin, "every admission condition holds, yet the registration was not announced to the detector", map[string]interface{}{"family": fam, "phantom": fmt.Sprint(phantom)})
			}
			if nNew > 1 {
				h.rec.Count("admitted_announced_more_than_once", 1)
			}
		} else {
			h.rec.Count("expected_rejected["+d.why+"]", 1)
			if len(ref.fam[f].fail) <= 1 && (o.created || o.tracked) {
				nontrivial = true
			}
			if visibleEver {
				h.viol(c, "admit:inadmissible-connectable:"+d.why+":"+fam, "a registration that fails an admission condition ("+d.why+") is returned for an incoming connection", map[string]interface{}{"family": fam, "phantom": fmt.Sprint(phantom), "failing_condition": d.why})
			}
			if len(o.anns) > 0 {
				h.viol(c, "admit:inadmissible-announced:"+d.why+":"+fam, "a registration that fails an admission condition ("+d.why+") was announced to the detector", map[string]interface{}{"family": fam, "phantom": fmt.Sprint(phantom), "failing_condition": d.why})
			}
		}
		// announcements must describe this registration
		for _, a := range o.anns {
			bad := ""
			switch {
			case a.Op != "New":
				bad = "operation " + a.Op
			case phantom != nil && a.Phantom != phantom.String():
				bad = "phantom " + a.Phantom
			case o.created && a.Port != uint32(o.port):
				bad = fmt.Sprintf("port %d (registration has %d)", a.Port, o.port)
			case c.portOverride >= 0 && a.Port != uint32(c.portOverride):
				bad = fmt.Sprintf("port %d (registrar assigned %d)", a.Port, c.portOverride)
			case c.v[fRegistrant] <= 2 && a.Client != net.IP(c.regAddr).String():
				bad = "client " + a.Client
			}
			if bad != "" {
				h.viol(c, "announce:content-mismatch:"+fam, "the announcement does not describe the registration: "+bad, map[string]interface{}{"announcement": fmt.Sprintf("%+v", a)})
				break
			}
		}
		// probes
		np := len(o.probes)
		first := np
		if len(o.probesBy) > 0 {
			first = o.probesBy[0]
		}
		switch d.probe {
		case triMustNot:
			if np > 0 {
				h.viol(c, "probe:not-required:"+d.probeWhy+":"+fam, "a liveness probe was sent although none was required ("+d.probeWhy+")", map[string]interface{}{"family": fam, "probes": fmt.Sprint(o.probes)})
			}
		case triMust:
			if o.created || o.tracked {
				if first == 0 {
					h.viol(c, "probe:missing:"+fam, "an IPv4 registration that nobody pre-scanned went through admission without a liveness probe", map[string]interface{}{"family": fam})
				}
				max := 1
				if ref.live {
					max = ref.deliveries // re-probing a phantom that answered is not forbidden
				}
				if np > max {
					h.viol(c, "probe:repeated:"+fam, "more liveness probes than required were sent for one registration", map[string]interface{}{"family": fam, "probes": fmt.Sprint(o.probes), "deliveries": ref.deliveries})
				}
			}
		case triMay:
			max := 1
			if ref.live {
				max = ref.deliveries
			}
			if np > max {
				h.viol(c, "probe:repeated:"+fam, "more liveness probes than required were sent for one registration", map[string]interface{}{"family": fam, "probes": fmt.Sprint(o.probes)})
			}
		}
		for _, p := range o.probes {
			if phantom != nil && p.Addr != phantom.String() || (o.created && p.Port != o.port) {
				h.viol(c, "probe:wrong-target:"+fam, "the liveness probe went to an address/port other than the registration's phantom", map[string]interface{}{"probe": fmt.Sprintf("%+v", p), "phantom": fmt.Sprint(phantom), "port": o.port})
				break
			}
		}
		if np > 0 {
			h.rec.Count("probes_observed", np)
		}
	}
	for _, a := range c.obs.stray {
		h.viol(c, "announce:stray", "an announcement was published that belongs to no registration of the message being ingested", map[string]interface{}{"announcement": fmt.Sprintf("%+v", a)})
		break
	}
	h.rec.Count("evaluations", 1)
	if nontrivial {
		h.rec.Distinct("nontrivial", c.v.String())
		h.rec.Count("nontrivial_cases", 1)
	}
	h.rec.Distinct("stations", c.v.staIndex())
}

func (h *c07H) derive(c *c07Case, rm *RegistrationManager, f int) net.IP {
	w := &pb.C2SWrapper{}
	if proto.Unmarshal(c.msg, w) != nil {
		return nil
	}
	p := w.GetRegistrationPayload()
	keys, err := core.GenSharedKeys(uint(p.GetClientLibVersion()), w.GetSharedSecret(), p.GetTransport())
	if err != nil {
		return nil
	}
	ip, err := rm.PhantomSelector.Select(keys.ConjureSeed, uint(p.GetDecoyListGeneration()), uint(p.GetClientLibVersion()), f == 1)
	if err != nil || ip == nil {
		return nil
	}
	return *ip.IP()
}

// judgeShare runs after quiescence.
func (h *c07H) judgeShare(c *c07Case) {
	ref := &c.ref
	if c.secret == nil {
		return
	}
	shares := h.peer.takeFor(c.secret)
	n := len(shares)
	if n > 0 {
		h.rec.Count("shares_observed", n)
	}
	if ref.skip != "" {
		return
	}
	ctx := map[string]interface{}{"share_requests": n}
	crossed := ""
	if ref.finalV4[1] {
		crossed = ":ipv4-address-in-ipv6-override"
	}
	if n > 1 {
		h.viol(c, "share:more-than-once"+crossed, "one client registration was passed on to the peer stations more than once", ctx)
	}
	// may it be shared at all?  only a registration learned from the local detector, with sharing on,
	// and only after it passed the liveness probe (when one was due)
	reason := ""
	mustShare := false
	switch {
	case !ref.srcDetector:
		reason = "source-not-local-detector"
	case !ref.sharing:
		reason = "sharing-disabled"
	default:
		allowed := false
		for f := 0; f < 2; f++ {
			o := &c.obs.fam[f]
			fr := &ref.fam[f]
			if len(fr.fail) > 0 {
				continue
			}
			phantom := o.phantom
			v4 := phantom != nil && phantom.To4() != nil
			if phantom == nil {
				v4 = ref.finalV4[f]
			}
			switch {
			case !v4 || ref.prescanned:
				allowed = true
			case len(o.probes) > 0 && !ref.live:
				allowed = true
			}
			if phantom != nil {
				d := ref.decide(f, phantom)
				if d.judged && d.admit && (f == 0 || !ref.v4sup) && (o.created || o.tracked) {
					mustShare = true
				}
			}
		}
		if !allowed {
			reason = "no-registration-passed-the-liveness-probe"
			// the registrar's IPv4-in-ipv6addr registration was probed and passed, but is itself not admissible
			if o, fr := &c.obs.fam[1], &ref.fam[1]; ref.finalV4[1] && len(fr.fail) > 0 && (o.created || o.tracked) && (ref.prescanned || len(o.probes) > 0 && !ref.live) {
				reason = "not-admissible(" + fr.fail[0] + "):v6-slot-with-ipv4-override"
			}
		}
	}
	if reason != "" && n > 0 {
		h.viol(c, "share:not-permitted:"+reason, "a registration was passed on to the peer stations although the statement does not allow it ("+reason+")", ctx)
	}
	if mustShare && n == 0 {
		if strings.Contains(c.obs.log+h.logbuf.Peek(), "failed to share Registration over API") {
			h.rec.Inconclusive("share request failed at the HTTP level", map[string]interface{}{"case": c.v.Short()})
		} else {
			h.viol(c, "share:missing", "an admitted registration learned from the local detector was not passed on to the peer stations although sharing is enabled", ctx)
		}
	}
	for _, s := range shares {
		if s.W == nil {
			h.viol(c, "share:undecodable", "the shared message is not a C2SWrapper", map[string]interface{}{"err": s.Err})
			continue
		}
		if !s.W.GetRegistrationPayload().GetFlags().GetPrescanned() {
			h.viol(c, "share:not-marked-prescanned", "the shared registration is not marked as pre-scanned", map[string]interface{}{"shared": s.W.String()})
		}
		if s.W.GetRegistrationSource() != pb.RegistrationSource_DetectorPrescan {
			h.viol(c, "share:source-not-detector-prescan", "the shared registration does not carry the source DetectorPrescan", map[string]interface{}{"shared_source": s.W.GetRegistrationSource().String()})
		}
		if want := fmt.Sprintf("/share/%d", c.v.staIndex()); s.Path != want {
			h.viol(c, "share:wrong-endpoint", "the share went to another endpoint than the configured one", map[string]interface{}{"path": s.Path, "want": want})
		}
		// "only after passing the liveness probe": the request must not arrive before the probe was asked
		for f := 0; f < 2; f++ {
			for _, p := range c.obs.fam[f].probes {
				if len(c.obs.fam[f].probes) == 1 && s.T < p.T && len(ref.fam[1-f].fail) > 0 {
					h.viol(c, "share:before-probe", "the share request arrived before the liveness probe of the only registration of the message was started", map[string]interface{}{"share_t": s.T, "probe_t": p.T})
				}
			}
		}
	}
}

// the share runs in `go tryShareRegistrationOverAPI(args…)`: until that goroutine is first scheduled its only
// frame is the compiler's wrapper closure ingestRegistration.gowrapN, hence the fourth pattern
var c07Quiet = []string{"lib.tryShareRegistrationOverAPI", "lib.handleConnectingTpReg", "lib.executeHTTPRequest", "lib.(*RegistrationManager).ingestRegistration."}

var c07StackBuf = make([]byte, 1<<20)

// c07WaitQuiet is kit.WaitNoGoroutineIn with a reused dump buffer (the kit allocates 1 MB per scan, which
// dominates the run when a scan follows every detector-sourced message): it polls runtime.Stack(all) until no
// goroutine has one of the patterns in its stack; returns the offending dump after the bound ("" = quiescent).
func c07WaitQuiet(bound time.Duration, subs ...string) string {
	deadline := time.Now().Add(bound)
	sleep := 50 * time.Microsecond
	for spin := 0; ; spin++ {
		var dump []byte
		for {
			n := runtime.Stack(c07StackBuf, true)
			if n < len(c07StackBuf) {
				dump = c07StackBuf[:n]
				break
			}
			c07StackBuf = make([]byte, 2*len(c07StackBuf))
		}
		hit := false
		for _, s := range subs {
			if bytes.Contains(dump, []byte(s)) {
				hit = true
				break
			}
		}
		if !hit {
			return ""
		}
		if time.Now().After(deadline) {
			return string(dump)
		}
		if spin < 3 {
			runtime.Gosched()
			continue
		}
		time.Sleep(sleep)
		if sleep < 20*time.Millisecond {
			sleep *= 2
		}
	}
}

// flush judges the share observable of all pending cases after quiescence.
func (h *c07H) flush() {
	if len(h.pending) == 0 {
		return
	}
	// cheap pre-wait: when the last case may share, give the request ~2 ms to arrive before the (stop-the-world) scans start
	if last := h.pending[len(h.pending)-1]; last.ref.srcDetector && last.ref.sharing && last.secret != nil && (last.obs.fam[0].isVisible() || last.obs.fam[1].isVisible()) {
		for t := time.Now(); time.Since(t) < 2*time.Millisecond && !h.peer.has(last.secret); {
			runtime.Gosched()
		}
	}
	if left := c07WaitQuiet(60*time.Second, c07Quiet...); left != "" {
		if len(left) > 6000 {
			left = left[:6000]
		}
		h.rec.Inconclusive("share goroutines did not finish within 60 s; share observable not judged for this batch", map[string]interface{}{"stacks": left, "cases": len(h.pending)})
		for _, c := range h.pending {
			h.peer.takeFor(c.secret)
		}
		h.pending = h.pending[:0]
		return
	}
	for _, c := range h.pending {
		h.judgeShare(c)
	}
	h.pending = h.pending[:0]
}

// ---------------------------------------------------------------------------------------------------
// monitor "table": parseRegMessage + ingestRegistration, one message at a time

func (h *c07H) runTable(v c07Vec) {
	c := h.build(v)
	c.mon = "table"
	h.lastCase(fmt.Sprintf("#%d %s", c.n, v.String()))
	rm := h.station(v.staIndex())
	h.logbuf.Take()
	h.fr.Reset()
	h.live.take()
	h.live.mu.Lock()
	h.live.cur = c07Verdicts[v[fVerdict]]
	h.live.waitFor = nil
	if c.ref.srcDetector && c.ref.sharing && c.secret != nil && (h.shareWaitEvery <= 1 || int(c.n)%h.shareWaitEvery == 0) {
		// give a share that does not wait for the probe result the chance to arrive first
		secret := c.secret
		h.live.waitFor = func() {
			for t0 := time.Now(); time.Since(t0) < 400*time.Microsecond && !h.peer.has(secret); {
				runtime.Gosched()
			}
		}
	}
	h.live.mu.Unlock()

	for d := 0; d < c.ref.deliveries; d++ {
		regs, err := rm.parseRegMessage(c.msg)
		if err != nil {
			c.obs.parseErr = append(c.obs.parseErr, err.Error())
		}
		seen := [2]bool{}
		for i, reg := range regs {
			if reg == nil {
				continue
			}
			// which of the two registrations of the message is it?  The one whose phantom is the ipv6addr
			// override (whatever family that address has) or an IPv6 address is the v6_support one.
			_ = i
			f := 1
			if !(len(c.pin6) > 0 && reg.PhantomIp.Equal(c.pin6)) && reg.PhantomIp.To4() != nil {
				f = 0
			}
			o := &c.obs.fam[f]
			if !o.created {
				o.created = true
				o.phantom = append(net.IP(nil), reg.PhantomIp...)
				o.port = reg.PhantomPort
			}
			seen[f] = true
			rm.ingestRegistration(reg)
			calls := h.live.take()
			o.probes = append(o.probes, calls...)
			for len(o.probesBy) <= d {
				o.probesBy = append(o.probesBy, 0)
			}
			o.probesBy[d] += len(calls)
			for _, p := range h.fr.Pubs() {
				a := c07DecodeAnn(p)
				if a.Phantom == o.phantom.String() || a.Op != "New" {
					o.anns = append(o.anns, a)
				} else {
					c.obs.stray = append(c.obs.stray, a)
				}
			}
			h.fr.Reset()
		}
		for f := 0; f < 2; f++ {
			o := &c.obs.fam[f]
			if o.created {
				o.visible = append(o.visible, c07Visible(rm, o.phantom, c.secret, c.transport))
				for len(o.probesBy) <= d {
					o.probesBy = append(o.probesBy, 0)
				}
			}
		}
	}
	// a message whose registration was not built may still not be connectable under a pinned phantom
	for f, pin := range []net.IP{c.pin4, c.pin6} {
		o := &c.obs.fam[f]
		if !o.created && pin != nil && c.secret != nil {
			o.visible = append(o.visible, c07Visible(rm, pin, c.secret, c.transport))
			o.tracked = c07Tracked(rm, pin, c.secret)
		}
	}
	c.obs.log = h.logbuf.Take()
	h.judgeAdmission(c, rm)
	if h.rec.WantSample() && c.obs.fam[0].created && c.obs.fam[1].created && c.ref.srcDetector {
		h.rec.Sample(map[string]interface{}{"case": v.Short(), "v4": fmt.Sprintf("phantom=%v connectable=%v probes=%d announcements=%d", c.obs.fam[0].phantom, c.obs.fam[0].visible, len(c.obs.fam[0].probes), len(c.obs.fam[0].anns)),
			"v6": fmt.Sprintf("phantom=%v connectable=%v probes=%d announcements=%d", c.obs.fam[1].phantom, c.obs.fam[1].visible, len(c.obs.fam[1].probes), len(c.obs.fam[1].anns))})
	}
	c.obs.log = ""
	h.pending = append(h.pending, c)
	if (c.ref.srcDetector && c.ref.sharing) || len(h.pending) >= 256 {
		h.flush()
	}
	if c.n%4096 == 0 {
		h.flush()
		h.purge()
	}
}

// ---------------------------------------------------------------------------------------------------
// case lists

func c07OFAT(base c07Vec) []c07Vec {
	out := []c07Vec{base}
	for f := 0; f < c07NF; f++ {
		for l := range c07Levels[f] {
			if uint8(l) == base[f] {
				continue
			}
			v := base
			v[f] = uint8(l)
			out = append(out, v)
		}
	}
	return out
}

func c07Pairs(base c07Vec) []c07Vec {
	var out []c07Vec
	for f := 0; f < c07NF; f++ {
		for g := f + 1; g < c07NF; g++ {
			for l := range c07Levels[f] {
				for m := range c07Levels[g] {
					if uint8(l) == base[f] || uint8(m) == base[g] {
						continue // covered by one-factor-at-a-time
					}
					v := base
					v[f], v[g] = uint8(l), uint8(m)
					out = append(out, v)
				}
			}
		}
	}
	return out
}

type c07Rng interface {
	Intn(int) int
	Read([]byte) (int, error)
}

func c07Random(rng c07Rng) c07Vec {
	v := c07Bases[rng.Intn(len(c07Bases))]
	for f := 0; f < c07NF; f++ {
		if rng.Intn(100) < 22 {
			v[f] = uint8(rng.Intn(len(c07Levels[f])))
		}
	}
	return v
}

func c07Setup(t *testing.T, mon string) *c07H {
	rec := kit.NewRec("C07", mon)
	p := filepath.Join(kit.OutDir(), "c07_phantom_subnets.toml")
	if err := os.WriteFile(p, []byte(c07PhantomToml), 0o644); err != nil {
		t.Fatal(err)
	}
	os.Setenv("PHANTOM_SUBNET_LOCATION", p)
	fr, err := kit.NewFakeRedis("127.0.0.1:0")
	if err != nil {
		t.Fatal(err)
	}
	once.Do(func() {})
	client = redis.NewClient(&redis.Options{Addr: fr.Addr(), PoolSize: 64})
	peer, err := c07NewPeer()
	if err != nil {
		t.Fatal(err)
	}
	h := &c07H{t: t, rec: rec, fr: fr, peer: peer, live: &c07Live{}, logbuf: &c07LogBuf{}, rng: kit.Rand("c07/secrets/" + mon)}
	return h
}

func (h *c07H) close() {
	h.rec.Close()
	h.peer.srv.Close()
	client.Close()
	h.fr.Close()
}

func TestVerifC07Table(t *testing.T) {
	h := c07Setup(t, "table")
	defer h.close()
	rng := kit.Rand("c07/table")
	h.shareWaitEvery = kit.Tier(1, 8)
	total := kit.Tier(8000, 400000)

	n := 0
	for _, b := range c07Bases {
		for _, v := range c07OFAT(b) {
			h.runTable(v)
			n++
		}
	}
	h.rec.Exhaustive(fmt.Sprintf("one factor at a time: every level of each of the %d factors against %d admissible bases (%d cases)", c07NF, len(c07Bases), n))
	bases := c07Bases
	if !kit.Thorough() {
		// quick: all pairs around one base, chosen by the seed; thorough: around every base
		bases = []c07Vec{c07Bases[int(kit.Seed())%len(c07Bases)]}
	}
	np := 0
	for _, b := range bases {
		ps := c07Pairs(b)
		for _, v := range ps {
			h.runTable(v)
			np++
		}
	}
	n += np
	h.rec.Exhaustive(fmt.Sprintf("all pairs of non-base levels around %d base(s) (%d cases)", len(bases), np))
	for ; n < total; n++ {
		h.runTable(c07Random(rng))
	}
	h.flush()
	h.rec.Count("share_requests_unattributed", int(func() int64 {
		h.peer.mu.Lock()
		defer h.peer.mu.Unlock()
		var k int64
		for key, v := range h.peer.got {
			if key != "" {
				k += int64(len(v))
			}
		}
		return k
	}()))
	h.rec.Note("not judged (the statement is silent; outcomes are counted under not_judged_outcome[...]): messages without a shared secret, without a source, with a registrant address that is not 4 or 16 bytes (IPv6 registration), with an IPv6 override that is not 16 bytes, and the IPv6 half of a generation whose subnets are all IPv4")
}

// ---------------------------------------------------------------------------------------------------
// monitor "pipeline": the real HandleRegUpdates worker pool; attribution by pinned unique phantoms

func TestVerifC07Pipeline(t *testing.T) {
	h := c07Setup(t, "pipeline")
	defer h.close()
	rng := kit.Rand("c07/pipeline")
	batches := kit.Tier(8, 100)
	per := kit.Tier(500, 2000)
	h.live.byAddr = map[string]c07Verdict{}
	for b := 0; b < batches; b++ {
		// one station configuration per batch
		var sta c07Vec
		for f := fStaV4; f <= fStaCovertMode; f++ {
			if rng.Intn(100) < 30 {
				sta[f] = 1
			}
		}
		if b == 0 {
			sta = c07Vec{}
		}
		rm := h.station(sta.staIndex())
		var cases []*c07Case
		h.live.mu.Lock()
		h.live.byAddr = map[string]c07Verdict{}
		h.live.mu.Unlock()
		for i := 0; i < per; i++ {
			v := c07Random(rng)
			for f := fStaV4; f <= fStaCovertMode; f++ {
				v[f] = sta[f]
			}
			v[fDelivery] = 0
			if v[fSecret] == 2 {
				v[fSecret] = 0
			}
			if v[fPh4] == 0 || v[fPh4] == 3 {
				v[fPh4] = uint8(1 + rng.Intn(2))
			}
			switch v[fPh6] {
			case 0, 4, 7, 8: // attribution needs a unique, well-formed address
				v[fPh6] = []uint8{1, 2, 3, 5, 6}[rng.Intn(5)]
			}
			c := h.build(v)
			c.mon = "pipeline"
			h.live.mu.Lock()
			h.live.byAddr[c.pin4.String()] = c07Verdicts[v[fVerdict]]
			if c.pin6.To4() != nil {
				h.live.byAddr[c.pin6.String()] = c07Verdicts[v[fVerdict]]
			}
			h.live.mu.Unlock()
			cases = append(cases, c)
		}
		h.rec.Case(fmt.Sprintf("pipeline batch %d station %d (%d messages)", b, sta.staIndex(), len(cases)))
		h.fr.Reset()
		h.live.take()
		h.logbuf.Take()

		ctx, cancel := context.WithCancel(context.Background())
		ch := make(chan interface{})
		var wg sync.WaitGroup
		wg.Add(1)
		dropped0 := atomic.LoadInt64(&rm.totalDroppedMessages)
		go rm.HandleRegUpdates(ctx, ch, &wg)
		for i, c := range cases {
			if i > 0 {
				// never let the shallow buffer fill up: the station sheds load by design, which is not the subject here
				for len(rm.ingestChan) >= cap(rm.ingestChan)-1 {
					time.Sleep(50 * time.Microsecond)
				}
			}
			ch <- c.msg
		}
		// quiescence: queue empty, distributor waiting for input, every worker parked in its select
		quiet := false
		deadline := time.Now().Add(120 * time.Second)
		for !quiet && time.Now().Before(deadline) {
			if len(rm.ingestChan) == 0 {
				gs := kit.Stacks()
				idle := 0
				for _, g := range gs {
					// a parked worker: blocked in the select of startIngestThread itself (runtime frames are elided, so it is the top frame)
					if g.State == "select" && len(g.Frames) > 0 && strings.HasSuffix(g.Frames[0], "lib.(*RegistrationManager).startIngestThread") {
						idle++
					}
				}
				distr := false
				for _, g := range gs {
					// the distributor waits for input: "chan receive" (range over the channel) or "select" (input or stop)
					if len(g.Frames) > 0 && strings.HasSuffix(g.Frames[0], "lib.(*RegistrationManager).HandleRegUpdates") && (g.State == "chan receive" || g.State == "select") {
						distr = true
					}
				}
				if idle == rm.IngestWorkerCount && distr && len(rm.ingestChan) == 0 {
					quiet = true
					break
				}
			}
			time.Sleep(2 * time.Millisecond)
		}
		left := kit.WaitNoGoroutineIn(60*time.Second, c07Quiet...)
		dropped := atomic.LoadInt64(&rm.totalDroppedMessages) - dropped0
		cancel()
		close(ch)
		done := make(chan struct{})
		go func() { wg.Wait(); close(done) }()
		select {
		case <-done:
		case <-time.After(60 * time.Second):
			h.rec.Inconclusive("HandleRegUpdates did not return within 60 s after cancel + close", nil)
		}
		if !quiet || left != nil || dropped != 0 {
			h.rec.Inconclusive("pipeline batch not judged", map[string]interface{}{"quiet": quiet, "share_goroutines_left": len(left), "dropped_by_load_shedding": dropped})
			for _, c := range cases {
				h.peer.takeFor(c.secret)
			}
			h.purge()
			continue
		}
		// attribute by phantom
		probes := map[string][]c07Call{}
		for _, p := range h.live.take() {
			probes[p.Addr] = append(probes[p.Addr], p)
		}
		anns := map[string][]c07Ann{}
		for _, p := range h.fr.Pubs() {
			a := c07DecodeAnn(p)
			anns[a.Phantom] = append(anns[a.Phantom], a)
		}
		h.fr.Reset()
		logs := h.logbuf.Take()
		for _, c := range cases {
			for f, pin := range []net.IP{c.pin4, c.pin6} {
				o := &c.obs.fam[f]
				key := pin.String()
				o.phantom = pin
				o.tracked = c07Tracked(rm, pin, c.secret)
				o.visible = []bool{c07Visible(rm, pin, c.secret, c.transport)}
				o.probes = probes[key]
				o.probesBy = []int{len(o.probes)}
				o.anns = anns[key]
				delete(anns, key)
				if o.tracked {
					// the port is whatever the station derived; take it from the tracked object
					rm.registeredDecoys.m.RLock()
					for _, reg := range rm.registeredDecoys.decoys[key] {
						if reg.Keys != nil && bytes.Equal(reg.Keys.SharedSecret, c.secret) {
							o.port = reg.PhantomPort
							o.created = true
						}
					}
					rm.registeredDecoys.m.RUnlock()
				}
			}
			h.rec.CaseCheap(fmt.Sprintf("#%d %s", c.n, c.v.String()))
			h.judgeAdmission(c, rm)
			c.obs.log = logs
			h.judgeShare(c)
			c.obs.log = ""
		}
		for ph, as := range anns {
			h.rec.Violation("announce:stray", "the pipeline announced a phantom that belongs to no message of the batch", map[string]interface{}{"phantom": ph, "announcements": fmt.Sprintf("%+v", as)})
		}
		h.rec.Count("pipeline_batches_judged", 1)
		h.purge()
	}
	h.rec.Note("every message of a batch goes through the real HandleRegUpdates distributor and worker pool (40 workers); observations are attributed by phantoms pinned through registrar overrides")
}
