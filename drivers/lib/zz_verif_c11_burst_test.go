//go:build verif

package lib

// C11 – stage "burst": registration messages arriving in bursts through the REAL ingest pipeline.
// (Added after the round-3 seeded change C11-F was missed: the other station stage calls
// parseRegMessage / ingestRegistration from eight driver goroutines, never through HandleRegUpdates
// and its worker pool, and never with new statistics keys being created by many workers at once.)
//
// For each worker count (the default 300 first, then 1, 16, 1000) the station's own
// HandleRegUpdates runs on a channel as cmd/application wires it (capacity 10 000).  Several producer
// goroutines write bursts of messages into it:
//   * valid, admissible registrations with pairwise-distinct client_lib_version values (a free
//     client-chosen uint32), rotating generation (1, 2, 957), transport (min, obfs4, prefix, a few
//     DTLS) and source (API, DNS, bidirectional, detector, prescan), unique secrets, v4 / v6 support
//   * the generator's malformed / near-valid messages mixed in (one in five)
// while, as in a running station, the periodic statistics print-and-reset runs next to it (every
// 25 ms instead of 5 s, so that every epoch starts with empty maps and new keys keep being created),
// the expiry sweep runs every 300 ms, and connection-handler style lookups (CountRegistrations,
// GetRegistrations, MarkActive) hit the same manager from four goroutines.
//
// Oracle: process survival.  A `fatal error:` (e.g. concurrent map writes – unrecoverable) or a panic
// in any goroutine ends the child; the orchestrator reports crash:burst:<innermost repository frame>.
// The pipeline must also wind down: HandleRegUpdates has to return within 60 s after cancel.
// Evidence: messages fed / dropped by design / registrations announced to the detector, and the
// number of statistics keys that were created (sampled before every reset), so that one can see that
// new keys really were being inserted by concurrent workers.

import (
	"context"
	"fmt"
	"math/rand"
	"net"
	"runtime"
	"strings"
	"sync"
	"sync/atomic"
	"testing"
	"time"

	kit "github.com/refraction-networking/conjure/internal/verifkit"
	pb "github.com/refraction-networking/conjure/proto"
	"google.golang.org/protobuf/proto"
	"google.golang.org/protobuf/types/known/anypb"
)

var verifC11BurstLV atomic.Uint32

// verifC11BurstValid builds an admissible registration whose client_lib_version nobody used before.
func verifC11BurstValid(r *rand.Rand) []byte {
	lv := 3 + verifC11BurstLV.Add(1)
	if r.Intn(16) == 0 {
		lv = []uint32{1 << 20, 1 << 31, 1<<32 - 1}[r.Intn(3)] - verifC11BurstLV.Load()
	}
	tt := []pb.TransportType{pb.TransportType_Min, pb.TransportType_Obfs4, pb.TransportType_Prefix}[r.Intn(3)]
	if r.Intn(100) == 0 {
		tt = pb.TransportType_DTLS
	}
	c := &pb.ClientToStation{Transport: tt.Enum(), ClientLibVersion: proto.Uint32(lv), DecoyListGeneration: proto.Uint32([]uint32{1, 2, 957}[r.Intn(3)]),
		V4Support: proto.Bool(true), V6Support: proto.Bool(r.Intn(2) == 0), CovertAddress: proto.String("192.0.2.99:443")}
	switch tt {
	case pb.TransportType_Prefix:
		c.TransportParams, _ = anypb.New(&pb.PrefixTransportParams{PrefixId: proto.Int32(int32(r.Intn(10))), RandomizeDstPort: proto.Bool(r.Intn(2) == 0)})
	case pb.TransportType_DTLS:
		c.TransportParams, _ = anypb.New(&pb.DTLSTransportParams{SrcAddr4: &pb.Addr{IP: []byte{198, 51, 100, byte(1 + r.Intn(250))}, Port: proto.Uint32(uint32(1024 + r.Intn(60000)))},
			SrcAddr6: &pb.Addr{IP: net.ParseIP("2001:db8::9"), Port: proto.Uint32(5000)}})
	default:
		if r.Intn(2) == 0 {
			c.TransportParams, _ = anypb.New(&pb.GenericTransportParams{RandomizeDstPort: proto.Bool(r.Intn(2) == 0)})
		}
	}
	if r.Intn(3) == 0 {
		c.Flags = &pb.RegistrationFlags{Prescanned: proto.Bool(r.Intn(2) == 0)}
	}
	src := []pb.RegistrationSource{pb.RegistrationSource_API, pb.RegistrationSource_API, pb.RegistrationSource_DNS, pb.RegistrationSource_BidirectionalAPI,
		pb.RegistrationSource_BidirectionalDNS, pb.RegistrationSource_DetectorPrescan, pb.RegistrationSource_Detector}[r.Intn(7)]
	w := &pb.C2SWrapper{SharedSecret: make([]byte, 32), RegistrationPayload: c, RegistrationSource: &src,
		RegistrationAddress: []byte{byte(1 + r.Intn(222)), byte(r.Intn(256)), byte(r.Intn(256)), byte(1 + r.Intn(254))}}
	r.Read(w.SharedSecret)
	b, _ := proto.Marshal(w)
	return b
}

// verifC11BurstPile: see the call site.
func verifC11BurstPile(rec *kit.Rec, h *verifC11Lib, regChan chan interface{}, drain func(), fed *atomic.Int64) bool {
	rm := h.rm
	r := kit.Rand("c11-burst-pile")
	// phantoms the liveness stub calls dead and the blocklist allows
	pick := func(v6 bool, k int) net.IP {
		for i := 0; ; i++ {
			var ip net.IP
			if v6 {
				ip = net.ParseIP(fmt.Sprintf("2001:48a8:687f:1::%x", 0x100+k*64+i))
			} else {
				ip = net.IPv4(192, 122, 190, byte(40+k*20+i)).To4()
			}
			if live, _ := (verifC11Live{}).PhantomIsLive(ip.String(), 443); !live && !rm.IsBlocklistedPhantom(ip) {
				return ip
			}
		}
	}
	type plan struct {
		name string
		n    int
		v6   bool
		mod  func(w *pb.C2SWrapper, i int)
	}
	sizes := []int{1100, 2100}
	if kit.Thorough() {
		sizes = append(sizes, 5000, 20000)
	}
	var plans []plan
	for k, n := range sizes {
		plans = append(plans, plan{fmt.Sprintf("%d distinct registrations on one v4 phantom", n), n, false, nil})
		if k < 2 || n == 5000 {
			plans = append(plans, plan{fmt.Sprintf("%d distinct registrations on one v6 phantom", n), n, true, nil})
		}
	}
	plans = append(plans,
		plan{"2100 on one (phantom, port), all three wrapping transports", 2100, false, func(w *pb.C2SWrapper, i int) {
			tt := []pb.TransportType{pb.TransportType_Min, pb.TransportType_Obfs4, pb.TransportType_Prefix}[i%3]
			w.RegistrationPayload.Transport = tt.Enum()
			if tt == pb.TransportType_Prefix {
				w.RegistrationPayload.TransportParams, _ = anypb.New(&pb.PrefixTransportParams{PrefixId: proto.Int32(int32(i % 10)), RandomizeDstPort: proto.Bool(false)})
			}
		}},
		plan{"2100 from one registrant with one covert, phantoms not pinned", 2100, false, func(w *pb.C2SWrapper, i int) { w.RegistrationResponse = nil }},
	)
	for k, pl := range plans {
		ip := pick(pl.v6, k)
		rec.Case(map[string]interface{}{"stage": "burst", "phase": "pile-up: " + pl.name, "phantom": ip.String()})
		for i := 0; i < pl.n; i++ {
			c := &pb.ClientToStation{Transport: pb.TransportType_Min.Enum(), ClientLibVersion: proto.Uint32(4), DecoyListGeneration: proto.Uint32(957),
				V4Support: proto.Bool(!pl.v6), V6Support: proto.Bool(pl.v6), CovertAddress: proto.String("192.0.2.99:443")}
			src := pb.RegistrationSource_BidirectionalAPI
			w := &pb.C2SWrapper{SharedSecret: make([]byte, 32), RegistrationPayload: c, RegistrationSource: &src, RegistrationAddress: []byte{203, 0, 113, 50},
				RegistrationResponse: &pb.RegistrationResponse{DstPort: proto.Uint32(443)}}
			r.Read(w.SharedSecret)
			if pl.v6 {
				w.RegistrationResponse.Ipv6Addr = []byte(ip.To16())
			} else {
				w.RegistrationResponse.Ipv4Addr = proto.Uint32(uint32(ip[0])<<24 | uint32(ip[1])<<16 | uint32(ip[2])<<8 | uint32(ip[3]))
			}
			if pl.mod != nil {
				pl.mod(w, i)
			}
			b, _ := proto.Marshal(w)
			regChan <- b
			if i%24 == 23 { // paced below the pool's buffer of 30, so that it drops next to nothing
				for len(regChan) > 0 {
					time.Sleep(100 * time.Microsecond)
				}
				time.Sleep(1500 * time.Microsecond)
			}
		}
		fed.Add(int64(pl.n))
		rec.Count("evaluations", pl.n)
		rec.Count("pile_up_messages", pl.n)
		rec.Distinct("nontrivial", "pile-up", pl.name)
		drain()
		// a lookup on the loaded phantom must return
		done := make(chan struct{ count, valid int }, 1)
		go verifC11BurstLookup(rm, ip, done)
		select {
		case x := <-done:
			rec.Count("pile_up_lookups_returned", 1)
			rec.Count("registrations_counted_on_loaded_phantoms", x.count)
			rec.Sample(map[string]interface{}{"entry": "burst/pile-up", "plan": pl.name, "phantom": ip.String(), "registrations_tracked_on_it": x.count, "valid": x.valid})
		case <-time.After(20 * time.Second):
			blocked, found, state, stack := kit.C11LoopBlocked("lib.verifC11BurstLookup", "")
			d := map[string]interface{}{"plan": pl.name, "phantom": ip.String(), "lookup_goroutine_found": found, "state": state, "stack": stack,
				"ingest_workers_alive": len(kit.InFunc(kit.Stacks(), "lib.(*RegistrationManager).startIngestThread"))}
			if found && blocked {
				rec.Violation("hang:station-registry:lookup-blocked", "after "+pl.name+" a lookup on that phantom (CountRegistrations / GetRegistrations, what every new connection does) did not return within 20 s and sits parked in ["+state+"] on three scans: the registry lock is held for ever", d)
			} else {
				rec.Inconclusive("a lookup on the loaded phantom did not return within 20 s but is not stably parked", d)
			}
			return false
		}
		if !verifC11BurstControl(rec, h, regChan, "after "+pl.name) {
			return false
		}
	}
	return true
}

// verifC11BurstLookup is what the connection handler does first for a new connection to the phantom.
func verifC11BurstLookup(rm *RegistrationManager, ip net.IP, done chan<- struct{ count, valid int }) {
	n := rm.CountRegistrations(ip)
	v := len(rm.GetRegistrations(ip))
	done <- struct{ count, valid int }{n, v}
}

var verifC11BurstControls atomic.Int64

// verifC11BurstControl writes a fresh admissible registration (min transport, API source, a phantom the
// liveness stub calls dead and the blocklist allows) into the pipeline and waits until the manager
// holds it as VALID.  The pool drops what it cannot take at once, so the control is offered up to three
// times, 20 s each.  If it never arrives the stacks decide: no ingest worker idle in its select (all
// parked in a lock / channel deeper in the code, or none alive) on three scans = the pipeline has
// stalled (violation with a sample stack); otherwise inconclusive.
func verifC11BurstControl(rec *kit.Rec, h *verifC11Lib, regChan chan interface{}, when string) bool {
	rm := h.rm
	r := kit.Rand(fmt.Sprintf("c11-burst-control/%d", verifC11BurstControls.Add(1)))
	var msg []byte
	var want *DecoyRegistration
	for try := 0; try < 200 && want == nil; try++ {
		c := &pb.ClientToStation{Transport: pb.TransportType_Min.Enum(), ClientLibVersion: proto.Uint32(4), DecoyListGeneration: proto.Uint32(957),
			V4Support: proto.Bool(true), V6Support: proto.Bool(false), CovertAddress: proto.String("192.0.2.99:443")}
		src := pb.RegistrationSource_API
		w := &pb.C2SWrapper{SharedSecret: make([]byte, 32), RegistrationPayload: c, RegistrationSource: &src, RegistrationAddress: []byte{203, 0, 113, 99}}
		r.Read(w.SharedSecret)
		b, _ := proto.Marshal(w)
		regs, err := rm.parseRegMessage(b)
		if err != nil || len(regs) != 1 || regs[0] == nil {
			continue
		}
		if live, _ := (verifC11Live{}).PhantomIsLive(regs[0].PhantomIp.String(), regs[0].PhantomPort); live || rm.IsBlocklistedPhantom(regs[0].PhantomIp) {
			continue
		}
		msg, want = b, regs[0]
	}
	if want == nil {
		panic("verif infrastructure: cannot build a control registration")
	}
	for offer := 0; offer < 3; offer++ {
		regChan <- msg
		deadline := time.Now().Add(20 * time.Second)
		for time.Now().Before(deadline) {
			if got := rm.registeredDecoys.RegistrationExists(want); got != nil && got.Valid {
				rec.Count("controls_ingested", 1)
				if offer > 0 {
					rec.Count("controls_ingested_only_on_a_later_offer", 1)
				}
				return true
			}
			time.Sleep(time.Millisecond)
		}
	}
	idleMin, total, sample := -1, 0, ""
	for scan := 0; scan < 3; scan++ {
		if scan > 0 {
			time.Sleep(time.Second)
		}
		idle := 0
		ws := kit.InFunc(kit.Stacks(), "lib.(*RegistrationManager).startIngestThread")
		total = len(ws)
		for _, g := range ws {
			// an idle worker sits in the select of startIngestThread itself
			if len(g.Frames) > 0 && strings.Contains(g.Frames[0], "startIngestThread") && strings.HasPrefix(g.State, "select") {
				idle++
			} else {
				sample = g.Raw
			}
		}
		if idleMin < 0 || idle < idleMin {
			idleMin = idle
		}
	}
	d := map[string]interface{}{"when": when, "ingest_workers_alive": total, "of_them_idle_in_their_select(min of 3 scans)": idleMin, "sample_stack_of_a_busy_worker": sample}
	if idleMin <= 0 {
		rec.Violation("hang:station-ingest:pipeline-stalled", "a fresh admissible control registration written into the ingest channel never became valid (3 offers, 20 s each) and no ingest worker is idle: the pipeline has stalled ("+when+")", d)
	} else {
		rec.Inconclusive("a control registration did not become valid although ingest workers are idle", d)
	}
	return false
}

func TestVerifC11Burst(t *testing.T) {
	rec := kit.NewRec("C11", "station-burst")
	defer rec.Close()
	h := verifC11LibSetup(t)
	rm := h.rm
	rounds := kit.Tier(30, 400) // bursts per producer and worker count
	const producers, burst = 4, 96 // 4 x 96 at once: about what 300 workers + their buffer of 30 can take
	var fed, keysCreated, resets, lookups atomic.Int64
	var pauseSweep atomic.Bool

	sampleKeys := func() {
		s := rm.RegistrationStats
		s.genMutex.RLock()
		n := len(s.generations)
		s.genMutex.RUnlock()
		s.ttMutex.RLock()
		n += len(s.ttStats)
		s.ttMutex.RUnlock()
		s.lvMutex.RLock()
		n += len(s.lvStats)
		s.lvMutex.RUnlock()
		keysCreated.Add(int64(n))
	}

	for _, workers := range []int{0, 1, 16, 1000} {
		wdesc := fmt.Sprintf("workers=%d", workers)
		if workers == 0 {
			wdesc = fmt.Sprintf("workers=default(%d)", defaultWorkerCount)
		}
		rec.Case(map[string]interface{}{"stage": "burst", "phase": wdesc, "producers": producers, "burst": burst, "rounds": rounds, "seed": kit.Seed()})
		rm.IngestWorkerCount = workers
		ctx, cancel := context.WithCancel(context.Background())
		regChan := make(chan interface{}, 10000) // cmd/application/main.go
		var pipeline sync.WaitGroup
		pipeline.Add(1)
		returned := make(chan struct{})
		go func() { rm.HandleRegUpdates(ctx, regChan, &pipeline); close(returned) }()

		// the station's housekeeping next to the pipeline
		stop := make(chan struct{})
		var side sync.WaitGroup
		side.Add(1)
		go func() { // stats ticker
			defer side.Done()
			for {
				select {
				case <-stop:
					return
				case <-time.After(25 * time.Millisecond):
					sampleKeys()
					rm.PrintAndReset(rm.Logger)
					resets.Add(1)
				}
			}
		}()
		side.Add(1)
		go func() { // expiry sweep
			defer side.Done()
			for {
				select {
				case <-stop:
					return
				case <-time.After(300 * time.Millisecond):
					if pauseSweep.Load() {
						continue // the pile-up phases model seconds of traffic; the station sweeps every 3 minutes
					}
					rm.VerifBackdate(7 * time.Hour)
					rm.RemoveOldRegistrations()
					h.pubs.Add(int64(h.redis.Len()))
					h.redis.Reset()
				}
			}
		}()
		for k := 0; k < 4; k++ { // connection-handler lookups
			side.Add(1)
			go func(k int) {
				defer side.Done()
				r := kit.Rand(fmt.Sprintf("c11-burst-lookup/%d/%d", workers, k))
				for {
					select {
					case <-stop:
						return
					default:
					}
					ip := net.IPv4(192, 122, 190, byte(r.Intn(256))).To4()
					_ = rm.CountRegistrations(ip)
					for _, reg := range rm.GetRegistrations(ip) {
						_, _ = reg.TransportType(), reg.TransportParams()
						if d, ok := reg.(*DecoyRegistration); ok && r.Intn(8) == 0 {
							rm.MarkActive(d)
						}
					}
					lookups.Add(1)
					if r.Intn(64) == 0 {
						time.Sleep(200 * time.Microsecond)
					}
				}
			}(k)
		}

		var prod sync.WaitGroup
		for p := 0; p < producers; p++ {
			prod.Add(1)
			go func(p int) {
				defer prod.Done()
				r := kit.Rand(fmt.Sprintf("c11-burst/%d/%d", workers, p))
				for round := 0; round < rounds; round++ {
					msgs := make([]interface{}, 0, burst)
					for i := 0; i < burst; i++ {
						if r.Intn(5) == 0 {
							msgs = append(msgs, kit.C11WrapperInput(r, false).In)
						} else {
							msgs = append(msgs, verifC11BurstValid(r))
						}
					}
					for _, m := range msgs { // the burst itself: as fast as the channel takes it
						regChan <- m
					}
					fed.Add(int64(len(msgs)))
					// let the pool catch up (the station drops what it cannot take at once, by design)
					deadline := time.Now().Add(30 * time.Second)
					for len(regChan) > 0 && time.Now().Before(deadline) {
						time.Sleep(200 * time.Microsecond)
					}
					time.Sleep(time.Duration(5+r.Intn(10)) * time.Millisecond) // the workers finish the burst; the next one finds them idle
				}
			}(p)
		}
		prod.Wait()
		drain := func() {
			deadline := time.Now().Add(60 * time.Second)
			for len(regChan) > 0 && time.Now().Before(deadline) {
				time.Sleep(time.Millisecond)
			}
			time.Sleep(200 * time.Millisecond)
		}
		drain()
		// still alive after all that?  CONTROL: a fresh, admissible registration must become valid
		alive := verifC11BurstControl(rec, h, regChan, wdesc+" after the bursts")
		// … and after junk only (300, 1 000, 5 000 malformed messages, same pipeline, no restart)
		if alive && workers == 0 {
			r := kit.Rand("c11-burst-junk")
			for _, n := range []int{300, 1000, 5000} {
				for i := 0; i < n; i++ {
					c := kit.C11WrapperInput(r, false)
					for strings.HasPrefix(c.Kind, "pb:valid") {
						c = kit.C11WrapperInput(r, false)
					}
					regChan <- c.In
					if i%200 == 199 {
						for len(regChan) > 0 {
							time.Sleep(200 * time.Microsecond)
						}
						time.Sleep(5 * time.Millisecond)
					}
				}
				fed.Add(int64(n))
				rec.Count("evaluations", n)
				rec.Count("junk_only_messages", n)
				drain()
				if alive = verifC11BurstControl(rec, h, regChan, fmt.Sprintf("%s after %d junk-only messages", wdesc, n)); !alive {
					break
				}
			}
		}
		// … and after state-dependent volume: far more DISTINCT admissible registrations than any plausible
		// cap piled onto ONE phantom (pinned through the registrar-response override), one (phantom, port),
		// one registrant, one covert.  Then a lookup on the loaded phantom must return and the control on
		// another phantom must still become valid.
		if alive && workers == 0 {
			pauseSweep.Store(true)
			alive = verifC11BurstPile(rec, h, regChan, drain, &fed)
			pauseSweep.Store(false)
		}
		if !alive {
			// the pipeline is stalled (reported above): its goroutines, the stats printer and the sweeper may be
			// parked behind the same lock for ever – do not wait for any of them
			cancel()
			rec.Note("run stopped after the ingest pipeline stalled in phase " + wdesc)
			rec.Count("evaluations", producers*rounds*burst)
			return
		}
		sampleKeys()
		cancel()
		select {
		case <-returned:
		case <-time.After(60 * time.Second):
			rec.Violation("hang:burst:HandleRegUpdates-did-not-return", "HandleRegUpdates did not return within 60 s after its context was cancelled ("+wdesc+")",
				map[string]interface{}{"phase": wdesc, "goroutines_in_ingest": len(kit.InFunc(kit.Stacks(), "lib.(*RegistrationManager).startIngestThread"))})
		}
		close(stop)
		sideDone := make(chan struct{})
		go func() { side.Wait(); close(sideDone) }()
		select {
		case <-sideDone:
		case <-time.After(60 * time.Second):
			blocked, _, state, stack := kit.C11LoopBlocked("TestVerifC11Burst.func", "")
			rec.Violation("hang:station-housekeeping:parked", "the statistics printer / expiry sweep / lookups running next to the pipeline did not come back within 60 s ("+wdesc+")",
				map[string]interface{}{"phase": wdesc, "stably_parked": blocked, "state": state, "stack": stack})
			return
		}
		rec.Count("evaluations", producers*rounds*burst)
		rec.Distinct("nontrivial", wdesc, "valid-distinct-libver")
		rec.Distinct("nontrivial", wdesc, "malformed-mixed-in")
		rec.Count("phases", 1)
	}
	if left := kit.WaitNoGoroutineIn(90*time.Second, "lib.tryShareRegistrationOverAPI", "lib.handleConnectingTpReg", "dtls.(*Transport).Connect"); left != nil {
		rec.Inconclusive("goroutines started by ingest still running 90 s after the last burst", map[string]interface{}{"count": len(left), "first": left[0].Raw})
	}
	if n := runtime.NumGoroutine(); n > 10000 {
		stable, parked, sample := kit.C11Lingering("conjure/pkg/station/lib.")
		d := map[string]interface{}{"goroutines": n, "station_goroutines_lingering": stable, "of_them_parked": parked, "sample_stack": sample}
		if stable > 10000 && parked > 10000 {
			rec.Violation("resource:goroutines-leaked:station-ingest", fmt.Sprintf("%d goroutines of the station linger, parked, after all pipelines were stopped (three scans)", parked), d)
		} else {
			rec.Inconclusive("many goroutines after the bursts, but not stably parked station goroutines", d)
		}
	}
	rec.Count("messages_fed", int(fed.Load()))
	rec.Count("detector_publications", int(h.pubs.Load())+h.redis.Len())
	rec.Count("stat_keys_created(sampled_before_each_reset)", int(keysCreated.Load()))
	rec.Count("stats_print_and_reset_runs", int(resets.Load()))
	rec.Count("handler_lookups", int(lookups.Load()))
	rec.Count("distinct_client_lib_versions_sent", int(verifC11BurstLV.Load()))
	rec.Sample(map[string]interface{}{"entry": "burst", "messages_fed": fed.Load(), "stat_keys_created": keysCreated.Load(), "detector_publications": int(h.pubs.Load()) + h.redis.Len()})
	if keysCreated.Load() < 100 || int(h.pubs.Load())+h.redis.Len() < 100 {
		t.Errorf("inconclusive: only %d statistics keys created and %d detector announcements: the concurrent-accounting path was not exercised", keysCreated.Load(), int(h.pubs.Load())+h.redis.Len())
	}
}
