//go:build verif

package lib

// C11 – stage "burst": registration messages arriving in bursts through the REAL ingest pipeline.
// (Added after the round-3 seeded change C11-F was missed: the other station stage calls
// parseRegMessage / ingestRegistration from eight driver goroutines, never through HandleRegUpdates
// and its worker pool, and never with new statistics keys being created by many workers at once.)
//
// For each worker count (the default 300 first, then 1, 16, 1000) the station's own
// HandleRegUpdates runs on a channel as cmd/application wires it (capacity 10 000).  Several producer
// goroutines write bursts of messages into it:
//   * valid, admissible registrations with pairwise-distinct client_lib_version values (a free
//     client-chosen uint32), rotating generation (1, 2, 957), transport (min, obfs4, prefix, a few
//     DTLS) and source (API, DNS, bidirectional, detector, prescan), unique secrets, v4 / v6 support
//   * the generator's malformed / near-valid messages mixed in (one in five)
// while, as in a running station, the periodic statistics print-and-reset runs next to it (every
// 25 ms instead of 5 s, so that every epoch starts with empty maps and new keys keep being created),
// the expiry sweep runs every 300 ms, and connection-handler style lookups (CountRegistrations,
// GetRegistrations, MarkActive) hit the same manager from four goroutines.
//
// Oracle: process survival.  A `fatal error:` (e.g. concurrent map writes – unrecoverable) or a panic
// in any goroutine ends the child; the orchestrator reports crash:burst:<innermost repository frame>.
// The pipeline must also wind down: HandleRegUpdates has to return within 60 s after cancel.
// Evidence: messages fed / dropped by design / registrations announced to the detector, and the
// number of statistics keys that were created (sampled before every reset), so that one can see that
// new keys really were being inserted by concurrent workers.

import (
	"context"
	"fmt"
	"math/rand"
	"net"
	"sync"
	"sync/atomic"
	"testing"
	"time"

	kit "github.com/refraction-networking/conjure/internal/verifkit"
	pb "github.com/refraction-networking/conjure/proto"
	"google.golang.org/protobuf/proto"
	"google.golang.org/protobuf/types/known/anypb"
)

var verifC11BurstLV atomic.Uint32

// verifC11BurstValid builds an admissible registration whose client_lib_version nobody used before.
func verifC11BurstValid(r *rand.Rand) []byte {
	lv := 3 + verifC11BurstLV.Add(1)
	if r.Intn(16) == 0 {
		lv = []uint32{1 << 20, 1 << 31, 1<<32 - 1}[r.Intn(3)] - verifC11BurstLV.Load()
	}
	tt := []pb.TransportType{pb.TransportType_Min, pb.TransportType_Obfs4, pb.TransportType_Prefix}[r.Intn(3)]
	if r.Intn(100) == 0 {
		tt = pb.TransportType_DTLS
	}
	c := &pb.ClientToStation{Transport: tt.Enum(), ClientLibVersion: proto.Uint32(lv), DecoyListGeneration: proto.Uint32([]uint32{1, 2, 957}[r.Intn(3)]),
		V4Support: proto.Bool(true), V6Support: proto.Bool(r.Intn(2) == 0), CovertAddress: proto.String("192.0.2.99:443")}
	switch tt {
	case pb.TransportType_Prefix:
		c.TransportParams, _ = anypb.New(&pb.PrefixTransportParams{PrefixId: proto.Int32(int32(r.Intn(10))), RandomizeDstPort: proto.Bool(r.Intn(2) == 0)})
	case pb.TransportType_DTLS:
		c.TransportParams, _ = anypb.New(&pb.DTLSTransportParams{SrcAddr4: &pb.Addr{IP: []byte{198, 51, 100, byte(1 + r.Intn(250))}, Port: proto.Uint32(uint32(1024 + r.Intn(60000)))},
			SrcAddr6: &pb.Addr{IP: net.ParseIP("2001:db8::9"), Port: proto.Uint32(5000)}})
	default:
		if r.Intn(2) == 0 {
			c.TransportParams, _ = anypb.New(&pb.GenericTransportParams{RandomizeDstPort: proto.Bool(r.Intn(2) == 0)})
		}
	}
	if r.Intn(3) == 0 {
		c.Flags = &pb.RegistrationFlags{Prescanned: proto.Bool(r.Intn(2) == 0)}
	}
	src := []pb.RegistrationSource{pb.RegistrationSource_API, pb.RegistrationSource_API, pb.RegistrationSource_DNS, pb.RegistrationSource_BidirectionalAPI,
		pb.RegistrationSource_BidirectionalDNS, pb.RegistrationSource_DetectorPrescan, pb.RegistrationSource_Detector}[r.Intn(7)]
	w := &pb.C2SWrapper{SharedSecret: make([]byte, 32), RegistrationPayload: c, RegistrationSource: &src,
		RegistrationAddress: []byte{byte(1 + r.Intn(222)), byte(r.Intn(256)), byte(r.Intn(256)), byte(1 + r.Intn(254))}}
	r.Read(w.SharedSecret)
	b, _ := proto.Marshal(w)
	return b
}

func TestVerifC11Burst(t *testing.T) {
	rec := kit.NewRec("C11", "station-burst")
	defer rec.Close()
	h := verifC11LibSetup(t)
	rm := h.rm
	rounds := kit.Tier(30, 400) // bursts per producer and worker count
	const producers, burst = 4, 96 // 4 x 96 at once: about what 300 workers + their buffer of 30 can take
	var fed, keysCreated, resets, lookups atomic.Int64

	sampleKeys := func() {
		s := rm.RegistrationStats
		s.genMutex.RLock()
		n := len(s.generations)
		s.genMutex.RUnlock()
		s.ttMutex.RLock()
		n += len(s.ttStats)
		s.ttMutex.RUnlock()
		s.lvMutex.RLock()
		n += len(s.lvStats)
		s.lvMutex.RUnlock()
		keysCreated.Add(int64(n))
	}

	for _, workers := range []int{0, 1, 16, 1000} {
		wdesc := fmt.Sprintf("workers=%d", workers)
		if workers == 0 {
			wdesc = fmt.Sprintf("workers=default(%d)", defaultWorkerCount)
		}
		rec.Case(map[string]interface{}{"stage": "burst", "phase": wdesc, "producers": producers, "burst": burst, "rounds": rounds, "seed": kit.Seed()})
		rm.IngestWorkerCount = workers
		ctx, cancel := context.WithCancel(context.Background())
		regChan := make(chan interface{}, 10000) // cmd/application/main.go
		var pipeline sync.WaitGroup
		pipeline.Add(1)
		returned := make(chan struct{})
		go func() { rm.HandleRegUpdates(ctx, regChan, &pipeline); close(returned) }()

		// the station's housekeeping next to the pipeline
		stop := make(chan struct{})
		var side sync.WaitGroup
		side.Add(1)
		go func() { // stats ticker
			defer side.Done()
			for {
				select {
				case <-stop:
					return
				case <-time.After(25 * time.Millisecond):
					sampleKeys()
					rm.PrintAndReset(rm.Logger)
					resets.Add(1)
				}
			}
		}()
		side.Add(1)
		go func() { // expiry sweep
			defer side.Done()
			for {
				select {
				case <-stop:
					return
				case <-time.After(300 * time.Millisecond):
					rm.VerifBackdate(7 * time.Hour)
					rm.RemoveOldRegistrations()
					h.pubs.Add(int64(h.redis.Len()))
					h.redis.Reset()
				}
			}
		}()
		for k := 0; k < 4; k++ { // connection-handler lookups
			side.Add(1)
			go func(k int) {
				defer side.Done()
				r := kit.Rand(fmt.Sprintf("c11-burst-lookup/%d/%d", workers, k))
				for {
					select {
					case <-stop:
						return
					default:
					}
					ip := net.IPv4(192, 122, 190, byte(r.Intn(256))).To4()
					_ = rm.CountRegistrations(ip)
					for _, reg := range rm.GetRegistrations(ip) {
						_, _ = reg.TransportType(), reg.TransportParams()
						if d, ok := reg.(*DecoyRegistration); ok && r.Intn(8) == 0 {
							rm.MarkActive(d)
						}
					}
					lookups.Add(1)
					if r.Intn(64) == 0 {
						time.Sleep(200 * time.Microsecond)
					}
				}
			}(k)
		}

		var prod sync.WaitGroup
		for p := 0; p < producers; p++ {
			prod.Add(1)
			go func(p int) {
				defer prod.Done()
				r := kit.Rand(fmt.Sprintf("c11-burst/%d/%d", workers, p))
				for round := 0; round < rounds; round++ {
					msgs := make([]interface{}, 0, burst)
					for i := 0; i < burst; i++ {
						if r.Intn(5) == 0 {
							msgs = append(msgs, kit.C11WrapperInput(r, false).In)
						} else {
							msgs = append(msgs, verifC11BurstValid(r))
						}
					}
					for _, m := range msgs { // the burst itself: as fast as the channel takes it
						regChan <- m
					}
					fed.Add(int64(len(msgs)))
					// let the pool catch up (the station drops what it cannot take at once, by design)
					deadline := time.Now().Add(30 * time.Second)
					for len(regChan) > 0 && time.Now().Before(deadline) {
						time.Sleep(200 * time.Microsecond)
					}
					time.Sleep(time.Duration(5+r.Intn(10)) * time.Millisecond) // the workers finish the burst; the next one finds them idle
				}
			}(p)
		}
		prod.Wait()
		// drain, then stop the pipeline the way the station does
		deadline := time.Now().Add(60 * time.Second)
		for len(regChan) > 0 && time.Now().Before(deadline) {
			time.Sleep(time.Millisecond)
		}
		time.Sleep(200 * time.Millisecond)
		sampleKeys()
		cancel()
		select {
		case <-returned:
		case <-time.After(60 * time.Second):
			rec.Violation("hang:burst:HandleRegUpdates-did-not-return", "HandleRegUpdates did not return within 60 s after its context was cancelled ("+wdesc+")",
				map[string]interface{}{"phase": wdesc, "goroutines_in_ingest": len(kit.InFunc(kit.Stacks(), "lib.(*RegistrationManager).startIngestThread"))})
		}
		close(stop)
		side.Wait()
		rec.Count("evaluations", producers*rounds*burst)
		rec.Distinct("nontrivial", wdesc, "valid-distinct-libver")
		rec.Distinct("nontrivial", wdesc, "malformed-mixed-in")
		rec.Count("phases", 1)
	}
	if left := kit.WaitNoGoroutineIn(90*time.Second, "lib.tryShareRegistrationOverAPI", "lib.handleConnectingTpReg", "dtls.(*Transport).Connect"); left != nil {
		rec.Inconclusive("goroutines started by ingest still running 90 s after the last burst", map[string]interface{}{"count": len(left), "first": left[0].Raw})
	}
	rec.Count("messages_fed", int(fed.Load()))
	rec.Count("detector_publications", int(h.pubs.Load())+h.redis.Len())
	rec.Count("stat_keys_created(sampled_before_each_reset)", int(keysCreated.Load()))
	rec.Count("stats_print_and_reset_runs", int(resets.Load()))
	rec.Count("handler_lookups", int(lookups.Load()))
	rec.Count("distinct_client_lib_versions_sent", int(verifC11BurstLV.Load()))
	rec.Sample(map[string]interface{}{"entry": "burst", "messages_fed": fed.Load(), "stat_keys_created": keysCreated.Load(), "detector_publications": int(h.pubs.Load()) + h.redis.Len()})
	if keysCreated.Load() < 100 || int(h.pubs.Load())+h.redis.Len() < 100 {
		t.Errorf("inconclusive: only %d statistics keys created and %d detector announcements: the concurrent-accounting path was not exercised", keysCreated.Load(), int(h.pubs.Load())+h.redis.Len())
	}
}
