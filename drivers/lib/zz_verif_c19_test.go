//go:build verif

package lib

// C19 – accepted configurations run housekeeping safely; a bad reload changes nothing.
//
// Monitor: configurations are generated as TOML text (kit.C19Gen: every optional key unset / set /
// zero / malformed, the shipped app_config.toml verbatim and perturbed, sparse and broken files),
// written to a file and loaded by the REAL ParseConfig through CJ_STATION_CONFIG.  Every accepted
// configuration gets the station's start-up sequence (as cmd/application/main.go performs it), the
// full housekeeping round (every stats module PrintAndReset twice, a registration sweep) and a
// sequence of SIGHUP-style reloads (ParseConfig; OnReload only on success – exactly main.go) that mix
// valid, malformed and unreadable configuration and phantom-subnet files.
//
// Oracles (online):
//  1. no panic in any step (recover per step; signature = step + innermost repository frame + kind);
//     a start-up panic is charged only if the same file also panics when applied as a reload to a
//     running station.
//  2. enforcement: every blocklist / allowlist / phantom-blocklist / domain entry written in an accepted
//     file is refused (resp. admitted) by the real policy functions at a witness address derived by an
//     independent lenient parse of the entry string; an entry nobody can parse must not be accepted.
//  3. failed reload changes nothing: policy decisions on a fixed probe set and phantom selections on
//     fixed seeds are identical after a failed part; after a fully successful reload they equal the
//     decisions of the freshly loaded version; never a mixture of old and new.

import (
	"bytes"
	"context"
	"crypto/sha256"
	"encoding/binary"
	"errors"
	"fmt"
	"io"
	golog "log"
	"net"
	"net/netip"
	"os"
	"path/filepath"
	"regexp"
	"strings"
	"sync"
	"testing"
	"time"

	"github.com/BurntSushi/toml"
	"github.com/refraction-networking/conjure/internal/conjurepath"
	kit "github.com/refraction-networking/conjure/internal/verifkit"
	"github.com/refraction-networking/conjure/pkg/core"
	"github.com/refraction-networking/conjure/pkg/phantoms"
	"github.com/refraction-networking/conjure/pkg/station/geoip"
	"github.com/refraction-networking/conjure/pkg/station/liveness"
	"github.com/refraction-networking/conjure/pkg/station/log"
	pb "github.com/refraction-networking/conjure/proto"
	"google.golang.org/protobuf/proto"
)

// ---- scripted resolver: every name resolves to 198.51.100.7 (A), no AAAA ---------------------------------

var verifC19DNSAddr = [4]byte{198, 51, 100, 7}

func verifC19DNSAnswer(q []byte) []byte {
	if len(q) < 12 {
		return nil
	}
	i := 12
	for i < len(q) && q[i] != 0 {
		i += int(q[i]) + 1
	}
	i += 5
	if i > len(q) {
		return nil
	}
	qtype := binary.BigEndian.Uint16(q[i-4:])
	resp := append([]byte(nil), q[:i]...)
	resp[2] = 0x80 | (q[2] & 0x01)
	resp[3] = 0x80
	binary.BigEndian.PutUint16(resp[4:], 1)
	binary.BigEndian.PutUint16(resp[6:], 0)
	binary.BigEndian.PutUint16(resp[8:], 0)
	binary.BigEndian.PutUint16(resp[10:], 0)
	if qtype == 1 {
		binary.BigEndian.PutUint16(resp[6:], 1)
		resp = append(resp, 0xc0, 0x0c, 0, 1, 0, 1, 0, 0, 0, 60, 0, 4)
		resp = append(resp, verifC19DNSAddr[:]...)
	}
	return resp
}

// verifC19DNSConn answers synchronously inside Write: no goroutine, no timing.
type verifC19DNSConn struct {
	mu  sync.Mutex
	in  []byte
	out bytes.Buffer
}

func (c *verifC19DNSConn) Write(p []byte) (int, error) {
	c.mu.Lock()
	defer c.mu.Unlock()
	c.in = append(c.in, p...)
	for len(c.in) >= 2 {
		n := int(binary.BigEndian.Uint16(c.in))
		if len(c.in) < 2+n {
			break
		}
		a := verifC19DNSAnswer(c.in[2 : 2+n])
		c.in = c.in[2+n:]
		if a != nil {
			var l [2]byte
			binary.BigEndian.PutUint16(l[:], uint16(len(a)))
			c.out.Write(l[:])
			c.out.Write(a)
		}
	}
	return len(p), nil
}

func (c *verifC19DNSConn) Read(p []byte) (int, error) {
	c.mu.Lock()
	defer c.mu.Unlock()
	if c.out.Len() == 0 {
		return 0, io.EOF
	}
	return c.out.Read(p)
}
func (c *verifC19DNSConn) Close() error { return nil }
func (c *verifC19DNSConn) LocalAddr() net.Addr {
	return &net.TCPAddr{IP: net.IPv4(127, 0, 0, 1), Port: 40000}
}
func (c *verifC19DNSConn) RemoteAddr() net.Addr {
	return &net.TCPAddr{IP: net.IPv4(127, 0, 0, 1), Port: 53}
}
func (c *verifC19DNSConn) SetDeadline(time.Time) error      { return nil }
func (c *verifC19DNSConn) SetReadDeadline(time.Time) error  { return nil }
func (c *verifC19DNSConn) SetWriteDeadline(time.Time) error { return nil }

func verifC19InstallResolver() {
	net.DefaultResolver = &net.Resolver{PreferGo: true, Dial: func(ctx context.Context, network, address string) (net.Conn, error) {
		return &verifC19DNSConn{}, nil
	}}
}

// ---- probe sets -----------------------------------------------------------------------------------------

var verifC19CovertProbes = []string{
	"127.0.0.1:443", "10.1.2.3:80", "172.20.1.1:22", "192.168.1.1:8080", "100.64.3.3:443", "169.254.169.254:80",
	"203.0.113.9:443", "198.51.100.7:443", "8.8.8.8:53", "192.0.2.1:443", "192.0.77.1:443",
	"[::1]:443", "[fc00::1]:443", "[fd12::5]:443", "[fe80::1]:443", "[2001:db8::1]:80", "[2001:db8:abcd::7]:80", "[2001:4860:4860::8888]:443",
	"localhost:443", "abc.blocked.com:443", "fine.example.net:443", "printer.lan:80",
	"10.0.0.1", ":443", "host.example:notaport",
}

var verifC19PhantomProbes = []string{
	"192.122.190.5", "192.122.190.200", "141.219.3.4", "35.8.1.1", "35.8.200.1", "10.0.5.5", "192.168.10.9",
	"2001:48a8:687f:1::5", "2001:48a8:687f:1:8000::1", "2001:1::9", "8.8.8.8",
}

var verifC19Gens = []uint{1, 2, 957, 1000}

func verifC19Seeds() [][]byte {
	var out [][]byte
	for i := 0; i < 3; i++ {
		h := sha256.Sum256([]byte(fmt.Sprintf("c19-select-seed-%d", i)))
		out = append(out, h[:])
	}
	return out
}

// verifC19Policy evaluates the real policy functions of rc on the probe set.
func verifC19Policy(rc *RegConfig) (snap []string, panics []*kit.C19Panic) {
	for _, p := range verifC19CovertProbes {
		var out string
		if pn := kit.C19Try(func() { out, _ = rc.ParseOrResolveBlocklisted(p) }); pn != nil {
			out = "PANIC " + pn.Frame
			panics = append(panics, pn)
		}
		snap = append(snap, p+" -> "+out)
	}
	for _, p := range verifC19PhantomProbes {
		var out string
		if pn := kit.C19Try(func() { out = fmt.Sprint(rc.IsBlocklistedPhantom(net.ParseIP(p))) }); pn != nil {
			out = "PANIC " + pn.Frame
			panics = append(panics, pn)
		}
		snap = append(snap, "phantom "+p+" -> "+out)
	}
	return
}

// verifC19Select evaluates the real phantom selection of sel on fixed seeds.
func verifC19Select(sel *phantoms.PhantomIPSelector) (snap []string, panics []*kit.C19Panic) {
	libver := uint(core.CurrentClientLibraryVersion())
	for si, seed := range verifC19Seeds() {
		for _, gen := range verifC19Gens {
			for _, v6 := range []bool{false, true} {
				var out string
				pn := kit.C19Try(func() {
					ip, err := sel.Select(seed, gen, libver, v6)
					if err != nil {
						out = "err"
						return
					}
					out = fmt.Sprintf("%s rp=%v", ip.IP().String(), ip.SupportRandomPort())
				})
				if pn != nil {
					out = "PANIC " + pn.Frame
					panics = append(panics, pn)
				}
				snap = append(snap, fmt.Sprintf("select seed%d gen%d v6=%v -> %s", si, gen, v6, out))
			}
		}
	}
	return
}

func verifC19Same(a, b []string) bool {
	if len(a) != len(b) {
		return false
	}
	for i := range a {
		if a[i] != b[i] {
			return false
		}
	}
	return true
}

func verifC19Diff(a, b []string) []string {
	var d []string
	for i := range a {
		if i < len(b) && a[i] != b[i] {
			d = append(d, fmt.Sprintf("before{%s} after{%s}", a[i], b[i]))
			if len(d) >= 6 {
				break
			}
		}
	}
	return d
}

// ---- independent reading of the configuration text ---------------------------------------------------------

type verifC19Lists struct {
	Block   []string `toml:"covert_blocklist_subnets"`
	Allow   []string `toml:"covert_allowlist_subnets"`
	Dom     []string `toml:"covert_blocklist_domains"`
	Phantom []string `toml:"phantom_blocklist"`
	Public  bool     `toml:"covert_blocklist_public_addrs"`
}

// verifC19Cause classifies a configuration text by features of the text alone (used in the
// signatures of load-time panics so that different input classes keep different signatures).
func verifC19Cause(text string) string {
	var generic map[string]interface{}
	md, err := toml.Decode(text, &generic)
	if err != nil {
		return "unparsable-toml"
	}
	var l verifC19Lists
	if _, err := toml.Decode(text, &l); err == nil {
		for _, d := range l.Dom {
			if _, err := regexp.Compile(d); err != nil {
				return "bad-regex"
			}
		}
	}
	anyReg := false
	for _, k := range kit.C19RegKeys {
		if md.IsDefined(k) {
			anyReg = true
		}
	}
	if !anyReg {
		return "no-reg-keys"
	}
	return "other"
}

// verifC19Lenient reads a subnet entry the way a forgiving operator would: surrounding blanks are
// ignored, a bare address names itself.
func verifC19Lenient(entry string) (netip.Prefix, string, bool) {
	s := strings.TrimSpace(entry)
	class := "strict"
	if s != entry {
		class = "whitespace"
	}
	if p, err := netip.ParsePrefix(s); err == nil {
		return p.Masked(), class, true
	}
	if a, err := netip.ParseAddr(s); err == nil && a.Zone() == "" {
		return netip.PrefixFrom(a, a.BitLen()), "bare-ip", true
	}
	return netip.Prefix{}, "garbage", false
}

// verifC19Witnesses returns addresses inside p: the first one, the LAST one and two seeded interior
// ones (for /32 and /128 they coincide).  A policy that only honours part of an entry's range – e.g.
// because the entry was merged away in favour of a narrower one with the same base – is refuted by
// the last / interior witnesses.
func verifC19Witnesses(p netip.Prefix, entry string) []netip.Addr {
	first := p.Addr()
	bits := p.Bits()
	fill := func(pick func(i, j int) bool) netip.Addr {
		b := first.AsSlice()
		for i := range b {
			for j := 0; j < 8; j++ {
				if i*8+j >= bits && pick(i, j) {
					b[i] |= 0x80 >> uint(j)
				}
			}
		}
		a, _ := netip.AddrFromSlice(b)
		return a
	}
	out := []netip.Addr{first, fill(func(int, int) bool { return true })}
	for _, salt := range []string{"c19-witness/", "c19-witness-2/"} {
		h := sha256.Sum256([]byte(salt + entry))
		out = append(out, fill(func(i, j int) bool { return h[i]&(0x80>>uint(j)) != 0 }))
	}
	// an address in the upper half of the range (the half a narrower same-base entry can never cover)
	out = append(out, fill(func(i, j int) bool { return i*8+j == bits }))
	var uniq []netip.Addr
	for _, a := range out {
		dup := !p.Contains(a)
		for _, u := range uniq {
			if u == a {
				dup = true
			}
		}
		if !dup {
			uniq = append(uniq, a)
		}
	}
	return uniq
}

// verifC19Loopback returns the IPv4 loopback subnets that net.Interfaces() reports on this machine
// right now (normally 127.0.0.0/8 on lo).  covert_blocklist_public_addrs promises to blocklist the
// subnets of the local devices; this one is asserted because it exists wherever the check runs –
// and only if the machine really reports it.
func verifC19Loopback() []netip.Prefix {
	var out []netip.Prefix
	ifaces, err := net.Interfaces()
	if err != nil {
		return nil
	}
	for _, ifc := range ifaces {
		if ifc.Flags&net.FlagLoopback == 0 || ifc.Flags&net.FlagUp == 0 {
			continue
		}
		addrs, err := ifc.Addrs()
		if err != nil {
			continue
		}
		for _, a := range addrs {
			ipn, ok := a.(*net.IPNet)
			if !ok {
				continue
			}
			v4 := ipn.IP.To4()
			ones, sz := ipn.Mask.Size()
			if v4 == nil || v4[0] != 127 || sz != 32 {
				continue
			}
			addr, _ := netip.AddrFromSlice(v4)
			out = append(out, netip.PrefixFrom(addr, ones).Masked())
		}
	}
	return out
}

func verifC19In(ps []netip.Prefix, a netip.Addr) bool {
	for _, p := range ps {
		if p.Contains(a) {
			return true
		}
	}
	return false
}

func verifC19NetsContain(nets []*net.IPNet, a netip.Addr) bool {
	ip := net.IP(a.AsSlice())
	for _, n := range nets {
		if n != nil && n.Contains(ip) {
			return true
		}
	}
	return false
}

// ---- environment -----------------------------------------------------------------------------------------

type verifC19Env struct {
	t         *testing.T
	rec       *kit.Rec
	dir       string
	shipped   string
	shipLists verifC19Lists
	garbageDB string
	subFiles  []kit.C19SubnetFile
	subPaths  []string
	cfgPath   string
	missing   string
	isDir     string
	curSub    string
	base      *verifC19Station
	baseText  string
	logbuf    bytes.Buffer
	regbuf    verifC19Sink
	steps     int
	// IPv4 loopback subnets reported by net.Interfaces() on this machine (may be empty)
	loopback []netip.Prefix
	// what the repository's own loader makes of each subnets file (the files of the pool never change)
	subCache map[string]verifC19Fresh
	// the file CJ_STATION_CONFIG points at right now
	liveText     string
	liveClass    string // generator class
	liveMustFail string // "" | syntax | policy-type | missing | dir
	last         verifC19Last
}

// verifC19Last is what the last reload step found out about its parts.
type verifC19Last struct {
	confLoaded bool  // ParseConfig returned no error (and the file is not unloadable by construction)
	subErr     error // result of the repository's own subnets loader on the file
	geoFailed  bool  // geoip.New on the new configuration returns a real error (not the tolerated ErrMissingDB)
}

type verifC19Fresh struct {
	err error
	sel []string // selections of a selector freshly loaded from the file
}

type verifC19Station struct {
	text    string // text of the configuration whose policies should be in force
	conf    *Config
	rm      *RegistrationManager
	zi      *ZMQIngester
	regChan chan interface{}
	cancel  context.CancelFunc
	wg      *sync.WaitGroup
	ingest  bool
	mode    string // liveness mode: uncached | live-only | nonlive-only | both
	dead    bool   // a panic that would have killed the process happened
	// decisions observed after the last start-up / reload (the "before" of the next reload)
	pol, sel []string
}

// verifC19Sink counts and discards (goroutine-safe: ingest workers log concurrently).
type verifC19Sink struct {
	mu sync.Mutex
	n  int64
}

func (s *verifC19Sink) Write(p []byte) (int, error) {
	s.mu.Lock()
	s.n += int64(len(p))
	s.mu.Unlock()
	return len(p), nil
}

type verifC19ConnStats struct{}

func (verifC19ConnStats) AddCreatedConnecting(asn uint, cc string, tp string)               {}
func (verifC19ConnStats) AddCreatedToSuccessfulConnecting(asn uint, cc string, tp string)   {}
func (verifC19ConnStats) AddCreatedToTimeoutConnecting(asn uint, cc string, tp string)      {}
func (verifC19ConnStats) AddSuccessfulToDiscardedConnecting(asn uint, cc string, tp string) {}
func (verifC19ConnStats) AddOtherFailConnecting(asn uint, cc string, tp string)             {}

func (e *verifC19Env) writeCfg(c kit.C19Config) {
	if err := os.WriteFile(e.cfgPath, []byte(c.Text), 0o644); err != nil {
		e.t.Fatal(err)
	}
	os.Setenv("CJ_STATION_CONFIG", e.cfgPath)
	e.liveText, e.liveClass, e.liveMustFail = c.Text, c.Class, c.MustFail
}

func (e *verifC19Env) setSub(path string) {
	e.curSub = path
	os.Setenv("PHANTOM_SUBNET_LOCATION", path)
}

func verifC19Mode(lc *liveness.Config) string {
	switch {
	case lc == nil || (lc.CacheDuration == "" && lc.CacheDurationNonLive == ""):
		return "uncached"
	case lc.CacheDurationNonLive == "":
		return "live-only"
	case lc.CacheDuration == "":
		return "nonlive-only"
	}
	return "both"
}

// startup performs the station's start-up sequence on the file at CJ_STATION_CONFIG (main.go:44-141).
// outcome: accepted | rejected:<step> | panic:<step>
func (e *verifC19Env) startup(text string, runIngest bool) (st *verifC19Station, outcome string, pn *kit.C19Panic) {
	var conf *Config
	var err error
	if pn = kit.C19Try(func() { conf, err = ParseConfig() }); pn != nil {
		return nil, "panic:startup-parse", pn
	}
	if err != nil {
		return nil, "rejected:parse", nil
	}
	lvl := log.ErrorLevel
	if conf.LogLevel != "" {
		lvl, err = log.ParseLevel(conf.LogLevel)
		if err != nil || lvl == log.UnknownLevel {
			return nil, "rejected:log-level", nil
		}
	}
	log.SetLevel(lvl)
	if conf.RegConfig == nil {
		// main.go dereferences conf.RegConfig right after parsing
		return nil, "panic:startup-no-regconfig", &kit.C19Panic{Val: "conf.RegConfig == nil", Frame: "cmd/application.main", Kind: "nilptr"}
	}
	conf.RegConfig.ConnectingStats = verifC19ConnStats{}

	// NewRegistrationManager exits the process when liveness.New fails: pre-validate.
	if pn = kit.C19Try(func() { _, err = liveness.New(conf.LivenessConfig()) }); pn != nil {
		return nil, "panic:startup-liveness", pn
	}
	if err != nil {
		return nil, "rejected:liveness", nil
	}
	var rm *RegistrationManager
	if pn = kit.C19Try(func() { rm = NewRegistrationManager(conf.RegConfig) }); pn != nil {
		return nil, "panic:startup-manager", pn
	}
	if rm == nil {
		return nil, "rejected:manager", nil
	}
	rm.Logger.SetOutput(&e.regbuf)                                        // same logger, same level; only the sink differs (volume)
	rm.registeredDecoys.registerForDetector = func(*DecoyRegistration) {} // no Redis in this monitor
	rm.registeredDecoys.updateInDetector = func(*DecoyRegistration) {}
	_ = rm.AddTransport(pb.TransportType_Null, &mockTransport{})

	st = &verifC19Station{text: text, conf: conf, rm: rm, mode: verifC19Mode(conf.LivenessConfig())}
	st.regChan = make(chan interface{}, 10000)
	var key [32]byte
	copy(key[:], "verif-c19-zmq-private-key-32-byt")
	if pn = kit.C19Try(func() { st.zi, err = NewZMQIngest("ipc://@verif-c19", st.regChan, key, conf.ZMQConfig) }); pn != nil {
		return nil, "panic:startup-zmq", pn
	}
	if err != nil {
		return nil, "rejected:zmq", nil
	}

	if runIngest {
		ctx, cancel := context.WithCancel(context.Background())
		st.cancel = cancel
		st.wg = new(sync.WaitGroup)
		st.wg.Add(1)
		done := make(chan *kit.C19Panic, 1)
		go func() {
			p := kit.C19Try(func() { rm.HandleRegUpdates(ctx, st.regChan, st.wg) })
			done <- p
		}()
		deadline := time.Now().Add(30 * time.Second)
		for {
			select {
			case p := <-done:
				cancel()
				if p != nil {
					return nil, "panic:startup-ingest", p
				}
				return nil, "rejected:ingest-returned", nil
			default:
			}
			rm.ingestChanMu.RLock()
			started := rm.ingestChan != nil
			rm.ingestChanMu.RUnlock()
			if started || time.Now().After(deadline) {
				break
			}
			time.Sleep(20 * time.Microsecond)
		}
		st.ingest = true
	}
	return st, "accepted", nil
}

func (e *verifC19Env) shutdown(st *verifC19Station) {
	if st == nil || !st.ingest {
		return
	}
	st.cancel()
	close(st.regChan)
	ch := make(chan struct{})
	go func() { st.wg.Wait(); close(ch) }()
	select {
	case <-ch:
	case <-time.After(60 * time.Second):
		e.rec.Inconclusive("ingest pipeline did not stop within 60 s after cancel+close (not a C19 matter)", nil)
	}
}

// populate feeds the station some registrations and counter traffic through the real ingest path so that
// the housekeeping round does not only ever see empty state.
func (e *verifC19Env) populate(st *verifC19Station, rng interface{ Intn(int) int }) {
	n := rng.Intn(6)
	libver := core.CurrentClientLibraryVersion()
	for i := 0; i < n; i++ {
		secret := sha256.Sum256([]byte(fmt.Sprintf("c19-secret-%d-%d", e.steps, i)))
		gen := uint32(verifC19Gens[rng.Intn(len(verifC19Gens))])
		v6 := rng.Intn(2) == 0
		covert := verifC19CovertProbes[rng.Intn(len(verifC19CovertProbes))]
		srcs := []pb.RegistrationSource{pb.RegistrationSource_API, pb.RegistrationSource_DetectorPrescan, pb.RegistrationSource_BidirectionalAPI, pb.RegistrationSource_DNS}
		src := srcs[rng.Intn(len(srcs))]
		pn := kit.C19Try(func() {
			keys, err := core.GenSharedKeys(uint(libver), secret[:], pb.TransportType_Null)
			if err != nil {
				return
			}
			c2s := &pb.ClientToStation{
				ClientLibVersion:    proto.Uint32(libver),
				DecoyListGeneration: proto.Uint32(gen),
				CovertAddress:       proto.String(covert),
				Transport:           pb.TransportType_Null.Enum(),
				V4Support:           proto.Bool(!v6),
				V6Support:           proto.Bool(v6),
				Flags:               &pb.RegistrationFlags{Prescanned: proto.Bool(true)},
			}
			reg, err := st.rm.NewRegistration(c2s, &keys, v6, &src)
			if err != nil {
				return
			}
			reg.registrationAddr = net.IPv4(203, 0, 113, byte(10+i)).To4()
			st.rm.ingestRegistration(reg)
			if rng.Intn(3) == 0 {
				st.rm.ingestRegistration(reg) // duplicate
			}
			if rng.Intn(3) == 0 {
				st.rm.MarkActive(reg)
			}
		})
		if pn != nil {
			e.rec.Count("populate_panics_not_charged", 1)
		}
	}
	for i := rng.Intn(4); i > 0; i-- {
		st.rm.AddErrReg()
		st.rm.AddBlocklistedPhantomReg()
		st.rm.addIngestMessage()
		st.rm.addDroppedMessage()
		st.zi.addZMQMessage()
		st.zi.addDroppedZMQMessage()
		getProxyStats().addSession()
		getProxyStats().addBytes(int64(rng.Intn(5000)), i%2 == 0)
		getProxyStats().addCompleted(int64(rng.Intn(3)), i%2 == 0)
		getProxyStats().removeSession()
	}
}

// housekeeping runs every stats module the station registers (main.go:146-150; connManager lives in
// package main and is driven there) `rounds` times, then a registration sweep.
func (e *verifC19Env) housekeeping(st *verifC19Station, rounds int, cfgText string, backdate bool) {
	e.logbuf.Reset()
	logger := log.New(&e.logbuf, "[STATS] ", golog.Ldate|golog.Lmicroseconds)
	type mod struct {
		name string
		f    func()
	}
	mods := []mod{
		{"zmq", func() { st.zi.PrintAndReset(logger) }},
		{"liveness", func() { st.rm.LivenessTester.PrintAndReset(logger) }},
		{"proxy", func() { GetProxyStats().PrintAndReset(logger) }},
		{"regmanager", func() { st.rm.PrintAndReset(logger) }},
	}
	for r := 0; r < rounds; r++ {
		for _, m := range mods {
			e.rec.Count("stats_prints", 1)
			if pn := kit.C19Try(m.f); pn != nil {
				sig := pn.Sig("stats:" + m.name)
				if m.name == "liveness" {
					sig += ":" + st.mode
				}
				e.rec.Violation(sig, fmt.Sprintf("PrintAndReset of the %s stats module panicked for an accepted configuration: %s", m.name, pn.Val),
					map[string]interface{}{"module": m.name, "liveness_mode": st.mode, "panic": pn, "config": cfgText})
			}
		}
	}
	if backdate {
		// age every tracked registration beyond both timeouts (in-package, as the C08 driver does)
		r := st.rm.registeredDecoys
		r.m.Lock()
		for _, to := range r.decoysTimeouts {
			to.registrationTime = to.registrationTime.Add(-7 * time.Hour)
		}
		r.m.Unlock()
	}
	e.rec.Count("sweeps", 1)
	if pn := kit.C19Try(func() { st.rm.RemoveOldRegistrations() }); pn != nil {
		e.rec.Violation(pn.Sig("sweep"), "RemoveOldRegistrations panicked for an accepted configuration: "+pn.Val,
			map[string]interface{}{"panic": pn, "config": cfgText})
	}
	e.rec.Count("stats_log_bytes", e.logbuf.Len())
}

// enforce checks that every policy entry written in text (an accepted configuration) is in force in rc.
func (e *verifC19Env) enforce(rc *RegConfig, text, class, where string) {
	var l verifC19Lists
	if _, err := toml.Decode(text, &l); err != nil {
		e.rec.Count("enforce_skipped_undecodable", 1)
		return
	}
	origin := func(list string, entry string) string {
		if class != "shipped" && class != "shipped-perturbed" {
			return ""
		}
		var ship []string
		switch list {
		case "covert_blocklist_subnets":
			ship = e.shipLists.Block
		case "covert_allowlist_subnets":
			ship = e.shipLists.Allow
		case "phantom_blocklist":
			ship = e.shipLists.Phantom
		}
		for _, s := range ship {
			if s == entry {
				return "shipped:"
			}
		}
		return ""
	}
	var allowP, blockP []netip.Prefix
	for _, s := range l.Allow {
		if p, _, ok := verifC19Lenient(s); ok {
			allowP = append(allowP, p)
		}
	}
	for _, s := range l.Block {
		if p, _, ok := verifC19Lenient(s); ok {
			blockP = append(blockP, p)
		}
	}
	// domain patterns of the file, compiled here only to SKIP "must admit" witnesses whose host text a
	// configured pattern matches (such a covert is legitimately refused by the pattern list)
	var domRe []*regexp.Regexp
	for _, d := range l.Dom {
		if re, err := regexp.Compile(d); err == nil {
			domRe = append(domRe, re)
		}
	}
	domMatch := func(host string) bool {
		for _, re := range domRe {
			if re.MatchString(host) {
				return true
			}
		}
		return false
	}
	// an entry that is not in force: unparsable-as-written entries keep the old signature family, a
	// well-formed entry that vanished gets its own
	dropSig := func(list, entry, cls string) string {
		if cls == "strict" {
			return "enforce:wellformed-not-in-force:" + origin(list, entry) + list
		}
		return "enforce:dropped:" + origin(list, entry) + list
	}
	viol := func(sig, msg string, detail map[string]interface{}) {
		detail["config"] = text
		detail["config_class"] = class
		detail["checked_after"] = where
		e.rec.Violation(sig, msg, detail)
	}

	// covert blocklist
	for _, s := range l.Block {
		e.rec.Count("entries_checked", 1)
		p, cls, ok := verifC19Lenient(s)
		if !ok {
			viol("enforce:dropped:"+origin("covert_blocklist_subnets", s)+"covert_blocklist_subnets",
				fmt.Sprintf("covert_blocklist_subnets entry %q cannot be parsed, yet the configuration was accepted (the entry is silently dropped)", s),
				map[string]interface{}{"entry": s, "entry_class": cls})
			continue
		}
		for _, w := range verifC19Witnesses(p, s) {
			if verifC19In(allowP, w) {
				e.rec.Count("witness_skipped_allowlist_precedence", 1)
				continue
			}
			covert := net.JoinHostPort(w.String(), "443")
			out, _ := rc.ParseOrResolveBlocklisted(covert)
			e.rec.Count("witness_checks", 1)
			if out != "" {
				if verifC19NetsContain(rc.covertBlocklistSubnets, w) || rc.enableCovertAllowlist {
					viol("enforce:not-refused:covert_blocklist_subnets",
						fmt.Sprintf("covert %s lies inside blocklist entry %q, the entry was parsed, yet ParseOrResolveBlocklisted admits it as %q", covert, s, out),
						map[string]interface{}{"entry": s, "entry_class": cls, "witness": covert, "admitted_as": out})
				} else {
					viol(dropSig("covert_blocklist_subnets", s, cls),
						fmt.Sprintf("covert_blocklist_subnets entry %q (%s) of an accepted configuration is not in force: covert %s is admitted as %q", s, cls, covert, out),
						map[string]interface{}{"entry": s, "entry_class": cls, "witness": covert, "admitted_as": out})
				}
				break
			}
			e.rec.Count("witness_refused", 1)
		}
	}

	// covert_blocklist_public_addrs = true (literally in the file): the loopback subnet that this machine
	// reports must be refused in full.  Nothing else about the machine's interfaces is asserted.
	if l.Public {
		for _, p := range e.loopback {
			e.rec.Count("entries_checked", 1)
			for _, w := range verifC19Witnesses(p, "lo/"+p.String()) {
				if verifC19In(allowP, w) {
					e.rec.Count("witness_skipped_allowlist_precedence", 1)
					continue
				}
				covert := net.JoinHostPort(w.String(), "443")
				out, _ := rc.ParseOrResolveBlocklisted(covert)
				e.rec.Count("witness_checks", 1)
				if out != "" {
					viol("enforce:public-addrs-loopback-not-refused",
						fmt.Sprintf("covert_blocklist_public_addrs is on and this machine's loopback interface carries %s, yet covert %s is admitted as %q", p, covert, out),
						map[string]interface{}{"interface_subnet": p.String(), "witness": covert, "admitted_as": out, "covert_blocklist_subnets": l.Block})
					break
				}
				e.rec.Count("witness_refused", 1)
			}
		}
	}

	// covert allowlist
	allowBroken := false
	for _, s := range l.Allow {
		e.rec.Count("entries_checked", 1)
		p, cls, ok := verifC19Lenient(s)
		if !ok {
			allowBroken = true
			viol("enforce:dropped:"+origin("covert_allowlist_subnets", s)+"covert_allowlist_subnets",
				fmt.Sprintf("covert_allowlist_subnets entry %q cannot be parsed, yet the configuration was accepted (the entry is silently dropped)", s),
				map[string]interface{}{"entry": s, "entry_class": cls})
			continue
		}
		if l.Public {
			// machine-dependent blocklist additions: whether they should beat the allowlist is not ours to demand
			e.rec.Count("witness_skipped_public_addrs", 1)
			continue
		}
		for _, w := range verifC19Witnesses(p, s) {
			if verifC19In(blockP, w) {
				e.rec.Count("witness_skipped_allowlist_precedence", 1)
				continue
			}
			if domMatch(w.String()) {
				e.rec.Count("witness_skipped_domain_pattern", 1)
				continue
			}
			covert := net.JoinHostPort(w.String(), "443")
			out, _ := rc.ParseOrResolveBlocklisted(covert)
			e.rec.Count("witness_checks", 1)
			ap, err := netip.ParseAddrPort(out)
			if err != nil || ap.Addr().Unmap() != w.Unmap() || ap.Port() != 443 {
				if verifC19NetsContain(rc.covertAllowlistSubnets, w) {
					viol("enforce:allow-not-admitted", fmt.Sprintf("covert %s lies inside allowlist entry %q, the entry was parsed, yet the covert is answered %q", covert, s, out),
						map[string]interface{}{"entry": s, "entry_class": cls, "witness": covert, "answer": out})
				} else {
					allowBroken = true
					viol(dropSig("covert_allowlist_subnets", s, cls),
						fmt.Sprintf("covert_allowlist_subnets entry %q (%s) of an accepted configuration is not in force: covert %s inside it is answered %q", s, cls, covert, out),
						map[string]interface{}{"entry": s, "entry_class": cls, "witness": covert, "answer": out})
				}
				break
			}
			e.rec.Count("witness_admitted", 1)
		}
	}
	if len(l.Allow) > 0 {
		// an allowlist with entries must refuse what lies outside all of them
		var notInForce []string // for attribution only: entries that the loaded configuration does not hold
		for _, s := range l.Allow {
			if p, _, ok := verifC19Lenient(s); !ok || !verifC19NetsContain(rc.covertAllowlistSubnets, p.Addr()) {
				notInForce = append(notInForce, s)
			}
		}
		for _, o := range []string{"8.8.8.8", "198.51.100.7", "192.0.77.1", "2001:4860:4860::8888"} {
			a := netip.MustParseAddr(o)
			if verifC19In(allowP, a) {
				continue
			}
			covert := net.JoinHostPort(o, "443")
			out, _ := rc.ParseOrResolveBlocklisted(covert)
			e.rec.Count("witness_checks", 1)
			if out != "" {
				if len(notInForce) == 0 {
					viol("enforce:allowlist-outside-admitted", fmt.Sprintf("a non-empty covert_allowlist_subnets is configured, all entries are in force, yet %s (outside every entry) is admitted as %q", covert, out),
						map[string]interface{}{"allowlist": l.Allow, "witness": covert, "admitted_as": out})
				} else if !allowBroken {
					// the dropped entry was not reported through its own witness (skipped for precedence reasons): report it here
					viol("enforce:dropped:"+origin("covert_allowlist_subnets", notInForce[0])+"covert_allowlist_subnets",
						fmt.Sprintf("covert_allowlist_subnets entry %q of an accepted configuration was dropped; the allowlist is not in force: %s (outside every entry) is admitted as %q", notInForce[0], covert, out),
						map[string]interface{}{"entry": notInForce[0], "allowlist": l.Allow, "witness": covert, "admitted_as": out})
				} else {
					e.rec.Count("allowlist_disabled_by_dropped_entry", 1)
				}
				break
			}
			e.rec.Count("witness_refused", 1)
		}
	}

	// phantom blocklist
	for _, s := range l.Phantom {
		e.rec.Count("entries_checked", 1)
		p, cls, ok := verifC19Lenient(s)
		if !ok {
			viol("enforce:dropped:"+origin("phantom_blocklist", s)+"phantom_blocklist",
				fmt.Sprintf("phantom_blocklist entry %q cannot be parsed, yet the configuration was accepted (the entry is silently dropped)", s),
				map[string]interface{}{"entry": s, "entry_class": cls})
			continue
		}
		for _, w := range verifC19Witnesses(p, s) {
			e.rec.Count("witness_checks", 1)
			if !rc.IsBlocklistedPhantom(net.IP(w.AsSlice())) {
				if verifC19NetsContain(rc.phantomBlocklist, w) {
					viol("enforce:not-refused:phantom_blocklist", fmt.Sprintf("phantom %s lies inside phantom_blocklist entry %q, the entry was parsed, yet IsBlocklistedPhantom says false", w, s),
						map[string]interface{}{"entry": s, "entry_class": cls, "witness": w.String()})
				} else {
					viol(dropSig("phantom_blocklist", s, cls),
						fmt.Sprintf("phantom_blocklist entry %q (%s) of an accepted configuration is not in force: phantom %s is not refused", s, cls, w),
						map[string]interface{}{"entry": s, "entry_class": cls, "witness": w.String()})
				}
				break
			}
			e.rec.Count("witness_refused", 1)
		}
	}

	// domain patterns
	for _, d := range l.Dom {
		host, ok := kit.C19DomainWitness(d)
		if !ok {
			continue
		}
		e.rec.Count("entries_checked", 1)
		e.rec.Count("witness_checks", 1)
		covert := net.JoinHostPort(host, "443")
		out, _ := rc.ParseOrResolveBlocklisted(covert)
		if out != "" {
			sig := "enforce:domain-not-refused"
			if _, err := netip.ParseAddr(host); err == nil {
				// the pattern matches the text of an address literal (e.g. `^169\.254\.`): the covert host is that literal
				sig = "enforce:domain-not-refused:address-literal"
				e.rec.Count("domain_literal_witness_admitted", 1)
			}
			viol(sig, fmt.Sprintf("host %q matches covert_blocklist_domains pattern %q of an accepted configuration, yet it is admitted as %q", host, d, out),
				map[string]interface{}{"pattern": d, "witness": covert, "admitted_as": out})
			continue
		}
		if _, err := netip.ParseAddr(host); err == nil {
			e.rec.Count("domain_literal_witness_refused", 1)
		}
		e.rec.Count("witness_refused", 1)
	}
}

// reloadOnBase applies the file at CJ_STATION_CONFIG to a running base station exactly as main.go's
// SIGHUP branch does and reports a panic.
func (e *verifC19Env) reloadOnBase() *kit.C19Panic {
	if e.base == nil {
		saved := os.Getenv("CJ_STATION_CONFIG")
		basePath := filepath.Join(e.dir, "base.toml")
		os.WriteFile(basePath, []byte(e.baseText), 0o644)
		os.Setenv("CJ_STATION_CONFIG", basePath)
		st, outcome, _ := e.startup(e.baseText, false)
		os.Setenv("CJ_STATION_CONFIG", saved)
		if st == nil {
			e.t.Fatalf("the base configuration is not accepted at start-up (%s); the monitor cannot run", outcome)
		}
		e.base = st
	}
	var pn *kit.C19Panic
	var newConf *Config
	var err error
	if pn = kit.C19Try(func() { newConf, err = ParseConfig() }); pn != nil {
		return pn
	}
	if err == nil {
		pn = kit.C19Try(func() { e.base.rm.OnReload(newConf.RegConfig) })
	}
	return pn
}

// reload performs one SIGHUP on st and evaluates the oracles.  It returns false when the station died.
func (e *verifC19Env) reload(st *verifC19Station, step kit.C19Reload, idx int) bool {
	// ---- arrange the files -----------------------------------------------------------------------------
	switch step.ConfAct {
	case "new":
		e.writeCfg(*step.Conf)
	case "same":
		// the live file stays (it may be a file that already failed to load)
	case "missing":
		os.Setenv("CJ_STATION_CONFIG", e.missing)
		e.liveText, e.liveClass, e.liveMustFail = "", "missing", "missing"
	case "dir":
		os.Setenv("CJ_STATION_CONFIG", e.isDir)
		e.liveText, e.liveClass, e.liveMustFail = "", "dir", "dir"
	}
	confClass, newText, cfgClass := e.liveMustFail, e.liveText, e.liveClass
	subChanged := true
	switch step.SubAct {
	case "same":
		subChanged = false
	case "switch":
		subChanged = e.subPaths[step.SubIdx] != e.curSub
		e.setSub(e.subPaths[step.SubIdx])
	case "missing":
		e.setSub(e.missing)
	case "dir":
		e.setSub(e.isDir)
	}
	_ = subChanged

	if st.pol == nil {
		st.pol, _ = verifC19Policy(st.rm.RegConfig)
		st.sel, _ = verifC19Select(st.rm.PhantomSelector)
	}
	polBefore, selBefore := st.pol, st.sel
	geoBefore := st.rm.GeoIP

	// ---- main.go:176-191 ----------------------------------------------------------------------------------
	var newConf *Config
	var err error
	e.rec.Count("reload_steps", 1)
	detail := func(extra map[string]interface{}) map[string]interface{} {
		m := map[string]interface{}{"reload_step": idx, "reload": step.String(), "subnets_file": e.curSub, "running_config": st.text}
		m["reload_config"] = e.liveText
		m["reload_config_path"] = os.Getenv("CJ_STATION_CONFIG")
		for k, v := range extra {
			m[k] = v
		}
		return m
	}
	if pn := kit.C19Try(func() { newConf, err = ParseConfig() }); pn != nil {
		cause := confClass // missing | dir: there is no text to classify
		if cause != "missing" && cause != "dir" {
			cause = verifC19Cause(newText)
		}
		e.rec.Violation(pn.Sig("reload-parse")+":"+cause, "ParseConfig panicked while a running station reloaded its configuration (the station process dies): "+pn.Val,
			detail(map[string]interface{}{"panic": pn, "file_cause": cause}))
		st.dead = true
		return false
	}
	applied := false
	if err != nil {
		e.rec.Count("reload_parse_errors", 1)
	} else {
		applied = true
		if pn := kit.C19Try(func() { st.rm.OnReload(newConf.RegConfig) }); pn != nil {
			e.rec.Violation(pn.Sig("reload-apply"), "OnReload panicked (the station process dies): "+pn.Val, detail(map[string]interface{}{"panic": pn}))
			st.dead = true
			return false
		}
	}

	// ---- what loaded, judged independently of OnReload --------------------------------------------------------
	fresh, ok := e.subCache[e.curSub]
	if !ok {
		var freshSel *phantoms.PhantomIPSelector
		if pn := kit.C19Try(func() { freshSel, fresh.err = phantoms.SubnetsFromTomlFile(e.curSub) }); pn != nil {
			fresh.err = fmt.Errorf("loader panicked: %s", pn.Val)
		}
		if fresh.err == nil {
			fresh.sel, _ = verifC19Select(freshSel)
		}
		e.subCache[e.curSub] = fresh
	}
	subErr := fresh.err
	geoFailed := false
	if applied && newConf.RegConfig != nil {
		_, gerr := geoip.New(newConf.RegConfig.DBConfig)
		geoFailed = gerr != nil && !errors.Is(gerr, geoip.ErrMissingDB)
	}
	confFailed := err != nil || confClass != ""
	e.last = verifC19Last{confLoaded: !confFailed, subErr: subErr, geoFailed: geoFailed}

	polAfter, pp := verifC19Policy(st.rm.RegConfig)
	selAfter, sp := verifC19Select(st.rm.PhantomSelector)
	for _, pn := range pp {
		e.rec.Violation(pn.Sig("policy-after-reload"), "a policy function panics after a reload: "+pn.Val, detail(map[string]interface{}{"panic": pn}))
	}
	if len(sp) > 0 {
		pn := sp[0]
		e.rec.Violation(pn.Sig("select-after-reload"), "phantom selection panics after a reload: "+pn.Val, detail(map[string]interface{}{"panic": pn, "subnets_load_error": fmt.Sprint(subErr)}))
	}
	if len(pp) > 0 || len(sp) > 0 {
		st.dead = true
		return false
	}
	st.pol, st.sel = polAfter, selAfter

	failClass := confClass
	if failClass == "" && err != nil {
		failClass = "parse-error"
	}
	selNew := fresh.sel

	if confFailed {
		e.rec.Count("reload_failed_config", 1)
		if err == nil {
			// the loader accepted a file that cannot be a configuration
			e.rec.Violation("reload:accepted-unloadable:"+failClass, "ParseConfig returned no error for a file that cannot be loaded ("+failClass+") and the reload was applied",
				detail(map[string]interface{}{}))
		}
		if !verifC19Same(polBefore, polAfter) {
			e.rec.Violation("reload:failed-config-changed-policy:"+failClass, "the configuration part of a reload failed ("+failClass+") but policy decisions changed",
				detail(map[string]interface{}{"changed": verifC19Diff(polBefore, polAfter), "parse_error": fmt.Sprint(err)}))
		}
		switch {
		case subErr != nil:
			if !verifC19Same(selBefore, selAfter) {
				e.rec.Violation("reload:failed-both-changed-selection", "neither the configuration nor the subnets file loaded, but phantom selections changed",
					detail(map[string]interface{}{"changed": verifC19Diff(selBefore, selAfter), "subnets_load_error": fmt.Sprint(subErr)}))
			}
		default:
			// a station may or may not reload the subnets when the configuration file is bad; it must not invent a third state
			if !verifC19Same(selBefore, selAfter) && !verifC19Same(selNew, selAfter) {
				e.rec.Violation("reload:selection-neither-old-nor-new", "after a reload with a failed configuration part the phantom selections are neither the old nor the new ones",
					detail(map[string]interface{}{"changed": verifC19Diff(selBefore, selAfter)}))
			}
		}
	} else {
		e.rec.Count("reload_ok_config", 1)
		polNew, _ := verifC19Policy(newConf.RegConfig)
		allOK := subErr == nil && !geoFailed
		// the parts are independent: a part that loaded without error is replaced by its new version
		// even when another part of the same reload failed (that other part keeps its previous version)
		var failedParts []string
		if subErr != nil {
			failedParts = append(failedParts, "subnets")
		}
		if geoFailed {
			failedParts = append(failedParts, "geoip")
		}
		failed := strings.Join(failedParts, "+")
		switch {
		case verifC19Same(polAfter, polNew):
		case allOK:
			e.rec.Violation("reload:success-not-applied:policy", "every part of the reload loaded without error but the policy decisions are not those of the new configuration",
				detail(map[string]interface{}{"changed_vs_new": verifC19Diff(polNew, polAfter)}))
		case verifC19Same(polAfter, polBefore):
			e.rec.Violation("reload:loaded-part-not-installed:policy:failed="+failed,
				"the address policies of the reloaded configuration loaded without error, but because another part of the same reload failed ("+failed+") the previous policies are still in force",
				detail(map[string]interface{}{"failed_parts": failed, "changed_vs_new": verifC19Diff(polNew, polAfter), "subnets_load_error": fmt.Sprint(subErr), "geoip_failed": geoFailed}))
		case !verifC19Same(polAfter, polBefore):
			e.rec.Violation("reload:mixed-policy", "after a partially failed reload the policy decisions are neither the old nor the new version",
				detail(map[string]interface{}{"changed_vs_old": verifC19Diff(polBefore, polAfter), "changed_vs_new": verifC19Diff(polNew, polAfter)}))
		}
		if subErr != nil {
			e.rec.Count("reload_failed_subnets", 1)
			if !verifC19Same(selBefore, selAfter) {
				e.rec.Violation("reload:failed-subnets-changed-selection", "the subnets file failed to load ("+filepath.Base(e.curSub)+") but phantom selections changed",
					detail(map[string]interface{}{"changed": verifC19Diff(selBefore, selAfter), "subnets_load_error": fmt.Sprint(subErr)}))
			}
		} else {
			e.rec.Count("reload_ok_subnets", 1)
			switch {
			case verifC19Same(selAfter, selNew):
			case allOK:
				e.rec.Violation("reload:success-not-applied:selection", "every part of the reload loaded without error but phantom selections are not those of the new subnets file",
					detail(map[string]interface{}{"changed_vs_new": verifC19Diff(selNew, selAfter)}))
			case verifC19Same(selAfter, selBefore):
				e.rec.Violation("reload:loaded-part-not-installed:selection:failed="+failed,
					"the phantom subnets file ("+filepath.Base(e.curSub)+") loaded without error, but because another part of the same reload failed ("+failed+") the previous phantom subnets are still in force",
					detail(map[string]interface{}{"failed_parts": failed, "changed_vs_new": verifC19Diff(selNew, selAfter)}))
			case !verifC19Same(selAfter, selBefore):
				e.rec.Violation("reload:selection-neither-old-nor-new", "after a partially failed reload the phantom selections are neither the old nor the new ones",
					detail(map[string]interface{}{"changed_vs_old": verifC19Diff(selBefore, selAfter)}))
			}
		}
		if geoFailed {
			e.rec.Count("reload_failed_geoip", 1)
			if st.rm.GeoIP != geoBefore {
				e.rec.Violation("reload:failed-geoip-replaced", "the GeoIP databases failed to load but the GeoIP handle was replaced", detail(map[string]interface{}{}))
			}
		}
		if allOK {
			e.rec.Count("reload_fully_ok", 1)
		}
		// the configuration part loaded: its entries have to be in force now, whatever happened to the other parts
		where := fmt.Sprintf("reload step %d", idx)
		if failed != "" {
			where += " (configuration part loaded; failed part of the same reload: " + failed + ")"
		}
		if verifC19Same(polAfter, polNew) {
			st.text = newText
		}
		e.enforce(st.rm.RegConfig, newText, cfgClass, where)
	}
	if st.rm.GeoIP == nil {
		e.rec.Violation("reload:geoip-nil", "after a reload the manager's GeoIP handle is nil (every later lookup dereferences it)", detail(map[string]interface{}{}))
	}
	if !verifC19Same(polBefore, polAfter) {
		e.rec.Count("reload_policy_changed", 1)
	}
	if !verifC19Same(selBefore, selAfter) {
		e.rec.Count("reload_selection_changed", 1)
	}
	return true
}

// ---- the test ----------------------------------------------------------------------------------------------

// verifC19NewEnv prepares the files and the scripted resolver shared by the C19 tests of this package.
func verifC19NewEnv(t *testing.T, rec *kit.Rec, dirName string) *verifC19Env {
	e := &verifC19Env{t: t, rec: rec, subCache: map[string]verifC19Fresh{}}
	e.dir = filepath.Join(kit.OutDir(), dirName)
	if err := os.MkdirAll(e.dir, 0o755); err != nil {
		t.Fatal(err)
	}
	b, err := os.ReadFile(filepath.Join(conjurepath.Root, "cmd/application/app_config.toml"))
	if err != nil {
		t.Fatal(err)
	}
	e.shipped = string(b)
	if _, err := toml.Decode(e.shipped, &e.shipLists); err != nil {
		t.Fatalf("cannot read the shipped configuration independently: %v", err)
	}
	e.garbageDB = filepath.Join(e.dir, "not-a-database.mmdb")
	os.WriteFile(e.garbageDB, []byte("this is not a MaxMind database\n"), 0o644)
	e.cfgPath = filepath.Join(e.dir, "station.toml")
	e.missing = filepath.Join(e.dir, "does-not-exist.toml")
	e.isDir = filepath.Join(e.dir, "a-directory")
	os.MkdirAll(e.isDir, 0o755)
	e.subFiles = kit.C19SubnetFiles()
	for _, f := range e.subFiles {
		p := filepath.Join(e.dir, f.Name+".toml")
		if err := os.WriteFile(p, []byte(f.Text), 0o644); err != nil {
			t.Fatal(err)
		}
		e.subPaths = append(e.subPaths, p)
		_, lerr := phantoms.SubnetsFromTomlFile(p)
		if f.Loadable && lerr != nil {
			t.Fatalf("subnets file %s was built well-formed but the loader refuses it: %v", f.Name, lerr)
		}
		rec.Distinct("subnet_files", f.Name, lerr == nil)
	}
	e.baseText = kit.C19Base(e.garbageDB).Text
	e.loopback = verifC19Loopback()
	rec.Note(fmt.Sprintf("loopback subnets reported by net.Interfaces(): %v (asserted only for files with covert_blocklist_public_addrs = true)", e.loopback))
	verifC19InstallResolver()
	// self-test of the scripted resolver (infrastructure, not a verdict)
	if out, _ := (&RegConfig{}).ParseOrResolveBlocklisted("fine.example.net:443"); out != "198.51.100.7:443" {
		t.Fatalf("scripted resolver does not work: fine.example.net:443 -> %q", out)
	}
	return e
}

func TestVerifC19Config(t *testing.T) {
	rec := kit.NewRec("C19", "config")
	defer rec.Close()
	e := verifC19NewEnv(t, rec, "c19-files")
	defer log.SetLevel(log.ErrorLevel)

	nCases := kit.Tier(1500, 60000)
	nSteps := kit.Tier(4, 8)
	pIngest := 1.0
	if kit.Thorough() {
		pIngest = 0.3
	}
	rng := kit.Rand("c19-config")

	cases := []kit.C19Config{kit.C19Base(e.garbageDB), {Text: e.shipped, Class: "shipped", Desc: "shipped"}}
	cases = append(cases, kit.C19Singles(e.garbageDB)...)
	nSingles := len(cases)
	outcomes := map[string]int{}

	for ci := 0; ci < nCases; ci++ {
		var cfg kit.C19Config
		if ci < nSingles {
			cfg = cases[ci]
		} else {
			cfg = kit.C19Gen(rng, e.shipped, e.garbageDB, 0.08)
		}
		plan := make([]kit.C19Reload, nSteps)
		planDesc := make([]string, nSteps)
		for i := range plan {
			plan[i] = kit.C19GenReload(rng, e.shipped, e.garbageDB)
			planDesc[i] = plan[i].String()
		}
		e.steps = ci
		if cfg.MustFail == "syntax" && verifC19Cause(cfg.Text) != "unparsable-toml" {
			t.Fatalf("generator bug: a file labelled syntax-malformed parses as TOML:\n%s", cfg.Text)
		}
		rec.Case(map[string]interface{}{"case": ci, "class": cfg.Class, "desc": cfg.Desc, "config": cfg.Text, "reload_plan": planDesc})
		rec.Count("evaluations", 1)

		e.setSub(e.subPaths[rng.Intn(5)]) // a loadable subnets file at start-up
		e.writeCfg(cfg)
		st, outcome, pn := e.startup(cfg.Text, rng.Float64() < pIngest)
		outcomes[outcome]++
		rec.Distinct("startup_outcomes", outcome)
		if st == nil {
			if pn != nil {
				// start-up panic: charged only if the same file also kills a running station on reload
				rec.Count("startup_panics", 1)
				if rp := e.reloadOnBase(); rp != nil {
					cause := verifC19Cause(cfg.Text)
					rec.Violation(rp.Sig("reload-parse")+":"+cause, "a configuration file that panics at start-up also panics when a running station reloads it (the station process dies): "+rp.Val,
						map[string]interface{}{"panic": rp, "file_cause": cause, "startup_outcome": outcome, "reload_config": cfg.Text, "running_config": e.baseText})
				} else {
					rec.Count("startup_panics_not_charged", 1)
				}
			}
			continue
		}
		rec.Count("accepted", 1)
		rec.Distinct("liveness_modes", st.mode)
		if cfg.MustFail != "" {
			rec.Violation("startup:accepted-unloadable:"+cfg.MustFail, "a file that cannot be loaded ("+cfg.MustFail+") was accepted at start-up",
				map[string]interface{}{"config": cfg.Text})
		}

		e.populate(st, rng)
		e.housekeeping(st, 2, cfg.Text, ci%2 == 0)
		e.enforce(st.rm.RegConfig, cfg.Text, cfg.Class, "start-up")
		if ci%97 == 0 && rec.WantSample() {
			pol, _ := verifC19Policy(st.rm.RegConfig)
			refused := 0
			for _, s := range pol {
				if strings.HasSuffix(s, "-> ") || strings.HasSuffix(s, "-> true") {
					refused++
				}
			}
			rec.Sample(map[string]interface{}{"case": ci, "class": cfg.Class, "desc": cfg.Desc, "liveness_mode": st.mode, "reload_plan": planDesc,
				"probes_refused_at_startup": refused, "probes": len(pol)})
		}

		stepsDone := 0
		for i, step := range plan {
			if !e.reload(st, step, i) {
				break
			}
			stepsDone++
			e.populate(st, rng)
			e.housekeeping(st, 1, st.text, i%2 == 1)
		}
		if stepsDone > 0 {
			rec.Distinct("nontrivial", cfg.Desc, strings.Join(planDesc, "|"))
		}
		rec.Count("reload_steps_survived", stepsDone)
		e.shutdown(st)
	}
	for k, v := range outcomes {
		rec.Count("startup."+k, v)
	}
	// part-wise reloads: every step changes all parts while one of them is broken (zz_verif_c19_parts_test.go)
	verifC19PartReloads(e)
	rec.Exhaustive(fmt.Sprintf("single-key variations of the base configuration: every key × every state (%d files), plus base and shipped file", nSingles-2))
	rec.Note("a start-up rejection WITH AN ERROR is never a violation; a start-up panic is charged only if the file also panics on reload")
}
