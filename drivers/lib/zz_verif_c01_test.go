//go:build verif

package lib

// C01 – client and station derive the same phantom address, port and transport secrets.
//
// Three derivations per case, compared pairwise:
//   S  the real station path: marshalled C2SWrapper -> parseRegMessage -> NewRegistrationC2SWrapper with
//      an in-memory PhantomIPSelector, the four real station transports (DTLS around stand-in
//      listener/DNAT), GetIdentifier, obfs4 keys, the PSK handed to the DTLS layer by Connect;
//   C  the in-repo client code: phantoms.SelectPhantom / compatability v0,v1, the ClientTransports'
//      SetParams/Prepare/GetParams/GetDstPort/PrepareKeys/WrapConn and the first flight they write;
//   R  the independent reference (zz_verif_c01_ref_test.go), itself validated against the frozen
//      vectors in /verif/vectors.
// Everything runs on one goroutine: the legacy (lib < 2) paths reseed the process-global math/rand.

import (
	"context"
	"crypto/ecdsa"
	"crypto/sha256"
	"crypto/tls"
	"crypto/x509"
	"encoding/hex"
	"errors"
	"fmt"
	"io"
	"net"
	"os"
	"strings"
	"sync"
	"testing"
	"time"

	"github.com/pion/stun"
	"golang.org/x/crypto/curve25519"
	"google.golang.org/protobuf/proto"
	"google.golang.org/protobuf/types/known/anypb"

	v0 "github.com/refraction-networking/conjure/internal/compatability/v0"
	v1 "github.com/refraction-networking/conjure/internal/compatability/v1"
	kit "github.com/refraction-networking/conjure/internal/verifkit"
	cjdtls "github.com/refraction-networking/conjure/pkg/dtls"
	"github.com/refraction-networking/conjure/pkg/phantoms"
	"github.com/refraction-networking/conjure/pkg/station/log"
	cdtls "github.com/refraction-networking/conjure/pkg/transports/connecting/dtls"
	tmin "github.com/refraction-networking/conjure/pkg/transports/wrapping/min"
	"github.com/refraction-networking/conjure/pkg/transports/wrapping/obfs4"
	"github.com/refraction-networking/conjure/pkg/transports/wrapping/prefix"
	pb "github.com/refraction-networking/conjure/proto"
)

// ---- stand-ins ------------------------------------------------------------------------------------

// c01Listener stands in for the DTLS listener: it records the key the station hands to the DTLS layer.
type c01Listener struct {
	mu   sync.Mutex
	psks [][]byte
}

func (l *c01Listener) AcceptWithContext(_ context.Context, cfg *cjdtls.Config) (net.Conn, error) {
	l.mu.Lock()
	l.psks = append(l.psks, append([]byte(nil), cfg.PSK...))
	l.mu.Unlock()
	return nil, errors.New("verif: stand-in listener")
}
func (l *c01Listener) take() [][]byte {
	l.mu.Lock()
	defer l.mu.Unlock()
	p := l.psks
	l.psks = nil
	return p
}

type c01DNAT struct{}

func (c01DNAT) AddEntry(*net.IP, uint16, *net.IP, uint16) error {
	return errors.New("verif: stand-in DNAT")
}

// c01StunConn answers STUN binding requests in-process so that the real DTLS ClientTransport.Prepare runs.
type c01StunConn struct {
	ch     chan []byte
	closed chan struct{}
	once   sync.Once
	local  *net.UDPAddr
	remote *net.UDPAddr
	public *net.UDPAddr
}

func (c *c01StunConn) Write(b []byte) (int, error) {
	m := &stun.Message{Raw: append([]byte(nil), b...)}
	if err := m.Decode(); err == nil && m.Type == stun.BindingRequest {
		resp, err := stun.Build(stun.NewTransactionIDSetter(m.TransactionID), stun.BindingSuccess,
			&stun.XORMappedAddress{IP: c.public.IP, Port: c.public.Port})
		if err == nil {
			select {
			case c.ch <- resp.Raw:
			default:
			}
		}
	}
	return len(b), nil
}
func (c *c01StunConn) Read(p []byte) (int, error) {
	select {
	case b := <-c.ch:
		return copy(p, b), nil
	case <-c.closed:
		return 0, net.ErrClosed
	}
}
func (c *c01StunConn) Close() error                     { c.once.Do(func() { close(c.closed) }); return nil }
func (c *c01StunConn) LocalAddr() net.Addr              { return c.local }
func (c *c01StunConn) RemoteAddr() net.Addr             { return c.remote }
func (c *c01StunConn) SetDeadline(time.Time) error      { return nil }
func (c *c01StunConn) SetReadDeadline(time.Time) error  { return nil }
func (c *c01StunConn) SetWriteDeadline(time.Time) error { return nil }

func c01StunDialer(_ context.Context, network, _, _ string) (net.Conn, error) {
	c := &c01StunConn{ch: make(chan []byte, 8), closed: make(chan struct{})}
	if network == "udp6" {
		c.local = &net.UDPAddr{IP: net.ParseIP("fd00::3"), Port: 40006}
		c.public = &net.UDPAddr{IP: net.ParseIP("2001:db8::77"), Port: 50006}
		c.remote = &net.UDPAddr{IP: net.ParseIP("2001:db8::1"), Port: 19302}
	} else {
		c.local = &net.UDPAddr{IP: net.IPv4(10, 1, 2, 3).To4(), Port: 40004}
		c.public = &net.UDPAddr{IP: net.IPv4(203, 0, 113, 77).To4(), Port: 50004}
		c.remote = &net.UDPAddr{IP: net.IPv4(192, 0, 2, 1).To4(), Port: 19302}
	}
	return c, nil
}

// ---- harness --------------------------------------------------------------------------------------

type c01Harness struct {
	t       *testing.T
	rec     *kit.Rec
	rm      *RegistrationManager
	priv    [32]byte
	pub     [32]byte
	prefixT *prefix.Transport
	dtlsT   *cdtls.Transport
	lst     *c01Listener
	decoy   *phantoms.SubnetConfig // a second generation the case never names
	nEval   int
}

var c01TT = map[string]pb.TransportType{"min": pb.TransportType_Min, "obfs4": pb.TransportType_Obfs4, "prefix": pb.TransportType_Prefix, "dtls": pb.TransportType_DTLS}

func c01NewHarness(t *testing.T, rec *kit.Rec) *c01Harness {
	os.Setenv("PHANTOM_SUBNET_LOCATION", "./test/phantom_subnets.toml")
	rm := NewRegistrationManager(&RegConfig{EnableIPv4: true, EnableIPv6: true})
	if rm == nil {
		t.Fatal("infrastructure: NewRegistrationManager returned nil")
	}
	rm.Logger = log.New(io.Discard, "", 0)
	h := &c01Harness{t: t, rec: rec, rm: rm, lst: &c01Listener{}}
	k := sha256.Sum256([]byte("verif-c01-station-key"))
	h.priv = k
	h.priv[0] &= 248
	h.priv[31] &= 127
	h.priv[31] |= 64
	curve25519.ScalarBaseMult(&h.pub, &h.priv)
	var err error
	if h.prefixT, err = prefix.Default([][32]byte{h.priv}); err != nil {
		t.Fatalf("infrastructure: prefix.Default: %v", err)
	}
	h.dtlsT = cdtls.VerifNewTransport(h.lst, c01DNAT{})
	for tt, tr := range map[pb.TransportType]Transport{
		pb.TransportType_Min: tmin.Transport{}, pb.TransportType_Obfs4: obfs4.Transport{},
		pb.TransportType_Prefix: h.prefixT, pb.TransportType_DTLS: h.dtlsT,
	} {
		if err := rm.AddTransport(tt, tr); err != nil {
			t.Fatalf("infrastructure: AddTransport: %v", err)
		}
	}
	h.decoy = &phantoms.SubnetConfig{WeightedSubnets: c01PBGroups([]c01Group{{W: 3, Nets: []string{"198.18.0.0/15", "2001:db8:dead::/48"}, RP: true}})}
	return h
}

func c01PBGroups(gs []c01Group) []*pb.PhantomSubnets {
	var out []*pb.PhantomSubnets
	for _, g := range gs {
		p := &pb.PhantomSubnets{Weight: proto.Uint32(g.W), Subnets: append([]string(nil), g.Nets...)}
		if g.RP {
			p.RandomizeDstPort = proto.Bool(true)
		}
		out = append(out, p)
	}
	return out
}

// c01TypedParams builds the message a client of that transport would register with.
func c01TypedParams(tr string, p c01Params) proto.Message {
	if p.Kind == "absent" {
		return nil
	}
	set := p.Kind == "set"
	switch tr {
	case "min", "obfs4":
		m := &pb.GenericTransportParams{}
		if set {
			m.RandomizeDstPort = p.Rand
		}
		return m
	case "prefix":
		m := &pb.PrefixTransportParams{}
		if set {
			m.PrefixId, m.CustomFlushPolicy, m.RandomizeDstPort = p.Prefix, p.Flush, p.Rand
		}
		return m
	case "dtls":
		m := &pb.DTLSTransportParams{}
		if set {
			m.RandomizeDstPort, m.Unordered = p.Rand, p.Unord
		}
		return m
	}
	return nil
}

func c01Any(m proto.Message, urlStyle string) (*anypb.Any, error) {
	a, err := anypb.New(m)
	if err != nil {
		return nil, err
	}
	switch urlStyle {
	case "":
		a.TypeUrl = "" // what gotapdance sends (type url stripped to save space)
	case "tapdance":
		a.TypeUrl = strings.Replace(a.TypeUrl, "/proto.", "/tapdance.", 1)
	}
	return a, nil
}

// ---- station side ---------------------------------------------------------------------------------

func c01ClassifyStationErr(err error) string {
	switch {
	case strings.Contains(err.Error(), "generation number not recognized"):
		return c01ErrGen
	case errors.Is(err, phantoms.ErrMissingAddrs):
		return c01ErrNoAddrs
	case errors.Is(err, phantoms.ErrLegacyAddrSelectBug):
		return c01ErrV1NoAddrs
	case errors.Is(err, phantoms.ErrLegacyMissingAddrs):
		return c01ErrV0NoAddrs
	case errors.Is(err, phantoms.ErrLegacyV0SelectionBug):
		return c01ErrV0Bug
	case strings.Contains(err.Error(), "client couldn't support this transport"):
		return c01ErrPrefixLib
	case errors.Is(err, prefix.ErrUnknownPrefix):
		return c01ErrPrefixUnk
	case errors.Is(err, prefix.ErrBadParams):
		return c01ErrPortParams
	}
	s := err.Error()
	if len(s) > 100 {
		s = s[:100]
	}
	return "other:" + s
}

func c01CertFields(c *tls.Certificate) (pub, serial, cn string, err error) {
	if c == nil || len(c.Certificate) != 1 {
		return "", "", "", fmt.Errorf("unexpected certificate shape")
	}
	x, err := x509.ParseCertificate(c.Certificate[0])
	if err != nil {
		return "", "", "", err
	}
	k, ok := x.PublicKey.(*ecdsa.PublicKey)
	if !ok {
		return "", "", "", fmt.Errorf("public key is %T", x.PublicKey)
	}
	xb, yb := make([]byte, 32), make([]byte, 32)
	k.X.FillBytes(xb)
	k.Y.FillBytes(yb)
	// the private key must belong to the certified public key
	if priv, ok := c.PrivateKey.(*ecdsa.PrivateKey); !ok || priv.PublicKey.X.Cmp(k.X) != 0 || priv.PublicKey.Y.Cmp(k.Y) != 0 {
		return "", "", "", fmt.Errorf("private key does not match certificate")
	}
	return hex.EncodeToString(xb) + hex.EncodeToString(yb), x.SerialNumber.Text(16), x.Subject.CommonName, nil
}

func c01Creds(psk []byte, out *c01Out) error {
	cc, sc, hr, err := cjdtls.VerifC01Creds(psk)
	if err != nil {
		return err
	}
	if out.DCPub, out.DCSer, out.DCCN, err = c01CertFields(cc); err != nil {
		return err
	}
	if out.DSPub, out.DSSer, out.DSCN, err = c01CertFields(sc); err != nil {
		return err
	}
	out.DRand = hex.EncodeToString(hr)
	return nil
}

// stationMsg marshals the registration message the station ingests.  v4 and v6 are the client's
// v4_support / v6_support flags (both = one dual-stack message).
func (h *c01Harness) stationMsg(in c01Input, v4, v6 bool, secret []byte, tp *anypb.Any) []byte {
	tt := c01TT[in.Tr]
	c2s := &pb.ClientToStation{
		DecoyListGeneration: proto.Uint32(in.Gen),
		V4Support:           proto.Bool(v4),
		V6Support:           proto.Bool(v6),
		Transport:           tt.Enum(),
		TransportParams:     tp,
		CovertAddress:       proto.String("192.0.2.1:443"),
	}
	if !(in.Lib == 0 && in.LibUnset) {
		c2s.ClientLibVersion = proto.Uint32(in.Lib)
	}
	src := pb.RegistrationSource_API
	addr := []byte(net.IPv4(198, 51, 100, 7).To4())
	if !v4 && len(secret) > 0 && secret[0]&1 == 1 {
		addr = []byte(net.ParseIP("2001:db8::7")) // an IPv4 registration needs an IPv4 registrant
	}
	msg, err := proto.Marshal(&pb.C2SWrapper{SharedSecret: secret, RegistrationPayload: c2s, RegistrationSource: &src, RegistrationAddress: addr})
	if err != nil {
		h.t.Fatalf("infrastructure: marshal: %v", err)
	}
	return msg
}

// stationParse pushes the message through the real parseRegMessage.
func (h *c01Harness) stationParse(sel *phantoms.PhantomIPSelector, msg []byte) ([]*DecoyRegistration, string) {
	h.rm.PhantomSelector = sel
	regs, err := h.rm.parseRegMessage(msg)
	if err != nil {
		return nil, c01ClassifyStationErr(err)
	}
	return regs, ""
}

// stationObserve reads what the station derived for one registration.  It is here that the transport
// identifier is computed (obfs4 derives its node keys lazily at that moment), so the order in which
// sibling registrations are observed is part of the case.
func (h *c01Harness) stationObserve(in c01Input, reg *DecoyRegistration) c01Out {
	var out c01Out
	if reg.Keys != nil {
		out.Seed = hex.EncodeToString(reg.Keys.ConjureSeed)
	}
	out.IP = c01IPString(reg.PhantomIp)
	out.Port = reg.PhantomPort
	if reg.TransportPtr == nil {
		out.Err = "other:no transport"
		return out
	}
	out.ID = hex.EncodeToString([]byte((*reg.TransportPtr).GetIdentifier(reg)))
	switch in.Tr {
	case "obfs4":
		if k, ok := reg.TransportKeys().(obfs4.Obfs4Keys); ok && k.PublicKey != nil && k.NodeID != nil {
			out.OPub = hex.EncodeToString(k.PublicKey.Bytes()[:])
			out.ONode = hex.EncodeToString(k.NodeID.Bytes()[:])
		} else {
			out.OPub, out.ONode = "missing", "missing"
		}
	case "dtls":
		// the key the station would run the DTLS handshake with: ask the real Connect
		h.lst.take()
		_, _ = h.dtlsT.Connect(context.Background(), reg)
		psks := h.lst.take()
		if len(psks) != 1 {
			h.rec.Inconclusive("station DTLS Connect did not reach the listener exactly once", map[string]interface{}{"n": len(psks), "case": in})
			break
		}
		if err := c01Creds(psks[0], &out); err != nil {
			out.DCPub = "error:" + err.Error()
		}
	}
	return out
}

// station runs the real ingest path for one single-family registration message.
func (h *c01Harness) station(in c01Input, sel *phantoms.PhantomIPSelector, secret []byte, tp *anypb.Any) (c01Out, *DecoyRegistration) {
	regs, class := h.stationParse(sel, h.stationMsg(in, !in.V6, in.V6, secret, tp))
	if class != "" {
		return c01Out{Err: class}, nil
	}
	if len(regs) != 1 || regs[0] == nil {
		h.t.Fatalf("infrastructure: expected exactly one registration, got %d for %+v", len(regs), in)
	}
	return h.stationObserve(in, regs[0]), regs[0]
}

// ---- client side ----------------------------------------------------------------------------------

type c01ClientT interface {
	SetParams(any) error
	Prepare(ctx context.Context, dialer func(ctx context.Context, network, laddr, raddr string) (net.Conn, error)) error
	GetParams() (proto.Message, error)
	GetDstPort(seed []byte) (uint16, error)
	PrepareKeys(pubkey [32]byte, sharedSecret []byte, dRand io.Reader) error
}

type c01Client struct {
	ct   c01ClientT
	err  string        // the client library refuses these parameters
	sent proto.Message // what it would put into the registration
}

// clientParams is the first half of the client flow: SetParams -> Prepare -> GetParams.
func (h *c01Harness) clientParams(in c01Input, typed proto.Message) *c01Client {
	cl := &c01Client{}
	switch in.Tr {
	case "min":
		cl.ct = &tmin.ClientTransport{}
	case "obfs4":
		cl.ct = &obfs4.ClientTransport{}
	case "prefix":
		cl.ct = &prefix.ClientTransport{}
	case "dtls":
		cl.ct = &cdtls.ClientTransport{}
	}
	if in.P.Kind == "set" {
		if err := cl.ct.SetParams(typed); err != nil {
			cl.err = "client:setparams:" + c01ClassifyClientErr(err)
			return cl
		}
	}
	var dialer func(ctx context.Context, network, laddr, raddr string) (net.Conn, error)
	if in.Tr == "dtls" {
		dialer = c01StunDialer
	}
	if err := cl.ct.Prepare(context.Background(), dialer); err != nil {
		cl.err = "client:prepare:" + c01ClassifyClientErr(err)
		return cl
	}
	m, err := cl.ct.GetParams()
	if err != nil {
		cl.err = "client:getparams:" + c01ClassifyClientErr(err)
		return cl
	}
	cl.sent = m
	return cl
}

func c01ClassifyClientErr(err error) string {
	switch {
	case errors.Is(err, phantoms.ErrMissingAddrs):
		return c01ErrNoAddrs
	case errors.Is(err, v0.ErrorV0SelectionBug):
		return c01ErrV0Bug
	case errors.Is(err, v0.ErrSubnetParseBug):
		return "v0-varint-overflow"
	case errors.Is(err, prefix.ErrUnknownPrefix):
		return c01ErrPrefixUnk
	case err.Error() == "no valid addresses specified":
		return c01ErrV1NoAddrs
	case err.Error() == "No valid addresses specified":
		return c01ErrV0NoAddrs
	}
	s := err.Error()
	if len(s) > 100 {
		s = s[:100]
	}
	return "other:" + s
}

type c01Flight struct {
	written []byte
	err     error
}

// clientDerive is the second half: phantom, port, keys, first flight.
func (h *c01Harness) clientDerive(in c01Input, groups []c01Group, cl *c01Client, seed []byte, dRand io.Reader, secret []byte) (c01Out, *c01Flight) {
	var out c01Out
	if cl.err != "" {
		out.Err = cl.err
		return out, nil
	}
	list := &pb.PhantomSubnetsList{WeightedSubnets: c01PBGroups(groups)}
	var ip net.IP
	rp := false
	switch {
	case in.Lib >= 2:
		f := phantoms.V4Only
		if in.V6 {
			f = phantoms.V6Only
		}
		p, err := phantoms.SelectPhantom(seed, list, f, true)
		if err != nil {
			out.Err = "client:" + c01ClassifyClientErr(err)
			return out, nil
		}
		ip, rp = *p.IP(), p.SupportRandomPort()
	case in.Lib == 1:
		f := v1.V4Only
		if in.V6 {
			f = v1.V6Only
		}
		p, err := v1.SelectPhantom(seed, list, f, true)
		if err != nil {
			out.Err = "client:" + c01ClassifyClientErr(err)
			return out, nil
		}
		ip = *p
	default:
		f := v0.V4Only
		if in.V6 {
			f = v0.V6Only
		}
		p, err := v0.SelectPhantom(seed, list, f, true)
		if err != nil {
			out.Err = "client:" + c01ClassifyClientErr(err)
			return out, nil
		}
		ip = *p
	}
	out.IP = c01IPString(ip)
	// the published client rule (gotapdance conjure.go): the transport's port if the chosen subnet
	// supports random ports (library >= 3 knows about that flag), else 443
	out.Port = 443
	if in.Lib >= 3 && rp {
		p, err := cl.ct.GetDstPort(seed)
		if err != nil {
			out.Err = "client:getdstport:" + c01ClassifyClientErr(err)
			return out, nil
		}
		out.Port = p
	}
	if err := cl.ct.PrepareKeys(h.pub, secret, dRand); err != nil {
		out.Err = "client:preparekeys:" + c01ClassifyClientErr(err)
		return out, nil
	}
	var fl *c01Flight
	switch t := cl.ct.(type) {
	case *cdtls.ClientTransport:
		if err := c01Creds(t.VerifClientPSK(), &out); err != nil {
			out.DCPub = "error:" + err.Error()
		}
	case interface {
		WrapConn(net.Conn) (net.Conn, error)
	}:
		conn := kit.NewScriptConn("phantom", kit.TCPAddr("198.51.100.7", 40000), &net.TCPAddr{IP: ip, Port: int(out.Port)}, nil, kit.EndEOF)
		_, err := t.WrapConn(conn)
		fl = &c01Flight{written: conn.Written(), err: err}
	}
	return out, fl
}
