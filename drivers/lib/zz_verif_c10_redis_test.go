//go:build verif

package lib

// C10, detector channel that comes up late – runs in its OWN child process (the station creates its redis client once
// per process, at the first announcement) and in its own network namespace (the real initRedisClient dials the fixed
// localhost:6379; this driver never touches `client` / `once`).  Nothing listens when the first registration is
// admitted and activated; then the stand-in server starts on that address; then registrations, activations and the
// station's shutdown order follow.  What was due while the server was down may be lost and is not judged; everything
// published – or not published – afterwards is recorded in the announce driver's format and judged by the same oracle.

import (
	"bufio"
	"context"
	"encoding/hex"
	"encoding/json"
	"fmt"
	"net"
	"os"
	"path/filepath"
	"sync"
	"testing"
	"time"

	"google.golang.org/protobuf/proto"

	kit "github.com/refraction-networking/conjure/internal/verifkit"
	pb "github.com/refraction-networking/conjure/proto"
)

func TestVerifC10RedisLate(t *testing.T) {
	rec := kit.NewRec("C10", "redis-late")
	defer rec.Close()
	for _, a := range []string{"127.0.0.1:6379", "[::1]:6379"} {
		if c, err := net.DialTimeout("tcp", a, time.Second); err == nil {
			c.Close()
			t.Fatalf("infrastructure: something already listens on %s; this stage needs its own network namespace", a)
		}
	}
	rm := c10NewManager(t)
	rd := rm.registeredDecoys

	outPath := filepath.Join(kit.OutDir(), "c10_records.jsonl")
	outF, err := os.Create(outPath)
	if err != nil {
		t.Fatal(err)
	}
	w := bufio.NewWriterSize(outF, 1<<20)
	enc := json.NewEncoder(w)
	emit := func(r *c10Rec) {
		if err := enc.Encode(r); err != nil {
			t.Fatalf("infrastructure: writing %s: %v", outPath, err)
		}
	}
	defer func() {
		w.Flush()
		outF.Close()
	}()
	emit(&c10Rec{T: "S", Unused: uint64(rd.timeoutUnused.Nanoseconds()), Active: uint64(rd.timeoutActive.Nanoseconds())})
	emit(&c10Rec{T: "R"})

	rng := kit.Rand("c10-redis-late")
	nextCase := 0
	// admit delivers generated registrations until one is admitted and returns it with its case
	admit := func() (*DecoyRegistration, *c10Case) {
		for tries := 0; tries < 200; tries++ {
			nextCase++
			cs := c10LCase(rng, nextCase, nil)
			cs.secret = make([]byte, 32)
			rng.Read(cs.secret)
			msg, err := cs.wrapper()
			if err != nil {
				t.Fatalf("infrastructure: marshal: %v", err)
			}
			regs, err := rm.parseRegMessage(msg)
			if err != nil || len(regs) != 1 || regs[0] == nil {
				continue
			}
			if rd.RegistrationExists(regs[0]) != nil {
				continue
			}
			rm.ingestRegistration(regs[0])
			rd.m.RLock()
			valid := regs[0].Valid
			rd.m.RUnlock()
			if valid {
				return regs[0], &cs
			}
		}
		t.Fatalf("infrastructure: no registration was admitted in 200 attempts")
		return nil, nil
	}

	// ---- phase 1: the detector channel is down when the first announcements are due (not judged)
	t0 := time.Now()
	reg0, _ := admit()
	rm.MarkActive(reg0)
	rec.Count("due_while_redis_down_not_judged", 2)
	rec.Note(fmt.Sprintf("first admission + activation with nothing listening on localhost:6379 took %v", time.Since(t0).Round(time.Millisecond)))

	// ---- phase 2: the server comes up on the station's fixed address
	fr, err := kit.NewFakeRedis("127.0.0.1:6379")
	if err != nil {
		t.Fatalf("infrastructure: cannot listen on 127.0.0.1:6379: %v", err)
	}
	defer fr.Close()
	// ("localhost" may resolve to ::1 first: that dial is refused and the dialer falls back to 127.0.0.1)

	nextID := 0
	record := func(kind, state, desc string, cs *c10Case, reg *DecoyRegistration) {
		pubs := fr.Pubs()
		fr.Reset()
		base := c10Rec{Kind: kind, State: state, Case: desc}
		if cs != nil {
			base.Case = desc + " " + cs.String()
			base.Tr, base.CClass, base.OvClass = cs.tr, cs.cclass, cs.ovclass
		}
		if reg != nil {
			base.EPhantom, base.EClient = hex.EncodeToString(reg.PhantomIp), hex.EncodeToString(reg.registrationAddr)
			base.EPort, base.RegProto, base.TrProto = uint32(reg.GetDstPort()), int32(reg.PhantomProto), int32(c10TrProto[cs.tr])
			base.PClass, base.PoClass = c10ClassOfIP(reg.PhantomIp), c10PortClass(reg.GetDstPort())
			base.ELife = uint64(rd.timeoutUnused.Nanoseconds())
			if state == "used" {
				base.ELife = uint64(rd.timeoutActive.Nanoseconds())
			}
		}
		if len(pubs) == 0 {
			nextID++
			r := base
			r.T, r.ID = "X", nextID
			emit(&r)
			rec.Count("missing_"+kind, 1)
			return
		}
		for _, p := range pubs {
			nextID++
			r := base
			r.ID, r.Raw, r.Chan = nextID, hex.EncodeToString(p.Payload), p.Channel
			m := &pb.StationToDetector{}
			if err := proto.Unmarshal(p.Payload, m); err != nil {
				r.T = "U"
				emit(&r)
				continue
			}
			r.T = "M"
			r.Phantom, r.Client, r.Timeout, r.DPort, r.SPort = m.PhantomIp, m.ClientIp, m.TimeoutNs, m.DstPort, m.SrcPort
			if m.Operation != nil {
				v := int32(*m.Operation)
				r.Op = &v
			}
			if m.Proto != nil {
				v := int32(*m.Proto)
				r.Proto = &v
			}
			emit(&r)
			rec.Count("published_"+kind, 1)
		}
	}

	// ---- phase 3: registrations and activations with the channel reachable
	n := kit.Tier(60, 600)
	desc := "after the detector channel came up (it was down when the first announcement of this process was due):"
	for i := 0; i < n; i++ {
		emit(&c10Rec{T: "A", NS: uint64(rng.Int63n(int64(30 * time.Second)))})
		fr.Reset()
		reg, cs := admit()
		record("new", "unused", desc, cs, reg)
		rec.Count("admitted_after_redis_came_up", 1)
		if cs.update {
			emit(&c10Rec{T: "A", NS: cs.advUpdate})
			fr.Reset()
			rm.MarkActive(reg)
			record("update", "used", desc, cs, reg)
			rec.Count("activated_after_redis_came_up", 1)
		}
	}

	// ---- phase 4: the station's shutdown order
	rm.IngestWorkerCount = 2
	ctx, cancel := context.WithCancel(context.Background())
	var wg sync.WaitGroup
	wg.Add(1)
	go rm.HandleRegUpdates(ctx, make(chan interface{}), &wg)
	cancel()
	stopped := make(chan struct{})
	go func() { wg.Wait(); close(stopped) }()
	select {
	case <-stopped:
		fr.Reset()
		rm.Cleanup()
		record("shutdown-clear", "", "redis-late: HandleRegUpdates(ctx) running, cancel(), wg.Wait(), Cleanup() after the detector channel came up late", nil, nil)
		rec.Count("shutdown_lifecycles", 1)
	case <-time.After(60 * time.Second):
		rec.Inconclusive("HandleRegUpdates did not return within 60 s after cancel", nil)
	}
	if left := kit.WaitNoGoroutineIn(30*time.Second, "handleConnectingTpReg"); left != nil {
		rec.Inconclusive("goroutines still inside handleConnectingTpReg at the end of the run", len(left))
	}
}
