//go:build verif

package lib

// C11 – entry point (1): a registration message as it arrives from ZMQ, through the station's real
// parseRegMessage and ingestRegistration with all four transports enabled.
//
//   * min, obfs4, prefix: the real transports; DTLS: the real station transport built through the
//     export shim around a REAL dtls.Listener (loopback, random port instead of the fixed 41245) and
//     the REAL DNAT (export shim; /dev/null stands in for the tun device), so that Connect, the
//     certificate derivation from the client's secret and the gopacket serialisation of the
//     client-supplied source address all run
//   * liveness stub (a fixed 1/16 of the phantoms is "live"), kit.FakeRedis as the detector channel,
//     an in-process HTTP endpoint as the share-over-API peer, a resolver that fails at once
//   * every registration that parses is also rendered (String, IDString, GenerateC2SWrapper), looked
//     up and marked active the way the connection handler does; the expiry sweep runs every 4096 cases
//
// Oracle: process survival (panics in the calling goroutine are recovered per case and reported with
// the input; panics in the goroutines ingest starts kill the process and are reported by the
// orchestrator with the in-flight inputs from the flight recorder) + the per-input watchdog.

import (
	"context"
	"errors"
	"hash/fnv"
	"io"
	"math/rand"
	"net"
	"net/http"
	"net/http/httptest"
	"os"
	"strings"
	"sync"
	"sync/atomic"
	"testing"
	"time"

	"github.com/go-redis/redis/v8"
	"github.com/refraction-networking/conjure/internal/conjurepath"
	kit "github.com/refraction-networking/conjure/internal/verifkit"
	"github.com/refraction-networking/conjure/pkg/dtls"
	"github.com/refraction-networking/conjure/pkg/dtls/dnat"
	"github.com/refraction-networking/conjure/pkg/station/log"
	cdtls "github.com/refraction-networking/conjure/pkg/transports/connecting/dtls"
	"github.com/refraction-networking/conjure/pkg/transports/wrapping/min"
	"github.com/refraction-networking/conjure/pkg/transports/wrapping/obfs4"
	"github.com/refraction-networking/conjure/pkg/transports/wrapping/prefix"
	pb "github.com/refraction-networking/conjure/proto"
)

const verifC11LibEntry = "station.parseRegMessage+ingestRegistration"

type verifC11Live struct{}

func (verifC11Live) PhantomIsLive(addr string, port uint16) (bool, error) {
	h := fnv.New32a()
	h.Write([]byte(addr))
	if (h.Sum32()+uint32(port))%16 == 0 {
		return true, errors.New("verif: phantom answered")
	}
	return false, nil
}
func (verifC11Live) PrintAndReset(*log.Logger) {}
func (verifC11Live) PrintStats(*log.Logger)    {}
func (verifC11Live) Reset()                    {}

// verifC11ConnStats stands in for the application's connection statistics (main.go passes its
// connManager); a RegConfig without one is an operator-side matter, not this property's.
type verifC11ConnStats struct{ created, timeout, other atomic.Int64 }

func (s *verifC11ConnStats) AddCreatedConnecting(asn uint, cc string, tp string)             { s.created.Add(1) }
func (s *verifC11ConnStats) AddCreatedToSuccessfulConnecting(asn uint, cc string, tp string) {}
func (s *verifC11ConnStats) AddCreatedToTimeoutConnecting(asn uint, cc string, tp string)    { s.timeout.Add(1) }
func (s *verifC11ConnStats) AddSuccessfulToDiscardedConnecting(asn uint, cc string, tp string) {
}
func (s *verifC11ConnStats) AddOtherFailConnecting(asn uint, cc string, tp string) { s.other.Add(1) }

type verifC11Lib struct {
	cstats  verifC11ConnStats
	rm      *RegistrationManager
	redis   *kit.FakeRedis
	share   *httptest.Server
	shared  atomic.Int64
	pubs    atomic.Int64
	n       atomic.Int64
	sweepMu sync.Mutex
}

func verifC11LibSetup(t testing.TB) *verifC11Lib {
	h := &verifC11Lib{}
	os.Setenv("PHANTOM_SUBNET_LOCATION", conjurepath.Root+"/pkg/station/lib/test/phantom_subnets.toml")
	// everything the station logs is formatted (most verbose level) and thrown away
	if devnull, err := os.OpenFile(os.DevNull, os.O_WRONLY, 0); err == nil {
		os.Stdout = devnull
	}
	log.SetLevel(log.TraceLevel)
	net.DefaultResolver = &net.Resolver{PreferGo: true, Dial: func(ctx context.Context, network, address string) (net.Conn, error) {
		return nil, errors.New("verif: no DNS in this harness")
	}}
	fr, err := kit.NewFakeRedis("127.0.0.1:0")
	if err != nil {
		t.Fatal(err)
	}
	h.redis = fr
	once.Do(func() {})
	client = redis.NewClient(&redis.Options{Addr: fr.Addr(), PoolSize: 64})
	h.share = httptest.NewServer(http.HandlerFunc(func(w http.ResponseWriter, r *http.Request) {
		io.Copy(io.Discard, r.Body)
		h.shared.Add(1)
		w.WriteHeader(http.StatusNoContent)
	}))

	conf := &RegConfig{EnableIPv4: true, EnableIPv6: true,
		CovertBlocklistSubnets: []string{"10.0.0.0/8", "127.0.0.0/8", "::1/128"},
		CovertBlocklistDomains: []string{".*blocked\\.example$", "^localhost$"},
		PhantomBlocklist:       []string{"192.122.190.0/29"},
		EnableShareOverAPI:     true, PreshareEndpoint: h.share.URL + "/register", ConnectingStats: &h.cstats}
	conf.ParseBlocklists()
	rm := NewRegistrationManager(conf)
	if rm == nil {
		t.Fatal("nil registration manager")
	}
	rm.Logger = log.New(io.Discard, "[REG] ", 0)
	rm.LivenessTester = verifC11Live{}
	var key [32]byte
	kit.Rand("c11-station-key").Read(key[:])
	pt, err := prefix.Default([][32]byte{key})
	if err != nil {
		t.Fatal(err)
	}
	nop := func(*net.IP) {}
	ln, err := dtls.Listen("udp", &net.UDPAddr{IP: net.IPv4(127, 0, 0, 1), Port: 0}, &dtls.Config{LogAuthFail: nop, LogOther: nop})
	if err != nil {
		t.Fatalf("dtls listener: %v", err)
	}
	tun, err := os.OpenFile(os.DevNull, os.O_RDWR, 0)
	if err != nil {
		t.Fatal(err)
	}
	dt := cdtls.VerifNewTransport(ln, dnat.VerifC11NewDNAT(tun))
	for tt, tr := range map[pb.TransportType]Transport{
		pb.TransportType_Min: min.Transport{}, pb.TransportType_Obfs4: obfs4.Transport{}, pb.TransportType_Prefix: pt, pb.TransportType_DTLS: dt,
	} {
		if err := rm.AddTransport(tt, tr); err != nil {
			t.Fatal(err)
		}
	}
	if len(rm.GetConnectingTransports()) != 1 || len(rm.GetWrappingTransports()) != 3 {
		t.Fatal("transports not registered as expected")
	}
	h.rm = rm
	return h
}

func (h *verifC11Lib) verifExec(c *kit.C11Case) string {
	rm := h.rm
	regs, err := rm.parseRegMessage(c.In)
	if err != nil {
		if strings.HasPrefix(err.Error(), "proto:") {
			return "unmarshal-error"
		}
		return "registration-refused"
	}
	out := "no-registration"
	for _, reg := range regs {
		if reg == nil {
			continue
		}
		out = "dropped"
		_ = reg.String()
		_ = reg.IDString()
		_ = reg.GetRegistrationAddress()
		if w := reg.GenerateC2SWrapper(); w != nil {
			_ = kit.C11MarshalLoose(w)
		}
		rm.ingestRegistration(reg)
		if reg.Valid {
			out = "admitted:" + reg.Transport.String()
			// what the connection handler does with an admitted registration
			_ = rm.CountRegistrations(reg.PhantomIp)
			for _, r := range rm.GetRegistrations(reg.PhantomIp) {
				_ = r.TransportType()
				_ = r.TransportParams()
			}
			rm.MarkActive(reg)
			if tp := reg.TransportPtr; tp != nil {
				_ = (*tp).ParamStrings(reg.TransportParams())
			}
		}
	}
	if n := h.n.Add(1); n%4096 == 0 && h.sweepMu.TryLock() {
		rm.VerifBackdate(7 * time.Hour)
		rm.RemoveOldRegistrations()
		h.pubs.Add(int64(h.redis.Len()))
		h.redis.Reset()
		h.sweepMu.Unlock()
	}
	return out
}

func verifC11LibGen(r *rand.Rand, idx int) kit.C11Case { return kit.C11WrapperInput(r, false) }

func TestVerifC11Lib(t *testing.T) {
	rec := kit.NewRec("C11", "station-ingest")
	defer rec.Close()
	h := verifC11LibSetup(t)
	kit.C11Drive(rec, kit.C11Entry{Name: verifC11LibEntry, N: kit.Tier(40000, 1000000), Workers: 8, Budget: 40 * time.Second,
		Gen: verifC11LibGen, Exec: h.verifExec, SampleEvery: 5000})
	// panics in the goroutines ingest started would kill the process: wait until they are all gone
	if left := kit.WaitNoGoroutineIn(90*time.Second, "lib.tryShareRegistrationOverAPI", "lib.handleConnectingTpReg", "dtls.(*Transport).Connect"); left != nil {
		rec.Inconclusive("goroutines started by ingest still running 90 s after the last case", map[string]interface{}{"count": len(left), "first": left[0].Raw})
	}
	rec.Count("detector_publications", int(h.pubs.Load())+h.redis.Len())
	rec.Count("shared_over_api", int(h.shared.Load()))
	rec.Count("dtls_connect_attempts", int(h.cstats.created.Load()))
	rec.Count("dtls_connect_timeouts", int(h.cstats.timeout.Load()))
	rec.Count("dtls_connect_other_failures", int(h.cstats.other.Load()))
	regs, recs := h.rm.VerifTotals()
	rec.Count("registrations_tracked_at_end", regs)
	rec.Count("timeout_records_at_end", recs)
}

func FuzzVerifC11Lib(f *testing.F) {
	h := verifC11LibSetup(f)
	for _, s := range kit.C11Seeds(verifC11LibEntry, 300, verifC11LibGen) {
		f.Add(s)
	}
	f.Fuzz(func(t *testing.T, b []byte) {
		c := &kit.C11Case{In: b, Kind: "fuzz"}
		if p := kit.C11FuzzOne(verifC11LibEntry, b, func() { h.verifExec(c) }); p != nil && os.Getenv("VERIF_C11_FUZZ_OUT") == "" {
			t.Fatalf("panic in %s: %s\n%v", p.Frame, p.Val, p.Stack)
		}
	})
}
