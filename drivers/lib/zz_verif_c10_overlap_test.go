//go:build verif

package lib

// C10 – the shutdown Clear while announcements are in flight.
//
// Connection handlers are not waited for at shutdown (cmd/application/main.go: cancel(); wg.Wait() covers only the
// ingest pipeline; then the deferred regManager.Cleanup()), and an ingest worker may still be finishing a registration
// (see zz_verif_c10_busy_test.go).  So the Clear of Cleanup() is published WHILE MarkActive (Update) and
// ingestRegistration (New) publish.  The statement is about every published message, whatever else is being
// published at the same moment: each must parse, a New / Update must carry the fields of the registration it was
// published for, and the Clear must be a Clear.
//
// Workload: per launch a manager of its own with registrations that were validated and announced sequentially
// (calibration: one New each, one Update per MarkActive); then handler goroutines call rm.MarkActive on them in a
// loop, ingest goroutines push fresh registrations through parseRegMessage + ingestRegistration, and the main
// goroutine calls rm.Cleanup() (the exported call main.go defers; it keeps no state) `clears` times.
// Oracle (on what the stand-in Redis received, no timing involved):
//   - every payload decodes as a StationToDetector whose operation is New, Update or Clear;
//   - a New / Update equals (phantom, registrant, destination port, protocol, lifetime 10 min / 6 h) one of the
//     registrations that were being announced;
//   - the numbers add up: one Update per MarkActive call, one Clear per Cleanup call, one New per registration
//     that ingestRegistration left validated.

import (
	"fmt"
	"sync"
	"sync/atomic"
	"testing"
	"time"

	"google.golang.org/protobuf/proto"

	kit "github.com/refraction-networking/conjure/internal/verifkit"
	pb "github.com/refraction-networking/conjure/proto"
)

type c10OvTuple struct {
	phantom, client string
	port            uint32
	proto           pb.IPProto
}

func c10OvTupleOf(reg *DecoyRegistration) c10OvTuple {
	return c10OvTuple{reg.PhantomIp.String(), reg.registrationAddr.String(), uint32(reg.GetDstPort()), reg.PhantomProto}
}

func TestVerifC10ShutdownOverlap(t *testing.T) {
	rec := kit.NewRec("C10", "shutdown-overlap")
	defer rec.Close()

	_, fr := c10NewStation(t)
	defer fr.Close()

	rng := kit.Rand("c10-shutdown-overlap")
	ncase := 0
	newMsg := func() []byte {
		for {
			ncase++
			var cs c10Case
			cs.gen_(rng, ncase)
			if cs.tr == "dtls" { // the DTLS transport starts goroutines of its own per registration
				continue
			}
			cs.rr, cs.ovclass = nil, "none"
			msg, err := cs.wrapper()
			if err != nil {
				t.Fatalf("infrastructure: marshal: %v", err)
			}
			return msg
		}
	}
	const newNS, usedNS = uint64(10 * time.Minute), uint64(6 * time.Hour)

	launches := kit.Tier(12, 60)
	const nregs, handlers, ingesters, clears, perIngester = 6, 3, 2, 40, 12
	for ln := 0; ln < launches; ln++ {
		desc := fmt.Sprintf("shutdown-overlap#%d regs=%d handlers=%d ingesters=%d cleanup-calls=%d", ln, nregs, handlers, ingesters, clears)
		rec.Case(desc)
		rm := c10NewManager(t)
		tuples := map[c10OvTuple]string{}
		// ---- calibration, sequential: registrations that are announced once when ingested and once per MarkActive
		var regs []*DecoyRegistration
		for tries := 0; len(regs) < nregs && tries < 40*nregs; tries++ {
			parsed, err := rm.parseRegMessage(newMsg())
			if err != nil || len(parsed) != 1 || parsed[0] == nil {
				continue
			}
			reg := parsed[0]
			fr.Reset()
			rm.ingestRegistration(reg)
			if fr.Len() != 1 || !reg.Valid {
				if (fr.Len() > 0) != reg.Valid {
					rec.Inconclusive("shutdown-overlap: announced and validated disagree in the sequential calibration", desc)
				}
				continue
			}
			fr.Reset()
			rm.MarkActive(reg)
			if fr.Len() != 1 {
				continue
			}
			regs = append(regs, reg)
			tuples[c10OvTupleOf(reg)] = fmt.Sprintf("calibrated#%d", len(regs))
		}
		if len(regs) < nregs {
			rec.Inconclusive("shutdown-overlap: not enough registrations that are announced", desc)
			continue
		}
		fr.Reset()

		// ---- the overlap
		var marks, stop int64
		var wg sync.WaitGroup
		var imu sync.Mutex
		var ingested []*DecoyRegistration
		msgs := make([][][]byte, ingesters)
		for g := range msgs {
			for i := 0; i < perIngester; i++ {
				msgs[g] = append(msgs[g], newMsg())
			}
		}
		for h := 0; h < handlers; h++ {
			wg.Add(1)
			go func(h int) {
				defer wg.Done()
				for i := h; atomic.LoadInt64(&stop) == 0; i++ {
					rm.MarkActive(regs[i%len(regs)])
					atomic.AddInt64(&marks, 1)
				}
			}(h)
		}
		for g := 0; g < ingesters; g++ {
			wg.Add(1)
			go func(g int) {
				defer wg.Done()
				for _, m := range msgs[g] {
					parsed, err := rm.parseRegMessage(m)
					if err != nil {
						continue
					}
					for _, reg := range parsed {
						if reg == nil {
							continue
						}
						rm.ingestRegistration(reg)
						imu.Lock()
						ingested = append(ingested, reg)
						imu.Unlock()
					}
				}
			}(g)
		}
		for c := 0; c < clears; c++ {
			// a logical pacing only: at least one more announcement has been made since the last Clear
			seen := atomic.LoadInt64(&marks)
			for spins := 0; atomic.LoadInt64(&marks) == seen && spins < 1000; spins++ {
				time.Sleep(5 * time.Microsecond)
			}
			rm.Cleanup()
		}
		atomic.StoreInt64(&stop, 1)
		wg.Wait()
		pubs := fr.Pubs()
		fr.Reset()

		wantNew := 0
		for _, reg := range ingested {
			if reg.Valid {
				wantNew++
				tuples[c10OvTupleOf(reg)] = "ingested-during-overlap"
			}
		}
		wantUpd := int(atomic.LoadInt64(&marks))
		var nNew, nUpd, nClr, bad int
		var firstBad map[string]interface{}
		flag := func(i int, p kit.Pub, why string, m *pb.StationToDetector) {
			bad++
			if firstBad == nil {
				firstBad = map[string]interface{}{"index": i, "why": why, "payload_hex": kit.HexN(p.Payload, 160), "payload_len": len(p.Payload)}
				if m != nil {
					firstBad["decoded"] = m.String()
				}
			}
		}
		for i, p := range pubs {
			rec.Count("overlap.messages", 1)
			m := &pb.StationToDetector{}
			if err := proto.Unmarshal(p.Payload, m); err != nil {
				flag(i, p, "does not parse: "+err.Error(), nil)
				continue
			}
			switch m.GetOperation() {
			case pb.StationOperations_Clear:
				nClr++
			case pb.StationOperations_New, pb.StationOperations_Update:
				want := newNS
				if m.GetOperation() == pb.StationOperations_Update {
					nUpd++
					want = usedNS
				} else {
					nNew++
				}
				tp := c10OvTuple{m.GetPhantomIp(), m.GetClientIp(), m.GetDstPort(), m.GetProto()}
				if _, ok := tuples[tp]; !ok || m.PhantomIp == nil || m.ClientIp == nil || m.DstPort == nil {
					flag(i, p, "matches none of the registrations that were being announced", m)
				} else if m.GetTimeoutNs() != want {
					flag(i, p, "lifetime is not the station's for that state", m)
				}
			default:
				flag(i, p, "operation is neither New, Update nor Clear", m)
			}
		}
		rec.Count("overlap.launches", 1)
		rec.Count("overlap.updates", nUpd)
		rec.Count("overlap.clears", nClr)
		rec.Count("overlap.news", nNew)
		rec.Distinct("nontrivial", "overlap", ln)
		detail := map[string]interface{}{"launch": desc, "calls": map[string]int{"MarkActive": wantUpd, "Cleanup": clears, "registrations_validated_by_ingest": wantNew},
			"received": map[string]int{"Update": nUpd, "Clear": nClr, "New": nNew, "total": len(pubs), "malformed_or_not_matching": bad}, "first_bad": firstBad}
		switch {
		case bad > 0:
			rec.Violation("overlap:message-malformed-or-not-the-registration",
				fmt.Sprintf("while Cleanup() published its Clear next to MarkActive / ingestRegistration, %d of %d messages on the detector channel do not parse or do not match a registration", bad, len(pubs)), detail)
		case nClr != clears:
			rec.Violation("overlap:clear-count", fmt.Sprintf("%d Cleanup() calls, %d Clear messages reached the detector channel", clears, nClr), detail)
		case nUpd != wantUpd:
			rec.Violation("overlap:update-count", fmt.Sprintf("%d MarkActive calls on validated registrations, %d Update messages reached the detector channel", wantUpd, nUpd), detail)
		case nNew != wantNew:
			rec.Violation("overlap:new-count", fmt.Sprintf("%d registrations validated by ingest, %d New messages reached the detector channel", wantNew, nNew), detail)
		default:
			if rec.WantSample() && ln < 2 {
				rec.Sample(detail)
			}
		}
	}
}
