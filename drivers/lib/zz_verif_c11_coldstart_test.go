//go:build verif

package lib

// C11 – cold start: the FIRST registrations a freshly started station process sees, arriving at the
// same moment.
//
// The station hands every ZMQ message to one of its ingest workers (default 300 goroutines), so the
// first messages after a (re)start are parsed concurrently while everything that is built lazily on
// first use (per-type caches, sync.Once-less singletons, maps filled on demand) is still cold.  Every
// other C11 stage is ONE long-lived process: it sees that moment once, and with whatever its first few
// cases happen to be.  This stage re-executes its own test binary as a child once per round: every child
// is a fresh process that builds the same station as the ingest stage (real parseRegMessage +
// ingestRegistration, min / obfs4 / prefix / DTLS enabled), prepares its inputs, and then releases G
// goroutines from a barrier; each goroutine pushes its own few registrations (admissible ones of every
// transport with that transport's parameters – Generic, Prefix, DTLS, with and without type URL – and a
// share of the ingest stage's hostile ones) through the entry point.  Inputs are a pure function of
// (seed, round, goroutine, position).
//
// Oracle (from the statement: "never panics"): the child process survives.  A child that dies with a
// Go panic / runtime fatal error ("fatal error: concurrent map writes" is not recoverable) is a
// violation, signature crash:cold-start:<innermost repository frame>, witness = (seed, round) + the
// head of the runtime's report; a panic recovered in a calling goroutine is reported like everywhere
// else (panic:<entry>:<frame>) with the input.  A child that does not finish within 3 minutes is
// killed and recorded as inconclusive (hangs are the per-input watchdog's subject in the long-lived
// stages); any other child failure is an infrastructure ERROR.  Nothing here depends on timing except
// the likelihood of the interleaving: load can only make a round uneventful.

import (
	"bytes"
	"context"
	"encoding/hex"
	"fmt"
	"os"
	"os/exec"
	"runtime"
	"strconv"
	"strings"
	"sync"
	"sync/atomic"
	"testing"
	"time"

	kit "github.com/refraction-networking/conjure/internal/verifkit"
	pb "github.com/refraction-networking/conjure/proto"
)

const verifC11ColdEntry = "station.parseRegMessage+ingestRegistration@cold-start"
const verifC11ColdPerG = 4

func verifC11ColdG() int {
	if v, err := strconv.Atoi(os.Getenv("VERIF_C11_COLD_G")); err == nil && v > 0 {
		return v
	}
	return 24
}

// verifC11ColdCase is case j of goroutine g in round k.  Position j of every goroutine of a round
// carries the same transport (a burst of first registrations of one transport, so that whatever that
// transport builds on first use is reached by all of them at once); the order of the transports
// rotates with the round; the last position is free (any transport, a share of hostile inputs).
func verifC11ColdCase(round, g, j int) kit.C11Case {
	r := kit.C11Rng(fmt.Sprintf("cold-start/%d/%d", round, g), j)
	if j == verifC11ColdPerG-1 && r.Intn(2) == 0 {
		return kit.C11WrapperInput(r, false)
	}
	want := []pb.TransportType{pb.TransportType_Min, pb.TransportType_Prefix, pb.TransportType_DTLS, pb.TransportType_Obfs4}[(j+round)%4]
	w := kit.C11ValidWrapper(r)
	for try := 0; try < 64 && j < verifC11ColdPerG-1 && (w.GetRegistrationPayload().GetTransport() != want || w.GetRegistrationPayload().GetTransportParams() == nil); try++ {
		w = kit.C11ValidWrapper(r)
	}
	k := "admissible:" + w.GetRegistrationPayload().GetTransport().String()
	switch a := w.GetRegistrationPayload().GetTransportParams(); {
	case a == nil:
		k += ":no-params"
	case a.TypeUrl == "":
		k += ":params-without-url"
	default:
		k += ":params"
	}
	return kit.C11Case{In: kit.C11MarshalLoose(w), Kind: k}
}

// TestVerifC11ColdStartChild is the fresh process (it only runs when the parent asks for a round).
func TestVerifC11ColdStartChild(t *testing.T) {
	round, err := strconv.Atoi(os.Getenv("VERIF_C11_COLD_ROUND"))
	if err != nil {
		t.Skip("child of TestVerifC11ColdStart only")
	}
	report := os.Stderr // the setup sends os.Stdout to /dev/null
	h := verifC11LibSetup(t)
	G := verifC11ColdG()
	cases := make([][]kit.C11Case, G)
	for g := range cases {
		for j := 0; j < verifC11ColdPerG; j++ {
			cases[g] = append(cases[g], verifC11ColdCase(round, g, j))
		}
	}
	arrived := make([]atomic.Int64, verifC11ColdPerG)
	var wg sync.WaitGroup
	var mu sync.Mutex
	var lines []string
	start := make(chan struct{})
	for g := 0; g < G; g++ {
		wg.Add(1)
		go func(g int) {
			defer wg.Done()
			var mine []string
			<-start
			for j := range cases[g] {
				c := &cases[g][j]
				// barrier: position j starts in all goroutines at once
				arrived[j].Add(1)
				for arrived[j].Load() < int64(G) {
					runtime.Gosched()
				}
				var out string
				if p := kit.C11Catch(func() { out = h.verifExec(c) }); p != nil {
					mine = append(mine, fmt.Sprintf("VERIF-COLD-PANIC\t%d\t%d\t%s\t%s\t%s\t%s", g, j, p.Frame, hex.EncodeToString(c.In), strings.ReplaceAll(p.Val, "\t", " "), strings.Join(p.Stack, " | ")))
					continue
				}
				mine = append(mine, fmt.Sprintf("VERIF-COLD-CASE\t%s\t%s", c.Kind, out))
			}
			mu.Lock()
			lines = append(lines, mine...)
			mu.Unlock()
		}(g)
	}
	close(start)
	wg.Wait()
	fmt.Fprintf(report, "%s\nVERIF-COLD-OK\t%d\n", strings.Join(lines, "\n"), len(lines))
}

type verifC11ColdResult struct {
	round   int
	out     string
	err     error
	timeout bool
}

func TestVerifC11ColdStart(t *testing.T) {
	if os.Getenv("VERIF_C11_COLD_ROUND") != "" {
		t.Skip("parent only")
	}
	rec := kit.NewRec("C11", "station-cold-start")
	defer rec.Close()
	rounds := kit.Tier(72, 1500)
	par := 3
	G := verifC11ColdG()

	var stop atomic.Bool
	results := make(chan verifC11ColdResult, par)
	var next atomic.Int64
	var wg sync.WaitGroup
	for w := 0; w < par; w++ {
		wg.Add(1)
		go func() {
			defer wg.Done()
			for !stop.Load() {
				k := int(next.Add(1) - 1)
				if k >= rounds {
					return
				}
				ctx, cancel := context.WithTimeout(context.Background(), 3*time.Minute)
				cmd := exec.CommandContext(ctx, os.Args[0], "-test.run", "^TestVerifC11ColdStartChild$", "-test.count", "1", "-test.timeout", "10m")
				cmd.Env = append(os.Environ(), fmt.Sprintf("VERIF_C11_COLD_ROUND=%d", k))
				var buf bytes.Buffer
				cmd.Stdout, cmd.Stderr = &buf, &buf
				err := cmd.Run()
				to := ctx.Err() != nil
				cancel()
				results <- verifC11ColdResult{round: k, out: buf.String(), err: err, timeout: to}
			}
		}()
	}
	go func() { wg.Wait(); close(results) }()

	sampled := 0
	for res := range results {
		rec.Count("cold_start_processes", 1)
		text := res.out
		desc := map[string]interface{}{"entry": verifC11ColdEntry, "seed": kit.Seed(), "round": res.round, "goroutines": G, "cases_per_goroutine": verifC11ColdPerG,
			"replay": fmt.Sprintf("VERIF_C11_COLD_ROUND=%d <stage binary> -test.run '^TestVerifC11ColdStartChild$' (a fresh process per attempt; the interleaving is the scheduler's)", res.round)}
		// recovered panics (reported by the child with the input)
		ncases := 0
		for _, l := range strings.Split(text, "\n") {
			f := strings.Split(l, "\t")
			switch {
			case f[0] == "VERIF-COLD-CASE" && len(f) == 3:
				ncases++
				rec.Count("evaluations", 1)
				rec.Count("cases["+verifC11ColdEntry+"]", 1)
				rec.Distinct("nontrivial", verifC11ColdEntry, f[1], f[2])
			case f[0] == "VERIF-COLD-PANIC" && len(f) == 7:
				in, _ := hex.DecodeString(f[4])
				w := kit.C11Witness(in)
				w["entry"], w["round"], w["goroutine"], w["position"], w["seed"], w["panic"], w["stack"] = verifC11ColdEntry, res.round, f[1], f[2], kit.Seed(), f[5], f[6]
				rec.Violation("panic:"+verifC11ColdEntry+":"+f[3], verifC11ColdEntry+" panicked on externally supplied bytes: "+f[5], w)
			}
		}
		crashAt := -1 // the runtime's report starts a line of its own
		for _, m := range []string{"fatal error:", "panic:", "SIGSEGV", "SIGBUS", "SIGILL", "SIGFPE", "SIGABRT"} {
			i := strings.Index("\n"+text, "\n"+m)
			if i >= 0 && (crashAt < 0 || i < crashAt) {
				crashAt = i
			}
		}
		switch {
		case res.timeout:
			desc["output_tail"] = verifC11Tail(text, 3000)
			rec.Inconclusive("a cold-start child process did not finish within 3 minutes and was killed (hangs are decided by the per-input watchdog of the long-lived stages)", desc)
		case crashAt >= 0:
			head := text[crashAt:]
			frame := kit.C11FrameFromTrace(head)
			first := strings.SplitN(head, "\n", 2)[0]
			if len(head) > 6000 {
				head = head[:6000]
			}
			desc["runtime_report_head"] = head
			desc["cases_completed_before_the_crash"] = ncases
			rec.Violation("crash:cold-start:"+frame, "a freshly started station process died while its first registrations were being parsed concurrently: "+first, desc)
			stop.Store(true)
		case res.err != nil || !strings.Contains(text, "VERIF-COLD-OK\t"):
			if !stop.Load() {
				t.Errorf("cold-start child of round %d failed without a Go crash report (infrastructure): %v\n%s", res.round, res.err, verifC11Tail(text, 3000))
				stop.Store(true)
			}
		default:
			if sampled < 2 && ncases > 0 {
				sampled++
				rec.Sample(map[string]interface{}{"entry": verifC11ColdEntry, "round": res.round, "goroutines": G, "cases_completed": ncases, "outcome": "process survived"})
			}
		}
	}
}

func verifC11Tail(s string, n int) string {
	if len(s) > n {
		return s[len(s)-n:]
	}
	return s
}
