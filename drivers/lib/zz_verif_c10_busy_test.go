//go:build verif

package lib

// C10 – the shutdown Clear while ingest workers are busy.
//
// "The clear request the station sends when it shuts down is … one the detector acts on, so a restarted station does
// not inherit diversions it knows nothing about."  What the detector is left with after a station launch is the
// result of EVERYTHING that launch published, in the order it arrived.  This driver replays the shutdown order of
// cmd/application/main.go (cancel(); wait for HandleRegUpdates; Cleanup()) while k ingest workers are inside the
// liveness scan of a registration (rm.LivenessTester is a recorder whose scans last until the harness ends them – a
// scan / covert lookup that takes seconds is ordinary) and writes every message the launch published, in the order
// the stand-in Redis received them, to $VERIF_OUT/c10_busy_records.jsonl.  The orchestrator feeds them to the
// detector's own code; after the last message of the launch the detector's session map must be empty.
//
// When do the scans end?  At a LOGICAL point, never after a duration that decides anything:
//   mode "scan-ends-during-wait": right after cancel() (HandleRegUpdates is still waiting or about to);
//   mode "scan-outlasts-wait":    the scans last longer than the harness is prepared to watch (holdFor).  If by then
//                                 HandleRegUpdates has returned although workers are still scanning, the harness does
//                                 what main() does next – Cleanup() – sees the Clear at the stand-in Redis and only then
//                                 ends the scans (the process is still on its way out).  If HandleRegUpdates has not
//                                 returned, main() is still in wg.Wait(): the scans end, HandleRegUpdates returns,
//                                 Cleanup() follows.
// All "scan-outlasts-wait" launches (own managers, one shared detector channel as in the package) share ONE holdFor wait;
// everything after it is sequential per launch, and the workers of the launches not yet handled are still inside
// their scans, so what arrives at the stand-in Redis during a launch's window belongs to that launch.
// Machine load can only make a launch wait longer before it is looked at; the verdict is on message order alone.

import (
	"bufio"
	"context"
	"encoding/hex"
	"encoding/json"
	"fmt"
	"os"
	"path/filepath"
	"sync"
	"sync/atomic"
	"testing"
	"time"

	"google.golang.org/protobuf/proto"

	kit "github.com/refraction-networking/conjure/internal/verifkit"
	"github.com/refraction-networking/conjure/pkg/station/log"
	pb "github.com/refraction-networking/conjure/proto"
)

// c10SlowLive is the liveness stand-in: a call log, and scans that last until the harness ends them.
type c10SlowLive struct {
	mu      sync.Mutex
	open    bool          // scans return at once
	calls   int32         // scans asked for, whatever the mode
	end     chan struct{} // closed when the running scans are to end
	entered chan string   // call log: one entry per scan started while !open
	inScan  int32
}

func c10NewSlowLive() *c10SlowLive {
	return &c10SlowLive{open: true, end: make(chan struct{}), entered: make(chan string, 256)}
}

func (s *c10SlowLive) PhantomIsLive(addr string, port uint16) (bool, error) {
	atomic.AddInt32(&s.calls, 1)
	s.mu.Lock()
	open, end := s.open, s.end
	s.mu.Unlock()
	if open {
		return false, nil
	}
	atomic.AddInt32(&s.inScan, 1)
	s.entered <- fmt.Sprintf("%s:%d", addr, port)
	<-end
	atomic.AddInt32(&s.inScan, -1)
	return false, nil
}
func (s *c10SlowLive) setSlow() {
	s.mu.Lock()
	s.open, s.end = false, make(chan struct{})
	s.mu.Unlock()
}
func (s *c10SlowLive) endScans() {
	s.mu.Lock()
	if !s.open {
		s.open = true
		close(s.end)
	}
	s.mu.Unlock()
}
func (*c10SlowLive) PrintAndReset(*log.Logger) {}
func (*c10SlowLive) PrintStats(*log.Logger)    {}
func (*c10SlowLive) Reset()                    {}

type c10BusyLaunch struct {
	n                  int
	workers, busy, pre int
	queued             int
	mode               string
	rm                 *RegistrationManager
	live               *c10SlowLive
	cancel             context.CancelFunc
	done               chan struct{} // closed when HandleRegUpdates has returned (main's wg.Wait() is over)
	pubs               []kit.Pub     // everything this launch published, in arrival order
	scans              []string
	returnedWhileBusy  bool
	ok                 bool
}

func (l *c10BusyLaunch) String() string {
	return fmt.Sprintf("busy-shutdown#%d workers=%d scanning-at-stop=%d queued=%d announced-before=%d mode=%s", l.n, l.workers, l.busy, l.queued, l.pre, l.mode)
}

func TestVerifC10ShutdownBusy(t *testing.T) {
	rec := kit.NewRec("C10", "busy-shutdown")
	defer rec.Close()

	_, fr := c10NewStation(t)
	defer fr.Close()

	outPath := filepath.Join(kit.OutDir(), "c10_busy_records.jsonl")
	outF, err := os.Create(outPath)
	if err != nil {
		t.Fatal(err)
	}
	w := bufio.NewWriterSize(outF, 1<<20)
	enc := json.NewEncoder(w)
	emit := func(r *c10Rec) {
		if err := enc.Encode(r); err != nil {
			t.Fatalf("infrastructure: writing %s: %v", outPath, err)
		}
	}
	defer func() {
		w.Flush()
		outF.Close()
	}()

	rng := kit.Rand("c10-busy-shutdown")
	ncase := 0
	// a registration that needs a liveness scan: IPv4 phantom, not pre-scanned, a wrapping transport (no goroutine
	// of its own), plain v4 registrant, no registrar override
	// (a candidate is tried on a manager of its own first: it must reach the scan and be announced; its secret is
	// fresh, so the launch's manager has never seen it)
	probe := c10NewManager(t)
	probeLive := c10NewSlowLive()
	probe.LivenessTester = probeLive
	var newCase func() *c10Case
	var take func(l *c10BusyLaunch)
	goodMsg := func(l *c10BusyLaunch) []byte {
		// nothing of the launch is in flight when this is called (its busy workers are inside their scans, the
		// synchronous deliveries have returned): what has arrived so far is the launch's, what arrives next the probe's
		take(l)
		defer fr.Reset()
		for tries := 0; tries < 200; tries++ {
			msg, err := newCase().wrapper()
			if err != nil {
				t.Fatalf("infrastructure: marshal: %v", err)
			}
			calls, before := atomic.LoadInt32(&probeLive.calls), fr.Len()
			regs, err := probe.parseRegMessage(msg)
			if err != nil || len(regs) != 1 || regs[0] == nil {
				continue
			}
			probe.ingestRegistration(regs[0])
			if atomic.LoadInt32(&probeLive.calls) == calls+1 && fr.Len() == before+1 {
				return msg
			}
		}
		t.Fatalf("infrastructure: no registration that is scanned and announced in 200 attempts")
		return nil
	}
	newCase = func() *c10Case {
		for {
			ncase++
			var cs c10Case
			cs.gen_(rng, ncase)
			if cs.tr == "dtls" {
				continue
			}
			cs.gen = []uint32{957, 2003}[rng.Intn(2)]
			cs.v4s, cs.v6s = true, false
			cs.cclass, cs.registr = "v4", c10RandV4(rng)
			cs.rr, cs.ovclass = nil, "none"
			return &cs
		}
	}
	// take: everything that arrived at the stand-in Redis since the last take
	take = func(l *c10BusyLaunch) {
		l.pubs = append(l.pubs, fr.Pubs()...)
		fr.Reset()
	}
	const watchdog = 60 * time.Second
	waitFor := func(cond func() bool) bool {
		deadline := time.Now().Add(watchdog)
		sleep := 100 * time.Microsecond
		for !cond() {
			if time.Now().After(deadline) {
				return false
			}
			time.Sleep(sleep)
			if sleep < 5*time.Millisecond {
				sleep *= 2
			}
		}
		return true
	}

	// start brings one launch to the point where the stop request has been made (cancel() called) with `busy`
	// workers inside a scan.
	start := func(l *c10BusyLaunch) bool {
		rec.Case(l.String())
		l.rm = c10NewManager(t)
		l.live = c10NewSlowLive()
		l.rm.LivenessTester = l.live
		l.rm.IngestWorkerCount = l.workers
		fr.Reset()
		// registrations announced earlier in this launch (the Clear has something to clear)
		for i := 0; i < l.pre; i++ {
			for tries := 0; tries < 20; tries++ {
				msg := goodMsg(l)
				before := fr.Len()
				regs, _ := l.rm.parseRegMessage(msg)
				for _, reg := range regs {
					if reg != nil {
						l.rm.ingestRegistration(reg)
					}
				}
				if fr.Len() > before {
					break
				}
			}
		}
		take(l)
		if len(l.pubs) < l.pre {
			rec.Inconclusive("busy-shutdown: the registrations meant to be announced before the stop were not", l.String())
			return false
		}
		ctx, cancel := context.WithCancel(context.Background())
		l.cancel = cancel
		regChan := make(chan interface{}, 4)
		var wg sync.WaitGroup
		wg.Add(1)
		go l.rm.HandleRegUpdates(ctx, regChan, &wg)
		l.done = make(chan struct{})
		go func() { wg.Wait(); close(l.done) }()

		l.live.setSlow()
		// one registration per worker-to-be-busy; each must have entered its scan before the next is offered.  A
		// message the distributor dropped (no worker was waiting yet, buffer full) is offered again.
		for len(l.scans) < l.busy {
			msg := goodMsg(l)
			dropped := atomic.LoadInt64(&l.rm.totalDroppedMessages)
			regChan <- msg
			var scan string
			if !waitFor(func() bool {
				select {
				case scan = <-l.live.entered:
					return true
				default:
					return atomic.LoadInt64(&l.rm.totalDroppedMessages) > dropped
				}
			}) {
				rec.Inconclusive("busy-shutdown: a registration offered to the ingest pipeline neither reached its liveness scan nor was dropped", l.String())
				cancel()
				l.live.endScans()
				return false
			}
			if scan == "" {
				rec.Count("busy.offers_dropped_by_distributor_and_repeated", 1)
				time.Sleep(200 * time.Microsecond)
				continue
			}
			l.scans = append(l.scans, scan)
		}
		// more registrations than workers: they wait in the pipeline's buffer (if it has room)
		for i := 0; i < l.queued; i++ {
			msg := goodMsg(l)
			seen := atomic.LoadInt64(&l.rm.totalIngestMessages)
			regChan <- msg
			if !waitFor(func() bool { return atomic.LoadInt64(&l.rm.totalIngestMessages) > seen }) {
				rec.Inconclusive("busy-shutdown: the distributor did not take a message", l.String())
				cancel()
				l.live.endScans()
				return false
			}
		}
		if n := int(atomic.LoadInt32(&l.live.inScan)); n != l.busy {
			rec.Inconclusive("busy-shutdown: unexpected number of scans in progress", fmt.Sprint(l.String(), " in progress: ", n))
			cancel()
			l.live.endScans()
			return false
		}
		take(l) // nothing is expected here (no scan has ended); kept in order if something was published
		// ---- the stop request: main() does cancel(); wg.Wait(); and then the deferred regManager.Cleanup()
		cancel()
		return true
	}
	// finish: the rest of main()'s sequence for a launch whose stop request has been made
	finish := func(l *c10BusyLaunch) {
		returned := func() bool {
			select {
			case <-l.done:
				return true
			default:
				return false
			}
		}
		busyNow := int(atomic.LoadInt32(&l.live.inScan))
		if returned() && busyNow > 0 {
			// main()'s wg.Wait() is over while workers are still scanning: the deferred Cleanup() runs now
			l.returnedWhileBusy = true
			rec.Count("busy.launches_pipeline_returned_while_workers_were_scanning", 1)
			before := fr.Len()
			l.rm.Cleanup()
			if fr.Len() == before {
				rec.Count("busy.cleanup_published_nothing", 1)
			}
			take(l)
			l.live.endScans() // the scans end while the process is on its way out
		} else {
			// main() is still in wg.Wait() (or nobody is scanning any more): the scans end, the pipeline winds down
			l.live.endScans()
			select {
			case <-l.done:
			case <-time.After(watchdog):
				rec.Inconclusive("busy-shutdown: HandleRegUpdates did not return within 60 s after cancel although every scan has ended", l.String())
				return
			}
			take(l)
			l.rm.Cleanup()
			take(l)
		}
		// whatever the workers of this launch still publish: wait until none of them is left (all other launches'
		// busy workers sit in their scans, below ingestRegistration as well – so count, do not test for zero)
		if !waitFor(func() bool { return atomic.LoadInt32(&l.live.inScan) == 0 }) {
			rec.Inconclusive("busy-shutdown: scans did not end", l.String())
			return
		}
		l.ok = true
	}
	// settle: every worker of the launches handled so far must be gone (what it was going to publish has been
	// published) before the launch's record is closed; `others` workers of launches not yet handled sit in their scans
	settle := func(l *c10BusyLaunch, others int) bool {
		if !l.ok {
			return false
		}
		if !waitFor(func() bool { return len(kit.InFunc(kit.Stacks(), "startIngestThread")) <= others }) {
			rec.Inconclusive("busy-shutdown: ingest workers still around after the launch ended", l.String())
			return false
		}
		take(l)
		return true
	}

	var nextID int
	write := func(l *c10BusyLaunch) {
		emit(&c10Rec{T: "R"})
		for _, p := range l.pubs {
			nextID++
			r := c10Rec{Kind: "launch-msg", Case: l.String(), ID: nextID, Raw: hex.EncodeToString(p.Payload), Chan: p.Channel}
			m := &pb.StationToDetector{}
			if err := proto.Unmarshal(p.Payload, m); err != nil {
				r.T = "U"
				emit(&r)
				continue
			}
			r.T = "M"
			r.Phantom, r.Client, r.Timeout, r.DPort, r.SPort = m.PhantomIp, m.ClientIp, m.TimeoutNs, m.DstPort, m.SrcPort
			if m.Operation != nil {
				v := int32(*m.Operation)
				r.Op = &v
			}
			if m.Proto != nil {
				v := int32(*m.Proto)
				r.Proto = &v
			}
			emit(&r)
		}
		nextID++
		emit(&c10Rec{T: "E", ID: nextID, Kind: "launch-end", Case: l.String(), Fam: l.mode, Reg: l.busy, Seq: l.workers,
			Ops: fmt.Sprintf("scans=%v pipeline-returned-while-workers-were-scanning=%t", l.scans, l.returnedWhileBusy), Stale: l.returnedWhileBusy})
		rec.Count("busy.launches_recorded", 1)
		rec.Count("busy.messages_recorded", len(l.pubs))
		rec.Distinct("busy.shapes", l.workers, l.busy, l.queued, l.pre, l.mode)
	}

	// ---- (a) the scans end while main() waits: sequential, no waiting
	n := 0
	for _, sh := range [][4]int{{3, 1, 0, 2}, {3, 3, 0, 1}, {10, 10, 1, 1}, {4, 2, 0, 0}} {
		n++
		l := &c10BusyLaunch{n: n, workers: sh[0], busy: sh[1], queued: sh[2], pre: sh[3], mode: "scan-ends-during-wait"}
		if !start(l) {
			continue
		}
		finish(l)
		if settle(l, 0) {
			write(l)
		}
	}

	// ---- (b) the scans outlast what the harness is prepared to watch: one shared wait
	holdFor := time.Duration(kit.Tier(7, 12)) * time.Second
	shapes := [][4]int{{3, 1, 0, 2}, {3, 3, 0, 1}, {10, 10, 1, 2}}
	if kit.Thorough() {
		shapes = append(shapes, [][4]int{{4, 2, 0, 0}, {20, 5, 0, 3}, {20, 20, 2, 1}, {1, 1, 0, 1}}...)
	}
	var held []*c10BusyLaunch
	for _, sh := range shapes {
		n++
		l := &c10BusyLaunch{n: n, workers: sh[0], busy: sh[1], queued: sh[2], pre: sh[3], mode: "scan-outlasts-wait"}
		if start(l) {
			held = append(held, l)
		}
	}
	t0 := time.Now()
	for time.Since(t0) < holdFor {
		all := len(held) > 0
		for _, l := range held {
			select {
			case <-l.done:
			default:
				all = false
			}
		}
		if all {
			break // every pipeline has returned; nothing more to watch for
		}
		time.Sleep(20 * time.Millisecond)
	}
	rec.Count("busy.hold_ms", int(time.Since(t0).Milliseconds()))
	stillScanning := 0
	for _, l := range held {
		stillScanning += l.busy
	}
	for _, l := range held {
		finish(l)
		stillScanning -= l.busy
		if settle(l, stillScanning) {
			write(l)
		}
	}
	rec.Note(fmt.Sprintf("records in %s; verdicts are computed by the orchestrator with the detector's own code", filepath.Base(outPath)))
}
