//go:build verif

package lib

// C17 (third sub-workload) – the relay (Proxy / halfPipe) handed connections that offer what a real TCP
// connection offers.  The relay takes any net.Conn and itself looks for more than the net.Conn methods
// (closeConn asserts *net.TCPConn for SetLinger), so the I/O calls of the relay are not only Read / Write /
// Close / SetDeadline: a connection may also offer CloseWrite, CloseRead, SetLinger, SetKeepAlive, SetNoDelay …,
// and package net describes a failure of each of them with BOTH endpoints ("close tcp <phantom>-><client>:
// shutdown: transport endpoint is not connected", "set tcp <phantom>-><client>: setsockopt: …").
//
//   part A (scripted): the client connection is a kit.ScriptConn wrapped (in this file only) with those extra
//     methods; every one that the relay calls is recorded and fails in every error shape, shaped exactly as
//     package net shapes it for that call; client families v4 / v6 / v4-mapped; both tunnel orders (covert ends
//     first, client ends first).
//   part B (real sockets): real loopback TCP connections for client and covert through the real Proxy; the
//     client dials from a distinctive loopback address (127.77.203.113; for IPv6 [::1]:<port>), announced to the
//     offline log monitor with a VERIFNEEDLE line.  Fault patterns: client resets while the upload direction is
//     parked in a write to a covert that does not read and then the covert ends its stream (so the download
//     direction meets a client socket the kernel has already torn down); the mirror image; reset and end of
//     stream at about the same time on either side; both half-closes in either order.
//
// The oracle is the offline grep of the orchestrator (only the CLIENT's address is searched for; phantom, covert
// and station addresses may appear).  Load can only make a fault pattern miss its window, never raise an alarm.

import (
	"errors"
	"fmt"
	"io"
	golog "log"
	"net"
	"os"
	"strings"
	"sync"
	"syscall"
	"testing"
	"time"

	kit "github.com/refraction-networking/conjure/internal/verifkit"
	"github.com/refraction-networking/conjure/pkg/core"
	"github.com/refraction-networking/conjure/pkg/station/log"
	pb "github.com/refraction-networking/conjure/proto"
)

// c17TCPish adds to a scripted conn the methods *net.TCPConn has beyond net.Conn.  Each call is counted; a
// method listed in fail returns the error package net would build for it.
type c17TCPish struct {
	*kit.ScriptConn
	mu    sync.Mutex
	fail  map[string]error
	calls map[string]int
}

func (c *c17TCPish) call(m string) error {
	c.mu.Lock()
	defer c.mu.Unlock()
	c.calls[m]++
	return c.fail[m]
}
func (c *c17TCPish) CloseWrite() error                        { return c.call("CloseWrite") }
func (c *c17TCPish) CloseRead() error                         { return c.call("CloseRead") }
func (c *c17TCPish) SetLinger(sec int) error                  { return c.call("SetLinger") }
func (c *c17TCPish) SetKeepAlive(b bool) error                { return c.call("SetKeepAlive") }
func (c *c17TCPish) SetKeepAlivePeriod(d time.Duration) error { return c.call("SetKeepAlivePeriod") }
func (c *c17TCPish) SetNoDelay(b bool) error                  { return c.call("SetNoDelay") }
func (c *c17TCPish) SetReadBuffer(n int) error                { return c.call("SetReadBuffer") }
func (c *c17TCPish) SetWriteBuffer(n int) error               { return c.call("SetWriteBuffer") }

var c17TCPMethods = []string{"CloseWrite", "CloseRead", "SetLinger", "SetKeepAlive", "SetKeepAlivePeriod", "SetNoDelay", "SetReadBuffer", "SetWriteBuffer"}

// c17NetErr: the error package net returns when method m of a TCP connection fails with cause inner (or errno e).
func c17NetErr(m string, local, remote net.Addr, e syscall.Errno, inner error) error {
	switch m {
	case "CloseWrite", "CloseRead":
		if inner == nil {
			inner = os.NewSyscallError("shutdown", e)
		}
		return &net.OpError{Op: "close", Net: "tcp", Source: local, Addr: remote, Err: inner}
	case "SetReadBuffer", "SetWriteBuffer":
		if inner == nil {
			inner = os.NewSyscallError("setsockopt", e)
		}
		return &net.OpError{Op: "set", Net: "tcp", Source: nil, Addr: local, Err: inner}
	}
	if inner == nil {
		inner = os.NewSyscallError("setsockopt", e)
	}
	return &net.OpError{Op: "set", Net: "tcp", Source: local, Addr: remote, Err: inner}
}

type c17RelayTransport struct{ Transport }

func (c17RelayTransport) ParamStrings(p any) []string { return nil }

func c17RelayReg(covert string, phantom, client net.IP) *DecoyRegistration {
	src := pb.RegistrationSource_API
	var tr Transport = c17RelayTransport{}
	secret := make([]byte, 32)
	for i := range secret {
		secret[i] = 0xC1
	}
	return &DecoyRegistration{
		PhantomIp:          phantom,
		PhantomPort:        443,
		Keys:               &core.ConjureSharedKeys{SharedSecret: secret},
		Covert:             covert,
		Transport:          pb.TransportType_Min,
		TransportPtr:       &tr,
		RegistrationSource: &src,
		registrationAddr:   client,
	}
}

// the logger the connection handler builds for a tunnel: stdout, date + microseconds, the package's default level
func c17RelayLogger(reg *DecoyRegistration) *log.Logger {
	return log.New(os.Stdout, "[MIN] "+reg.IDString()+" ", golog.Ldate|golog.Lmicroseconds)
}

func c17ProxyDone(rec *kit.Rec, desc string, reg *DecoyRegistration, conn net.Conn, onStuck func()) {
	done := make(chan struct{})
	go func() { Proxy(reg, conn, c17RelayLogger(reg)); close(done) }()
	select {
	case <-done:
	case <-time.After(60 * time.Second):
		rec.Inconclusive("Proxy did not return within 60 s; forcing the connections shut", desc)
		if onStuck != nil {
			onStuck()
		}
		conn.Close()
		<-done
	}
}

func TestVerifC17Relay(t *testing.T) {
	rec := kit.NewRec("C17", "relay")
	defer rec.Close()
	n := 3000000

	// ---------------- part A: scripted client conn with the extra methods of a TCP connection ----------------
	clients := []struct{ name, ip, phantom string }{
		{"v4", "203.0.113.77", "192.122.190.120"},
		{"v6", "2001:db8::77:88", "2001:48a8:687f:1::105"},
		{"v4mapped", "::ffff:203.0.113.77", "192.122.190.121"},
	}
	type shape struct {
		name  string
		errno syscall.Errno
		inner error
	}
	shapes := []shape{
		{"ENOTCONN", syscall.ENOTCONN, nil}, {"EPIPE", syscall.EPIPE, nil}, {"ECONNRESET", syscall.ECONNRESET, nil}, {"EINVAL", syscall.EINVAL, nil},
		{"EBADF", syscall.EBADF, nil}, {"ENOBUFS", syscall.ENOBUFS, nil}, {"ENOPROTOOPT", syscall.ENOPROTOOPT, nil}, {"ETIMEDOUT", syscall.ETIMEDOUT, nil},
		{"closed", 0, net.ErrClosed}, {"deadline-exceeded", 0, os.ErrDeadlineExceeded},
	}
	failSets := [][]string{c17TCPMethods, {"CloseWrite"}, {"CloseRead"}, {"SetLinger"}, {"SetKeepAlive", "SetKeepAlivePeriod", "SetNoDelay", "SetReadBuffer", "SetWriteBuffer"}}
	orders := []string{"covert-ends-first", "client-ends-first", "covert-ends-first-silent"}
	ln, err := net.Listen("tcp", "127.0.0.1:0")
	if err != nil {
		t.Fatal(err)
	}
	var covertMode sync.Map // remote addr of the accepted conn is not known in advance: one mode at a time (cases run sequentially)
	covertMode.Store("mode", "covert-ends-first")
	var covertWG sync.WaitGroup
	go func() {
		for {
			c, err := ln.Accept()
			if err != nil {
				return
			}
			m, _ := covertMode.Load("mode")
			covertWG.Add(1)
			go func(c net.Conn, mode string) {
				defer covertWG.Done()
				defer c.Close()
				switch mode {
				case "covert-ends-first":
					c.Write([]byte("covert-reply-0123456789"))
					c.(*net.TCPConn).CloseWrite() // end of the covert's stream; it keeps reading
					io.Copy(io.Discard, c)
				case "covert-ends-first-silent":
					c.(*net.TCPConn).CloseWrite()
					io.Copy(io.Discard, c)
				default: // the client ends first: answer and read to the end of the client's stream
					c.Write([]byte("covert-reply-0123456789"))
					io.Copy(io.Discard, c)
				}
			}(c, m.(string))
		}
	}()
	reps := kit.Tier(1, 20)
	for r := 0; r < reps; r++ {
		for ci, cl := range clients {
			for oi, order := range orders {
				for fi, fs := range failSets {
					for si, sh := range shapes {
						if !kit.Thorough() && fi > 0 && (si+fi+oi+ci)%2 == 1 {
							continue // quick: the single-method fail sets take every second shape (rotating)
						}
						n++
						fmt.Fprintf(os.Stdout, "VERIFCASE %d\n", n)
						fsName := strings.Join(fs, "+")
						if fi == 0 {
							fsName = "all"
						}
						desc := fmt.Sprintf("#%d relay scripted tcp-like client=%s order=%s failing=%s shape=%s", n, cl.name, order, fsName, sh.name)
						rec.Ev("case", map[string]interface{}{"n": n, "desc": desc, "LOG_CLIENT_IP": c17Spell(n)})
						local := kit.TCPAddr(cl.phantom, 443)
						remote := &net.TCPAddr{IP: net.ParseIP(cl.ip), Port: 40000 + n%20000}
						atEnd := kit.EndBlock
						if order == "client-ends-first" {
							atEnd = kit.EndEOF
						}
						sc := kit.NewScriptConn("c17relay", local, remote, []kit.Seg{{Data: []byte("client-hello-0123456789")}}, atEnd)
						sc.MaxBlock = 60 * time.Second
						conn := &c17TCPish{ScriptConn: sc, fail: map[string]error{}, calls: map[string]int{}}
						for _, m := range fs {
							conn.fail[m] = c17NetErr(m, local, remote, sh.errno, sh.inner)
						}
						covertMode.Store("mode", order)
						reg := c17RelayReg(ln.Addr().String(), net.ParseIP(cl.phantom), net.ParseIP(cl.ip))
						c17ProxyDone(rec, desc, reg, conn, nil)
						rec.Count("evaluations", 1)
						conn.mu.Lock()
						for m, k := range conn.calls {
							rec.Count("tcp_method_calls_"+m, k)
						}
						conn.mu.Unlock()
						rec.Distinct("nontrivial", "scripted", cl.name, order, fsName, sh.name)
						if rec.WantSample() {
							rec.Sample(map[string]interface{}{"case": desc, "ops_tail": c17OpsTail(sc), "CloseWrite_would_report": fmt.Sprint(c17NetErr("CloseWrite", local, remote, sh.errno, sh.inner))})
						}
					}
				}
			}
		}
	}
	ln.Close()
	covertWG.Wait()

	// ---------------- part B: real loopback TCP connections for client and covert ----------------
	const clientV4 = "127.77.203.113"
	fmt.Fprintf(os.Stdout, "VERIFNEEDLE %s\n", clientV4)
	// control (no station code involved): what this kernel / package net report for a half-close of a connection whose
	// peer has reset – the fault the patterns below aim at
	if sconn, cconn, err := c17Pair("127.0.0.1:0", clientV4); err == nil {
		cconn.SetLinger(0)
		cconn.Close()
		time.Sleep(30 * time.Millisecond)
		if e := sconn.CloseWrite(); e != nil {
			rec.Count("control_halfclose_after_reset_fails", 1)
			rec.Sample(map[string]interface{}{"control": "CloseWrite after the peer's reset", "what_package_net_reports": strings.ReplaceAll(e.Error(), cconn.LocalAddr().String(), "<client>")})
		} else {
			rec.Note("control: CloseWrite after the peer's reset did not fail on this kernel")
		}
		sconn.Close()
	} else {
		rec.Note("control pair: " + err.Error())
	}
	patterns := []string{"client-rst-while-upload-parked,covert-eof", "covert-rst-while-download-parked,client-eof", "client-rst+covert-eof-at-once", "covert-rst+client-eof-at-once",
		"client-halfclose-then-covert-halfclose", "covert-halfclose-then-client-halfclose", "client-rst+covert-rst"}
	v6Base := 0
	if b, err := os.ReadFile("/proc/sys/net/ipv4/ip_local_port_range"); err == nil {
		var lo, hi int
		if k, _ := fmt.Sscan(string(b), &lo, &hi); k == 2 && lo >= 26000 {
			v6Base = 21000
		}
	}
	if v6Base == 0 {
		rec.Note("real-tcp v6 cases skipped: the local port range does not leave room below it for the station-side listener")
	}
	fams := []struct{ name, listen, bind string }{{"v4", "127.0.0.1:0", clientV4}, {"v6", "[::1]:0", "::1"}}
	for r := 0; r < kit.Tier(2, 12); r++ {
		for _, fam := range fams {
			for _, pat := range patterns {
				n++
				desc := fmt.Sprintf("#%d relay real-tcp client=%s pattern=%s", n, fam.name, pat)
				listen := fam.listen
				if fam.name == "v6" {
					// the needle of a v6 case is "[::1]:<client port>" and stays in force for the rest of the output: the station's
					// own end of a later connection must never coincide with it, so the station side listens below the range the
					// kernel takes client ports from
					if v6Base == 0 {
						continue
					}
					listen = fmt.Sprintf("[::1]:%d", v6Base+n%1000)
				}
				sconn, cconn, err := c17Pair(listen, fam.bind)
				for try := 1; err != nil && fam.name == "v6" && try < 5; try++ { // the port may be taken by another process
					sconn, cconn, err = c17Pair(fmt.Sprintf("[::1]:%d", v6Base+n%1000+try*1000), fam.bind)
				}
				if err != nil {
					rec.Note("cannot build a " + fam.name + " loopback pair: " + err.Error())
					continue
				}
				if fam.name == "v6" {
					// [::1] is also the station's own end of this connection: search for the client's address with its port
					fmt.Fprintf(os.Stdout, "VERIFNEEDLE %s\n", cconn.LocalAddr().String())
				}
				fmt.Fprintf(os.Stdout, "VERIFCASE %d\n", n)
				rec.Ev("case", map[string]interface{}{"n": n, "desc": desc, "LOG_CLIENT_IP": c17Spell(n)})
				// the covert always lives on IPv4 loopback, so that no other [::1] socket exists in the process
				cln, err := net.Listen("tcp", "127.0.0.1:0")
				if err != nil {
					t.Fatal(err)
				}
				covertGo := make(chan struct{})    // driver -> covert: act now
				covertDone := make(chan struct{})  // covert finished
				covertActed := make(chan struct{}) // covert -> driver: flooded and reset
				go func() {
					defer close(covertDone)
					c, err := cln.Accept()
					if err != nil {
						return
					}
					tc := c.(*net.TCPConn)
					defer tc.Close()
					switch pat {
					case "client-rst-while-upload-parked,covert-eof":
						<-covertGo // reads nothing until the client has reset
						tc.CloseWrite()
						time.Sleep(150 * time.Millisecond) // the download direction sees the end of stream while the upload is still parked
						io.Copy(io.Discard, tc)
					case "covert-rst-while-download-parked,client-eof":
						rec.Count("bytes_sent_until_parked", c17Flood(tc)) // until the station's download direction is parked in its write
						tc.SetLinger(0)
						tc.Close()
						close(covertActed)
						<-covertGo
					case "client-rst+covert-eof-at-once":
						tc.Write([]byte("covert-reply"))
						<-covertGo
						tc.CloseWrite()
						io.Copy(io.Discard, tc)
					case "covert-rst+client-eof-at-once", "client-rst+covert-rst":
						tc.Write([]byte("covert-reply"))
						<-covertGo
						tc.SetLinger(0)
						tc.Close()
					case "client-halfclose-then-covert-halfclose":
						io.Copy(io.Discard, tc) // to the end of the client's stream
						tc.Write([]byte("covert-reply-after-client-eof"))
						tc.CloseWrite()
					case "covert-halfclose-then-client-halfclose":
						tc.Write([]byte("covert-reply"))
						tc.CloseWrite()
						io.Copy(io.Discard, tc)
					}
				}()
				reg := c17RelayReg(cln.Addr().String(), net.ParseIP("192.122.190.122"), cconn.LocalAddr().(*net.TCPAddr).IP)
				clientDone := make(chan struct{})
				go func() {
					defer close(clientDone)
					defer close(covertGo)
					switch pat {
					case "client-rst-while-upload-parked,covert-eof":
						sent := c17Flood(cconn) // until nothing moves any more: the station's upload direction is parked in its write
						rec.Count("bytes_sent_until_parked", sent)
						cconn.SetLinger(0)
						cconn.Close() // RST
						time.Sleep(20 * time.Millisecond)
					case "covert-rst-while-download-parked,client-eof":
						cconn.Write([]byte("client-hello"))
						select { // the covert floods and resets while this side reads nothing
						case <-covertActed:
						case <-time.After(30 * time.Second):
						}
						time.Sleep(20 * time.Millisecond)
						cconn.CloseWrite()
						time.Sleep(150 * time.Millisecond)
						io.Copy(io.Discard, cconn)
						cconn.Close()
					case "client-rst+covert-eof-at-once", "client-rst+covert-rst":
						cconn.Write([]byte("client-hello"))
						buf := make([]byte, 64)
						cconn.SetReadDeadline(time.Now().Add(10 * time.Second))
						cconn.Read(buf) // the tunnel is up
						cconn.SetLinger(0)
						cconn.Close()
					case "covert-rst+client-eof-at-once":
						cconn.Write([]byte("client-hello"))
						buf := make([]byte, 64)
						cconn.SetReadDeadline(time.Now().Add(10 * time.Second))
						cconn.Read(buf)
						cconn.SetReadDeadline(time.Time{})
						cconn.CloseWrite()
						go func() { io.Copy(io.Discard, cconn); cconn.Close() }()
					case "client-halfclose-then-covert-halfclose":
						cconn.Write([]byte("client-hello"))
						cconn.CloseWrite()
						io.Copy(io.Discard, cconn)
						cconn.Close()
					case "covert-halfclose-then-client-halfclose":
						cconn.Write([]byte("client-hello"))
						io.Copy(io.Discard, cconn)
						cconn.CloseWrite()
						cconn.Close()
					}
				}()
				c17ProxyDone(rec, desc, reg, sconn, func() { cconn.Close(); cln.Close() })
				select {
				case <-clientDone:
				case <-time.After(30 * time.Second):
					cconn.Close()
					<-clientDone
				}
				cln.Close()
				select {
				case <-covertDone:
				case <-time.After(30 * time.Second):
					rec.Inconclusive("the covert stand-in did not finish", desc)
				}
				sconn.Close()
				cconn.Close()
				rec.Count("evaluations", 1)
				rec.Count("real_tcp_tunnels", 1)
				rec.Distinct("nontrivial", "real-tcp", fam.name, pat)
				if rec.WantSample() {
					rec.Sample(map[string]interface{}{"case": desc})
				}
			}
		}
	}
	if left := kit.WaitNoGoroutineIn(30*time.Second, "station/lib.halfPipe", "station/lib.Proxy"); left != nil {
		rec.Inconclusive("relay goroutines still running at the end (their output may be missing from the scan)", len(left))
	}
	time.Sleep(50 * time.Millisecond) // closeConn of the source side runs in its own goroutine
	fmt.Fprintf(os.Stdout, "VERIFCASE %d\n", 9999999)
}

// c17Pair: a real loopback TCP connection; the client side dials from bind.  Returns (station side, client side).
func c17Pair(listen, bind string) (*net.TCPConn, *net.TCPConn, error) {
	ln, err := net.Listen("tcp", listen)
	if err != nil {
		return nil, nil, err
	}
	defer ln.Close()
	d := net.Dialer{LocalAddr: &net.TCPAddr{IP: net.ParseIP(bind)}, Timeout: 10 * time.Second}
	cl, err := d.Dial("tcp", ln.Addr().String())
	if err != nil {
		return nil, nil, err
	}
	ln.(*net.TCPListener).SetDeadline(time.Now().Add(10 * time.Second))
	ac, err := ln.Accept()
	if err != nil {
		cl.Close()
		return nil, nil, err
	}
	if ac.RemoteAddr().String() != cl.LocalAddr().String() {
		ac.Close()
		cl.Close()
		return nil, nil, errors.New("accepted a connection that is not the driver's")
	}
	return ac.(*net.TCPConn), cl.(*net.TCPConn), nil
}

// c17Flood writes until nothing has moved for 250 ms (every buffer on the way is full and the far end does not
// read), at most 64 MiB; returns the number of bytes the kernel took.
func c17Flood(c *net.TCPConn) int {
	chunk := make([]byte, 64<<10)
	total := 0
	for total < 64<<20 {
		c.SetWriteDeadline(time.Now().Add(250 * time.Millisecond))
		k, err := c.Write(chunk)
		total += k
		if err != nil {
			break
		}
	}
	c.SetWriteDeadline(time.Time{})
	return total
}

func c17OpsTail(c *kit.ScriptConn) []string {
	ops := c.Ops()
	if len(ops) > 12 {
		ops = ops[len(ops)-12:]
	}
	var out []string
	for _, o := range ops {
		out = append(out, o.String())
	}
	return out
}
