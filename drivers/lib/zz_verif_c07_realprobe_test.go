//go:build verif

package lib

// C07 – the REAL liveness probe behind the admission decision (the other C07 monitors script the
// verdict).  In a network namespace (the orchestrator starts this stage under `unshare -n`) three kinds
// of IPv4 phantom exist on an AnyIP range: one with a listener (answers SYN-ACK), one with a closed port
// (answers RST) and one whose SYNs are dropped (silence).  A registration is driven through the real
// parseRegMessage + ingestRegistration with the real, uncached tester: it may become connectable and be
// announced only for the silent phantom - a RST is an answer too.

import (
	"fmt"
	"net"
	"os"
	"os/exec"
	"sync"
	"testing"

	"github.com/go-redis/redis/v8"
	"github.com/refraction-networking/conjure/internal/conjurepath"
	kit "github.com/refraction-networking/conjure/internal/verifkit"
	"github.com/refraction-networking/conjure/pkg/station/liveness"
	"github.com/refraction-networking/conjure/pkg/station/log"
	"github.com/refraction-networking/conjure/pkg/transports/wrapping/min"
	pb "github.com/refraction-networking/conjure/proto"
	"google.golang.org/protobuf/proto"
)

func TestVerifC07RealProbe(t *testing.T) {
	rec := kit.NewRec("C07", "realprobe")
	defer rec.Close()
	run := func(name string, args ...string) error {
		out, err := exec.Command(name, args...).CombinedOutput()
		if err != nil {
			return fmt.Errorf("%s %v: %v: %s", name, args, err, out)
		}
		return nil
	}
	for _, c := range [][]string{
		{"ip", "route", "add", "local", "198.51.100.0/24", "dev", "lo"},
		{"iptables", "-A", "INPUT", "-d", "198.51.100.9", "-p", "tcp", "-j", "DROP"},
	} {
		if err := run(c[0], c[1:]...); err != nil {
			rec.Note("real-probe sub-stage skipped: " + err.Error())
			rec.Inconclusive("cannot set up the network namespace", err.Error())
			return
		}
	}
	ln, err := net.Listen("tcp", "198.51.100.7:4443")
	if err != nil {
		rec.Inconclusive("cannot listen on the AnyIP address", err.Error())
		return
	}
	defer ln.Close()
	go func() {
		for {
			c, err := ln.Accept()
			if err != nil {
				return
			}
			c.Close()
		}
	}()
	os.Setenv("PHANTOM_SUBNET_LOCATION", conjurepath.Root+"/pkg/station/lib/test/phantom_subnets.toml")
	fr, err := kit.NewFakeRedis("127.0.0.1:0")
	if err != nil {
		t.Fatal(err)
	}
	once.Do(func() {})
	client = redis.NewClient(&redis.Options{Addr: fr.Addr(), PoolSize: 10})
	rm := NewRegistrationManager(&RegConfig{EnableIPv4: true, EnableIPv6: true})
	if rm == nil {
		t.Fatal("nil registration manager")
	}
	rm.Logger = log.New(discardW{}, "", 0)
	lt, err := liveness.New(&liveness.Config{}) // the real, uncached tester
	if err != nil {
		t.Fatal(err)
	}
	rm.LivenessTester = lt
	if err := rm.AddTransport(pb.TransportType_Min, min.Transport{}); err != nil {
		t.Fatal(err)
	}
	type target struct {
		name     string
		ip       string
		answers  bool
		expected string
	}
	targets := []target{
		{"listener (SYN-ACK)", "198.51.100.7", true, "refused: the phantom answered"},
		{"closed port (RST)", "198.51.100.8", true, "refused: the phantom answered"},
		{"silent (SYN dropped)", "198.51.100.9", false, "admitted"},
	}
	rng := kit.Rand("c07-realprobe")
	reps := kit.Tier(2, 8)
	var wg sync.WaitGroup
	var mu sync.Mutex
	for rep := 0; rep < reps; rep++ {
		for _, tg := range targets {
			secret := make([]byte, 32)
			rng.Read(secret)
			wg.Add(1)
			go func(tg target, rep int, secret []byte) {
				defer wg.Done()
				ip := net.ParseIP(tg.ip).To4()
				src := pb.RegistrationSource_API
				w := &pb.C2SWrapper{
					SharedSecret: secret,
					RegistrationPayload: &pb.ClientToStation{ClientLibVersion: proto.Uint32(4), Transport: pb.TransportType_Min.Enum(), CovertAddress: proto.String("192.0.2.1:443"),
						DecoyListGeneration: proto.Uint32(957), V4Support: proto.Bool(true), V6Support: proto.Bool(false)},
					RegistrationSource: &src, RegistrationAddress: []byte{203, 0, 113, 9},
					RegistrationResponse: &pb.RegistrationResponse{Ipv4Addr: proto.Uint32(uint32(ip[0])<<24 | uint32(ip[1])<<16 | uint32(ip[2])<<8 | uint32(ip[3])), DstPort: proto.Uint32(4443)},
				}
				// The probe decides after a fixed 750 ms of real time.  On a starved machine its own dial
				// goroutines might not have reported by then although the phantom answered at once, so an
				// "admitted although it answers" observation is repeated (fresh secret) and only counts if it
				// is seen three times in a row.
				connectable := false
				for attempt := 0; attempt < 3; attempt++ {
					if attempt > 0 {
						secret = append([]byte{byte(attempt)}, secret[1:]...)
						w.SharedSecret = secret
					}
					b, _ := proto.Marshal(w)
					regs, err := rm.parseRegMessage(b)
					if err != nil || len(regs) != 1 {
						rec.Inconclusive("cannot build the registration", fmt.Sprint(err))
						return
					}
					rm.ingestRegistration(regs[0])
					id := string(min.Transport{}.GetIdentifier(regs[0]))
					_, connectable = rm.GetRegistrations(ip)[id]
					if !(tg.answers && connectable) {
						break
					}
				}
				mu.Lock()
				defer mu.Unlock()
				label := fmt.Sprintf("phantom %s:4443 %s", tg.ip, tg.name)
				switch {
				case tg.answers && connectable:
					rec.Violation("realprobe:admitted-although-phantom-answered:"+tg.name, "a registration became connectable although its IPv4 phantom answered the liveness probe",
						map[string]interface{}{"phantom": label})
				case !tg.answers && !connectable:
					// the statement's other direction: a silent, admissible phantom must yield a usable registration.  A
					// loaded machine could in principle delay the probe's own bookkeeping, so this is only counted.
					rec.Inconclusive("silent phantom not admitted", label)
				}
				rec.Count("evaluations", 1)
				rec.Distinct("nontrivial", tg.name, rep)
				if rec.WantSample() {
					rec.Sample(map[string]interface{}{"phantom": label, "connectable": connectable, "expected": tg.expected})
				}
			}(tg, rep, secret)
		}
	}
	wg.Wait()
}

type discardW struct{}

func (discardW) Write(p []byte) (int, error) { return len(p), nil }
