//go:build verif

package lib

// C06 – covert-policy decisions while the configuration is being reloaded.
// Two configurations alternate through the real RegistrationManager.OnReload while workers evaluate
// covert addresses with the real ParseOrResolveBlocklisted.  A decision may be taken under either
// configuration, but never under a mixture: an address that BOTH configurations forbid must always be
// refused, and an address both admit must always come back unchanged.  (The workload is bounded by
// iteration counts, not by time; the reloader runs until the workers are done.)

import (
	"fmt"
	"os"
	"sync"
	"sync/atomic"
	"testing"

	"github.com/refraction-networking/conjure/internal/conjurepath"
	kit "github.com/refraction-networking/conjure/internal/verifkit"
)

func TestVerifC06ReloadConsistency(t *testing.T) {
	rec := kit.NewRec("C06", "reload")
	defer rec.Close()
	os.Setenv("PHANTOM_SUBNET_LOCATION", conjurepath.Root+"/pkg/station/lib/test/phantom_subnets.toml")
	mk := func(c *RegConfig) *RegConfig {
		c.EnableIPv4, c.EnableIPv6 = true, true
		if err := parseBlocklistsCompat(c); err != nil {
			t.Fatal(err)
		}
		return c
	}
	// A: blocklist mode.  B: allowlist mode.  C: blocklist with domain patterns.
	confs := []func() *RegConfig{
		func() *RegConfig {
			return mk(&RegConfig{CovertBlocklistSubnets: []string{"10.0.0.0/8", "127.0.0.0/8", "2001:db8:bad::/48"}})
		},
		func() *RegConfig {
			return mk(&RegConfig{CovertAllowlistSubnets: []string{"192.0.2.0/24", "198.51.100.0/24", "2001:db8:600d::/48"}})
		},
		func() *RegConfig {
			return mk(&RegConfig{CovertBlocklistSubnets: []string{"10.0.0.0/8", "127.0.0.0/8", "172.16.0.0/12", "2001:db8:bad::/48"}, CovertBlocklistDomains: []string{"^localhost$"}})
		},
	}
	type probe struct {
		covert string
		want   string // "refuse" (forbidden under every configuration) | "admit" (permitted under every configuration)
	}
	probes := []probe{
		{"10.0.0.1:443", "refuse"}, {"127.0.0.1:6379", "refuse"}, {"[2001:db8:bad::1]:443", "refuse"}, {"[::ffff:10.1.2.3]:80", "refuse"},
		{"192.0.2.7:443", "admit"}, {"198.51.100.9:8080", "admit"}, {"[2001:db8:600d::5]:443", "admit"},
	}
	rm := NewRegistrationManager(confs[0]())
	if rm == nil {
		t.Fatal("nil registration manager")
	}
	iters := kit.Tier(150000, 3000000)
	const workers = 8
	var wg sync.WaitGroup
	var stop atomic.Bool
	var reloads atomic.Int64
	var relWG sync.WaitGroup
	relWG.Add(1)
	go func() {
		defer relWG.Done()
		for i := 1; !stop.Load(); i++ {
			rm.OnReload(confs[i%len(confs)]())
			reloads.Add(1)
		}
	}()
	for w := 0; w < workers; w++ {
		wg.Add(1)
		go func(w int) {
			defer wg.Done()
			for i := 0; i < iters; i++ {
				p := probes[(i+w)%len(probes)]
				got, _ := rm.ParseOrResolveBlocklisted(p.covert)
				switch {
				case p.want == "refuse" && got != "":
					rec.Violation("reload:admitted-address-forbidden-by-every-configuration", "during a reload a covert address was admitted that no configuration ever in force permits",
						map[string]interface{}{"covert": p.covert, "returned": got, "reloads_so_far": reloads.Load()})
				case p.want == "admit" && got == "":
					rec.Violation("reload:refused-address-permitted-by-every-configuration", "during a reload a covert address was refused that every configuration permits",
						map[string]interface{}{"covert": p.covert, "reloads_so_far": reloads.Load()})
				}
			}
			rec.Count("evaluations", iters)
		}(w)
	}
	wg.Wait()
	stop.Store(true)
	relWG.Wait()
	rec.Count("reloads", int(reloads.Load()))
	for _, p := range probes {
		rec.Distinct("nontrivial", p.covert, p.want)
	}
	rec.Sample(map[string]interface{}{"probes": fmt.Sprint(probes), "decisions": workers * iters, "reloads_meanwhile": reloads.Load()})
	if reloads.Load() < 20 {
		rec.Inconclusive("too few reloads happened while the workers ran", reloads.Load())
	}
}

// parseBlocklistsCompat calls ParseBlocklists whether or not it returns an error (the signature changed
// with fix ee6d886; the driver must build against both forms).
func parseBlocklistsCompat(c *RegConfig) error {
	var f interface{} = c.ParseBlocklists
	switch fn := f.(type) {
	case func() error:
		return fn()
	case func():
		fn()
	}
	return nil
}
