//go:build verif

package lib

// C07 – monitor "staleactivation": "In every other case it is never returned for an incoming connection and never
// announced" also has to hold when a connection handler finishes late.
//
// History (all through the real code: parseRegMessage, ingestRegistration, RemoveOldRegistrations, MarkActive):
//
//	1. a registration R (IPv4 phantom, not pre-scanned) is delivered while the phantom does not answer the probe:
//	   admitted, announced (New);
//	2. a connection handler looks R up (this is what WrapConnection returns to it) and is then slow (an obfs4
//	   handshake with a slow client, a stalled write);
//	3. R's ten minutes pass and the sweep forgets it;
//	4. the client registers again (same message).  In variant "live" the phantom now answers the probe, so this
//	   registration must be refused: it stays tracked-but-not-validated, is not connectable and must never be
//	   announced.  In variant "admitted" (control) the phantom is still dark and the registration is admitted;
//	5. the slow handler of step 2 finishes and calls MarkActive with the object it holds.
//
// Oracle: the statement's.  After step 4 (variant live) the registration tracked for that client on that phantom is
// one of the "every other case" registrations; any message published for its flow after that – New or Update – is an
// announcement of a registration that was not admitted.  The control variant must publish an Update (that a
// late activation marks the re-registered, validated registration used is what fix c3ee9fd established).

import (
	"fmt"
	"testing"
	"time"

	"google.golang.org/protobuf/proto"

	kit "github.com/refraction-networking/conjure/internal/verifkit"
	"github.com/refraction-networking/conjure/pkg/station/log"
	pb "github.com/refraction-networking/conjure/proto"
)

type c07sLive struct {
	live  bool
	calls int
}

func (l *c07sLive) PhantomIsLive(string, uint16) (bool, error) {
	l.calls++
	if l.live {
		return true, fmt.Errorf("phantom picked up with response (verif stand-in)")
	}
	return false, nil
}
func (*c07sLive) PrintAndReset(*log.Logger) {}
func (*c07sLive) PrintStats(*log.Logger)    {}
func (*c07sLive) Reset()                    {}

func TestVerifC07StaleActivation(t *testing.T) {
	rec := kit.NewRec("C07", "staleactivation")
	defer rec.Close()
	rng := kit.Rand("c07-staleactivation")
	rm, fr := c10NewStation(t)
	defer fr.Close()
	live := &c07sLive{}
	rm.LivenessTester = live
	rd := rm.registeredDecoys

	backdate := func(reg *DecoyRegistration, d time.Duration) {
		rd.m.Lock()
		defer rd.m.Unlock()
		tr, ok := rd.transports[reg.Transport]
		if !ok {
			return
		}
		id, ph := tr.GetIdentifier(reg), reg.PhantomIp.String()
		for _, to := range rd.decoysTimeouts {
			if to != nil && to.decoy == ph && to.identifier == id {
				to.registrationTime = to.registrationTime.Add(-d)
			}
		}
	}
	deliver := func(msg []byte) *DecoyRegistration {
		built, err := rm.parseRegMessage(msg)
		if err != nil {
			return nil
		}
		var first *DecoyRegistration
		for _, b := range built {
			if b != nil {
				rm.ingestRegistration(b)
				if first == nil {
					first = b
				}
			}
		}
		return first
	}
	decode := func(pubs []kit.Pub) []string {
		var out []string
		for _, p := range pubs {
			m := &pb.StationToDetector{}
			if err := proto.Unmarshal(p.Payload, m); err != nil {
				out = append(out, "undecodable")
				continue
			}
			out = append(out, fmt.Sprintf("%s phantom=%s client=%s port=%d timeout=%ds", m.GetOperation(), m.GetPhantomIp(), m.GetClientIp(), m.GetDstPort(), m.GetTimeoutNs()/1e9))
		}
		return out
	}

	n, judged := 0, 0
	want := kit.Tier(36, 600)
	for tries := 0; judged < want && tries < want*40; tries++ {
		secret := make([]byte, 32)
		rng.Read(secret)
		c := c10LCase(rng, tries, secret)
		if !c.v4s || c.tr == "dtls" || c.update {
			continue // the probe is for IPv4 phantoms; a connecting transport has no incoming-connection handler
		}
		c.dup1, c.dup2 = 0, 0
		msg, err := c.wrapper()
		if err != nil {
			continue
		}
		variant := []string{"live", "admitted"}[n%2]
		aged := []time.Duration{11 * time.Minute, 7 * time.Hour}[(n/2)%2]
		usedFirst := (n/4)%2 == 1
		if usedFirst {
			aged = 7 * time.Hour // a used registration lives six hours
		}
		n++
		desc := fmt.Sprintf("#%d %s second-delivery=%s aged=%v first-lifetime-used=%v", n, c.String(), variant, aged, usedFirst)
		rec.CaseCheap(desc)

		// 1. admitted while the phantom is dark
		live.live = false
		fr.Reset()
		twin := deliver(msg)
		if twin == nil || twin.PhantomIp.To4() == nil || twin.PreScanned() {
			continue
		}
		held := rd.RegistrationExists(twin) // 2. what a handler gets from the lookup
		if held == nil || !held.Valid {
			continue // not admitted for some other reason: not this monitor's case
		}
		if usedFirst {
			rm.MarkActive(held)
		}
		// 3. lifetime passes, sweep
		backdate(held, aged)
		rm.RemoveOldRegistrations()
		if rd.RegistrationExists(twin) != nil {
			rec.Inconclusive("the first lifetime was not swept", desc)
			continue
		}
		// 4. registered again
		live.live = variant == "live"
		fr.Reset()
		callsBefore := live.calls
		twin2 := deliver(msg)
		cur := rd.RegistrationExists(twin)
		pubs4 := fr.Pubs()
		if twin2 == nil || cur == nil || live.calls == callsBefore {
			rec.Inconclusive("the second delivery was not tracked or not probed", desc)
			continue
		}
		if variant == "live" && (cur.Valid || len(pubs4) > 0) {
			rec.Violation("staleactivation:refused-registration-admitted", "a registration whose phantom answered the liveness probe was validated or announced",
				map[string]interface{}{"case": desc, "valid": cur.Valid, "published": decode(pubs4)})
			continue
		}
		if variant == "admitted" && !cur.Valid {
			rec.Inconclusive("control: the second delivery was not admitted", desc)
			continue
		}
		// 5. the slow handler finishes
		fr.Reset()
		rm.MarkActive(held)
		pubs5 := fr.Pubs()
		after := rd.RegistrationExists(twin)
		judged++
		rec.Count("evaluations", 1)
		rec.Distinct("nontrivial", c.tr, variant, aged.String(), usedFirst)
		switch variant {
		case "live":
			if len(pubs5) > 0 {
				rec.Violation("staleactivation:announced-unvalidated-registration:"+c.tr,
					"a registration that was refused (its phantom answered the liveness probe; it is tracked but not validated) was announced to the detector when a handler holding the object of the earlier, swept lifetime called MarkActive",
					map[string]interface{}{"case": desc, "published": decode(pubs5), "tracked_valid": after != nil && after.Valid,
						"history": "deliver(dark phantom) lookup age sweep deliver(live phantom: refused) MarkActive(held object)"})
			}
			if after != nil && after.Valid {
				rec.Violation("staleactivation:late-activation-validated-refused-registration", "MarkActive made a refused registration connectable",
					map[string]interface{}{"case": desc})
			}
		case "admitted":
			if len(pubs5) == 0 {
				rec.Count("control_late_activation_published_nothing", 1)
			} else {
				rec.Count("control_late_activation_published_update", 1)
			}
		}
		if rec.WantSample() {
			rec.Sample(map[string]interface{}{"case": desc, "published_at_late_activation": decode(pubs5)})
		}
		// forget everything before the next case
		if after != nil {
			backdate(after, 8*time.Hour)
			rm.RemoveOldRegistrations()
		}
	}
	if judged < want/2 {
		t.Fatalf("infrastructure: only %d of %d stale-activation cases could be judged", judged, want)
	}
}
