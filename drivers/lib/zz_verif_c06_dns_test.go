//go:build verif

package lib

// C06 – scripted resolver: an in-process UDP DNS server (wire format written here, independent of
// the repository) that answers A/AAAA from a per-name script and logs every query.  It is installed
// as net.DefaultResolver with PreferGo, so every resolution made by the code under observation
// (net.ResolveIPAddr at admission, net.Dial in Proxy) goes through it and never reaches a real
// resolver.  Names that are not scripted get NXDOMAIN.

import (
	"context"
	"encoding/binary"
	"net"
	"net/netip"
	"strings"
	"sync"
)

// one lookup round = what the k-th A query and the k-th AAAA query for the name are answered with
type c06Round struct {
	V4 []netip.Addr
	V6 []netip.Addr
}

type c06NameState struct {
	rounds []c06Round // the last round repeats for ever
	nA     int        // A queries seen
	nAAAA  int        // AAAA queries seen
	nOther int
	handed []netip.Addr // every address handed out so far, in order
}

type c06DNS struct {
	pc    net.PacketConn
	addr  string
	mu    sync.Mutex
	names map[string]*c06NameState // key: lower-case FQDN without the trailing dot
	total int64                    // queries of any kind
	unk   int64                    // queries for names that are not scripted
}

var (
	c06dnsOnce sync.Once
	c06dns     *c06DNS
	c06dnsErr  error
)

// c06Resolver starts the server (once per process) and points net.DefaultResolver at it.
func c06Resolver() (*c06DNS, error) {
	c06dnsOnce.Do(func() {
		pc, err := net.ListenPacket("udp", "127.0.0.1:0")
		if err != nil {
			c06dnsErr = err
			return
		}
		s := &c06DNS{pc: pc, addr: pc.LocalAddr().String(), names: map[string]*c06NameState{}}
		go s.serve()
		net.DefaultResolver = &net.Resolver{
			PreferGo: true,
			Dial: func(ctx context.Context, network, address string) (net.Conn, error) {
				var d net.Dialer
				return d.DialContext(ctx, "udp", s.addr)
			},
		}
		c06dns = s
	})
	return c06dns, c06dnsErr
}

func c06Key(name string) string { return strings.ToLower(strings.TrimSuffix(name, ".")) }

// Script installs (or replaces) the answer script of a name.
func (s *c06DNS) Script(name string, rounds []c06Round) {
	s.mu.Lock()
	s.names[c06Key(name)] = &c06NameState{rounds: rounds}
	s.mu.Unlock()
}

// Forget removes a name.
func (s *c06DNS) Forget(name string) {
	s.mu.Lock()
	delete(s.names, c06Key(name))
	s.mu.Unlock()
}

// Snapshot returns (A queries, AAAA queries, addresses handed out) for a name so far.
func (s *c06DNS) Snapshot(name string) (nA, nAAAA int, handed []netip.Addr) {
	s.mu.Lock()
	defer s.mu.Unlock()
	st := s.names[c06Key(name)]
	if st == nil {
		return 0, 0, nil
	}
	return st.nA, st.nAAAA, append([]netip.Addr(nil), st.handed...)
}

// Totals returns the number of queries received and how many were for unscripted names.
func (s *c06DNS) Totals() (int64, int64) {
	s.mu.Lock()
	defer s.mu.Unlock()
	return s.total, s.unk
}

func (s *c06DNS) serve() {
	buf := make([]byte, 4096)
	for {
		n, from, err := s.pc.ReadFrom(buf)
		if err != nil {
			return
		}
		if resp := s.answer(buf[:n]); resp != nil {
			s.pc.WriteTo(resp, from)
		}
	}
}

// answer builds the response to one query (nil = drop: not a well-formed single-question query).
func (s *c06DNS) answer(q []byte) []byte {
	if len(q) < 12 || q[2]&0x80 != 0 || binary.BigEndian.Uint16(q[4:]) != 1 {
		return nil
	}
	// question name
	off := 12
	var labels []string
	for {
		if off >= len(q) {
			return nil
		}
		l := int(q[off])
		off++
		if l == 0 {
			break
		}
		if l&0xC0 != 0 || off+l > len(q) {
			return nil
		}
		labels = append(labels, string(q[off:off+l]))
		off += l
	}
	if off+4 > len(q) {
		return nil
	}
	qtype := binary.BigEndian.Uint16(q[off:])
	qclass := binary.BigEndian.Uint16(q[off+2:])
	qend := off + 4
	name := strings.ToLower(strings.Join(labels, "."))

	var addrs []netip.Addr
	rcode := byte(0)
	s.mu.Lock()
	s.total++
	st := s.names[name]
	if st == nil || qclass != 1 {
		s.unk++
		rcode = 3 // NXDOMAIN
	} else {
		pick := func(k int) c06Round {
			if len(st.rounds) == 0 {
				return c06Round{}
			}
			if k >= len(st.rounds) {
				k = len(st.rounds) - 1
			}
			return st.rounds[k]
		}
		switch qtype {
		case 1:
			addrs = pick(st.nA).V4
			st.nA++
		case 28:
			addrs = pick(st.nAAAA).V6
			st.nAAAA++
		default:
			st.nOther++
		}
		st.handed = append(st.handed, addrs...)
	}
	s.mu.Unlock()

	resp := make([]byte, 0, qend+len(addrs)*28)
	resp = append(resp, q[0], q[1]) // ID
	resp = append(resp, 0x80|(q[2]&0x01), 0x80|rcode) // QR, RD copied; RA, rcode
	resp = append(resp, 0, 1)                         // QDCOUNT
	resp = binary.BigEndian.AppendUint16(resp, uint16(len(addrs)))
	resp = append(resp, 0, 0, 0, 0) // NSCOUNT, ARCOUNT
	resp = append(resp, q[12:qend]...)
	for _, a := range addrs {
		resp = append(resp, 0xC0, 0x0C) // pointer to the question name
		resp = binary.BigEndian.AppendUint16(resp, qtype)
		resp = append(resp, 0, 1, 0, 0, 0, 0) // class IN, TTL 0
		b := a.AsSlice()
		resp = binary.BigEndian.AppendUint16(resp, uint16(len(b)))
		resp = append(resp, b...)
	}
	return resp
}
