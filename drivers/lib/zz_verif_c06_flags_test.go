//go:build verif

package lib

// C06 – the flags dimension of the e2e classes.  RegistrationFlags travel inside the client's own
// ClientToStation message (and a peer station relays the ORIGINAL message, with prescanned set), so
// they are part of "everything a client can put in a registration": whatever they say, the covert
// must be parsed / checked / resolved at admission and only the admitted literal may be dialled.
// Every e2e class (plain, history, refused, connecting) builds its messages with e.flags; the classes
// rotate through c06FlagVariants in their exhaustive part and draw from a separate PRNG stream in the
// random part (the other random choices of the classes are therefore the same as without flags).
// The oracles are unchanged.

import (
	"math/rand"

	"google.golang.org/protobuf/proto"

	pb "github.com/refraction-networking/conjure/proto"
)

type c06FlagVariant struct {
	Name  string
	Flags func() *pb.RegistrationFlags
}

// 7 variants: coprime with the 2 / 3 / 4 / 5 / 14-periodic index arithmetic of the class loops, so a
// rotation by case number meets every (kind, policy mode) with flagged and unflagged messages.
var c06FlagVariants = []c06FlagVariant{
	{"none", func() *pb.RegistrationFlags { return nil }},
	{"prescanned", func() *pb.RegistrationFlags { return &pb.RegistrationFlags{Prescanned: proto.Bool(true)} }},
	{"empty", func() *pb.RegistrationFlags { return &pb.RegistrationFlags{} }},
	{"prescanned+proxy_header", func() *pb.RegistrationFlags {
		return &pb.RegistrationFlags{Prescanned: proto.Bool(true), ProxyHeader: proto.Bool(true)}
	}},
	{"use_TIL+upload_only+dark_decoy", func() *pb.RegistrationFlags {
		return &pb.RegistrationFlags{Use_TIL: proto.Bool(true), UploadOnly: proto.Bool(true), DarkDecoy: proto.Bool(true)}
	}},
	{"all", func() *pb.RegistrationFlags {
		return &pb.RegistrationFlags{Use_TIL: proto.Bool(true), UploadOnly: proto.Bool(true), DarkDecoy: proto.Bool(true), ProxyHeader: proto.Bool(true), Prescanned: proto.Bool(true)}
	}},
	{"prescanned=false+proxy_header", func() *pb.RegistrationFlags {
		return &pb.RegistrationFlags{Prescanned: proto.Bool(false), ProxyHeader: proto.Bool(true)}
	}},
}

// setFlags selects the flags of the messages built from now on.
func (e *c06E2E) setFlags(i int) {
	v := c06FlagVariants[((i%len(c06FlagVariants))+len(c06FlagVariants))%len(c06FlagVariants)]
	e.flags, e.flagsName = v.Flags(), v.Name
	e.rec.Distinct("flag_variants", v.Name)
}

func (e *c06E2E) setFlagsRand(r *rand.Rand) { e.setFlags(r.Intn(len(c06FlagVariants))) }

// cloned per message: parseRegMessage keeps pointers into the unmarshalled message, never into this one,
// but a fresh object per message costs nothing and rules out sharing between cases
func (e *c06E2E) msgFlags() *pb.RegistrationFlags {
	if e.flags == nil {
		return nil
	}
	return proto.Clone(e.flags).(*pb.RegistrationFlags)
}
