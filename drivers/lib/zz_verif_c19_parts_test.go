//go:build verif

package lib

// C19 – part-wise reload: "on reload each part (phantom subnets, address policies) is replaced by its
// new version only if that version loaded without error, otherwise the previous version of that part
// stays fully in force".  The parts are independent: a part that loaded IS replaced although another
// part of the same reload failed.
//
// Workload: chains of SIGHUP-style reloads (main.go:176-191 through verifC19Env.reload, so the general
// reload oracle applies to every step) on one running station in which EVERY step changes all parts
// at once – a configuration with policy entries that no other step has, a phantom subnets file with a
// generation that no other file has – while exactly one part (sometimes two, sometimes none) is
// broken: GeoIP path = existing non-database / empty file / directory / missing file, for the country
// database, the ASN database or both; subnets file = one of the malformed pool files / missing /
// directory; configuration file = TOML damage / wrong-typed policy key / missing / directory.
//
// Oracle per part, by direct witness decisions of the real policy functions and the real selector
// (independent of the repository's own parse of the new file):
//   configuration part loaded  => the covert inside the step's own blocklist entry is refused, the
//                                 step's own domain pattern refuses its host, the step's own phantom
//                                 entry refuses its phantom, and the entries of the version that was
//                                 in force before are gone (their witnesses are admitted again);
//   configuration part failed  => the witnesses of the version in force before decide as before;
//   subnets part loaded (and the configuration part too, because main.go reloads nothing otherwise)
//                              => a selection for the file's own generation succeeds inside the file's
//                                 own subnet, the generation of the file in force before is unknown;
//   subnets part failed        => the generation in force before still selects inside its subnet.
// "In force before" is tracked by the rule above (the specification), not by what the station did.

import (
	"fmt"
	"net"
	"net/netip"
	"os"
	"path/filepath"
	"strings"

	kit "github.com/refraction-networking/conjure/internal/verifkit"
	"github.com/refraction-networking/conjure/pkg/core"
	"github.com/refraction-networking/conjure/pkg/phantoms"
)

type verifC19PartStep struct {
	geo  string // ok | cc:<kind> | asn:<kind> | both:<kind>      kind = not-a-db | empty-file | dir | missing
	sub  string // new | same | bad:<pool name> | missing | dir
	conf string // new | syntax | ptype | missing | dir
}

func (s verifC19PartStep) String() string {
	return "geoip=" + s.geo + " subnets=" + s.sub + " conf=" + s.conf
}

// verifC19PartSteps is the fixed grid of steps (order is shuffled per chain).
func verifC19PartSteps() []verifC19PartStep {
	var out []verifC19PartStep
	geoBad := []string{"cc:not-a-db", "asn:not-a-db", "both:not-a-db", "cc:empty-file", "asn:dir", "cc:missing", "asn:missing", "both:dir"}
	// exactly the GeoIP part broken, everything else changes (or the subnets stay)
	for i, g := range geoBad {
		out = append(out, verifC19PartStep{g, "new", "new"})
		if i%2 == 0 {
			out = append(out, verifC19PartStep{g, "same", "new"})
		}
	}
	// exactly the subnets part broken
	for _, f := range kit.C19SubnetFiles() {
		if !f.Loadable {
			out = append(out, verifC19PartStep{"ok", "bad:" + f.Name, "new"})
		}
	}
	out = append(out, verifC19PartStep{"ok", "missing", "new"}, verifC19PartStep{"ok", "dir", "new"})
	// exactly the configuration part broken
	for _, c := range []string{"syntax", "ptype", "missing", "dir"} {
		out = append(out, verifC19PartStep{"ok", "new", c})
	}
	// two parts broken: the third is still replaced (configuration) resp. nothing changes
	out = append(out, verifC19PartStep{"cc:not-a-db", "bad:bad-truncated", "new"}, verifC19PartStep{"both:dir", "missing", "new"},
		verifC19PartStep{"ok", "bad:bad-binary", "syntax"}, verifC19PartStep{"ok", "dir", "missing"})
	// nothing broken
	for i := 0; i < 6; i++ {
		out = append(out, verifC19PartStep{"ok", "new", "new"})
	}
	return out
}

// part-wise witnesses of policy version k (k = 1..250)
func verifC19PartCovert(k int) string  { return fmt.Sprintf("198.18.%d.77:443", k) }
func verifC19PartHost(k int) string    { return fmt.Sprintf("part%d.blocked.example:443", k) }
func verifC19PartPhantom(k int) net.IP { return net.IPv4(192, 122, byte(k), 9).To4() }

// verifC19PartConfig returns a well-formed configuration whose policy lists hold entries that belong to
// version k alone, with the given GeoIP paths.
func (e *verifC19Env) partConfig(k int, cc, asn string) kit.C19Config {
	c := kit.C19Variant(e.garbageDB, map[string]string{
		"covert_blocklist_subnets": "unset", "covert_allowlist_subnets": "unset", "covert_blocklist_domains": "unset", "phantom_blocklist": "unset",
		"covert_blocklist_public_addrs": "zero", "geoip_cc_db_path": "unset", "geoip_asn_db_path": "unset",
	})
	lines := fmt.Sprintf("covert_blocklist_subnets = [\"10.0.0.0/8\", \"198.18.%d.0/24\"]\n", k) +
		fmt.Sprintf("covert_blocklist_domains = [\"localhost\", %s]\n", kit.C19Q(fmt.Sprintf(`^part%d\.blocked\.example$`, k))) +
		fmt.Sprintf("phantom_blocklist = [\"192.122.%d.0/24\"]\n", k) +
		"geoip_cc_db_path = " + kit.C19Q(cc) + "\ngeoip_asn_db_path = " + kit.C19Q(asn) + "\n"
	// plain keys go in front of the first table
	if i := strings.Index(c.Text, "\n[["); i >= 0 {
		c.Text = c.Text[:i+1] + lines + c.Text[i+1:]
	} else {
		c.Text += lines
	}
	c.Class, c.Desc = "part-wise", fmt.Sprintf("part-wise:policy-version-%d", k)
	return c
}

type verifC19PartSub struct {
	path   string
	gen    uint
	v4, v6 netip.Prefix
}

// verifC19PartReloads runs the part-wise reload chains.
func verifC19PartReloads(e *verifC19Env) {
	rec, t := e.rec, e.t
	rng := kit.Rand("c19-parts")
	libver := uint(core.CurrentClientLibraryVersion())
	seeds := verifC19Seeds()

	// ---- files ------------------------------------------------------------------------------------------
	emptyDB := filepath.Join(e.dir, "empty.mmdb")
	if err := os.WriteFile(emptyDB, nil, 0o644); err != nil {
		t.Fatal(err)
	}
	geoPath := map[string]string{"not-a-db": e.garbageDB, "empty-file": emptyDB, "dir": e.isDir, "missing": filepath.Join(e.dir, "no-such-database.mmdb")}
	// subnets files: every one has generation 1 (different subnets each, so the fixed selection probes
	// differ too) and one generation of its own
	var subs []verifC19PartSub
	for i := 0; i < 6; i++ {
		s := verifC19PartSub{gen: uint(2001 + i)}
		s.v4 = netip.MustParsePrefix(fmt.Sprintf("192.122.%d.0/24", 200+i))
		s.v6 = netip.MustParsePrefix(fmt.Sprintf("2001:48a8:687f:%x::/64", 0x200+i))
		text := fmt.Sprintf("[Networks]\n  [Networks.1]\n    Generation = 1\n    [[Networks.1.WeightedSubnets]]\n      Weight = 1\n      Subnets = [\"%s\", \"%s\"]\n", s.v4, s.v6) +
			fmt.Sprintf("  [Networks.%d]\n    Generation = %d\n    [[Networks.%d.WeightedSubnets]]\n      Weight = 1\n      Subnets = [\"%s\", \"%s\"]\n", s.gen, s.gen, s.gen, s.v4, s.v6)
		s.path = filepath.Join(e.dir, fmt.Sprintf("part-sub-%d.toml", i))
		if err := os.WriteFile(s.path, []byte(text), 0o644); err != nil {
			t.Fatal(err)
		}
		if _, err := phantoms.SubnetsFromTomlFile(s.path); err != nil {
			t.Fatalf("part-wise subnets file %d was built well-formed but the loader refuses it: %v", i, err)
		}
		subs = append(subs, s)
	}
	poolIdx := map[string]int{}
	for i, f := range e.subFiles {
		poolIdx[f.Name] = i
	}
	nPool := len(e.subPaths)
	for _, s := range subs {
		e.subPaths = append(e.subPaths, s.path) // index nPool+i
	}
	defer func() { e.subPaths = e.subPaths[:nPool] }()

	selects := func(st *verifC19Station, s verifC19PartSub) (ok, inside int, outs []string) {
		for _, seed := range seeds {
			for _, v6 := range []bool{false, true} {
				ip, err := st.rm.PhantomSelector.Select(seed, s.gen, libver, v6)
				if err != nil || ip == nil || ip.IP() == nil {
					outs = append(outs, "err")
					continue
				}
				ok++
				a, _ := netip.AddrFromSlice(*ip.IP())
				a = a.Unmap()
				if s.v4.Contains(a) || s.v6.Contains(a) {
					inside++
				}
				outs = append(outs, a.String())
			}
		}
		return
	}

	grid := verifC19PartSteps()
	nChains := kit.Tier(2, 12)
	for chain := 0; chain < nChains; chain++ {
		steps := append([]verifC19PartStep(nil), grid...)
		rng.Shuffle(len(steps), func(a, b int) { steps[a], steps[b] = steps[b], steps[a] })
		var planDesc []string
		for _, s := range steps {
			planDesc = append(planDesc, s.String())
		}

		// ---- start-up: policy version 1, subnets file 0, no GeoIP databases ---------------------------------
		polV, subV := 1, 0
		nextPol := 1
		e.setSub(subs[subV].path)
		cfg := e.partConfig(polV, "", "")
		e.steps = 1_000_000 + chain
		rec.Case(map[string]interface{}{"case": "part-wise chain", "chain": chain, "config": cfg.Text, "reload_plan": planDesc})
		rec.Count("evaluations", 1)
		e.writeCfg(cfg)
		st, outcome, _ := e.startup(cfg.Text, chain%2 == 0)
		if st == nil {
			// acceptance of a well-formed file is not demanded; without a station there is nothing to reload
			rec.Count("partwise_startup_"+outcome, 1)
			rec.Note("part-wise chain: the start-up configuration was not accepted (" + outcome + "); chain skipped")
			continue
		}
		e.populate(st, rng)
		e.housekeeping(st, 1, cfg.Text, false)
		e.enforce(st.rm.RegConfig, cfg.Text, cfg.Class, "start-up")

		done := 0
		for i, ps := range steps {
			// ---- arrange the step ---------------------------------------------------------------------------
			cc, asn := "", ""
			if ps.geo != "ok" {
				who, kind, _ := strings.Cut(ps.geo, ":")
				switch who {
				case "cc":
					cc = geoPath[kind]
				case "asn":
					asn = geoPath[kind]
				default:
					cc, asn = geoPath[kind], geoPath[kind]
				}
			}
			var step kit.C19Reload
			newPol := 0
			switch ps.conf {
			case "new":
				nextPol++
				newPol = nextPol
				c := e.partConfig(newPol, cc, asn)
				step.ConfAct, step.Conf = "new", &c
			case "syntax":
				nextPol++
				c := e.partConfig(nextPol, cc, asn)
				c.Text += "\nbroken_key = \"abc\n"
				c.Class, c.MustFail = "syntax-malformed", "syntax"
				step.ConfAct, step.Conf = "new", &c
			case "ptype":
				nextPol++
				c := e.partConfig(nextPol, cc, asn)
				c.Text = strings.Replace(c.Text, "phantom_blocklist = [", "phantom_blocklist = 5 #[", 1)
				c.Class, c.MustFail = "policy-type-error", "policy-type"
				step.ConfAct, step.Conf = "new", &c
			default:
				step.ConfAct = ps.conf // missing | dir
			}
			newSub := -1
			switch {
			case ps.sub == "new":
				newSub = (subV + 1 + rng.Intn(len(subs)-1)) % len(subs)
				step.SubAct, step.SubIdx = "switch", nPool+newSub
			case ps.sub == "same":
				step.SubAct = "same"
				if e.curSub != subs[subV].path {
					// the file in the environment is the broken one of an earlier step: "same" would not be a
					// loadable part; point at the file that is in force
					step.SubAct, step.SubIdx = "switch", nPool+subV
				}
				newSub = subV
			case strings.HasPrefix(ps.sub, "bad:"):
				step.SubAct, step.SubIdx = "switch", poolIdx[strings.TrimPrefix(ps.sub, "bad:")]
			default:
				step.SubAct = ps.sub // missing | dir
			}

			rec.CaseCheap(map[string]interface{}{"case": "part-wise step", "chain": chain, "step": i, "what": ps.String()})
			if !e.reload(st, step, i) {
				break
			}
			done++
			last := e.last
			rec.Count("partwise_steps", 1)
			rec.Distinct("partwise_step_kinds", ps.String(), last.confLoaded, last.subErr == nil, last.geoFailed)

			// which other parts failed (for the signatures)
			var failedParts []string
			if !last.confLoaded {
				failedParts = append(failedParts, "config")
			}
			if last.subErr != nil {
				failedParts = append(failedParts, "subnets")
			}
			if last.geoFailed {
				failedParts = append(failedParts, "geoip")
			}
			failed := strings.Join(failedParts, "+")
			if failed == "" {
				failed = "none"
			}
			detail := func(extra map[string]interface{}) map[string]interface{} {
				m := map[string]interface{}{"chain": chain, "step": i, "step_kind": ps.String(), "failed_parts": failed, "reload_config": e.liveText,
					"subnets_file": e.curSub, "policy_version_before": polV, "subnets_version_before": subV}
				for k, v := range extra {
					m[k] = v
				}
				return m
			}

			// ---- address policies ---------------------------------------------------------------------------
			prevPol := polV
			if last.confLoaded && newPol != 0 {
				polV = newPol
			}
			refused := func(k int) (covert, host, phantom bool) {
				o1, _ := st.rm.RegConfig.ParseOrResolveBlocklisted(verifC19PartCovert(k))
				o2, _ := st.rm.RegConfig.ParseOrResolveBlocklisted(verifC19PartHost(k))
				return o1 == "", o2 == "", st.rm.RegConfig.IsBlocklistedPhantom(verifC19PartPhantom(k))
			}
			c, h, p := refused(polV)
			rec.Count("partwise_witness_checks", 3)
			if !c || !h || !p {
				what := map[string]interface{}{"policy_version_expected": polV, "covert": verifC19PartCovert(polV), "covert_refused": c,
					"host": verifC19PartHost(polV), "host_refused": h, "phantom": verifC19PartPhantom(polV).String(), "phantom_refused": p}
				if polV != prevPol {
					rec.Violation("reload:part-witness:new-policy-not-in-force:failed="+failed,
						fmt.Sprintf("the configuration part of a reload loaded without error (failed parts of the same reload: %s), yet its entries are not enforced: covert %s refused=%v, host %s refused=%v, phantom %s refused=%v",
							failed, verifC19PartCovert(polV), c, verifC19PartHost(polV), h, verifC19PartPhantom(polV), p), detail(what))
				} else {
					rec.Violation("reload:part-witness:previous-policy-lost:failed="+failed,
						fmt.Sprintf("the configuration part of a reload failed, yet the entries of the version in force before are no longer enforced: covert %s refused=%v, host %s refused=%v, phantom %s refused=%v",
							verifC19PartCovert(polV), c, verifC19PartHost(polV), h, verifC19PartPhantom(polV), p), detail(what))
				}
			}
			if polV != prevPol {
				// the version in force before has been replaced: its own entries are gone
				c, h, p := refused(prevPol)
				rec.Count("partwise_witness_checks", 3)
				if c || h || p {
					rec.Violation("reload:part-witness:old-policy-still-in-force:failed="+failed,
						fmt.Sprintf("the configuration part of a reload loaded without error (failed parts: %s), yet entries that only the previous version had still decide: covert %s refused=%v, host %s refused=%v, phantom %s refused=%v",
							failed, verifC19PartCovert(prevPol), c, verifC19PartHost(prevPol), h, verifC19PartPhantom(prevPol), p),
						detail(map[string]interface{}{"policy_version_replaced": prevPol}))
				}
			}

			// after a violation continue from what is observed, so that one defect is not reported again under
			// the name of every later step
			if polV != prevPol {
				if c, h, p := refused(polV); !(c && h && p) {
					if c, h, p := refused(prevPol); c && h && p {
						polV = prevPol
					}
				}
			}

			// ---- phantom subnets -----------------------------------------------------------------------------
			prevSub := subV
			subLoaded := last.subErr == nil && newSub >= 0
			switch {
			case subLoaded && last.confLoaded:
				subV = newSub
				ok, inside, outs := selects(st, subs[subV])
				rec.Count("partwise_witness_checks", 1)
				if ok != len(outs) || inside != ok {
					rec.Violation("reload:part-witness:new-subnets-not-in-force:failed="+failed,
						fmt.Sprintf("the phantom subnets file of a reload loaded without error (failed parts: %s), yet selections for its generation %d do not come from it: %v (want addresses in %s / %s)",
							failed, subs[subV].gen, outs, subs[subV].v4, subs[subV].v6), detail(map[string]interface{}{"selections": outs}))
				}
				if subV != prevSub {
					ok, _, outs := selects(st, subs[prevSub])
					rec.Count("partwise_witness_checks", 1)
					if ok != 0 {
						rec.Violation("reload:part-witness:old-subnets-still-in-force:failed="+failed,
							fmt.Sprintf("the phantom subnets were replaced by a file without generation %d, yet that generation still selects: %v", subs[prevSub].gen, outs),
							detail(map[string]interface{}{"selections": outs}))
					}
				}
			case subLoaded:
				// the configuration part failed: main.go reloads nothing; a station that reloaded the subnets on
				// their own would also satisfy the statement – old or new, decided by what is observed
				okOld, inOld, _ := selects(st, subs[prevSub])
				okNew, inNew, _ := selects(st, subs[newSub])
				rec.Count("partwise_witness_checks", 1)
				switch {
				case okOld == 2*len(seeds) && inOld == okOld && (newSub == prevSub || okNew == 0):
				case okNew == 2*len(seeds) && inNew == okNew && (newSub == prevSub || okOld == 0):
					subV = newSub
				default:
					rec.Violation("reload:part-witness:subnets-neither-old-nor-new:failed="+failed,
						"after a reload whose configuration part failed the phantom subnets are neither the previous nor the new version", detail(map[string]interface{}{}))
				}
			default:
				ok, inside, outs := selects(st, subs[subV])
				rec.Count("partwise_witness_checks", 1)
				if ok != len(outs) || inside != ok {
					rec.Violation("reload:part-witness:previous-subnets-lost:failed="+failed,
						fmt.Sprintf("the phantom subnets file of a reload failed to load (%v), yet the generation %d of the version in force before no longer selects from it: %v", last.subErr, subs[subV].gen, outs),
						detail(map[string]interface{}{"selections": outs}))
				}
			}

			// (same resynchronisation for the subnets)
			if ok, inside, outs := selects(st, subs[subV]); ok != len(outs) || inside != ok {
				for j := range subs {
					if ok, inside, outs := selects(st, subs[j]); ok == len(outs) && inside == ok {
						subV = j
						break
					}
				}
			}

			e.populate(st, rng)
			e.housekeeping(st, 1, st.text, i%2 == 1)
		}
		if done > 0 {
			rec.Distinct("nontrivial", cfg.Desc, strings.Join(planDesc, "|"))
		}
		rec.Count("reload_steps_survived", done)
		e.shutdown(st)
	}
	rec.Note("part-wise chains: every step changes the policy lists and the subnets file while one part (GeoIP / subnets / configuration) is broken; each part is judged by its own witnesses")
}
