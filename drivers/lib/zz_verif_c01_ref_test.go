//go:build verif

package lib

// C01 – independent reference of the published client/station derivation.
//
// Written from the algorithm description, NOT by calling repository code: only the standard library
// (crypto/*, math/big, math/rand, net/netip) and x/crypto/hkdf.  It is validated against the frozen
// known-answer vectors in /verif/vectors before it is used as an oracle, so that a change moving the
// repository's client and station code *together* is still caught.
//
//   keys      HKDF-SHA256(secret, salt "conjureconjureconjureconjure", info ""); library versions < 4
//             first discard 16+12+16+12+48 = 104 bytes; then 16 bytes seed; the rest of the stream
//             feeds the obfs4 keys (32 bytes clamped X25519 private key, 20 bytes node id).
//   subnets   lib >= 2: groups sorted by ascending weight (stable), r uniform in [0,sum) drawn from
//             HKDF(seed, info "phantom-select-subnet") with crypto/rand.Int's rejection sampling, first
//             group whose cumulative weight exceeds r.  lib < 2: math/rand seeded with varint(seed),
//             r = Intn(sum)+1, first group whose cumulative weight is >= r.
//   address   family filter first.  lib >= 2: id uniform in [0,#addresses) from HKDF(seed, info
//             "phantom-addr-id"), the id-th address of the concatenated subnets.  lib 1: id = seed as a
//             big-endian integer mod #addresses picks the subnet; the host bits are math/rand bytes
//             (seeded with varint(seed)).  lib 0: the same with the historical off-by-one ranges.
//   port      443 unless lib >= 3 and the chosen group randomises; then per transport: lo + uniform
//             [0,65535-lo) from HKDF(seed, info "phantom-select-dst-port") if the client asked for it
//             (lo = 1024, obfs4: 22), else the default (443; prefix: per prefix id).
//   secrets   HMAC-SHA256(secret, label) for min / prefix / dtls; DTLS credentials from
//             HKDF(secret, salt "certsFromSeed") and HKDF(secret, salt "clientHelloRandomFromSeed").

import (
	"crypto/ecdh"
	"crypto/elliptic"
	"crypto/hmac"
	"crypto/sha256"
	"encoding/hex"
	"fmt"
	"io"
	"math/big"
	mrand "math/rand"
	"net/netip"

	"golang.org/x/crypto/hkdf"
)

// ---- shared plain-data types (JSON: these are what the vector files contain) ----------------------

type c01Group struct {
	W    uint32   `json:"w"`
	RP   bool     `json:"rp,omitempty"`
	Nets []string `json:"nets"`
}

// c01Params describes the transport parameters the station receives.
type c01Params struct {
	Kind   string `json:"k"`              // absent | empty | set
	Rand   *bool  `json:"rand,omitempty"` // randomize_dst_port
	Prefix *int32 `json:"pid,omitempty"`  // prefix_id (prefix transport)
	Flush  *int32 `json:"fl,omitempty"`   // custom_flush_policy (prefix transport)
	Unord  *bool  `json:"uo,omitempty"`   // unordered (dtls)
	URL    string `json:"url,omitempty"`  // "" (as clients send it) | proto | tapdance
}

type c01Input struct {
	Secret   string    `json:"s"`
	Lib      uint32    `json:"lib"`
	LibUnset bool      `json:"lib_unset,omitempty"` // lib 0 expressed by an absent field
	Gen      uint32    `json:"gen"`                 // generation the client names
	V6       bool      `json:"v6,omitempty"`
	Tr       string    `json:"tr"` // min | obfs4 | prefix | dtls
	P        c01Params `json:"p"`
	Cfg      int       `json:"cfg"` // index of the subnet configuration
}

type c01Config struct {
	ID     int        `json:"id"`
	Gen    uint32     `json:"gen"`
	Origin string     `json:"origin,omitempty"`
	Groups []c01Group `json:"groups"`
}

// c01Out is what one side derives (or the class of its refusal).
type c01Out struct {
	Err  string `json:"err,omitempty"`
	Seed string `json:"seed,omitempty"`
	IP   string `json:"ip,omitempty"`
	Port uint16 `json:"port,omitempty"`
	ID   string `json:"id,omitempty"` // transport identifier, hex
	// obfs4
	OPub  string `json:"opub,omitempty"`
	ONode string `json:"onode,omitempty"`
	// dtls: uncompressed P-256 points, serials (hex), common names, hello random
	DCPub string `json:"dcpub,omitempty"`
	DSPub string `json:"dspub,omitempty"`
	DCSer string `json:"dcser,omitempty"`
	DSSer string `json:"dsser,omitempty"`
	DCCN  string `json:"dccn,omitempty"`
	DSCN  string `json:"dscn,omitempty"`
	DRand string `json:"drand,omitempty"`
}

// refusal classes
const (
	c01ErrGen        = "unknown-generation"
	c01ErrNoAddrs    = "select:no-addrs"
	c01ErrV1NoAddrs  = "select:legacy-v1-no-addrs"
	c01ErrV0NoAddrs  = "select:legacy-v0-no-addrs"
	c01ErrV0Bug      = "select:legacy-v0-bug"
	c01ErrPrefixLib  = "params:prefix-needs-lib3"
	c01ErrPrefixUnk  = "params:unknown-prefix"
	c01ErrPortParams = "port:bad-params"
)

// ---- primitives ---------------------------------------------------------------------------------

// c01RefUniform reproduces crypto/rand.Int: minimal byte count, excess top bits cleared, rejection.
func c01RefUniform(r io.Reader, max *big.Int) (*big.Int, error) {
	if max.Sign() <= 0 {
		return nil, fmt.Errorf("reference: non-positive bound")
	}
	top := new(big.Int).Sub(max, big.NewInt(1))
	bits := top.BitLen()
	if bits == 0 {
		return new(big.Int), nil
	}
	buf := make([]byte, (bits+7)/8)
	keep := uint(bits % 8)
	if keep == 0 {
		keep = 8
	}
	for {
		if _, err := io.ReadFull(r, buf); err != nil {
			return nil, err
		}
		buf[0] &= byte(1<<keep - 1)
		v := new(big.Int).SetBytes(buf)
		if v.Cmp(max) < 0 {
			return v, nil
		}
	}
}

func c01RefStream(key []byte, info string) io.Reader {
	return hkdf.New(sha256.New, key, nil, []byte(info))
}

// c01RefVarint decodes a zig-zag varint the way encoding/binary.Varint does, including its answer for
// values that overflow 64 bits (0 with a negative length) and for truncated input (0, 0).
func c01RefVarint(b []byte) (int64, int) {
	var u uint64
	var shift uint
	for i, c := range b {
		if i == 10 {
			return 0, -(i + 1)
		}
		if c < 0x80 {
			if i == 9 && c > 1 {
				return 0, -(i + 1)
			}
			u |= uint64(c) << shift
			v := int64(u >> 1)
			if u&1 == 1 {
				v = ^v
			}
			return v, i + 1
		}
		u |= uint64(c&0x7f) << shift
		shift += 7
	}
	return 0, 0
}

func c01RefHMAC(key []byte, label string) []byte {
	h := hmac.New(sha256.New, key)
	h.Write([]byte(label))
	return h.Sum(nil)
}

// ---- keys ---------------------------------------------------------------------------------------

func c01RefKeys(secret []byte, lib uint32) (seed []byte, rest io.Reader, err error) {
	r := hkdf.New(sha256.New, secret, []byte("conjureconjureconjureconjure"), nil)
	if lib < 4 {
		if _, err = io.ReadFull(r, make([]byte, 16+12+16+12+48)); err != nil {
			return nil, nil, err
		}
	}
	seed = make([]byte, 16)
	if _, err = io.ReadFull(r, seed); err != nil {
		return nil, nil, err
	}
	return seed, r, nil
}

// ---- subnet choice ------------------------------------------------------------------------------

// ascending weight, ties keep configuration order
func c01RefSorted(groups []c01Group) []c01Group {
	out := append([]c01Group(nil), groups...)
	for i := 1; i < len(out); i++ {
		for j := i; j > 0 && out[j].W < out[j-1].W; j-- {
			out[j], out[j-1] = out[j-1], out[j]
		}
	}
	return out
}

func c01RefChooseGroup(seed []byte, lib uint32, groups []c01Group) (*c01Group, error) {
	var with []c01Group
	for _, g := range groups {
		if len(g.Nets) > 0 {
			with = append(with, g)
		}
	}
	sorted := c01RefSorted(with)
	var sum int64
	for _, g := range sorted {
		sum += int64(g.W)
	}
	if sum <= 0 {
		return nil, fmt.Errorf("reference: total weight %d is outside the well-formed domain", sum)
	}
	if lib >= 2 {
		r, err := c01RefUniform(c01RefStream(seed, "phantom-select-subnet"), big.NewInt(sum))
		if err != nil {
			return nil, err
		}
		left := r.Int64()
		for i := range sorted {
			left -= int64(sorted[i].W)
			if left < 0 {
				return &sorted[i], nil
			}
		}
		return nil, fmt.Errorf("reference: weighted walk fell through")
	}
	s, n := c01RefVarint(seed)
	if n == 0 {
		return nil, fmt.Errorf("reference: seed too short for a varint")
	}
	rng := mrand.New(mrand.NewSource(s))
	r := int64(rng.Intn(int(sum))) + 1
	var acc int64
	for i := range sorted {
		acc += int64(sorted[i].W)
		if acc >= r {
			return &sorted[i], nil
		}
	}
	return nil, fmt.Errorf("reference: legacy weighted walk fell through")
}

// ---- address choice -----------------------------------------------------------------------------

type c01RefNet struct {
	base []byte // network address, 4 or 16 bytes
	ones int
}

func (n c01RefNet) hostBits() int { return len(n.base)*8 - n.ones }
func (n c01RefNet) size() *big.Int {
	return new(big.Int).Lsh(big.NewInt(1), uint(n.hostBits()))
}

func c01RefParseNets(cidrs []string, fam string) ([]c01RefNet, error) {
	var out []c01RefNet
	for _, c := range cidrs {
		p, err := netip.ParsePrefix(c)
		if err != nil {
			return nil, fmt.Errorf("reference: %q: %v", c, err)
		}
		p = p.Masked()
		a := p.Addr()
		if a.Is4In6() {
			return nil, fmt.Errorf("reference: %q is outside the well-formed domain", c)
		}
		is4 := a.Is4()
		if (fam == "v4" && !is4) || (fam == "v6" && is4) {
			continue
		}
		b := a.AsSlice()
		if b[0] == 0 {
			return nil, fmt.Errorf("reference: %q (leading zero byte) is outside the well-formed domain", c)
		}
		out = append(out, c01RefNet{base: b, ones: p.Bits()})
	}
	return out, nil
}

func c01RefAdd(n c01RefNet, off *big.Int) []byte {
	v := new(big.Int).SetBytes(n.base)
	v.Add(v, off)
	out := make([]byte, len(n.base))
	v.FillBytes(out)
	return out
}

// legacy host part: math/rand bytes, masked to the host bits
func c01RefLegacyAddr(seed []byte, n c01RefNet) ([]byte, error) {
	s, l := c01RefVarint(seed)
	if l == 0 {
		return nil, fmt.Errorf("reference: seed too short for a varint")
	}
	rng := mrand.New(mrand.NewSource(s))
	buf := make([]byte, len(n.base))
	rng.Read(buf)
	out := make([]byte, len(n.base))
	for i := range out {
		// bit k of the address (0 = most significant) belongs to the host part iff k >= ones
		var hostMask byte
		for bit := 0; bit < 8; bit++ {
			if i*8+bit >= n.ones {
				hostMask |= 0x80 >> uint(bit)
			}
		}
		out[i] = n.base[i] | (buf[i] & hostMask)
	}
	return out, nil
}

// c01RefAddress returns the address or a refusal class.
func c01RefAddress(seed []byte, lib uint32, nets []c01RefNet) ([]byte, string, error) {
	switch {
	case lib >= 2:
		total := new(big.Int)
		for _, n := range nets {
			total.Add(total, n.size())
		}
		if total.Sign() == 0 {
			return nil, c01ErrNoAddrs, nil
		}
		id, err := c01RefUniform(c01RefStream(seed, "phantom-addr-id"), total)
		if err != nil {
			return nil, "", err
		}
		lo := new(big.Int)
		for _, n := range nets {
			hi := new(big.Int).Add(lo, n.size())
			if id.Cmp(lo) >= 0 && id.Cmp(hi) < 0 {
				return c01RefAdd(n, new(big.Int).Sub(id, lo)), "", nil
			}
			lo = hi
		}
		return nil, "", fmt.Errorf("reference: id outside every subnet")
	case lib == 1:
		total := new(big.Int)
		for _, n := range nets {
			total.Add(total, n.size())
		}
		if total.Sign() == 0 {
			return nil, c01ErrV1NoAddrs, nil
		}
		id := new(big.Int).SetBytes(seed)
		if id.Cmp(total) >= 0 {
			id.Mod(id, total)
		}
		lo := new(big.Int)
		for _, n := range nets {
			hi := new(big.Int).Add(lo, n.size())
			if id.Cmp(lo) >= 0 && id.Cmp(hi) < 0 {
				a, err := c01RefLegacyAddr(seed, n)
				return a, "", err
			}
			lo = hi
		}
		return nil, "", fmt.Errorf("reference: id outside every subnet")
	default:
		// version 0: every subnet contributes (size-1) to the running total and owns the half-open
		// range (before, after]; ids that fall on no range are the historical selection bug
		total := new(big.Int)
		type rng struct{ lo, hi *big.Int }
		var ranges []rng
		for _, n := range nets {
			lo := new(big.Int).Set(total)
			total.Add(total, n.size())
			total.Sub(total, big.NewInt(1))
			ranges = append(ranges, rng{lo, new(big.Int).Set(total)})
		}
		if total.Sign() <= 0 {
			return nil, c01ErrV0NoAddrs, nil
		}
		id := new(big.Int).SetBytes(seed)
		if id.Cmp(total) > 0 {
			id.Mod(id, total)
		}
		var hit *c01RefNet
		for i, r := range ranges {
			if id.Cmp(r.lo) > 0 && id.Cmp(r.hi) <= 0 {
				hit = &nets[i]
			}
		}
		if hit == nil {
			return nil, c01ErrV0Bug, nil
		}
		a, err := c01RefLegacyAddr(seed, *hit)
		return a, "", err
	}
}

func c01IPString(b []byte) string {
	if a, ok := netip.AddrFromSlice(b); ok {
		return a.Unmap().String() // a 16-byte rendering of an IPv4 address is the same address
	}
	return "malformed:" + hex.EncodeToString(b)
}

// c01RefSelect: family "v4" | "v6" | "any".
func c01RefSelect(seed []byte, lib uint32, groups []c01Group, fam string) (ip []byte, rp bool, class string, err error) {
	g, err := c01RefChooseGroup(seed, lib, groups)
	if err != nil {
		return nil, false, "", err
	}
	nets, err := c01RefParseNets(g.Nets, fam)
	if err != nil {
		return nil, false, "", err
	}
	ip, class, err = c01RefAddress(seed, lib, nets)
	return ip, g.RP, class, err
}

// ---- port ---------------------------------------------------------------------------------------

var c01RefPrefixPort = map[int32]uint16{0: 443, 1: 80, 2: 80, 3: 80, 4: 443, 5: 443, 6: 443, 7: 443, 8: 53, 9: 22}

func c01RefSeededPort(seed []byte, lo int64) (uint16, error) {
	v, err := c01RefUniform(c01RefStream(seed, "phantom-select-dst-port"), big.NewInt(65535-lo))
	if err != nil {
		return 0, err
	}
	return uint16(v.Int64() + lo), nil
}

func c01Bool(b *bool) bool { return b != nil && *b }

// ---- the whole derivation -------------------------------------------------------------------------

func c01RefDerive(in c01Input, groups []c01Group, genKnown bool) (c01Out, error) {
	var out c01Out
	secret, err := hex.DecodeString(in.Secret)
	if err != nil {
		return out, err
	}
	seed, rest, err := c01RefKeys(secret, in.Lib)
	if err != nil {
		return out, err
	}
	if !genKnown {
		out.Err = c01ErrGen
		return out, nil
	}
	fam := "v4"
	if in.V6 {
		fam = "v6"
	}
	ip, rp, class, err := c01RefSelect(seed, in.Lib, groups, fam)
	if err != nil {
		return out, err
	}
	if class != "" {
		out.Err = class
		return out, nil
	}

	// parameters as the station understands them
	present := in.P.Kind != "absent"
	wantRand := present && in.P.Kind == "set" && c01Bool(in.P.Rand)
	var pid int32
	if in.P.Kind == "set" && in.P.Prefix != nil {
		pid = *in.P.Prefix
	}
	if in.Tr == "prefix" && present {
		if in.Lib < 3 {
			out.Err = c01ErrPrefixLib
			return out, nil
		}
		if _, ok := c01RefPrefixPort[pid]; !ok {
			out.Err = c01ErrPrefixUnk
			return out, nil
		}
	}

	// port
	port := uint16(443)
	if in.Lib >= 3 && rp {
		switch in.Tr {
		case "min", "dtls":
			if wantRand {
				if port, err = c01RefSeededPort(seed, 1024); err != nil {
					return out, err
				}
			}
		case "obfs4":
			if wantRand {
				if port, err = c01RefSeededPort(seed, 22); err != nil {
					return out, err
				}
			}
		case "prefix":
			switch {
			case !present:
				out.Err = c01ErrPortParams
				return out, nil
			case wantRand:
				if port, err = c01RefSeededPort(seed, 1024); err != nil {
					return out, err
				}
			default:
				port = c01RefPrefixPort[pid]
			}
		}
	}
	out.Seed = hex.EncodeToString(seed)
	out.IP = c01IPString(ip)
	out.Port = port

	// transport secrets
	switch in.Tr {
	case "min":
		out.ID = hex.EncodeToString(c01RefHMAC(secret, "MinTrasportHMACString"))
	case "prefix":
		out.ID = hex.EncodeToString(c01RefHMAC(secret, "PrefixTransportHMACString"))
	case "obfs4":
		priv := make([]byte, 32)
		node := make([]byte, 20)
		if _, err = io.ReadFull(rest, priv); err != nil {
			return out, err
		}
		if _, err = io.ReadFull(rest, node); err != nil {
			return out, err
		}
		priv[0] &= 248
		priv[31] &= 127
		priv[31] |= 64
		k, err := ecdh.X25519().NewPrivateKey(priv)
		if err != nil {
			return out, err
		}
		pub := k.PublicKey().Bytes()
		out.OPub = hex.EncodeToString(pub)
		out.ONode = hex.EncodeToString(node)
		out.ID = out.OPub + out.ONode
	case "dtls":
		out.ID = hex.EncodeToString(c01RefHMAC(secret, "dtlsTrasportHMACString"))
		if err = c01RefDTLS(secret, &out); err != nil {
			return out, err
		}
	default:
		return out, fmt.Errorf("reference: unknown transport %q", in.Tr)
	}
	return out, nil
}

// c01RefDTLS: both certificates come from one stream, client first: 40 bytes -> private scalar
// (b mod (n-1)) + 1, serial uniform in [0, 2^130-1), 8 bytes common name.
func c01RefDTLS(psk []byte, out *c01Out) error {
	r := hkdf.New(sha256.New, psk, []byte("certsFromSeed"), nil)
	one := big.NewInt(1)
	serialBound := new(big.Int).Sub(new(big.Int).Lsh(one, 130), one)
	cert := func() (pub, serial, cn string, err error) {
		b := make([]byte, 40)
		if _, err = io.ReadFull(r, b); err != nil {
			return
		}
		n1 := new(big.Int).Sub(elliptic.P256().Params().N, one)
		d := new(big.Int).SetBytes(b)
		d.Mod(d, n1)
		d.Add(d, one)
		db := make([]byte, 32)
		d.FillBytes(db)
		k, e := ecdh.P256().NewPrivateKey(db)
		if e != nil {
			err = e
			return
		}
		pub = hex.EncodeToString(k.PublicKey().Bytes()[1:]) // X || Y
		s, e := c01RefUniform(r, serialBound)
		if e != nil {
			err = e
			return
		}
		serial = s.Text(16)
		c := make([]byte, 8)
		if _, err = io.ReadFull(r, c); err != nil {
			return
		}
		cn = hex.EncodeToString(c)
		return
	}
	var err error
	if out.DCPub, out.DCSer, out.DCCN, err = cert(); err != nil {
		return err
	}
	if out.DSPub, out.DSSer, out.DSCN, err = cert(); err != nil {
		return err
	}
	hr := make([]byte, 28) // the DTLS hello random minus its 4 time bytes
	if _, err = io.ReadFull(hkdf.New(sha256.New, psk, []byte("clientHelloRandomFromSeed"), nil), hr); err != nil {
		return err
	}
	out.DRand = hex.EncodeToString(hr)
	return nil
}
