//go:build verif

package lib

// C06 – monitor 2, "refused" class: the literal that was admitted has NO listener (the connect is
// refused) while other addresses – forbidden ones the supplied name (also / later) resolves to, and a
// second permitted one – DO have listeners on the same port.  When the dial to the admitted literal
// fails, Proxy must simply fail (tunnel summary with a CovertDialErr): it must not ask the resolver and
// no other address may ever be connected to.  "The address that was checked is the address that is
// dialed" – also on the failure path.

import (
	"encoding/json"
	"fmt"
	"net"
	"net/netip"
	"strings"
	"time"

	kit "github.com/refraction-networking/conjure/internal/verifkit"
	"github.com/refraction-networking/conjure/pkg/station/log"
	pb "github.com/refraction-networking/conjure/proto"
)

var c06Allowed2 = netip.MustParseAddr("127.0.0.6") // permitted by the blocklist and the allowlist policy, like 127.0.0.5

var c06RefusedKinds = []string{"rebind-allowed-then-blocked", "two-records-permitted-then-forbidden", "a-permitted-aaaa-loopback", "two-records-both-permitted",
	"rebind-allowed-then-other-permitted", "mapped-literal", "canonical-literal", "stable-name-one-record"}

// c06Refuses reports whether a connect to addr is refused right now.
func c06Refuses(addr string) bool {
	c, err := net.DialTimeout("tcp", addr, 10*time.Second)
	if err == nil {
		c.Close()
		return false
	}
	return strings.Contains(err.Error(), "refused")
}

func (e *c06E2E) runRefused(kind, mode string, src pb.RegistrationSource, dual bool, secret []byte) {
	e.seq++
	pol, rm := e.pols[mode], e.rms[mode]
	label := fmt.Sprintf("refused:%s policy=%s source=%s dual=%v flags=%s", kind, mode, src, dual, e.flagsName)
	e.rec.Case(label)
	e.logbuf.Take()

	// listeners on every address EXCEPT the one that will be admitted (127.0.0.5)
	var listeners []*c06Listener
	closeAll := func() {
		for _, l := range listeners {
			l.Close()
		}
		listeners = nil
	}
	defer func() { closeAll() }()
	port := 0
	for try := 0; ; try++ {
		lnB, err := c06Listen("forbidden-127.0.0.66", c06Blocked, 0)
		if err != nil {
			e.t.Fatal(err)
		}
		listeners = []*c06Listener{lnB}
		port = lnB.Port()
		for _, x := range []struct {
			n  string
			ip netip.Addr
		}{{"forbidden-127.0.0.1", c06Loop4}, {"forbidden-::1", c06Loop6}, {"other-permitted-127.0.0.6", c06Allowed2}} {
			var l *c06Listener
			if l, err = c06Listen(x.n, x.ip, port); err != nil {
				break
			}
			listeners = append(listeners, l)
		}
		if err == nil && c06Refuses(fmt.Sprintf("127.0.0.5:%d", port)) {
			break
		}
		closeAll()
		if try > 50 {
			e.t.Fatalf("cannot build the listener set with a refusing 127.0.0.5: %v", err)
		}
	}
	admittedWant := fmt.Sprintf("127.0.0.5:%d", port)

	name := fmt.Sprintf("e%d.refused.verif.test", e.seq)
	covert := fmt.Sprintf("%s:%d", name, port)
	switch kind {
	case "rebind-allowed-then-blocked":
		e.dns.Script(name, []c06Round{{V4: []netip.Addr{c06Allowed}}, {V4: []netip.Addr{c06Blocked}}})
	case "two-records-permitted-then-forbidden":
		e.dns.Script(name, []c06Round{{V4: []netip.Addr{c06Allowed, c06Blocked}}})
	case "a-permitted-aaaa-loopback":
		e.dns.Script(name, []c06Round{{V4: []netip.Addr{c06Allowed}, V6: []netip.Addr{c06Loop6}}})
	case "two-records-both-permitted":
		e.dns.Script(name, []c06Round{{V4: []netip.Addr{c06Allowed, c06Allowed2}}})
	case "rebind-allowed-then-other-permitted":
		e.dns.Script(name, []c06Round{{V4: []netip.Addr{c06Allowed}}, {V4: []netip.Addr{c06Allowed2}}})
	case "stable-name-one-record":
		e.dns.Script(name, []c06Round{{V4: []netip.Addr{c06Allowed}}})
	case "mapped-literal":
		name, covert = "", fmt.Sprintf("[::ffff:127.0.0.5]:%d", port)
	case "canonical-literal":
		name, covert = "", admittedWant
	default:
		e.t.Fatalf("unknown refused kind %q", kind)
	}
	defer func() {
		if name != "" {
			e.dns.Forget(name)
		}
	}()
	queries := func() (int, []netip.Addr) {
		if name == "" {
			return 0, nil
		}
		a, aaaa, h := e.dns.Snapshot(name)
		return a + aaaa, h
	}

	regs, err := rm.parseRegMessage(e.regMsg(secret, covert, src, dual))
	if err != nil || len(regs) == 0 {
		e.rec.Count("parse_failed", 1)
		e.parseFails++
		if e.parseFails > 20 {
			e.t.Fatalf("parseRegMessage keeps failing on well-formed registrations: %v\n%s", err, e.logbuf.Take())
		}
		return
	}
	// only the first registration of the message is admitted with the name's first answer; a second
	// (IPv6-phantom) registration of a rebinding name sees the later answer and is judged like any other
	for _, reg := range regs {
		rm.ingestRegistration(reg)
	}
	_, handedAtAdmission := queries()

	for ri, reg := range regs {
		stored := rm.registeredDecoys.RegistrationExists(reg)
		valid, storedCovert := false, ""
		if stored != nil {
			rm.registeredDecoys.m.RLock()
			valid, storedCovert = stored.Valid, stored.Covert
			rm.registeredDecoys.m.RUnlock()
		}
		e.rec.Count("registrations_ingested", 1)
		if !valid {
			e.rec.Count("not_admitted", 1)
			continue
		}
		e.rec.Count("admitted", 1)
		detail := map[string]interface{}{"phantom": reg.PhantomIp.String(), "reg_index": ri}
		lit, isLit := e.judgeStored(label, detail, pol, covert, storedCovert, handedAtAdmission)
		if !isLit || storedCovert != admittedWant {
			// admitted with something else than the refusing address (e.g. the v6 half of a rebinding
			// name): judged by judgeStored above; the failure path is not exercised by it
			e.rec.Count("refused_admitted_other_literal", 1)
			continue
		}
		if !c06Refuses(admittedWant) {
			e.rec.Inconclusive("the admitted address does not refuse connections any more (port taken by someone else)", map[string]interface{}{"scenario": label})
			continue
		}

		q0, _ := queries()
		e.logbuf.Take()
		client := kit.NewScriptConn("client", kit.TCPAddr("192.0.2.10", 443), kit.TCPAddr("203.0.113.77", 50123), []kit.Seg{{Data: []byte(fmt.Sprintf("c06r-%d", e.seq))}}, kit.EndEOF)
		client.MaxBlock = 60 * time.Second
		plog := log.New(e.logbuf, "[PROXY] ", 0)
		done := make(chan struct{})
		go func() { Proxy(stored, client, plog); close(done) }()
		select {
		case <-done:
		case <-time.After(90 * time.Second):
			e.rec.Inconclusive("Proxy did not return within 90 s", map[string]interface{}{"scenario": label, "covert": storedCovert})
			client.Close()
			for _, l := range listeners {
				l.ln.Close()
			}
			<-done
			return
		}
		plogText := e.logbuf.Take()
		q1, _ := queries()
		base := func(extra map[string]interface{}) map[string]interface{} {
			d := map[string]interface{}{"scenario": label, "supplied_covert": covert, "admitted_covert": storedCovert, "admitted_address_listening": false, "policy": pol.desc(), "proxy_log": plogText}
			for k, v := range extra {
				d[k] = v
			}
			return d
		}
		viol := func(sig, msg string, extra map[string]interface{}) {
			e.rec.Count("violations_by_sig["+sig+"]", 1)
			e.rec.Violation(sig, msg, base(extra))
		}
		if q1 > q0 {
			viol("e2e:resolved-again-at-dial", "the resolver was asked again when the tunnel was opened: the address dialed is not the address that was checked at admission",
				map[string]interface{}{"queries_at_dial": q1 - q0, "path": "after the connect to the admitted literal was refused"})
		}
		nconn := 0
		for _, l := range listeners {
			acc, err := l.Settle()
			if err != nil {
				e.rec.Inconclusive("listener could not be settled", map[string]interface{}{"scenario": label, "listener": l.Name, "err": err.Error()})
				continue
			}
			for _, a := range acc {
				nconn++
				e.rec.Count("covert_connections_observed", 1)
				x := map[string]interface{}{"listener": l.Name, "accepted_local": a.Local, "accepted_remote": a.Remote, "received": a.Got}
				if why := pol.forbidden(l.IP); why != "" {
					viol("e2e:connected-to-forbidden-address:via-fallback-after-refused-dial", "the connect to the admitted literal was refused and the station then opened a covert connection to an address that policy forbids ("+why+")", x)
				} else {
					viol("e2e:dialed-address-differs-from-admitted", "the connect to the admitted literal was refused and the connection arrived at another address than the literal stored at admission", x)
				}
			}
		}
		_ = lit
		// the failure must be reported as such: a tunnel cannot legitimately open when the only admitted
		// address refuses connections
		var ts tunnelStats
		if idx := strings.Index(plogText, "proxy closed "); idx >= 0 {
			js := plogText[idx+len("proxy closed "):]
			if nl := strings.IndexByte(js, '\n'); nl >= 0 {
				js = js[:nl]
			}
			if json.Unmarshal([]byte(js), &ts) == nil && ts.CovertDialErr == "" && c06Refuses(admittedWant) {
				viol("e2e:tunnel-opened-although-admitted-address-refuses", "the admitted literal refuses connections, yet Proxy reports a tunnel without a covert dial error: it reached some other address", map[string]interface{}{"summary": js})
			} else if ts.CovertDialErr != "" {
				e.rec.Count("refused_dial_failed_cleanly", 1)
			}
		}
		if e.refSamples < 2 && name != "" {
			e.refSamples++
			e.rec.Sample(map[string]interface{}{"scenario": label, "supplied_covert": covert, "admitted_covert": storedCovert, "connections_anywhere": nconn, "queries_at_dial": q1 - q0, "covert_dial_err": ts.CovertDialErr})
		}
	}
	e.rec.Count("evaluations", 1)
	e.rec.Count("refused_evaluations", 1)
	e.rec.Distinct("nontrivial", "refused", kind, mode, src.String(), dual, e.flagsName)
	e.rec.Count("flags["+e.flagsName+"].cases", 1)
	e.rec.Distinct("refused_kinds", kind, mode)
}
