//go:build verif

package lib

// C17 (second sub-workload) – the station's other writer of client addresses is registration ingest:
// registrations with distinctive registrant addresses are driven to every ingest outcome with the
// real logger at its default level; the orchestrator greps the captured process output.

import (
	"context"
	"errors"
	"fmt"
	"net"
	"os"
	"testing"
	"time"

	"github.com/go-redis/redis/v8"
	"github.com/refraction-networking/conjure/internal/conjurepath"
	kit "github.com/refraction-networking/conjure/internal/verifkit"
	pdtls "github.com/refraction-networking/conjure/pkg/dtls"
	"github.com/refraction-networking/conjure/pkg/station/log"
	cdtls "github.com/refraction-networking/conjure/pkg/transports/connecting/dtls"
	"github.com/refraction-networking/conjure/pkg/transports/wrapping/min"
	pb "github.com/refraction-networking/conjure/proto"
	"google.golang.org/protobuf/proto"
	"google.golang.org/protobuf/types/known/anypb"
)

type c17Live struct{ live bool }

func (l *c17Live) PhantomIsLive(addr string, port uint16) (bool, error) {
	if l.live {
		return true, fmt.Errorf("phantom %s:%d answered", addr, port)
	}
	return false, nil
}
func (*c17Live) PrintAndReset(*log.Logger) {}
func (*c17Live) PrintStats(*log.Logger)    {}
func (*c17Live) Reset()                    {}

// c17Spell: LOG_CLIENT_IP in one of the spellings the station's main() reads as "disabled" (see the app driver)
var c17Spellings = []string{"<unset>", "false", "<unset>", "0", "False", "<unset>", "FALSE", "f", "F", "<unset>", "", "no", "off", "No", "disabled", "2"}

func c17Spell(n int) string {
	sp := c17Spellings[n%len(c17Spellings)]
	if sp == "<unset>" {
		os.Unsetenv("LOG_CLIENT_IP")
	} else {
		os.Setenv("LOG_CLIENT_IP", sp)
	}
	return sp
}

func TestVerifC17Ingest(t *testing.T) {
	rec := kit.NewRec("C17", "ingest")
	defer rec.Close()
	os.Setenv("PHANTOM_SUBNET_LOCATION", conjurepath.Root+"/pkg/station/lib/test/phantom_subnets.toml")
	fr, err := kit.NewFakeRedis("127.0.0.1:0")
	if err != nil {
		t.Fatal(err)
	}
	once.Do(func() {})
	client = redis.NewClient(&redis.Options{Addr: fr.Addr(), PoolSize: 10})

	conf := &RegConfig{EnableIPv4: true, EnableIPv6: true,
		CovertBlocklistSubnets: []string{"10.0.0.0/8", "127.0.0.0/8"},
		CovertBlocklistDomains: []string{".*blocked\\.example$"},
		PhantomBlocklist:       []string{"192.122.190.0/29"},
		EnableShareOverAPI:     true, PreshareEndpoint: "http://127.0.0.1:9/register"}
	conf.ParseBlocklists()
	rm := NewRegistrationManager(conf)
	if rm == nil {
		t.Fatal("nil registration manager")
	}
	lt := &c17Live{}
	rm.LivenessTester = lt
	if err := rm.AddTransport(pb.TransportType_Min, min.Transport{}); err != nil {
		t.Fatal(err)
	}
	// a connecting transport (DTLS) whose both attempts fail: the dial towards the client's address has no
	// route in this sandbox ("connect: network is unreachable", an error text that names the client) and
	// the stand-in listener refuses at once.  Whatever the station does with that error, it must not print it.
	if err := rm.AddTransport(pb.TransportType_DTLS, cdtls.VerifNewTransport(c17Listener{}, c17DNAT{})); err != nil {
		t.Fatal(err)
	}
	rm.connectingStats = c17ConnStats{}
	clients := []struct {
		name string
		ip   net.IP
	}{
		{"v4", net.ParseIP("203.0.113.77").To4()},
		{"v6", net.ParseIP("2001:db8::77:88")},
		{"v4mapped", net.ParseIP("203.0.113.77").To16()},
	}
	rng := kit.Rand("c17-ingest")
	n := 0
	run := func(cl int, outcome string, mod func(w *pb.C2SWrapper), live bool) {
		n++
		fmt.Fprintf(os.Stdout, "VERIFCASE %d\n", n)
		desc := fmt.Sprintf("#%d ingest registrant=%s outcome=%s", n, clients[cl].name, outcome)
		rec.Ev("case", map[string]interface{}{"n": n, "desc": desc, "LOG_CLIENT_IP": c17Spell(n)})
		secret := make([]byte, 32)
		rng.Read(secret)
		src := pb.RegistrationSource_API
		w := &pb.C2SWrapper{
			SharedSecret: secret,
			RegistrationPayload: &pb.ClientToStation{
				ClientLibVersion: proto.Uint32(4), Transport: pb.TransportType_Min.Enum(), CovertAddress: proto.String("192.0.2.99:443"),
				DecoyListGeneration: proto.Uint32(957), V4Support: proto.Bool(clients[cl].ip.To4() != nil), V6Support: proto.Bool(true),
			},
			RegistrationSource:  &src,
			RegistrationAddress: []byte(clients[cl].ip),
		}
		if mod != nil {
			mod(w)
		}
		lt.live = live
		b, _ := proto.Marshal(w)
		reps := 1
		if outcome == "duplicate" {
			reps = 2
		}
		for i := 0; i < reps; i++ {
			regs, err := rm.parseRegMessage(b)
			if err != nil {
				rec.Count("parse_errors", 1)
			}
			for _, r := range regs {
				rm.ingestRegistration(r)
			}
		}
		rec.Count("evaluations", 1)
		rec.Distinct("nontrivial", clients[cl].name, outcome)
		if rec.WantSample() {
			rec.Sample(desc)
		}
	}
	reps := kit.Tier(3, 60)
	for r := 0; r < reps; r++ {
		for cl := range clients {
			run(cl, "admitted", nil, false)
			run(cl, "duplicate", nil, false)
			run(cl, "malformed-covert", func(w *pb.C2SWrapper) { w.RegistrationPayload.CovertAddress = proto.String("no port here") }, false)
			run(cl, "blocklisted-covert-subnet", func(w *pb.C2SWrapper) { w.RegistrationPayload.CovertAddress = proto.String("10.1.2.3:443") }, false)
			run(cl, "blocklisted-covert-domain", func(w *pb.C2SWrapper) { w.RegistrationPayload.CovertAddress = proto.String("www.blocked.example:443") }, false)
			run(cl, "live-phantom", nil, true)
			run(cl, "blocklisted-phantom-api", func(w *pb.C2SWrapper) {
				w.RegistrationResponse = &pb.RegistrationResponse{Ipv4Addr: proto.Uint32(0xC07ABE02), Ipv6Addr: net.ParseIP("2001:48a8:687f:1::5")}
			}, false)
			run(cl, "detector-source-shared-over-api", func(w *pb.C2SWrapper) {
				s := pb.RegistrationSource_Detector
				w.RegistrationSource = &s
			}, false)
			run(cl, "detector-source-blocklisted-phantom", func(w *pb.C2SWrapper) {
				s := pb.RegistrationSource_Detector
				w.RegistrationSource = &s
				w.RegistrationResponse = &pb.RegistrationResponse{Ipv4Addr: proto.Uint32(0xC07ABE02)}
			}, false)
			run(cl, "dtls-connect-fails", func(w *pb.C2SWrapper) {
				w.RegistrationPayload.Transport = pb.TransportType_DTLS.Enum()
				ip4 := clients[cl].ip.To4()
				if ip4 == nil {
					ip4 = net.ParseIP("203.0.113.77").To4()
				}
				params, _ := anypb.New(&pb.DTLSTransportParams{
					SrcAddr4: &pb.Addr{IP: ip4, Port: proto.Uint32(40777)},
					SrcAddr6: &pb.Addr{IP: net.ParseIP("2001:db8::77:88"), Port: proto.Uint32(40777)},
				})
				w.RegistrationPayload.TransportParams = params
			}, false)
			run(cl, "unknown-generation", func(w *pb.C2SWrapper) { w.RegistrationPayload.DecoyListGeneration = proto.Uint32(424242) }, false)
			run(cl, "unknown-transport", func(w *pb.C2SWrapper) { w.RegistrationPayload.Transport = pb.TransportType_Obfs4.Enum() }, false)
			run(cl, "short-secret", func(w *pb.C2SWrapper) { w.SharedSecret = []byte{1, 2, 3} }, false)
			run(cl, "v6-client-v4-phantom", func(w *pb.C2SWrapper) {
				w.RegistrationPayload.V4Support = proto.Bool(true)
				w.RegistrationResponse = &pb.RegistrationResponse{Ipv6Addr: net.ParseIP("192.122.190.77").To4()}
			}, false)
		}
		// expiry of everything registered so far, and the periodic statistics
		n++
		fmt.Fprintf(os.Stdout, "VERIFCASE %d\n", n)
		rec.Ev("case", map[string]interface{}{"n": n, "desc": fmt.Sprintf("#%d expiry sweep after back-dating 7 h + statistics modules", n)})
		rm.registeredDecoys.m.Lock()
		for _, to := range rm.registeredDecoys.decoysTimeouts {
			to.registrationTime = to.registrationTime.Add(-7 * time.Hour)
		}
		rm.registeredDecoys.m.Unlock()
		rm.RemoveOldRegistrations()
		rm.PrintAndReset(rm.Logger)
		Stat().PrintStats(true)
		Stat().Reset()
		rec.Count("evaluations", 1)
	}
	// the detector's redis accepts the announcement and does not answer (overloaded, or a half-dead connection): whatever
	// the station prints about the publish that did not complete, it must not print the message it tried to send
	fr.StallPublish.Store(true)
	healthy := client
	client = redis.NewClient(&redis.Options{Addr: fr.Addr(), PoolSize: 10, MaxRetries: -1, ReadTimeout: 2500 * time.Millisecond, WriteTimeout: 2500 * time.Millisecond})
	for cl := range clients {
		if cl >= 2 && !kit.Thorough() {
			break
		}
		run(cl, "admitted-redis-stalled", nil, false)
	}
	fr.StallPublish.Store(false)
	client = healthy
	// let the fire-and-forget share goroutines finish (their error lines are part of what is scanned)
	if left := kit.WaitNoGoroutineIn(60*time.Second, "lib.tryShareRegistrationOverAPI", "lib.handleConnectingTpReg", "connecting/dtls.(*Transport).Connect"); left != nil {
		rec.Inconclusive("share goroutines still running at the end", len(left))
	}
	fmt.Fprintf(os.Stdout, "VERIFCASE %d\n", 9999999)
}

type c17Listener struct{}

func (c17Listener) AcceptWithContext(ctx context.Context, c *pdtls.Config) (net.Conn, error) {
	return nil, errors.New("seed already registered")
}

type c17DNAT struct{}

func (c17DNAT) AddEntry(clientAddr *net.IP, clientPort uint16, phantomIP *net.IP, phantomPort uint16) error {
	return nil
}

type c17ConnStats struct{}

func (c17ConnStats) AddCreatedConnecting(asn uint, cc string, tp string)               {}
func (c17ConnStats) AddCreatedToSuccessfulConnecting(asn uint, cc string, tp string)   {}
func (c17ConnStats) AddCreatedToTimeoutConnecting(asn uint, cc string, tp string)      {}
func (c17ConnStats) AddSuccessfulToDiscardedConnecting(asn uint, cc string, tp string) {}
func (c17ConnStats) AddOtherFailConnecting(asn uint, cc string, tp string)             {}
