//go:build verif

package lib

// C09 – monitor 8b: stop request under SUSTAINED load.
//
// "after a stop request the pipeline winds down in bounded time whether or not registrations keep arriving".
// The busy-channel scenario of TestVerifC09Shutdown has one sender on a 100-slot channel with 20 workers taking
// from it: the channel is empty most of the time.  Here the receiver side keeps delivering for as long as the
// pipeline keeps taking: several senders keep an input channel of the station's size (10000, cmd/application/main.go)
// non-empty before and after the stop request, and they only stop once HandleRegUpdates has returned (or once the
// verdict is fixed).
//
// The verdict is a COUNT, not a time: how many messages the distributor still takes off the input channel after
// cancel() has returned, measured from outside (messages sent minus channel occupancy).  At the stop request at most
// one full channel can be pending, so a pipeline whose wind-down does not depend on the senders takes at most that
// backlog; one that takes more than the backlog plus as much again is serving NEW arrivals after the stop request,
// and since the senders go on for as long as it takes, its wind-down is dictated by them.  (The unchanged tree takes
// k further messages with probability 2^-k: select chooses among the ready cases at random.)  Machine load can only
// make the senders slower, i.e. make the scenario easier for the pipeline; a watchdog without a fixed verdict is
// inconclusive.

import (
	"context"
	"fmt"
	golog "log"
	"os"
	"sync"
	"sync/atomic"
	"testing"
	"time"

	kit "github.com/refraction-networking/conjure/internal/verifkit"
	"github.com/refraction-networking/conjure/pkg/station/log"
	pb "github.com/refraction-networking/conjure/proto"
)

type c09PaddedCounter struct {
	n atomic.Int64
	_ [56]byte
}

func TestVerifC09ShutdownSustained(t *testing.T) {
	rec := kit.NewRec("C09", "shutdown-sustained")
	defer rec.Close()
	rng := kit.Rand("c09-shutdown-sustained")

	const chanCap = 10000      // as in cmd/application/main.go
	const bound = 2 * chanCap  // backlog that can be pending at the stop request, and as much again
	const warmup = 2 * chanCap // messages the pipeline must have taken under load before the stop request
	const watchdog = 40 * time.Second

	devnull, err := os.OpenFile(os.DevNull, os.O_WRONLY, 0)
	if err != nil {
		t.Fatal(err)
	}
	defer devnull.Close()

	reps := kit.Tier(3, 12)
	for rep := 0; rep < reps; rep++ {
		for _, scenario := range []string{"sustained-load", "sustained-load-trace"} {
			workers := []int{3, 20}[rng.Intn(2)]
			nSenders := 8 + rng.Intn(9)
			rec.Case(fmt.Sprint(scenario, " workers=", workers, " senders=", nSenders))

			e := c09Setup(t)
			e.rm.IngestWorkerCount = workers
			if scenario == "sustained-load-trace" {
				// an operator looking into dropped registrations: every drop is formatted and written (one write
				// system call per line, as to stdout)
				e.rm.Logger = log.New(devnull, "[C09] ", golog.Ldate)
				e.rm.Logger.SetLevel(log.TraceLevel)
			}

			// a pool of well-formed registrations (distinct secrets and phantoms) that the senders cycle through
			pool := make([]interface{}, 64)
			for i := range pool {
				b := make([]byte, 32)
				rng.Read(b)
				pool[i] = c09Message(b, c09Phantom(i), 1+i%200, pb.RegistrationSource_API)
			}

			regChan := make(chan interface{}, chanCap)
			counters := make([]c09PaddedCounter, nSenders+1)
			sentTotal := func() (s int64) {
				for i := range counters {
					s += counters[i].n.Load()
				}
				return
			}
			// a backlog, as after a burst
			for i := 0; len(regChan) < cap(regChan); i++ {
				regChan <- pool[i%len(pool)]
				counters[nSenders].n.Add(1)
			}

			var stopSenders atomic.Bool
			var sendersWG sync.WaitGroup
			for s := 0; s < nSenders; s++ {
				sendersWG.Add(1)
				go func(s int) {
					defer sendersWG.Done()
					c := &counters[s].n
					for i := s; !stopSenders.Load(); i++ {
						regChan <- pool[i%len(pool)]
						c.Add(1) // after the send: the counter never runs ahead of the channel
					}
				}(s)
			}

			ctx, cancel := context.WithCancel(context.Background())
			var wg sync.WaitGroup
			wg.Add(1)
			done := make(chan struct{})
			go func() { e.rm.HandleRegUpdates(ctx, regChan, &wg); close(done) }()
			isDone := func() bool {
				select {
				case <-done:
					return true
				default:
					return false
				}
			}

			// lower bound of the messages taken off regChan so far: counters first (each at most the true number of
			// completed sends at that moment), occupancy afterwards
			takenAtLeast := func() int64 { s := sentTotal(); return s - int64(len(regChan)) }
			// upper bound: occupancy first, counters afterwards, plus one send per sender that may not be counted yet
			takenAtMost := func() int64 { l := int64(len(regChan)); return sentTotal() + int64(nSenders) - l }

			finish := func() {
				// end the load and release senders parked on a full channel
				stopSenders.Store(true)
				released := make(chan struct{})
				go func() { sendersWG.Wait(); close(released) }()
				for {
					select {
					case <-regChan:
						continue
					case <-released:
					}
					break
				}
				cancel()
			}

			// run under load for a while (count-based), then ask the pipeline to stop
			warm := kitWait(watchdog, func() bool { return takenAtLeast() >= warmup })
			if !warm {
				rec.Inconclusive("pipeline did not take the warm-up volume within the watchdog", map[string]interface{}{"scenario": scenario, "taken": takenAtLeast()})
				cancel()
				c09WaitReturn(rec, done, scenario+"-warmup")
				finish()
				continue
			}
			occupancyAtStop := len(regChan)
			cancel() // the stop request
			stopAt := time.Now()
			base := takenAtMost() // everything counted here was taken before this point, after cancel() returned
			ingestAtStop := atomic.LoadInt64(&e.rm.totalIngestMessages)

			var afterStop int64
			var verdictFixed, returnedUnderLoad, timedOut bool
			for {
				if isDone() {
					// the senders are still sending at this point
					returnedUnderLoad = true
					afterStop = takenAtLeast() - base
					break
				}
				afterStop = takenAtLeast() - base
				if afterStop > bound {
					verdictFixed = true
					break
				}
				if time.Since(stopAt) > watchdog {
					timedOut = true
					break
				}
				time.Sleep(200 * time.Microsecond)
			}
			woundDown := time.Since(stopAt)
			if afterStop < 0 {
				afterStop = 0
			}
			if returnedUnderLoad && afterStop > bound {
				verdictFixed = true
			}
			occupancyAtEnd := len(regChan)
			countedAfterStop := atomic.LoadInt64(&e.rm.totalIngestMessages) - ingestAtStop
			detail := map[string]interface{}{
				"scenario": scenario, "workers": workers, "senders": nSenders, "input_channel_capacity": chanCap,
				"occupancy_at_stop": occupancyAtStop, "occupancy_at_verdict": occupancyAtEnd,
				"taken_after_stop_at_least": afterStop, "bound": bound,
				"ingest_counter_after_stop":     countedAfterStop,
				"returned_while_senders_active": returnedUnderLoad, "since_stop": woundDown.String(),
			}
			if verdictFixed {
				rec.Violation("shutdown:sustained-load:keeps-serving-arrivals-after-stop",
					"after the stop request the distributor went on taking messages off the input channel for as long as the senders kept it non-empty (more than the backlog that could be pending at the stop request and as much again): wind-down is dictated by the senders, not bounded",
					detail)
			}
			// end the load; whatever happened, the pipeline must be able to finish now
			finish()
			ok := true
			if !returnedUnderLoad {
				ok = c09WaitReturn(rec, done, scenario)
				if ok && timedOut && !verdictFixed {
					rec.Inconclusive("HandleRegUpdates returned only after the load ended, but took fewer messages than the bound after the stop request (senders too slow?)", detail)
				}
			}
			if ok {
				if left := kit.WaitNoGoroutineIn(20*time.Second, "lib.(*RegistrationManager).startIngestThread"); left != nil {
					rec.Violation("shutdown:"+scenario+":workers-left-behind", "ingest workers are still running after HandleRegUpdates returned", map[string]interface{}{"workers": len(left)})
				}
			}
			rec.Count("evaluations", 1)
			rec.Count("messages_taken_after_stop", int(afterStop))
			if occupancyAtStop > 0 {
				// non-trivial: the input channel held messages at the moment of the stop request
				rec.Distinct("nontrivial", scenario, rep, workers, nSenders)
			}
			if occupancyAtStop >= chanCap/2 {
				rec.Count("stops_with_input_at_least_half_full", 1)
			}
			if rec.WantSample() {
				rec.Sample(detail)
			}
		}
	}
}
