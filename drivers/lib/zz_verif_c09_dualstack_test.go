//go:build verif

package lib

// C09 – monitor 8c: stop request while DUAL-STACK registrations are in flight.
//
// "after a stop request the pipeline winds down in bounded time": when HandleRegUpdates has returned, the pipeline
// has wound down - nothing that belongs to it is still running, and nothing is validated / announced any more.
// The other shutdown scenarios offer single-family messages only (one registration per message).  A dual-stack
// client (v4 + v6 support, IPv4 registrant) yields TWO registrations per message; the IPv4 one goes through the
// liveness probe, which can take seconds, the IPv6 one is never probed.
//
// Here the liveness stub parks every IPv4 probe.  Dual-stack messages are offered, the stop request is given while
// probes are parked, and the probes are released only after a LOGICAL condition:
//   - HandleRegUpdates returned (with a probe still parked: that is the observation), or
//   - a hold elapsed without a return (the pipeline waits for its in-flight work: the expected behaviour); then the
//     probes are released and the return is awaited.
// The verdict is taken from order and stack scans, never from a duration: at the moment HandleRegUpdates has
// returned no goroutine may be inside ingestRegistration / the liveness stub, and from then on the set of validated
// registrations and the announcements to the detector must not grow.  Machine load can only delay the return past
// the hold, which makes the scenario pass (probes released first).

import (
	"context"
	"fmt"
	"net"
	"sync"
	"testing"
	"time"

	kit "github.com/refraction-networking/conjure/internal/verifkit"
	pb "github.com/refraction-networking/conjure/proto"
	"google.golang.org/protobuf/proto"
)

// c09DualStackMessage: as c09Message, but the client supports both families and the registrar fixed both phantoms.
func c09DualStackMessage(secret []byte, i int, src pb.RegistrationSource) []byte {
	sent, _ := c09Covert(1 + i%200)
	ph4 := c09Phantom(i)
	ph6 := net.ParseIP(fmt.Sprintf("2001:48a8:687f:1::%x", 0x100+i))
	w := &pb.C2SWrapper{
		SharedSecret: secret,
		RegistrationPayload: &pb.ClientToStation{
			ClientLibVersion: proto.Uint32(4), Transport: pb.TransportType_Min.Enum(), CovertAddress: proto.String(sent),
			DecoyListGeneration: proto.Uint32(957), V4Support: proto.Bool(true), V6Support: proto.Bool(true),
		},
		RegistrationSource:  &src,
		RegistrationAddress: []byte{203, 0, 113, 9},
		RegistrationResponse: &pb.RegistrationResponse{
			Ipv4Addr: proto.Uint32(uint32(ph4[0])<<24 | uint32(ph4[1])<<16 | uint32(ph4[2])<<8 | uint32(ph4[3])),
			Ipv6Addr: []byte(ph6.To16()),
			DstPort:  proto.Uint32(uint32(2000 + i)),
		},
	}
	b, err := proto.Marshal(w)
	if err != nil {
		panic(err)
	}
	return b
}

func c09ValidCount(e *c09Env) (n int) {
	rd := e.rm.registeredDecoys
	rd.m.RLock()
	defer rd.m.RUnlock()
	for _, byID := range rd.decoys {
		for _, r := range byID {
			if r != nil && r.Valid {
				n++
			}
		}
	}
	return
}

func c09NewAnnouncements(e *c09Env) (n int) {
	for _, pub := range e.redis.Pubs() {
		var m pb.StationToDetector
		if proto.Unmarshal(pub.Payload, &m) == nil && m.GetPhantomIp() != "" && m.GetOperation() == pb.StationOperations_New {
			n++
		}
	}
	return
}

func TestVerifC09ShutdownDualStack(t *testing.T) {
	rec := kit.NewRec("C09", "shutdown-dualstack")
	defer rec.Close()
	rng := kit.Rand("c09-shutdown-dualstack")
	const hold = 2 * time.Second
	const inIngest = "lib.(*RegistrationManager).ingestRegistration"
	reps := kit.Tier(1, 6)
	for rep := 0; rep < reps; rep++ {
		for _, workers := range []int{3, 12} {
			scenario := "dual-stack-in-flight"
			label := fmt.Sprintf("%s workers=%d rep=%d", scenario, workers, rep)
			rec.Case(label)
			e := c09Setup(t)
			e.redis.Reset()
			e.rm.IngestWorkerCount = workers
			gate := make(chan struct{})
			e.live.gate = gate // every IPv4 probe parks until the gate opens
			var relOnce sync.Once
			release := func() { relOnce.Do(func() { close(gate) }) }

			ctx, cancel := context.WithCancel(context.Background())
			regChan := make(chan interface{}, 100)
			var wg sync.WaitGroup
			wg.Add(1)
			done := make(chan struct{})
			go func() { e.rm.HandleRegUpdates(ctx, regChan, &wg); close(done) }()

			// all workers up and waiting for work before anything is offered (the distributor drops what no worker takes)
			kitWait(20*time.Second, func() bool {
				gs := kit.InFunc(kit.Stacks(), "lib.(*RegistrationManager).startIngestThread")
				if len(gs) != workers {
					return false
				}
				for _, g := range gs {
					if !g.Blocked() {
						return false
					}
				}
				return true
			})
			// fewer messages than workers, one at a time: each is taken by a free worker, and its IPv4 half has reached
			// the probe before the next is offered
			n := 1 + rng.Intn(workers-1)
			reached := true
			for i := 0; i < n && reached; i++ {
				b := make([]byte, 32)
				rng.Read(b)
				regChan <- c09DualStackMessage(b, rep*64+workers*2+i, pb.RegistrationSource_API)
				reached = kitWait(20*time.Second, func() bool { return e.live.blocked() >= i+1 })
			}
			if !reached {
				rec.Inconclusive("the IPv4 halves did not reach the liveness probe", map[string]interface{}{"case": label, "parked": e.live.blocked(), "offered": n})
				release()
				cancel()
				c09WaitReturn(rec, done, scenario+"-setup")
				continue
			}
			parkedAtStop := e.live.blocked()
			cancel() // the stop request

			returnedWithParked := false
			select {
			case <-done:
				// (the stub's count only goes down after the gate opened, and the gate is still shut)
				returnedWithParked = e.live.blocked() > 0
			case <-time.After(hold):
			}
			detail := map[string]interface{}{"case": label, "workers": workers, "dual_stack_messages": n, "probes_parked_at_stop": parkedAtStop}
			if returnedWithParked {
				// the pipeline reported that it wound down: what is still running?
				left := kit.InFunc(kit.Stacks(), inIngest, "lib.(*c09Live).PhantomIsLive")
				validAtReturn, newAtReturn := c09ValidCount(e), c09NewAnnouncements(e)
				raw := ""
				if len(left) > 0 {
					raw = left[0].Raw
				}
				detail["in_ingest_after_return"] = len(left)
				detail["probes_parked_after_return"] = e.live.blocked()
				detail["a_goroutine"] = raw
				if len(left) > 0 {
					rec.Violation("shutdown:"+scenario+":ingest-still-running-after-return",
						"HandleRegUpdates returned after the stop request while registrations of the pipeline were still being ingested (goroutines inside ingestRegistration, parked in the liveness probe): the pipeline had not wound down",
						detail)
				}
				release()
				stillLeft := kit.WaitNoGoroutineIn(20*time.Second, inIngest)
				time.Sleep(50 * time.Millisecond)
				validAfter, newAfter := c09ValidCount(e), c09NewAnnouncements(e)
				if stillLeft == nil && (validAfter > validAtReturn || newAfter > newAtReturn) {
					d2 := map[string]interface{}{"case": label, "valid_at_return": validAtReturn, "valid_afterwards": validAfter, "new_announcements_at_return": newAtReturn, "new_announcements_afterwards": newAfter}
					rec.Violation("shutdown:"+scenario+":validated-after-wind-down",
						"registrations were validated and announced to the detector after HandleRegUpdates had returned from the stop request",
						d2)
				}
			} else {
				// in-flight work is waited for: let it finish, then the pipeline must return with nothing left
				release()
				ok := c09WaitReturn(rec, done, scenario)
				if ok {
					validAtReturn, newAtReturn := c09ValidCount(e), c09NewAnnouncements(e)
					if left := kit.WaitNoGoroutineIn(20*time.Second, inIngest, "lib.(*RegistrationManager).startIngestThread"); left != nil {
						rec.Violation("shutdown:"+scenario+":workers-left-behind", "ingest work is still running after HandleRegUpdates returned", map[string]interface{}{"case": label, "goroutines": len(left), "a_goroutine": left[0].Raw})
					}
					time.Sleep(20 * time.Millisecond)
					if va, na := c09ValidCount(e), c09NewAnnouncements(e); va > validAtReturn || na > newAtReturn {
						rec.Violation("shutdown:"+scenario+":validated-after-wind-down",
							"registrations were validated and announced to the detector after HandleRegUpdates had returned from the stop request",
							map[string]interface{}{"case": label, "valid_at_return": validAtReturn, "valid_afterwards": va, "new_announcements_at_return": newAtReturn, "new_announcements_afterwards": na})
					}
					detail["valid_at_return"] = validAtReturn
				}
			}
			release()
			cancel()
			rec.Count("evaluations", 1)
			rec.Count("dual_stack_messages", n)
			rec.Count("probes_parked_at_stop", parkedAtStop)
			rec.Distinct("nontrivial", scenario, workers, rep, n)
			if rec.WantSample() {
				rec.Sample(detail)
			}
		}
	}
}
