# M3: msgformat slices by the client-supplied length without the bounds check
p='pkg/registrars/dns-registrar/msgformat/msgformat.go'; s=open(p).read()
a="""	if 1+length > len(p) {
		return nil, errors.New("invalid message length")
	}
	return p[1 : 1+length], nil"""; assert a in s
open(p,'w').write(s.replace(a,"	return p[1 : 1+length], nil"))
