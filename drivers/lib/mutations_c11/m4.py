# M4: CTRObfuscator.TryReveal without the length check
p='pkg/transports/obfuscate.go'; s=open(p).read()
a="""	if len(ciphertext) < 32 {
		return nil, ErrPublicKeyLen
	}
"""; assert a in s
open(p,'w').write(s.replace(a,"",1))
