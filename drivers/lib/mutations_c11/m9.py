# M9: processBdReq without the "no C2S body" check (the registrar's nil-payload guard)
p='pkg/regserver/regprocessor/regprocessor.go'; s=open(p).read()
a="""	if c2s == nil {
		return nil, ErrNoC2SBody
	}
"""; assert a in s
open(p,'w').write(s.replace(a,"",1))
