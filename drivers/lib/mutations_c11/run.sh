#!/bin/bash
# usage: run.sh <mutation> <unit-test pkg (relative, in module dir)> <module dir> <only-stage> 
m=$1; pkg=$2; mod=$3; only=$4
d=/tmp/verif-c11-mut-$m
rm -rf $d; rsync -a --exclude .git /repo/ $d/ || exit 2
( cd $d && python3 /verif/drivers/lib/mutations_c11/$m.py ) || { echo "EDIT FAILED"; rm -rf $d; exit 2; }
echo "== $m: $(head -1 /verif/drivers/lib/mutations_c11/$m.py)"
( cd $d/$mod && GOFLAGS= GOPROXY=off GOSUMDB=off GOTOOLCHAIN=local go test -count=1 $pkg 2>&1 | grep -- "--- FAIL\|^ok\|^FAIL\s" | tr '\n' ' '; echo )
export GOFLAGS=-mod=mod GOWORK=off GOPROXY=off GOSUMDB=off GOTOOLCHAIN=local
( cd /verif && VERIF_REPO=$d bin/vcheck-c11 C11 --no-evidence --only $only 2>&1 | grep -v "^INCONCLUSIVE" | sed "s#$d#SCRATCH#g" | cut -c1-420 | head -8 )
rm -rf $d
