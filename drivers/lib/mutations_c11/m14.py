# M14: dtls Connect reads the client's source address through the field instead of the nil-safe getter
p='pkg/transports/connecting/dtls/dtls.go'; s=open(p).read()
a="IP: params.SrcAddr4.GetIP(), Port: int(params.SrcAddr4.GetPort())"; assert a in s
open(p,'w').write(s.replace(a,"IP: params.SrcAddr4.IP, Port: int(params.SrcAddr4.GetPort())"))
