# M15: IDString without the short-secret check
p='pkg/station/lib/registration.go'; s=open(p).read()
a="""	if n < 16 {
		return nilID
	}
"""; assert a in s
open(p,'w').write(s.replace(a,"	_ = n\n"))
