# M2: remove a nil check in NewRegistrationC2SWrapper (registration_response without ipv4addr)
p='pkg/station/lib/registration_ingest.go'; s=open(p).read()
a="if rr.Ipv4Addr != nil && *rr.Ipv4Addr != 0 {"; assert a in s
open(p,'w').write(s.replace(a,"if *rr.Ipv4Addr != 0 {"))
