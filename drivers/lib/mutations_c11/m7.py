# M7: obfs4 findMarkMac without the "enough bytes for mark and MAC" check
p='pkg/transports/wrapping/obfs4/utils.go'; s=open(p).read()
a="""	if endPos-startPos < MarkLength+MacLength {
		return -1
	}
"""; assert a in s
open(p,'w').write(s.replace(a,""))
