# M1: revert the nil guard in registerBidirectional (pre-fix code)
p='pkg/regserver/apiregserver/apiregserver.go'; s=open(p).read()
a="if serverClientConf != nil && payload.RegistrationPayload != nil {"; assert a in s
open(p,'w').write(s.replace(a,"if serverClientConf != nil {"))
