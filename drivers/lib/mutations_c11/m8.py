# M8: min.WrapConnection takes the 32-byte tag without checking that 32 bytes have arrived
p='pkg/transports/wrapping/min/min.go'; s=open(p).read()
a="""	if data.Len() < minTagLength {
		return nil, nil, transports.ErrTryAgain
	}
"""; assert a in s
open(p,'w').write(s.replace(a,""))
