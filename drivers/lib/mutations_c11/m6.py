# M6: the DNS name parser follows compression pointers without a limit (infinite loop on a pointer loop)
p='pkg/registrars/dns-registrar/dns/dns.go'; s=open(p).read()
a="""			if numPointers > compressionPointerLimit {
				return nil, ErrTooManyPointers
			}
"""; assert a in s
open(p,'w').write(s.replace(a,""))
