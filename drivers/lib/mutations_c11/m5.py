# M5: UnmarshalAnypbTo dereferences a nil Any
p='pkg/transports/anypb_nourl.go'; s=open(p).read()
i=s.index("	if src == nil {"); j=s.index("	expected, err := anypb.New(dst)")
open(p,'w').write(s[:i]+s[j:])
