# M13: prefix.tryFindReg slices the tag without the "enough bytes for this prefix" checks
p='pkg/transports/wrapping/prefix/prefix.go'; s=open(p).read()
i=s.index("		if data.Len() < prefix.MinLen {"); j=s.index("		var obfuscatedID []byte")
open(p,'w').write(s[:i]+s[j:])
