# M10: DecodeRDataTXT trusts the length octet
p='pkg/registrars/dns-registrar/dns/dns.go'; s=open(p).read()
a="""		if len(p) < n {
			return nil, io.ErrUnexpectedEOF
		}
"""; assert a in s
open(p,'w').write(s.replace(a,""))
