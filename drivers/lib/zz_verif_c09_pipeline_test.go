//go:build verif

package lib

// C09 – monitors 5, 7, 8: the real HandleRegUpdates pipeline under overload, at shutdown (idle and busy
// input channel) and under a free-running stress mix built with the race detector.

import (
	"context"
	"fmt"
	"github.com/refraction-networking/conjure/internal/verifhook"
	"net"
	"strings"
	"sync"
	"sync/atomic"
	"testing"
	"time"

	kit "github.com/refraction-networking/conjure/internal/verifkit"
	pb "github.com/refraction-networking/conjure/proto"
	"google.golang.org/protobuf/proto"
)

func c09Phantom(i int) net.IP { return net.IPv4(192, 122, byte(191+i>>8), byte(i)).To4() }

// pipelineState describes where the goroutine running HandleRegUpdates is.
func c09PipelineGoroutines() (handler *kit.Goroutine, workers int) {
	gs := kit.Stacks()
	for i := range gs {
		g := &gs[i]
		for _, f := range g.Frames {
			if f == "github.com/refraction-networking/conjure/pkg/station/lib.(*RegistrationManager).HandleRegUpdates" {
				handler = g
			}
			if f == "github.com/refraction-networking/conjure/pkg/station/lib.(*RegistrationManager).startIngestThread" {
				workers++
			}
		}
	}
	return
}

// waitReturn waits for HandleRegUpdates to return after cancel; a violation is concluded only from a
// stable blocked state (same wait state on 3 samples 1 s apart, context already cancelled).
func c09WaitReturn(rec *kit.Rec, done chan struct{}, scenario string) bool {
	select {
	case <-done:
		return true
	case <-time.After(3 * time.Second):
	}
	var states []string
	for i := 0; i < 3; i++ {
		select {
		case <-done:
			return true
		default:
		}
		h, w := c09PipelineGoroutines()
		if h == nil {
			select {
			case <-done:
				return true
			case <-time.After(time.Second):
			}
			continue
		}
		states = append(states, fmt.Sprintf("%s (workers alive: %d)", h.State, w))
		if !h.Blocked() {
			states = nil
		}
		time.Sleep(time.Second)
	}
	select {
	case <-done:
		return true
	default:
	}
	if len(states) == 3 && states[0] == states[1] && states[1] == states[2] {
		h, _ := c09PipelineGoroutines()
		raw := ""
		if h != nil {
			raw = h.Raw
		}
		rec.Violation("shutdown:"+scenario+":pipeline-never-returns", "after the stop request HandleRegUpdates stays blocked (stable state on repeated stack scans)",
			map[string]interface{}{"scenario": scenario, "states": states, "stack": raw})
		return false
	}
	select {
	case <-done:
		return true
	case <-time.After(60 * time.Second):
		rec.Inconclusive("HandleRegUpdates did not return within 60 s but no stable blocked state was seen", scenario)
		return false
	}
}

func TestVerifC09Shutdown(t *testing.T) {
	rec := kit.NewRec("C09", "shutdown")
	defer rec.Close()
	rng := kit.Rand("c09-shutdown")
	secret := func() []byte { b := make([]byte, 32); rng.Read(b); return b }
	reps := kit.Tier(3, 20)
	for rep := 0; rep < reps; rep++ {
		for _, scenario := range []string{"idle-channel", "idle-after-traffic", "busy-channel"} {
			rec.Case(scenario)
			e := c09Setup(t)
			e.rm.IngestWorkerCount = 20
			ctx, cancel := context.WithCancel(context.Background())
			regChan := make(chan interface{}, 100)
			var wg sync.WaitGroup
			wg.Add(1)
			done := make(chan struct{})
			go func() { e.rm.HandleRegUpdates(ctx, regChan, &wg); close(done) }()
			stopProducer := make(chan struct{})
			var producerWG sync.WaitGroup
			sent := 0
			switch scenario {
			case "idle-after-traffic":
				for i := 0; i < 30; i++ {
					regChan <- c09Message(secret(), c09Phantom(i), 1+i%200, pb.RegistrationSource_API)
					sent++
				}
				// let the pipeline drain what was sent
				kitWait(20*time.Second, func() bool { return len(regChan) == 0 })
			case "busy-channel":
				producerWG.Add(1)
				go func() {
					defer producerWG.Done()
					prng := kit.Rand(fmt.Sprint("c09-producer-", rep))
					for i := 0; ; i++ {
						b := make([]byte, 32)
						prng.Read(b)
						select {
						case <-stopProducer:
							return
						case regChan <- c09Message(b, c09Phantom(i%500), 1+i%200, pb.RegistrationSource_API):
						}
					}
				}()
				time.Sleep(20 * time.Millisecond)
			}
			cancel() // the stop request
			ok := c09WaitReturn(rec, done, scenario)
			close(stopProducer)
			producerWG.Wait()
			cancel()
			if ok {
				// the workers must be gone as well
				if left := kit.WaitNoGoroutineIn(20*time.Second, "lib.(*RegistrationManager).startIngestThread"); left != nil {
					rec.Violation("shutdown:"+scenario+":workers-left-behind", "ingest workers are still running after HandleRegUpdates returned", map[string]interface{}{"workers": len(left)})
				}
			}
			rec.Count("evaluations", 1)
			rec.Distinct("nontrivial", scenario, rep)
			if rec.WantSample() {
				rec.Sample(map[string]interface{}{"scenario": scenario, "returned": ok, "messages_sent_before_stop": sent})
			}
		}
	}
}

// TestVerifC09SharePeer: registrations from the local detector are shared with peer stations over HTTP.  A peer that is
// down, refuses, answers slowly or accepts the connection and never answers must not stall ingest ("overload and
// shutdown do not stall the pipeline") and must not keep a stop request from completing.
func TestVerifC09SharePeer(t *testing.T) {
	rec := kit.NewRec("C09", "sharepeer")
	defer rec.Close()
	rng := kit.Rand("c09-sharepeer")
	secret := func() []byte { b := make([]byte, 32); rng.Read(b); return b }
	for rep := 0; rep < kit.Tier(1, 6); rep++ {
		for _, peer := range []string{"hung", "refusing", "answers-500", "slow-200"} {
			for _, workers := range []int{4, 12} {
				label := fmt.Sprintf("peer=%s workers=%d rep=%d", peer, workers, rep)
				rec.Case(label)
				e := c09Setup(t)
				e.rm.IngestWorkerCount = workers
				e.rm.EnableShareOverAPI = true
				var accepted atomic.Int64
				var held []net.Conn
				var heldMu sync.Mutex
				ln, err := net.Listen("tcp", "127.0.0.1:0")
				if err != nil {
					t.Fatal(err)
				}
				e.rm.PreshareEndpoint = "http://" + ln.Addr().String() + "/register"
				switch peer {
				case "refusing":
					ln.Close()
				default:
					go func() {
						for {
							c, err := ln.Accept()
							if err != nil {
								return
							}
							accepted.Add(1)
							switch peer {
							case "hung": // takes the request and never answers
								heldMu.Lock()
								held = append(held, c)
								heldMu.Unlock()
							case "answers-500":
								go func() {
									buf := make([]byte, 65536)
									c.Read(buf)
									c.Write([]byte("HTTP/1.1 500 Internal Server Error\r\nContent-Length: 0\r\nConnection: close\r\n\r\n"))
									c.Close()
								}()
							case "slow-200":
								go func() {
									buf := make([]byte, 65536)
									c.Read(buf)
									time.Sleep(300 * time.Millisecond)
									c.Write([]byte("HTTP/1.1 200 OK\r\nContent-Length: 0\r\nConnection: close\r\n\r\n"))
									c.Close()
								}()
							}
						}
					}()
				}
				ctx, cancel := context.WithCancel(context.Background())
				regChan := make(chan interface{}) // unbuffered: a send completes only when the distributor received
				var wg sync.WaitGroup
				wg.Add(1)
				done := make(chan struct{})
				go func() { e.rm.HandleRegUpdates(ctx, regChan, &wg); close(done) }()
				// all workers up and parked at the (unbuffered, for fewer than 10 workers) job channel before anything is offered
				kitWait(20*time.Second, func() bool {
					gs := kit.InFunc(kit.Stacks(), "lib.(*RegistrationManager).startIngestThread")
					if len(gs) != workers {
						return false
					}
					for _, g := range gs {
						if !g.Blocked() {
							return false
						}
					}
					return true
				})
				// many more registrations than workers, one at a time: each must be validated before the next is offered,
				// so nothing is dropped for lack of a free worker on a pipeline that works
				n := workers*10 + 40
				validated, stalledAt := 0, -1
				for i := 0; i < n && stalledAt < 0; i++ {
					sec := secret()
					ph := c09Phantom(i)
					select {
					case regChan <- c09Message(sec, ph, 1+i%200, pb.RegistrationSource_Detector):
					case <-time.After(30 * time.Second):
						stalledAt = i
						continue
					}
					probe := &DecoyRegistration{PhantomIp: ph, Keys: keysOf(sec), Transport: pb.TransportType_Min}
					ok := kitWait(20*time.Second, func() bool {
						r := e.rm.registeredDecoys.RegistrationExists(probe)
						return r != nil && r.Valid
					})
					if !ok {
						stalledAt = i
					} else {
						validated++
					}
				}
				if stalledAt >= 0 {
					// is every worker parked?  (stable on three scans: a stall, not slowness)
					// a worker that waits for work is parked in startIngestThread itself; a stalled one is parked somewhere below it
					stable := true
					var states []string
					raw := ""
					for k := 0; k < 3 && stable; k++ {
						gs := kit.InFunc(kit.Stacks(), "lib.(*RegistrationManager).startIngestThread")
						states = states[:0]
						busy := 0
						for _, g := range gs {
							at := ""
							if len(g.Frames) > 0 {
								at = g.Frames[0]
							}
							states = append(states, g.State+"@"+at)
							if !g.Blocked() {
								stable = false
							}
							if !strings.HasSuffix(at, "startIngestThread") {
								busy++
								raw = g.Raw
							}
						}
						if len(gs) == 0 || busy != len(gs) {
							stable = false // some worker is free (or none exists): whatever happened, ingest is not stalled
						}
						time.Sleep(500 * time.Millisecond)
					}
					if stable {
						rec.Violation("sharepeer:"+peer+":ingest-stalled", "with a peer station that "+peer+" the ingest pipeline stopped validating registrations: every worker is parked",
							map[string]interface{}{"case": label, "validated_before_the_stall": validated, "offered": stalledAt + 1, "worker_states": states, "a_worker": raw})
					} else {
						rec.Inconclusive("a registration was not validated within the bound but the workers are not all stuck below the ingest loop", map[string]interface{}{"case": label, "validated": validated, "workers": states})
					}
				}
				cancel() // the stop request
				ok := c09WaitReturn(rec, done, "sharepeer-"+peer)
				if ok {
					if left := kit.WaitNoGoroutineIn(20*time.Second, "lib.(*RegistrationManager).startIngestThread"); left != nil {
						rec.Violation("shutdown:sharepeer-"+peer+":workers-left-behind", "ingest workers are still running after HandleRegUpdates returned", map[string]interface{}{"workers": len(left)})
					}
				}
				ln.Close()
				heldMu.Lock()
				for _, c := range held {
					c.Close()
				}
				heldMu.Unlock()
				rec.Count("evaluations", 1)
				rec.Count("registrations_validated_with_sharing_on", validated)
				rec.Count("share_requests_reaching_the_peer", int(accepted.Load()))
				rec.Distinct("nontrivial", peer, workers, rep)
				if rec.WantSample() {
					rec.Sample(map[string]interface{}{"case": label, "validated": validated, "share_requests_seen_by_peer": accepted.Load(), "returned_after_stop": ok})
				}
			}
		}
	}
}

func kitWait(bound time.Duration, cond func() bool) bool {
	deadline := time.Now().Add(bound)
	for !cond() {
		if time.Now().After(deadline) {
			return false
		}
		time.Sleep(200 * time.Microsecond)
	}
	return true
}

// TestVerifC09Overload: with every worker parked inside the liveness probe and the shallow buffer
// full, further registrations must be taken off the input channel at once, dropped and counted.
func TestVerifC09Overload(t *testing.T) {
	rec := kit.NewRec("C09", "overload")
	defer rec.Close()
	rng := kit.Rand("c09-overload")
	secret := func() []byte { b := make([]byte, 32); rng.Read(b); return b }
	for _, workers := range []int{3, 7, 10, 20, 57} { // 3 and 7: workers/10 = 0, i.e. no shallow buffer at all
		for rep := 0; rep < kit.Tier(2, 10); rep++ {
			label := fmt.Sprintf("workers=%d rep=%d", workers, rep)
			rec.Case(label)
			e := c09Setup(t)
			e.rm.IngestWorkerCount = workers
			e.live.gate = make(chan struct{})
			ctx, cancel := context.WithCancel(context.Background())
			regChan := make(chan interface{}) // unbuffered: a send completes only when the distributor received
			var wg sync.WaitGroup
			wg.Add(1)
			done := make(chan struct{})
			go func() { e.rm.HandleRegUpdates(ctx, regChan, &wg); close(done) }()
			send := func(i int) bool {
				select {
				case regChan <- c09Message(secret(), c09Phantom(i), 1+i%200, pb.RegistrationSource_API):
					return true
				case <-time.After(30 * time.Second):
					return false
				}
			}
			// all workers up and parked at the (possibly unbuffered) job channel before anything is offered
			kitWait(20*time.Second, func() bool {
				gs := kit.InFunc(kit.Stacks(), "lib.(*RegistrationManager).startIngestThread")
				if len(gs) != workers {
					return false
				}
				for _, g := range gs {
					if !g.Blocked() {
						return false
					}
				}
				return true
			})
			// phase A: occupy every worker (one message at a time, waiting until it is inside the probe)
			n := 0
			okA := true
			for e.live.blocked() < workers && okA {
				before := e.live.blocked()
				if !send(n) {
					okA = false
					break
				}
				n++
				kitWait(10*time.Second, func() bool { return e.live.blocked() > before })
				if n > 20*workers {
					okA = false
				}
			}
			// fill the shallow buffer
			bufCap := workers / jobBufferDivisor
			for i := 0; i < bufCap && okA; i++ {
				if !send(n) {
					okA = false
				}
				n++
			}
			kitWait(5*time.Second, func() bool { return len(e.rm.ingestChan) == bufCap })
			if !okA || e.live.blocked() != workers || len(e.rm.ingestChan) != bufCap {
				rec.Inconclusive("could not bring the pipeline into the all-busy state", map[string]interface{}{"case": label, "blocked": e.live.blocked(), "buffer": len(e.rm.ingestChan)})
			} else {
				dropped0 := atomic.LoadInt64(&e.rm.totalDroppedMessages)
				ingest0 := atomic.LoadInt64(&e.rm.totalIngestMessages)
				const excess = 200
				blockedAt := -1
				for i := 0; i < excess; i++ {
					if !send(n + i) {
						blockedAt = i
						break
					}
				}
				if blockedAt >= 0 {
					h, _ := c09PipelineGoroutines()
					st := ""
					if h != nil {
						st = h.State
					}
					rec.Violation("overload:receiver-blocked", "with all workers busy the pipeline stopped taking registrations off its input channel instead of dropping them",
						map[string]interface{}{"case": label, "excess_message": blockedAt, "distributor_state": st})
				} else {
					kitWait(5*time.Second, func() bool { return atomic.LoadInt64(&e.rm.totalIngestMessages)-ingest0 == excess })
					dropped := atomic.LoadInt64(&e.rm.totalDroppedMessages) - dropped0
					if dropped != excess {
						rec.Violation("overload:dropped-not-counted", "registrations dropped under overload are not all counted",
							map[string]interface{}{"case": label, "excess_offered": excess, "counted_as_dropped": dropped})
					}
					if e.live.blocked() != workers || len(e.rm.ingestChan) != bufCap {
						rec.Violation("overload:state-changed", "excess registrations were not dropped (they were queued or processed although every worker was busy)",
							map[string]interface{}{"case": label, "blocked": e.live.blocked(), "buffer": len(e.rm.ingestChan)})
					}
				}
			}
			close(e.live.gate)
			cancel()
			c09WaitReturn(rec, done, "after-overload")
			rec.Count("evaluations", 1)
			rec.Distinct("nontrivial", label)
			if rec.WantSample() {
				rec.Sample(map[string]interface{}{"case": label, "messages_to_occupy_workers": n, "buffer_capacity": bufCap, "dropped_total": atomic.LoadInt64(&e.rm.totalDroppedMessages)})
			}
		}
	}
}

// TestVerifC09Stress is built with -race: ingest workers (the real pipeline) with duplicate deliveries,
// connection-handler lookups + activation, the sweeper over back-dated registrations and configuration
// reloads, all free-running.  The race detector is the monitor; end-state invariants are checked too.
var statsReports atomic.Int64

func TestVerifC09Stress(t *testing.T) {
	rec := kit.NewRec("C09", "stress")
	defer rec.Close()
	rounds := kit.Tier(3, 12)
	for round := 0; round < rounds; round++ {
		e := c09Setup(t)
		e.rm.IngestWorkerCount = 16
		// sharing with a peer station is on (set before the pipeline starts), and every third registration comes from
		// the local detector: those are the registrations whose ingest consults the sharing configuration.  The peer
		// stand-in takes every request and answers 200.
		peerLn, err := net.Listen("tcp", "127.0.0.1:0")
		if err != nil {
			t.Fatal(err)
		}
		var shareRequests atomic.Int64
		go func() {
			for {
				c, err := peerLn.Accept()
				if err != nil {
					return
				}
				shareRequests.Add(1)
				go func() {
					buf := make([]byte, 65536)
					c.Read(buf)
					c.Write([]byte("HTTP/1.1 200 OK\r\nContent-Length: 0\r\nConnection: close\r\n\r\n"))
					c.Close()
				}()
			}
		}()
		c09PeerEndpoints = [2]string{"http://" + peerLn.Addr().String() + "/register", "http://" + peerLn.Addr().String() + "/register-b"}
		e.rm.EnableShareOverAPI = true
		e.rm.PreshareEndpoint = c09PeerEndpoints[0]
		// the liveness probe of a detector-sourced registration (destination port 1001+i, i%3 == 0, see below) takes 2 ms,
		// so that configuration reloads (every 0.5 ms) fall into the probe, between the ingest steps before and after it
		e.live.delayFor = func(addr string, port uint16) time.Duration {
			if port > 1000 && (int(port)-1001)%3 == 0 {
				return 2 * time.Millisecond
			}
			return 0
		}
		ctx, cancel := context.WithCancel(context.Background())
		regChan := make(chan interface{}, 1000)
		var wg sync.WaitGroup
		wg.Add(1)
		done := make(chan struct{})
		// the statistics reporter is one more concurrent actor of the station (main.go registers the manager as a
		// statistics module; the Stats singleton reports every 5 s): here it reports every 0.3 ms, from before the
		// pipeline starts until the round is over
		Stat().AddStatsModule(e.rm, false)
		statsStop := make(chan struct{})
		statsDone := make(chan struct{})
		go func() {
			defer close(statsDone)
			for {
				select {
				case <-statsStop:
					return
				default:
				}
				Stat().PrintStats(false)
				statsReports.Add(1)
				time.Sleep(300 * time.Microsecond)
			}
		}()
		go func() { e.rm.HandleRegUpdates(ctx, regChan, &wg); close(done) }()
		const nRegs = 120
		rng := kit.Rand(fmt.Sprint("c09-stress-", round))
		msgs := make([][]byte, nRegs)
		for i := range msgs {
			b := make([]byte, 32)
			rng.Read(b)
			src := pb.RegistrationSource_API
			if i%3 == 0 {
				src = pb.RegistrationSource_Detector
			}
			msgs[i] = c09Message(b, c09Phantom(i%12), 1+i, src) // destination port 1001+i identifies the registration in announcements
		}
		e.redis.Reset()
		stop := make(chan struct{})
		var aux sync.WaitGroup
		var lookups, activations, sweeps, reloads atomic.Int64
		// producers: every message is delivered 3 times, from 3 goroutines
		var prod sync.WaitGroup
		for p := 0; p < 3; p++ {
			prod.Add(1)
			go func(p int) {
				defer prod.Done()
				for i := range msgs {
					regChan <- msgs[(i+p*7)%nRegs]
				}
			}(p)
		}
		// and one producer delivers every message four times back to back, so that several workers hold duplicates of the
		// same registration at the same moment
		prod.Add(1)
		go func() {
			defer prod.Done()
			for i := range msgs {
				for k := 0; k < 4; k++ {
					regChan <- msgs[(i+61)%nRegs]
				}
			}
		}()
		// connection handlers
		for h := 0; h < 4; h++ {
			aux.Add(1)
			go func(h int) {
				defer aux.Done()
				for i := 0; ; i++ {
					select {
					case <-stop:
						return
					default:
					}
					ph := c09Phantom((i + h) % 12)
					_ = e.rm.CountRegistrations(ph)
					for _, r := range e.rm.GetRegistrations(ph) {
						reg := r.(*DecoyRegistration)
						lookups.Add(1)
						if i%3 == 0 {
							e.rm.MarkActive(reg)
							activations.Add(1)
						}
					}
				}
			}(h)
		}
		// sweeper (back-dates a little every time, so that some registrations expire while others are being ingested)
		aux.Add(1)
		go func() {
			defer aux.Done()
			for {
				select {
				case <-stop:
					return
				default:
				}
				rd := e.rm.registeredDecoys
				rd.m.Lock()
				for _, to := range rd.decoysTimeouts {
					to.registrationTime = to.registrationTime.Add(-3 * time.Minute)
				}
				rd.m.Unlock()
				e.rm.RemoveOldRegistrations()
				sweeps.Add(1)
				time.Sleep(200 * time.Microsecond)
			}
		}()
		// configuration reload, as main.go applies it
		aux.Add(1)
		go c09ReloadLoop(e, stop, &aux, &reloads)
		if false {
			for i := 0; ; i++ {
				select {
				case <-stop:
					return
				default:
				}
				conf := &RegConfig{EnableIPv4: true, EnableIPv6: true, CovertBlocklistSubnets: []string{"10.0.0.0/8", "127.0.0.0/8"}}
				if i%2 == 1 {
					conf.CovertBlocklistSubnets = append(conf.CovertBlocklistSubnets, "172.16.0.0/12")
				}
				conf.ParseBlocklists()
				e.rm.OnReload(conf)
				reloads.Add(1)
				time.Sleep(500 * time.Microsecond)
			}
		}
		progress := func() int64 {
			// (the reload goroutine does not touch the registry lock and would keep "progressing" through a registry deadlock)
			return lookups.Load() + sweeps.Load() + atomic.LoadInt64(&e.rm.totalIngestMessages)
		}
		drained := make(chan struct{})
		go func() {
			prod.Wait()
			kitWait(10*time.Minute, func() bool { return len(regChan) == 0 })
			close(drained)
		}()
		if !c09WatchProgress(rec, drained, progress, round) {
			return
		}
		time.Sleep(20 * time.Millisecond)
		close(stop)
		auxDone := make(chan struct{})
		go func() { aux.Wait(); close(auxDone) }()
		if !c09WatchProgress(rec, auxDone, progress, round) {
			return
		}
		// a quiet tail: handlers, sweeper and reloader have stopped, and four producers deliver nothing but duplicates of
		// registrations that are tracked already.  (The race detector works on happens-before: while writers keep taking
		// the registry lock, two unsynchronised readers are ordered through them and go unreported.)
		// The four producers send the same sequence, and the yield point between the duplicate check and the duplicate's
		// Track call is a rendezvous for up to four workers (50 ms at most): they then enter Track for the same
		// registration together.
		var bmu sync.Mutex
		var waiting []chan struct{}
		verifhook.Set(func(point string) {
			if point != "ingest:dup-before-track" {
				return
			}
			bmu.Lock()
			ch := make(chan struct{})
			waiting = append(waiting, ch)
			if len(waiting) >= 4 {
				for _, w := range waiting {
					close(w)
				}
				waiting = nil
			}
			bmu.Unlock()
			select {
			case <-ch:
			case <-time.After(50 * time.Millisecond):
				bmu.Lock()
				for _, w := range waiting {
					select {
					case <-w:
					default:
						close(w)
					}
				}
				waiting = nil
				bmu.Unlock()
			}
		})
		var tail sync.WaitGroup
		for p := 0; p < 4; p++ {
			tail.Add(1)
			go func(p int) {
				defer tail.Done()
				for i := range msgs {
					select {
					case regChan <- msgs[i]:
					case <-time.After(20 * time.Second):
						return
					}
				}
			}(p)
		}
		tail.Wait()
		kitWait(20*time.Second, func() bool { return len(regChan) == 0 })
		time.Sleep(100 * time.Millisecond)
		verifhook.Set(nil)
		cancel()
		// an idle channel after cancel is C09's shutdown scenario; here just unblock the distributor
		select {
		case <-done:
		case <-time.After(200 * time.Millisecond):
			close(regChan)
			<-done
		}
		close(statsStop)
		<-statsDone
		peerLn.Close()
		rec.Count("share_requests_reaching_the_peer", int(shareRequests.Load()))
		// what the detector saw, per registration (phantom, port): the first message must be the New
		// announcement - an Update (activation) must not overtake it - and New must not be repeated
		type annKey struct {
			ph   string
			port uint32
		}
		firstOp := map[annKey]pb.StationOperations{}
		newCount := map[annKey]int{}
		for _, pub := range e.redis.Pubs() {
			var m pb.StationToDetector
			if proto.Unmarshal(pub.Payload, &m) != nil || m.GetPhantomIp() == "" {
				continue
			}
			k := annKey{m.GetPhantomIp(), m.GetDstPort()}
			if _, seen := firstOp[k]; !seen {
				firstOp[k] = m.GetOperation()
			}
			if m.GetOperation() == pb.StationOperations_New {
				newCount[k]++
			}
		}
		overtaken := 0
		for k, op := range firstOp {
			if op != pb.StationOperations_New {
				overtaken++
				if overtaken <= 3 {
					rec.Violation("announcement-order:update-before-new", "the detector was told about the activation of a registration before (or without) its announcement as new: no serial order of ingest and activation produces that",
						map[string]interface{}{"phantom": k.ph, "port": k.port, "first_operation": op.String()})
				}
			}
		}
		rec.Count("announcements_checked", len(firstOp))
		// end state: the two maps are in bijection
		rd := e.rm.registeredDecoys
		rd.m.RLock()
		nReg, nTo := rd.totalRegistrations(), len(rd.decoysTimeouts)
		orphan := 0
		for key, to := range rd.decoysTimeouts {
			toDecoy, toID := vTimeoutOf(to, key)
			if _, ok := rd.decoys[toDecoy][toID]; !ok {
				orphan++
			}
		}
		rd.m.RUnlock()
		if nReg != nTo || orphan > 0 {
			rec.Violation("maps-disagree:after-stress", "registrations and timeout records are not in bijection after the stress mix", map[string]interface{}{"registrations": nReg, "timeout_records": nTo, "orphans": orphan})
		}
		rec.Count("evaluations", 1)
		rec.Count("deliveries", 11*nRegs)
		rec.Count("lookups", int(lookups.Load()))
		rec.Count("activations", int(activations.Load()))
		rec.Count("sweeps", int(sweeps.Load()))
		rec.Count("reloads", int(reloads.Load()))
		rec.Distinct("nontrivial", round, lookups.Load(), sweeps.Load())
		if rec.WantSample() {
			rec.Sample(map[string]interface{}{"round": round, "deliveries": 11 * nRegs, "lookups": lookups.Load(), "activations": activations.Load(), "sweeps": sweeps.Load(), "reloads": reloads.Load(), "tracked_at_end": nReg})
		}
	}
}

// c09ReloadLoop is the reload goroutine (its name is what attributes race reports to the reload family).
func c09ReloadLoop(e *c09Env, stop chan struct{}, aux *sync.WaitGroup, reloads *atomic.Int64) {
	defer aux.Done()
	for i := 0; ; i++ {
		select {
		case <-stop:
			return
		default:
		}
		// the operator's new configuration file differs from the running one in the covert blocklist and in the
		// peer-sharing settings (on/off, which peer)
		conf := &RegConfig{EnableIPv4: true, EnableIPv6: true, CovertBlocklistSubnets: []string{"10.0.0.0/8", "127.0.0.0/8"},
			EnableShareOverAPI: i%4 < 3, PreshareEndpoint: c09PeerEndpoints[(i/2)%2]}
		if i%2 == 1 {
			conf.CovertBlocklistSubnets = append(conf.CovertBlocklistSubnets, "172.16.0.0/12")
		}
		conf.ParseBlocklists()
		e.rm.OnReload(conf)
		reloads.Add(1)
		time.Sleep(500 * time.Microsecond)
	}
}

// the peer stand-in of the current stress round (two spellings of its endpoint)
var c09PeerEndpoints [2]string

// c09WatchProgress waits for done; if the progress counter stands still for 10 s and every goroutine
// that is inside the station library is parked in a synchronisation wait on three scans 1 s apart, the
// stress mix has deadlocked: that is reported at once (the parked goroutines cannot be recovered, so the
// caller ends the test).
func c09WatchProgress(rec *kit.Rec, done chan struct{}, progress func() int64, round int) bool {
	last, lastChange := progress(), time.Now()
	for {
		select {
		case <-done:
			return true
		case <-time.After(250 * time.Millisecond):
		}
		if cur := progress(); cur != last {
			last, lastChange = cur, time.Now()
			continue
		}
		if time.Since(lastChange) < 10*time.Second {
			continue
		}
		stable := true
		var states, stacks []string
		for scan := 0; scan < 3 && stable; scan++ {
			states = states[:0]
			for _, g := range kit.InFunc(kit.Stacks(), "pkg/station/lib.(*RegisteredDecoys)") {
				states = append(states, g.State)
				if !g.Blocked() {
					stable = false
				}
				if scan == 0 && len(stacks) < 5 {
					stacks = append(stacks, g.Raw)
				}
			}
			if progress() != last {
				stable = false
			}
			time.Sleep(time.Second)
		}
		if stable && len(states) > 0 {
			rec.Violation("deadlock:stress-mix-blocked-forever", "ingest workers, handlers and the sweeper block each other: no progress and every goroutine inside the registry is parked on its lock",
				map[string]interface{}{"round": round, "goroutine_states": states, "stacks": stacks})
			return false
		}
		if time.Since(lastChange) > 4*time.Minute {
			rec.Inconclusive("stress mix made no progress for 4 minutes but no stable blocked state was seen", round)
			return false
		}
	}
}
