//go:build verif

package lib

// C06 – the station never dials a covert address that policy forbids.
//
// Monitor 1 ("decision"): the real RegConfig.ParseBlocklists + ParseOrResolveBlocklisted are called on
// generated (covert string, policy) pairs; an independent decision function written on net/netip
// (strict parse, Unmap, Prefix.Contains, regexp) judges every return value.  Hostnames are answered
// by the scripted resolver of zz_verif_c06_dns_test.go (answers change between lookups).
//
// What "the IP lies inside a subnet" means here: the address net.Dial would connect to.  Go dials a
// v4-mapped IPv6 literal (::ffff:a.b.c.d) over IPv4 to a.b.c.d, so the returned address is Unmap()ed
// and stripped of its zone before it is tested against the configured prefixes; an IPv4 address is
// only ever inside IPv4 prefixes, an IPv6 address only inside IPv6 prefixes.

import (
	"fmt"
	"math/rand"
	"net"
	"net/netip"
	"os"
	"regexp"
	"strconv"
	"strings"
	"sync"
	"testing"
	"time"

	kit "github.com/refraction-networking/conjure/internal/verifkit"
)

// ---- policy -----------------------------------------------------------------------------------------

type c06Policy struct {
	ID          string
	BlockText   []string
	AllowText   []string
	Domains     []string
	PublicAddrs bool

	block, allow []netip.Prefix
	res          []*regexp.Regexp
}

func (p *c06Policy) desc() map[string]interface{} {
	return map[string]interface{}{"id": p.ID, "blocklist": p.BlockText, "allowlist": p.AllowText, "domains": p.Domains, "public_addrs": p.PublicAddrs}
}

// compile builds the oracle's own view of the policy (netip prefixes, regexps) from the same texts
// the configuration receives.  Entries are canonical CIDRs by construction; host bits may be set.
func (p *c06Policy) compile() error {
	p.block, p.allow, p.res = nil, nil, nil
	for _, s := range p.BlockText {
		pf, err := netip.ParsePrefix(s)
		if err != nil {
			return fmt.Errorf("generator produced a non-canonical CIDR %q: %v", s, err)
		}
		p.block = append(p.block, pf.Masked())
	}
	for _, s := range p.AllowText {
		pf, err := netip.ParsePrefix(s)
		if err != nil {
			return fmt.Errorf("generator produced a non-canonical CIDR %q: %v", s, err)
		}
		p.allow = append(p.allow, pf.Masked())
	}
	for _, s := range p.Domains {
		re, err := regexp.Compile(s)
		if err != nil {
			return fmt.Errorf("generator produced an invalid pattern %q: %v", s, err)
		}
		p.res = append(p.res, re)
	}
	if p.PublicAddrs {
		// covert_blocklist_public_addrs: every address of every local interface, with its mask
		ifs, err := net.Interfaces()
		if err != nil {
			return err
		}
		for _, i := range ifs {
			as, err := i.Addrs()
			if err != nil {
				continue
			}
			for _, a := range as {
				if n, ok := a.(*net.IPNet); ok {
					ip, ok := netip.AddrFromSlice(n.IP)
					ones, bits := n.Mask.Size()
					if !ok || bits == 0 {
						continue
					}
					ip = ip.Unmap()
					if ip.Is4() && bits == 128 {
						ones -= 96
					}
					if pf, err := ip.Prefix(ones); err == nil {
						p.block = append(p.block, pf)
					}
				}
			}
		}
	}
	return nil
}

func (p *c06Policy) config() *RegConfig {
	return &RegConfig{
		CovertBlocklistSubnets:     append([]string(nil), p.BlockText...),
		CovertAllowlistSubnets:     append([]string(nil), p.AllowText...),
		CovertBlocklistDomains:     append([]string(nil), p.Domains...),
		CovertBlocklistPublicAddrs: p.PublicAddrs,
	}
}

func c06In(pfs []netip.Prefix, a netip.Addr) (bool, netip.Prefix) {
	for _, pf := range pfs {
		if pf.Contains(a) {
			return true, pf
		}
	}
	return false, netip.Prefix{}
}

// c06Dialed is the address net.Dial would connect to for a parsed literal.
func c06Dialed(a netip.Addr) netip.Addr { return a.WithZone("").Unmap() }

// c06SameTarget: same address; the two unspecified addresses count as the same target because package
// net itself adds 0.0.0.0 to a resolution whose only result is "::" (golang.org/issue/18806) and both
// mean "this host" to Dial.
func c06SameTarget(a, b netip.Addr) bool {
	a, b = c06Dialed(a), c06Dialed(b)
	return a == b || a.IsUnspecified() && b.IsUnspecified()
}

// forbidden reports why policy forbids connecting to a ("" = permitted).
func (p *c06Policy) forbidden(a netip.Addr) string {
	a = c06Dialed(a)
	inB, _ := c06In(p.block, a)
	if len(p.allow) > 0 {
		inA, _ := c06In(p.allow, a)
		if !inA {
			return "ip-outside-allowlist"
		}
		if inB {
			// the statement demands BOTH: outside every blocklisted subnet AND inside the allowlist
			return "ip-in-blocklist-overridden-by-allowlist"
		}
		return ""
	}
	if inB {
		return "ip-in-blocklist"
	}
	return ""
}

// ambiguous4in6: for a v4-mapped literal, does the verdict depend on whether the IPv6 prefixes of the
// policy are applied to the mapped 128-bit form (e.g. "::/0" covers ::ffff:a.b.c.d) or not at all
// (the connection is an IPv4 connection)?  Only then is acceptance left open; a returned address is
// always judged by what is dialed.
func (p *c06Policy) ambiguous4in6(a netip.Addr) bool {
	a = a.WithZone("")
	if !a.Is4In6() {
		return false
	}
	rawB, _ := c06In(p.block, a)
	rawA, _ := c06In(p.allow, a)
	return rawB || rawA
}

func (p *c06Policy) domainMatch(host string) string {
	for i, re := range p.res {
		if re.MatchString(host) {
			return p.Domains[i]
		}
	}
	return ""
}

// ---- independent syntax ---------------------------------------------------------------------------------

// c06Split splits host:port at the last colon; brackets are only accepted around the whole host.
func c06Split(s string) (host, port string, bracketed, ok bool) {
	i := strings.LastIndexByte(s, ':')
	if i < 0 {
		return "", "", false, false
	}
	host, port = s[:i], s[i+1:]
	if strings.ContainsAny(port, "[]") {
		return "", "", false, false
	}
	if strings.HasPrefix(host, "[") {
		if !strings.HasSuffix(host, "]") || len(host) < 2 {
			return "", "", false, false
		}
		host = host[1 : len(host)-1]
		bracketed = true
		if strings.ContainsAny(host, "[]") {
			return "", "", false, false
		}
		return host, port, true, true
	}
	if strings.ContainsAny(host, ":[]") {
		return "", "", false, false
	}
	return host, port, false, true
}

var c06NumericHost = regexp.MustCompile(`^(0[xX][0-9a-fA-F]*|[0-9]+)(\.(0[xX][0-9a-fA-F]*|[0-9]+)){0,3}\.?$`)
var c06Digits = regexp.MustCompile(`^[0-9]+$`)

// port classes: "valid" (decimal, fits 16 bits; value returned), "oversized", "negative", "other"
func c06PortClass(port string) (string, uint16, bool) {
	switch {
	case c06Digits.MatchString(port):
		v, err := strconv.ParseUint(port, 10, 64)
		if err != nil || v > 65535 {
			return "oversized", 0, false
		}
		canonical := port == strconv.FormatUint(v, 10)
		return "valid", uint16(v), canonical
	case len(port) > 1 && port[0] == '-' && c06Digits.MatchString(port[1:]):
		return "negative", 0, false
	}
	return "other", 0, false
}

type c06Syntax struct {
	SplitOK   bool
	Host      string
	Port      string
	Bracketed bool
	Lit       netip.Addr // valid iff the host is a strict IP literal
	IsLit     bool
	PortClass string
	PortVal   uint16
	PortCanon bool
	Canonical bool   // the whole string is the canonical text of (Lit, PortVal), no zone, not v4-mapped, port >= 1
	Class     string // stable input class used in counters and signatures
}

func c06Parse(in string, hosts map[string][]netip.Addr) c06Syntax {
	var sx c06Syntax
	sx.Host, sx.Port, sx.Bracketed, sx.SplitOK = c06Split(in)
	if !sx.SplitOK {
		if in == "" {
			sx.Class = "empty-string"
		} else {
			sx.Class = "unsplittable"
		}
		return sx
	}
	sx.PortClass, sx.PortVal, sx.PortCanon = c06PortClass(sx.Port)
	if a, err := netip.ParseAddr(sx.Host); err == nil {
		sx.IsLit, sx.Lit = true, a
	}
	switch {
	case sx.Host == "":
		sx.Class = "empty-host"
	case sx.IsLit && sx.Lit.Zone() != "":
		if sx.Lit.Is4In6() {
			sx.Class = "v4-mapped-zone"
		} else {
			sx.Class = "v6-zone"
		}
	case sx.IsLit && sx.Lit.Is4In6():
		sx.Class = "v4-mapped"
	case sx.IsLit && sx.Lit.Is4() && sx.Bracketed:
		sx.Class = "v4-bracketed"
	case sx.IsLit && sx.Lit.Is4():
		sx.Class = "v4"
	case sx.IsLit && !sx.Bracketed:
		sx.Class = "v6-unbracketed" // cannot happen (the split refuses it); kept for completeness
	case sx.IsLit:
		sx.Class = "v6"
	case c06NumericHost.MatchString(sx.Host):
		sx.Class = "numeric-nonliteral"
	default:
		if _, ok := hosts[c06Key(sx.Host)]; ok {
			sx.Class = "hosts-file-name"
		} else {
			sx.Class = "name"
		}
	}
	if sx.IsLit && sx.PortClass == "valid" && sx.PortVal >= 1 && sx.Lit.Zone() == "" && !sx.Lit.Is4In6() {
		sx.Canonical = netip.AddrPortFrom(sx.Lit, sx.PortVal).String() == in
	}
	return sx
}

func c06HostsFile() map[string][]netip.Addr {
	m := map[string][]netip.Addr{}
	b, err := os.ReadFile("/etc/hosts")
	if err != nil {
		return m
	}
	for _, l := range strings.Split(string(b), "\n") {
		if i := strings.IndexByte(l, '#'); i >= 0 {
			l = l[:i]
		}
		f := strings.Fields(l)
		if len(f) < 2 {
			continue
		}
		a, err := netip.ParseAddr(f[0])
		if err != nil {
			continue
		}
		for _, n := range f[1:] {
			m[c06Key(n)] = append(m[c06Key(n)], a.WithZone(""))
		}
	}
	return m
}

// ---- the decision oracle ----------------------------------------------------------------------------------

type c06Obs struct {
	In      string
	Out     string
	Lookup  bool
	Name    string // scripted name used by the input ("" = none)
	NA      int    // A queries for Name during the call
	NAAAA   int
	Handed  []netip.Addr // addresses the scripted resolver handed out for Name during the call
	Elapsed time.Duration
}

// expectation for (in, policy): must-accept | must-reject | may
func c06Expect(sx c06Syntax, pol *c06Policy) (string, string) {
	if !sx.SplitOK {
		return "may", "no host:port structure (a non-empty return is still judged)"
	}
	if pat := pol.domainMatch(sx.Host); pat != "" {
		return "must-reject", "host matches blocklisted domain pattern " + pat
	}
	switch sx.PortClass {
	case "oversized", "negative":
		return "must-reject", "port is a number that is not a 16-bit port"
	case "other":
		return "may", "port is not a decimal number"
	}
	if !sx.IsLit {
		return "may", "not a strict IP literal (a non-empty return is still judged)"
	}
	if why := pol.forbidden(sx.Lit); why != "" {
		return "must-reject", why
	}
	if pol.ambiguous4in6(sx.Lit) {
		return "may", "v4-mapped literal on which mapped and unmapped view of the policy disagree"
	}
	if sx.Lit.Zone() != "" {
		return "may", "scoped literal"
	}
	if sx.PortVal == 0 || !sx.PortCanon {
		return "may", "port 0 or port with leading zeros"
	}
	if sx.Bracketed && sx.Lit.Is4() {
		return "may", "bracketed IPv4"
	}
	return "must-accept", "well-formed permitted IP:port"
}

// c06Judge applies the property to one observed call.  It returns the expectation and the number of
// violations it raised.
func c06Judge(rec *kit.Rec, pol *c06Policy, hosts map[string][]netip.Addr, o c06Obs) (c06Syntax, string, int) {
	sx := c06Parse(o.In, hosts)
	expect, why := c06Expect(sx, pol)
	nv := 0
	viol := func(sig, msg string, extra map[string]interface{}) {
		nv++
		d := map[string]interface{}{"covert": c06Show(o.In), "returned": c06Show(o.Out), "input_class": sx.Class, "expectation": expect + ": " + why, "policy": pol.desc()}
		if o.Name != "" {
			d["resolver"] = map[string]interface{}{"name": o.Name, "A_queries": o.NA, "AAAA_queries": o.NAAAA, "handed_out": fmt.Sprint(o.Handed)}
		}
		for k, v := range extra {
			d[k] = v
		}
		rec.Count("violations_by_sig["+sig+"]", 1)
		rec.Violation(sig, msg, d)
	}

	// the resolver is asked at most once per admission (A+AAAA pair = one lookup).  A retransmission
	// after the stub resolver's 5 s timeout would also show up as a second query: only fast calls count.
	if o.NA > 1 || o.NAAAA > 1 {
		if o.Elapsed < 3*time.Second {
			viol("resolve:more-than-once-per-admission", "the resolver was asked more than once for the same name during one admission decision", nil)
		} else {
			rec.Inconclusive("more than one query for a name, but the call was slow enough for a retransmission", map[string]interface{}{"covert": o.In, "elapsed": o.Elapsed.String()})
		}
	}

	if o.Out == "" {
		if expect == "must-accept" {
			viol("reject:permitted-well-formed-ip-port:"+sx.Class, "a well-formed permitted IP:port was rejected", nil)
		}
		return sx, expect, nv
	}

	// ---- something will be dialed: it must be a literal IP:port -----------------------------------------
	ap, err := netip.ParseAddrPort(o.Out)
	if err != nil {
		oh, _, _, ook := c06Split(o.Out)
		switch {
		case ook && oh == "":
			viol("admit:empty-host-covert", "a covert address with an empty host was admitted and returned as is; net.Dial connects such an address to the local host, whatever the blocklist says", map[string]interface{}{"parse_error": err.Error()})
		case ook && strings.Contains(oh, "%") && !strings.Contains(oh, ":"):
			viol("admit:returned-ipv4-with-zone", "the returned string is an IPv4 address with a zone, which is not a literal IP:port (net.Dial would treat the host as a name)", map[string]interface{}{"parse_error": err.Error()})
		case ook && c06LooksLikeName(oh):
			viol("admit:returned-unresolved-name", "the returned string carries a host name instead of the resolved literal (it would be resolved again at dial time)", map[string]interface{}{"parse_error": err.Error()})
		default:
			viol("admit:returned-not-literal-ip-port", "the returned string is not a literal IP:port", map[string]interface{}{"parse_error": err.Error()})
		}
		return sx, expect, nv
	}
	ip := c06Dialed(ap.Addr())

	// policy on the address that would be dialed
	if whyf := pol.forbidden(ip); whyf != "" {
		_, bp := c06In(pol.block, ip)
		viol("admit:"+whyf, "the returned address is one that policy forbids ("+whyf+")", map[string]interface{}{"dialed_ip": ip.String(), "blocklist_entry": fmt.Sprint(bp)})
	}
	// domain pattern on the host the client supplied
	if sx.SplitOK {
		if pat := pol.domainMatch(sx.Host); pat != "" {
			viol("admit:host-matches-blocklisted-domain", "the supplied host matches a blocklisted domain pattern but the covert was admitted", map[string]interface{}{"pattern": pat, "host": c06Show(sx.Host)})
		}
	}
	// port
	if sx.SplitOK {
		switch sx.PortClass {
		case "valid":
			if ap.Port() != sx.PortVal {
				viol("admit:port-changed", "the returned port differs from the supplied one", map[string]interface{}{"supplied_port": sx.PortVal, "returned_port": ap.Port()})
			}
		case "oversized", "negative":
			viol("admit:port-not-16-bit:"+sx.PortClass, "a covert whose port is a number outside 0..65535 was admitted", map[string]interface{}{"supplied_port": c06Show(sx.Port), "returned_port": ap.Port()})
		}
	}
	// the address that was checked is the address that is dialed
	switch {
	case sx.SplitOK && sx.IsLit:
		if !c06SameTarget(sx.Lit, ip) {
			viol("admit:address-differs-from-supplied-literal", "the returned address is not the literal the client supplied", map[string]interface{}{"supplied_ip": sx.Lit.String(), "returned_ip": ip.String()})
		}
	case sx.SplitOK && sx.Class == "numeric-nonliteral":
		// inet_aton-style spellings (leading zeros, short forms): parsers legitimately disagree on
		// their value; only the checks on the returned literal above apply.
	default:
		ok := false
		for _, h := range o.Handed {
			if c06SameTarget(h, ip) {
				ok = true
			}
		}
		if sx.SplitOK {
			for _, h := range hosts[c06Key(sx.Host)] {
				if c06SameTarget(h, ip) {
					ok = true
				}
			}
		}
		if !ok {
			viol("admit:address-not-from-resolution", "the returned address is neither a supplied literal nor an answer the resolver gave for the supplied name during this admission", map[string]interface{}{"returned_ip": ip.String()})
		}
	}
	// accepted unchanged
	if sx.Canonical && o.Out != o.In {
		viol("accept:canonical-ip-port-changed", "a canonical permitted IP:port was not returned unchanged", nil)
	}
	return sx, expect, nv
}

func c06LooksLikeName(h string) bool {
	if h == "" || strings.ContainsAny(h, ":%") {
		return false
	}
	for i := 0; i < len(h); i++ {
		c := h[i]
		if !(c >= 'a' && c <= 'z' || c >= 'A' && c <= 'Z' || c >= '0' && c <= '9' || c == '-' || c == '_' || c == '.') {
			return false
		}
	}
	_, err := netip.ParseAddr(h)
	return err != nil
}

func c06Show(s string) string {
	if len(s) > 160 {
		return fmt.Sprintf("%q…(%d bytes)", s[:80], len(s))
	}
	return strconv.Quote(s)
}

// ---- generators --------------------------------------------------------------------------------------------

type c06Gen struct {
	rng   *rand.Rand
	dns   *c06DNS
	hosts map[string][]netip.Addr
	tag   string
	seq   int
}

var c06V4Bases = []string{"10.0.0.1", "10.255.255.255", "127.0.0.1", "127.0.0.66", "127.1.2.3", "192.168.1.1", "172.16.0.1", "172.31.255.254", "172.32.0.1",
	"169.254.169.254", "100.64.0.1", "8.8.8.8", "1.1.1.1", "198.51.100.7", "203.0.113.9", "0.0.0.0", "0.0.0.1", "255.255.255.255", "224.0.0.1", "192.0.2.2", "128.138.2.1", "9.255.255.255", "11.0.0.0"}
var c06V6Bases = []string{"::1", "::", "::2", "fe80::1", "fe80::fc:ff:fe00:1", "fc00::1", "fd00::2", "fdff:ffff::1", "2001:db8::1", "2001:db8:0:1::5", "2606:4700:4700::1111",
	"64:ff9b::a00:1", "64:ff9b::7f00:1", "::10.0.0.1", "::127.0.0.1", "ff02::1", "2002:7f00:1::", "ffff:ffff:ffff:ffff:ffff:ffff:ffff:ffff", "fe7f:ffff::1", "fec0::1", "1::"}

func (g *c06Gen) randV4() netip.Addr {
	if g.rng.Intn(3) > 0 {
		return netip.MustParseAddr(c06V4Bases[g.rng.Intn(len(c06V4Bases))])
	}
	var b [4]byte
	g.rng.Read(b[:])
	return netip.AddrFrom4(b)
}

func (g *c06Gen) randV6() netip.Addr {
	if g.rng.Intn(3) > 0 {
		return netip.MustParseAddr(c06V6Bases[g.rng.Intn(len(c06V6Bases))])
	}
	var b [16]byte
	g.rng.Read(b[:])
	if g.rng.Intn(2) == 0 { // sparse addresses compress in interesting ways
		for i := range b {
			if g.rng.Intn(3) > 0 {
				b[i] = 0
			}
		}
	}
	a := netip.AddrFrom16(b)
	if a.Is4In6() {
		b[0] = 0x20
		a = netip.AddrFrom16(b)
	}
	return a
}

func (g *c06Gen) randAddr() netip.Addr {
	if g.rng.Intn(5) < 3 {
		return g.randV4()
	}
	return g.randV6()
}

var c06V4Lens = []int{0, 1, 4, 7, 8, 9, 12, 15, 16, 17, 20, 23, 24, 25, 26, 27, 28, 29, 30, 31, 32}
var c06V6Lens = []int{0, 1, 3, 7, 8, 10, 12, 16, 29, 32, 48, 56, 63, 64, 65, 96, 104, 112, 120, 126, 127, 128}

// prefixAround returns a prefix that contains a; never a v4-mapped IPv6 prefix (Go's IPNet has no
// defined meaning for those; malformed and odd policy entries are C19's subject).
func (g *c06Gen) prefixAround(a netip.Addr) netip.Prefix {
	for {
		var l int
		if a.Is4() {
			l = c06V4Lens[g.rng.Intn(len(c06V4Lens))]
			if g.rng.Intn(4) > 0 && l < 8 {
				l = 8 + g.rng.Intn(25)
			}
		} else {
			l = c06V6Lens[g.rng.Intn(len(c06V6Lens))]
			if g.rng.Intn(4) > 0 && l < 7 {
				l = 7 + g.rng.Intn(122)
			}
		}
		pf, err := a.Prefix(l)
		if err != nil {
			continue
		}
		if pf.Addr().Is4In6() {
			a = g.randV6()
			continue
		}
		return pf
	}
}

// addrIn returns an address inside pf: first, last or random.
func (g *c06Gen) addrIn(pf netip.Prefix) netip.Addr {
	b := pf.Addr().AsSlice()
	bits := pf.Bits()
	mode := g.rng.Intn(4)
	for i := bits; i < len(b)*8; i++ {
		var bit byte
		switch mode {
		case 0:
			bit = 0
		case 1:
			bit = 1
		default:
			bit = byte(g.rng.Intn(2))
		}
		if bit == 1 {
			b[i/8] |= 1 << (7 - uint(i%8))
		} else {
			b[i/8] &^= 1 << (7 - uint(i%8))
		}
	}
	a, _ := netip.AddrFromSlice(b)
	return a
}

// justOutside returns the address right before or right after pf (or a random one if there is none).
func (g *c06Gen) justOutside(pf netip.Prefix) netip.Addr {
	first := pf.Masked().Addr()
	if g.rng.Intn(2) == 0 {
		if p := first.Prev(); p.IsValid() {
			return p
		}
	}
	// last address + 1
	b := first.AsSlice()
	for i := pf.Bits(); i < len(b)*8; i++ {
		b[i/8] |= 1 << (7 - uint(i%8))
	}
	last, _ := netip.AddrFromSlice(b)
	if n := last.Next(); n.IsValid() {
		return n
	}
	if p := first.Prev(); p.IsValid() {
		return p
	}
	return g.randAddr()
}

func (g *c06Gen) cidrText(pf netip.Prefix) string {
	if g.rng.Intn(8) == 0 {
		// host bits set, as in the repository's own tests ("192.0.0.1/16"): still a canonical CIDR
		a := g.addrIn(pf)
		if !a.Is4In6() {
			return netip.PrefixFrom(a, pf.Bits()).String()
		}
	}
	return pf.String()
}

var c06DomainPool = []string{`localhost`, `.*blocked\.test$`, `^evil\.`, `internal`, `(?i)\.corp\.test\.?$`, `\.onion$`, `^$`, `^[0-9.]+$`, `:`, `^h[0-9]*[02468]\.`,
	`metadata`, `^.{40,}$`, `%`, `^\[`, `\.$`, `[A-Z]`, `^127\.`, `^::ffff:`, `.*`}

func (g *c06Gen) policy(id string) *c06Policy {
	p := &c06Policy{ID: id}
	kind := g.rng.Intn(10)
	nB, nA, nD := 0, 0, 0
	switch kind {
	case 0: // empty policy
	case 1, 2, 3:
		nB = 1 + g.rng.Intn(6)
	case 4, 5:
		nA = 1 + g.rng.Intn(4)
	case 6:
		nB, nA = 1+g.rng.Intn(5), 1+g.rng.Intn(4)
	case 7:
		nB, nD = 1+g.rng.Intn(5), 1+g.rng.Intn(3)
	case 8:
		nD = 1 + g.rng.Intn(3)
	case 9:
		nB, nA, nD = 1+g.rng.Intn(4), 1+g.rng.Intn(3), 1+g.rng.Intn(2)
	}
	var bl, al []netip.Prefix
	for i := 0; i < nB; i++ {
		bl = append(bl, g.prefixAround(g.randAddr()))
	}
	for i := 0; i < nA; i++ {
		switch {
		case len(bl) > 0 && g.rng.Intn(3) == 0: // allow a part of something blocked
			al = append(al, g.prefixAround(g.addrIn(bl[g.rng.Intn(len(bl))])))
		default:
			al = append(al, g.prefixAround(g.randAddr()))
		}
	}
	if nB > 0 && nA > 0 && g.rng.Intn(2) == 0 { // block a part of something allowed
		bl = append(bl, g.prefixAround(g.addrIn(al[g.rng.Intn(len(al))])))
	}
	for _, pf := range bl {
		p.BlockText = append(p.BlockText, g.cidrText(pf))
	}
	for _, pf := range al {
		p.AllowText = append(p.AllowText, g.cidrText(pf))
	}
	for i := 0; i < nD; i++ {
		p.Domains = append(p.Domains, c06DomainPool[g.rng.Intn(len(c06DomainPool))])
	}
	return p
}

// fixed policies that are always part of the workload
func c06FixedPolicies() []*c06Policy {
	return []*c06Policy{
		{ID: "fixed:none"},
		{ID: "fixed:shipped", PublicAddrs: true, Domains: []string{"localhost"},
			BlockText: []string{"127.0.0.1/32", "10.0.0.0/8", "172.16.0.0/12", "192.168.0.0/16", "fc00::/7", "fe80::0/16", "::1/128"}},
		{ID: "fixed:loopback-and-private", BlockText: []string{"127.0.0.0/8", "10.0.0.0/8", "172.16.0.0/12", "192.168.0.0/16", "169.254.0.0/16", "0.0.0.0/8", "fc00::/7", "fe80::/10", "::1/128", "::/128"}},
		{ID: "fixed:rebinding", BlockText: []string{"127.0.0.64/26"}},
		{ID: "fixed:allow-one-net", AllowText: []string{"128.138.0.0/16", "2001:db8::/64"}},
		{ID: "fixed:allow-inside-block", BlockText: []string{"10.0.0.0/8"}, AllowText: []string{"10.1.0.0/16", "198.51.100.0/24"}},
		{ID: "fixed:block-all", BlockText: []string{"0.0.0.0/0", "::/0"}},
		{ID: "fixed:block-all-v6", BlockText: []string{"::/0"}},
		{ID: "fixed:block-all-v4", BlockText: []string{"0.0.0.0/0"}},
		{ID: "fixed:domains", Domains: []string{`.*blocked\.test$`, `^evil\.`, `localhost`}},
	}
}

// ---- covert strings ------------------------------------------------------------------------------------------

var c06GoodPorts = []string{"80", "443", "6379", "22", "1", "65535", "8080", "53", "25", "5432", "2379", "10000"}
var c06OddPorts = []string{"0", "080", "00443", "0000000000000000000080", "+80", "-1", "-80", "65536", "99999", "100000", "4294967376", "18446744073709551696", "http", "domain", "",
	" 80", "80 ", "80\n", "0x50", "8０", "1e2", "80/", "80:80", "８０", "6379\x00", "٨٠"}

func (g *c06Gen) port() string {
	switch r := g.rng.Intn(20); {
	case r < 12:
		return c06GoodPorts[g.rng.Intn(len(c06GoodPorts))]
	case r < 15:
		return strconv.Itoa(1 + g.rng.Intn(65535))
	default:
		return c06OddPorts[g.rng.Intn(len(c06OddPorts))]
	}
}

var c06Zones = []string{"eth0", "lo", "1", "4", "nosuchif", "25eth0", "eth0%eth1", "e t", "", "0"}

func c06Expand6(a netip.Addr, upper, pad bool) string {
	b := a.As16()
	var parts []string
	for i := 0; i < 16; i += 2 {
		v := uint16(b[i])<<8 | uint16(b[i+1])
		f := "%x"
		if pad {
			f = "%04x"
		}
		s := fmt.Sprintf(f, v)
		if upper {
			s = strings.ToUpper(s)
		}
		parts = append(parts, s)
	}
	return strings.Join(parts, ":")
}

// literal renders address a with port p in one of many textual forms.
func (g *c06Gen) literal(a netip.Addr, p string) (string, string) {
	if a.Is4() {
		b := a.As4()
		dotted := a.String()
		switch r := g.rng.Intn(100); {
		case r < 38:
			return dotted + ":" + p, "v4:canonical"
		case r < 50:
			return "[::ffff:" + dotted + "]:" + p, "v4:mapped-dotted"
		case r < 56:
			return fmt.Sprintf("[::ffff:%x:%x]:%s", uint16(b[0])<<8|uint16(b[1]), uint16(b[2])<<8|uint16(b[3]), p), "v4:mapped-hex"
		case r < 59:
			return "[0:0:0:0:0:ffff:" + dotted + "]:" + p, "v4:mapped-expanded"
		case r < 61:
			return "[::FFFF:" + dotted + "]:" + p, "v4:mapped-upper"
		case r < 63:
			return "[0000:0000:0000:0000:0000:FFFF:" + fmt.Sprintf("%02X%02X:%02X%02X", b[0], b[1], b[2], b[3]) + "]:" + p, "v4:mapped-full-hex"
		case r < 67:
			return "[::ffff:" + dotted + "%" + c06Zones[g.rng.Intn(len(c06Zones))] + "]:" + p, "v4:mapped-zone"
		case r < 72:
			return "[" + dotted + "]:" + p, "v4:bracketed"
		case r < 77:
			return fmt.Sprintf("%03d.%d.%02d.%d:%s", b[0], b[1], b[2], b[3], p), "v4:leading-zeros"
		case r < 79:
			return fmt.Sprintf("0%o.0%o.0%o.0%o:%s", b[0], b[1], b[2], b[3], p), "v4:octal"
		case r < 81:
			return fmt.Sprintf("0x%x.0x%x.0x%x.0x%x:%s", b[0], b[1], b[2], b[3], p), "v4:hex"
		case r < 83:
			return fmt.Sprintf("%d:%s", uint32(b[0])<<24|uint32(b[1])<<16|uint32(b[2])<<8|uint32(b[3]), p), "v4:integer"
		case r < 85:
			return fmt.Sprintf("%d.%d:%s", b[0], uint32(b[1])<<16|uint32(b[2])<<8|uint32(b[3]), p), "v4:short"
		case r < 87:
			return dotted + "%" + c06Zones[g.rng.Intn(len(c06Zones))] + ":" + p, "v4:zone"
		case r < 89:
			return dotted + ".:" + p, "v4:trailing-dot"
		case r < 91:
			return []string{" " + dotted + ":" + p, dotted + " :" + p, "\t" + dotted + ":" + p, dotted + "\x00:" + p}[g.rng.Intn(4)], "v4:whitespace"
		case r < 94:
			return dotted, "v4:no-port"
		case r < 96:
			return "[::" + dotted + "]:" + p, "v4:compat-v6" // a different (IPv6) address
		case r < 98:
			return "[64:ff9b::" + dotted + "]:" + p, "v4:nat64" // a different (IPv6) address
		default:
			return "[::ffff:" + dotted + "]", "v4:mapped-no-port"
		}
	}
	canon := a.String()
	switch r := g.rng.Intn(100); {
	case r < 42:
		return "[" + canon + "]:" + p, "v6:canonical"
	case r < 50:
		return "[" + c06Expand6(a, false, false) + "]:" + p, "v6:expanded"
	case r < 57:
		return "[" + strings.ToUpper(canon) + "]:" + p, "v6:upper"
	case r < 62:
		return "[" + c06Expand6(a, g.rng.Intn(2) == 0, true) + "]:" + p, "v6:padded"
	case r < 72:
		return "[" + canon + "%" + c06Zones[g.rng.Intn(len(c06Zones))] + "]:" + p, "v6:zone"
	case r < 77:
		return canon + ":" + p, "v6:no-brackets"
	case r < 81:
		return "[" + canon + "]", "v6:no-port"
	case r < 84:
		return canon, "v6:bare"
	case r < 89:
		b := a.As16()
		return fmt.Sprintf("[%s:%d.%d.%d.%d]:%s", c06Expand6Head(a), b[12], b[13], b[14], b[15], p), "v6:dotted-tail"
	case r < 92:
		return "[[" + canon + "]]:" + p, "v6:double-brackets"
	case r < 94:
		return "[" + canon + "]:" + p + ":" + p, "v6:two-ports"
	case r < 96:
		return "[" + canon + "]" + p, "v6:missing-colon"
	case r < 98:
		return "[ " + canon + "]:" + p, "v6:space"
	default:
		return "[" + canon + "/128]:" + p, "v6:with-mask"
	}
}

func c06Expand6Head(a netip.Addr) string {
	b := a.As16()
	var parts []string
	for i := 0; i < 12; i += 2 {
		parts = append(parts, fmt.Sprintf("%x", uint16(b[i])<<8|uint16(b[i+1])))
	}
	return strings.Join(parts, ":")
}

var c06EmptyHosts = []string{":%s", "[]:%s", "[%%eth0]:%s", " :%s", "[ ]:%s", ".:%s", "[.]:%s", "%%lo:%s", "[::%%]:%s", "*:%s", "[*]:%s"}

var c06Garbage = []string{"", ":", "::", ":::", "[]", "[]:", "[", "]", "]:80", "[:80", "http://example.com", "http://example.com:80/", "example.com:80/path", "user@10.0.0.1:80",
	"10.0.0.1:80@8.8.8.8:80", "10.", "::1::1", "::1::1:80", ".com:443", "0.42.42.42", "1.2.3.4:80:80", "1.2.3:80", "1.2.3.4.5:80", "256.1.1.1:80", "1.2.3.-4:80", "[::1]:80 ", "[::g]:80",
	"[1:2:3:4:5:6:7:8:9]:80", "[1:2:3:4:5:6:7]:80", "[:::1]:80", "[::1%]:80", "\x00:80", "\x00", "[\x00]:80", "localhost", "localhost:", "[localhost]:80", "LOCALHOST:80", "localhost.:80",
	"Localhost:6379", "localhost:06379", "ip6-localhost:80", "runsc:80", "vm:80", "a:80", "-:80", "_:80", "a..b:80", ".a:80", "a.:80", "xn--nxasmq6b:80", "пример.test:80", "ex ample.test:80",
	"0:80", "1:80", "127.1:80", "0x7f000001:80", "017700000001:80", "2130706433:80", "0177.0.0.1:6379", "[0]:80", "[::ffff:127.1]:80", "[::ffff:0x7f.0.0.1]:80", "[::ffff:7f00:1]:6379",
	"[::ffff:127.0.0.1]:6379", "[::127.0.0.1]:6379", "[0:0:0:0:0:ffff:7f00:0001]:6379", "[::1]:6379", "[0::1]:6379", "[::0:1]:6379", "[::]:6379", "0.0.0.0:6379", "[::ffff:0.0.0.0]:6379",
	"[::ffff:0:0]:6379", "0:6379", ":6379", "[]:6379", "[::%lo]:6379", "127.0.0.1:6379", "127.0.0.66:80", "127.0.0.5:80", "[fe80::1%eth0]:80", "[fe80::1%lo]:80", "[::1%lo]:6379", "[::1%1]:6379"}

// hostname builds a name (usually scripted in the resolver) and returns the covert string, the
// scripted name ("" if none) and a form label.
func (g *c06Gen) hostname(pol *c06Policy, p string) (string, string, string) {
	g.seq++
	shapes := []string{"h%d.%s.verif.test", "h%d.%s.blocked.test", "evil.h%d.%s.test", "h%d.%s.internal.test", "h%d.%s.corp.test", "H%d.%s.BLOCKED.TEST", "h%d.%s.onion", "metadata.h%d.%s.test",
		"h%d.%s.verif.test.", "h%d-%s", "x.h%d.%s.an-unusually-long-label-to-cross-forty-characters.test"}
	name := fmt.Sprintf(shapes[g.rng.Intn(len(shapes))], g.seq, g.tag)
	form := "name:scripted"
	scripted := name
	switch r := g.rng.Intn(20); {
	case r < 15:
		var rounds []c06Round
		n := 1 + g.rng.Intn(3)
		for i := 0; i < n; i++ {
			var rd c06Round
			for k := g.rng.Intn(3); k > 0; k-- {
				rd.V4 = append(rd.V4, g.targetAddr(pol, true))
			}
			for k := g.rng.Intn(3) - g.rng.Intn(2); k > 0; k-- {
				rd.V6 = append(rd.V6, g.targetAddr(pol, false))
			}
			rounds = append(rounds, rd)
		}
		g.dns.Script(name, rounds)
	case r < 18:
		scripted, form = "", "name:nxdomain"
	default:
		hs := []string{"localhost", "LOCALHOST", "localhost.", "runsc", "vm", "LocalHost"}
		name, scripted, form = hs[g.rng.Intn(len(hs))], "", "name:hosts-file"
	}
	s := name + ":" + p
	switch g.rng.Intn(12) {
	case 0:
		s, form = "["+name+"]:"+p, form+"-bracketed"
	case 1:
		s, form = name, form+"-no-port"
	case 2:
		s, form = name+"%eth0:"+p, form+"-zone"
	}
	return s, scripted, form
}

// targetAddr picks an address that is interesting for the policy: inside one of its prefixes, right
// at one of their edges, or unrelated.
func (g *c06Gen) targetAddr(pol *c06Policy, want4 bool) netip.Addr {
	all := append(append([]netip.Prefix(nil), pol.block...), pol.allow...)
	var cand []netip.Prefix
	for _, pf := range all {
		if pf.Addr().Is4() == want4 {
			cand = append(cand, pf)
		}
	}
	r := g.rng.Intn(10)
	if len(cand) > 0 && r < 5 {
		return g.addrIn(cand[g.rng.Intn(len(cand))])
	}
	if len(cand) > 0 && r < 7 {
		a := g.justOutside(cand[g.rng.Intn(len(cand))])
		if a.Is4() == want4 && !a.Is4In6() {
			return a
		}
	}
	if want4 {
		return g.randV4()
	}
	return g.randV6()
}

type c06Input struct {
	S    string
	Name string
	Form string
}

func (g *c06Gen) input(pol *c06Policy) c06Input {
	switch r := g.rng.Intn(100); {
	case r < 62:
		s, form := g.literal(g.targetAddr(pol, g.rng.Intn(5) < 3), g.port())
		return c06Input{S: s, Form: form}
	case r < 78:
		s, name, form := g.hostname(pol, g.port())
		return c06Input{S: s, Name: name, Form: form}
	case r < 86:
		return c06Input{S: fmt.Sprintf(c06EmptyHosts[g.rng.Intn(len(c06EmptyHosts))], g.port()), Form: "empty-or-odd-host"}
	case r < 97:
		return c06Input{S: c06Garbage[g.rng.Intn(len(c06Garbage))], Form: "fixed-corpus"}
	case r < 98:
		n := []int{300, 5000, 70000}[g.rng.Intn(3)]
		return c06Input{S: strings.Repeat("a", n) + []string{":80", ".test:80", "", "]:80"}[g.rng.Intn(4)], Form: "very-long"}
	case r < 99:
		n := []int{64, 254, 2000}[g.rng.Intn(3)]
		return c06Input{S: "[" + strings.Repeat("0:", n) + "1]:80", Form: "very-long-v6"}
	default:
		b := make([]byte, 1+g.rng.Intn(24))
		const alphabet = "0123456789abcdef.:[]%-x/ \x00"
		for i := range b {
			b[i] = alphabet[g.rng.Intn(len(alphabet))]
		}
		return c06Input{S: string(b), Form: "random-bytes"}
	}
}

// ---- the run -------------------------------------------------------------------------------------------------

type c06Worker struct {
	rec    *kit.Rec
	g      *c06Gen
	hosts  map[string][]netip.Addr
	single bool // only one goroutine is driving the recorder (its "last case" is then meaningful)
}

// infrastructure failures found by worker goroutines (reported with t.Fatal by the test goroutine)
var (
	c06FailMu sync.Mutex
	c06Fails  []string
)

func c06Fail(format string, a ...interface{}) {
	c06FailMu.Lock()
	c06Fails = append(c06Fails, fmt.Sprintf(format, a...))
	c06FailMu.Unlock()
}

// c06Call runs the real guard; a panic is turned into a violation that names the input.
func c06Call(rec *kit.Rec, conf *RegConfig, pol *c06Policy, in string) (out string, lookup bool, crashed bool) {
	defer func() {
		if r := recover(); r != nil {
			crashed = true
			rec.Violation("crash:ParseOrResolveBlocklisted", "the admission guard panicked on a covert string", map[string]interface{}{"covert": c06Show(in), "policy": pol.desc(), "panic": fmt.Sprint(r)})
		}
	}()
	out, lookup = conf.ParseOrResolveBlocklisted(in)
	return out, lookup, false
}

// evalOne calls the real guard on one (string, policy) pair and judges the result.
func (w *c06Worker) evalOne(conf *RegConfig, pol *c06Policy, in c06Input) {
	if w.single {
		w.rec.CaseCheap(map[string]interface{}{"covert": c06Show(in.S), "policy": pol.desc()})
	}
	var a0, aaaa0, h0 int
	if in.Name != "" {
		var h []netip.Addr
		a0, aaaa0, h = w.g.dns.Snapshot(in.Name)
		h0 = len(h)
	}
	t0 := time.Now()
	out, lookup, crashed := c06Call(w.rec, conf, pol, in.S)
	if crashed {
		w.rec.Count("evaluations", 1)
		return
	}
	o := c06Obs{In: in.S, Out: out, Lookup: lookup, Name: in.Name, Elapsed: time.Since(t0)}
	if in.Name != "" {
		a1, aaaa1, h := w.g.dns.Snapshot(in.Name)
		o.NA, o.NAAAA, o.Handed = a1-a0, aaaa1-aaaa0, h[h0:]
		w.g.dns.Forget(in.Name)
	}
	sx, expect, nv := c06Judge(w.rec, pol, w.hosts, o)
	if expect == "must-reject" && out != "" && nv == 0 {
		c06Fail("oracle inconsistency: must-reject case accepted without a violation: %q -> %q policy %v", in.S, out, pol.desc())
	}

	decision := "rejected"
	if out != "" {
		decision = "accepted"
	}
	w.rec.Count("evaluations", 1)
	w.rec.Count(decision, 1)
	w.rec.Count("expect_"+expect, 1)
	if o.NA+o.NAAAA > 0 {
		w.rec.Count("resolver_lookups", 1)
	}
	w.rec.Distinct("forms", in.Form)
	w.rec.Distinct("class_expect_decision", sx.Class, expect, decision)
	// non-trivial: the string has host:port structure with a 16-bit decimal port and a non-degenerate
	// host, i.e. the verdict depended on the policy and/or the resolver, not on syntax alone
	if sx.SplitOK && sx.PortClass == "valid" {
		w.rec.Distinct("nontrivial", in.S, pol.ID)
		w.rec.Count("nontrivial_evaluations", 1)
	}
	// a few written-out cases, one per interesting kind
	key := ""
	switch {
	case in.Name != "" && out != "" && o.NA > 0:
		key = "name-accepted"
	case sx.Class == "v4-mapped" && expect == "must-reject" && pol.ID != "fixed:shipped":
		key = "v4-mapped-must-reject"
	case sx.Class == "v6" && expect == "must-accept" && len(pol.BlockText) > 0:
		key = "v6-must-accept"
	case sx.Class == "v4" && expect == "must-reject" && len(pol.AllowText) > 0:
		key = "v4-outside-allowlist"
	case sx.Class == "name" && expect == "must-reject" && sx.PortClass == "valid" && pol.domainMatch(sx.Host) != "":
		key = "name-pattern-reject"
	case sx.Class == "v6-zone" && out != "":
		key = "zone-accepted"
	}
	if key != "" && c06WantSample(key) {
		w.rec.Sample(map[string]interface{}{"kind": key, "covert": in.S, "policy": pol.desc(), "returned": out, "expectation": expect, "class": sx.Class,
			"resolver": map[string]interface{}{"A": o.NA, "AAAA": o.NAAAA, "handed_out": fmt.Sprint(o.Handed)}})
	}
}

var (
	c06SampleMu   sync.Mutex
	c06SampleSeen = map[string]bool{}
)

func c06WantSample(key string) bool {
	c06SampleMu.Lock()
	defer c06SampleMu.Unlock()
	if c06SampleSeen[key] {
		return false
	}
	c06SampleSeen[key] = true
	return true
}

func TestVerifC06Decision(t *testing.T) {
	rec := kit.NewRec("C06", "decision")
	defer rec.Close()
	dns, err := c06Resolver()
	if err != nil {
		t.Fatal(err)
	}
	hosts := c06HostsFile()

	total := kit.Tier(30000, 2000000)
	perPolicy := 40
	workers := kit.Tier(2, 4)

	// fixed part: every string of the fixed corpus × every fixed policy (enumerated completely)
	{
		w := &c06Worker{rec: rec, single: true, hosts: hosts, g: &c06Gen{rng: kit.Rand("c06/fixed"), dns: dns, hosts: hosts, tag: "f"}}
		n := 0
		for _, pol := range c06FixedPolicies() {
			if err := pol.compile(); err != nil {
				t.Fatal(err)
			}
			conf := pol.config()
			conf.ParseBlocklists()
			for _, s := range c06Garbage {
				w.evalOne(conf, pol, c06Input{S: s, Form: "fixed-corpus"})
				n++
			}
			for _, eh := range c06EmptyHosts {
				for _, p := range []string{"80", "6379", "0", "65536", ""} {
					w.evalOne(conf, pol, c06Input{S: fmt.Sprintf(eh, p), Form: "empty-or-odd-host"})
					n++
				}
			}
		}
		rec.Exhaustive(fmt.Sprintf("fixed corpus (%d strings + %d empty/odd-host templates × 5 ports) × %d fixed policies", len(c06Garbage), len(c06EmptyHosts), len(c06FixedPolicies())))
		total -= n
	}

	var wg sync.WaitGroup
	for wi := 0; wi < workers; wi++ {
		wg.Add(1)
		go func(wi int) {
			defer wg.Done()
			g := &c06Gen{rng: kit.Rand(fmt.Sprintf("c06/w%d", wi)), dns: dns, hosts: hosts, tag: fmt.Sprintf("w%d", wi)}
			w := &c06Worker{rec: rec, hosts: hosts, g: g}
			fixed := c06FixedPolicies()
			n := total / workers
			if wi == 0 {
				n += total % workers
			}
			for done, pi := 0, 0; done < n; pi++ {
				var pol *c06Policy
				if pi%8 == 7 {
					pol = fixed[g.rng.Intn(len(fixed))]
				} else {
					pol = g.policy(fmt.Sprintf("w%d/p%d", wi, pi))
				}
				if err := pol.compile(); err != nil {
					c06Fail("generator broke its own contract: %v", err)
					return
				}
				conf := pol.config()
				conf.ParseBlocklists()
				rec.Distinct("policies", pol.ID, fmt.Sprint(pol.BlockText, pol.AllowText, pol.Domains))
				for k := 0; k < perPolicy && done < n; k++ {
					w.evalOne(conf, pol, g.input(pol))
					done++
				}
			}
		}(wi)
	}
	wg.Wait()
	rec.CaseCheap(nil)
	if len(c06Fails) > 0 {
		t.Fatalf("infrastructure failure(s): %v", c06Fails)
	}
	q, unk := dns.Totals()
	rec.Count("dns_queries_served", int(q))
	rec.Count("dns_queries_nxdomain", int(unk))
}
