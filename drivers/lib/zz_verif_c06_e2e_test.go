//go:build verif

package lib

// C06 – monitor 2 ("e2e"): registrations are pushed through the real pipeline (parseRegMessage +
// ingestRegistration, liveness stub, fake Redis) and, when they became valid, the real Proxy is run
// with a scripted client connection.  Loopback listeners sit on a permitted address (127.0.0.5) and
// on forbidden ones (127.0.0.66, 127.0.0.1, ::1); the scripted resolver answers a permitted address
// first and a forbidden one afterwards (DNS rebinding).  Oracles: what is stored in reg.Covert after
// ingest is a literal IP:port that policy permits and that came from the one resolution made at
// admission; only that address is ever connected to; the resolver is not asked again.

import (
	"bytes"
	"fmt"
	"io"
	"net"
	"net/netip"
	"os"
	"strings"
	"sync"
	"sync/atomic"
	"testing"
	"time"

	"github.com/go-redis/redis/v8"
	"google.golang.org/protobuf/proto"

	kit "github.com/refraction-networking/conjure/internal/verifkit"
	"github.com/refraction-networking/conjure/pkg/station/log"
	"github.com/refraction-networking/conjure/pkg/transports/wrapping/min"
	pb "github.com/refraction-networking/conjure/proto"
)

// ---- liveness stub -------------------------------------------------------------------------------------

type c06Liveness struct{ calls int64 }

func (l *c06Liveness) PhantomIsLive(addr string, port uint16) (bool, error) {
	atomic.AddInt64(&l.calls, 1)
	return false, nil
}
func (l *c06Liveness) PrintAndReset(*log.Logger) {}
func (l *c06Liveness) PrintStats(*log.Logger)    {}
func (l *c06Liveness) Reset()                    {}

// ---- listeners = dial recorder -----------------------------------------------------------------------------

type c06Accept struct {
	Remote string
	Local  string
	Got    string
}

type c06Listener struct {
	Name string
	IP   netip.Addr
	ln   net.Listener
	mu   sync.Mutex
	acc  []c06Accept
	wg   sync.WaitGroup

	markers  map[string]bool
	consumed int
}

func c06Listen(name string, ip netip.Addr, port int) (*c06Listener, error) {
	ln, err := net.Listen("tcp", netip.AddrPortFrom(ip, uint16(port)).String())
	if err != nil {
		return nil, err
	}
	l := &c06Listener{Name: name, IP: ip, ln: ln}
	l.wg.Add(1)
	go func() {
		defer l.wg.Done()
		for {
			c, err := ln.Accept()
			if err != nil {
				return
			}
			l.mu.Lock()
			idx := len(l.acc)
			l.acc = append(l.acc, c06Accept{Remote: c.RemoteAddr().String(), Local: c.LocalAddr().String()})
			l.mu.Unlock()
			l.wg.Add(1)
			go func() {
				defer l.wg.Done()
				defer c.Close()
				c.SetDeadline(time.Now().Add(30 * time.Second))
				b, _ := io.ReadAll(io.LimitReader(c, 256))
				l.mu.Lock()
				l.acc[idx].Got = string(b)
				l.mu.Unlock()
			}()
		}
	}()
	return l, nil
}

func (l *c06Listener) Port() int { return l.ln.Addr().(*net.TCPAddr).Port }

// Settle makes a marker connection and waits until the accept loop has seen it: every connection
// that was established before the marker was dialled has then been recorded (accept queue order).
// It returns the connections recorded since the previous Settle, without the markers.
func (l *c06Listener) Settle() ([]c06Accept, error) {
	c, err := net.DialTimeout("tcp", l.ln.Addr().String(), 20*time.Second)
	if err != nil {
		return nil, err
	}
	me := c.LocalAddr().String()
	c.Close()
	l.mu.Lock()
	if l.markers == nil {
		l.markers = map[string]bool{}
	}
	l.markers[me] = true
	l.mu.Unlock()
	deadline := time.Now().Add(30 * time.Second)
	for {
		l.mu.Lock()
		seen := -1
		for i := l.consumed; i < len(l.acc); i++ {
			if l.acc[i].Remote == me {
				seen = i
			}
		}
		if seen >= 0 {
			var out []c06Accept
			for _, a := range l.acc[l.consumed : seen+1] {
				if !l.markers[a.Remote] {
					out = append(out, a)
				}
			}
			l.consumed = seen + 1
			l.mu.Unlock()
			return out, nil
		}
		l.mu.Unlock()
		if time.Now().After(deadline) {
			return nil, fmt.Errorf("marker connection to %s never accepted", l.ln.Addr())
		}
		time.Sleep(200 * time.Microsecond)
	}
}

func (l *c06Listener) Close() {
	l.ln.Close()
	l.wg.Wait()
}

// ---- scenarios ------------------------------------------------------------------------------------------------

var (
	c06Allowed  = netip.MustParseAddr("127.0.0.5")
	c06Blocked  = netip.MustParseAddr("127.0.0.66")
	c06Loop4    = netip.MustParseAddr("127.0.0.1")
	c06Loop6    = netip.MustParseAddr("::1")
	c06E2EKinds = []string{"rebind-allowed-then-blocked", "rebind-blocked-then-allowed", "literal-allowed", "literal-blocked", "empty-host", "empty-host-brackets",
		"hosts-file-localhost", "mapped-blocked", "mapped-allowed", "name-stable-allowed", "name-aaaa-loopback", "name-blocked-pattern", "unspecified-v4", "literal-allowed-v6-form-of-loopback"}
)

type c06E2E struct {
	t      *testing.T
	rec    *kit.Rec
	dns    *c06DNS
	hosts  map[string][]netip.Addr
	rms    map[string]*RegistrationManager
	pols   map[string]*c06Policy
	logbuf *c06SyncBuf
	seq    int

	flags     *pb.RegistrationFlags // flags of the messages being built (zz_verif_c06_flags_test.go)
	flagsName string

	parseFails  int
	histSamples int
	refSamples  int

	connRMs     map[string]*RegistrationManager
	connStats   *c06ConnStats
	connectsOK  int
	connSamples int
}

type c06SyncBuf struct {
	mu sync.Mutex
	b  bytes.Buffer
}

func (s *c06SyncBuf) Write(p []byte) (int, error) {
	s.mu.Lock()
	defer s.mu.Unlock()
	return s.b.Write(p)
}
func (s *c06SyncBuf) Take() string {
	s.mu.Lock()
	defer s.mu.Unlock()
	out := s.b.String()
	s.b.Reset()
	if len(out) > 3000 {
		out = "…" + out[len(out)-3000:]
	}
	return out
}

func (e *c06E2E) newRM(pol *c06Policy) *RegistrationManager {
	if err := pol.compile(); err != nil {
		e.t.Fatal(err)
	}
	conf := pol.config()
	conf.EnableIPv4, conf.EnableIPv6 = true, true
	conf.ParseBlocklists()
	rm := NewRegistrationManager(conf)
	if rm == nil {
		e.t.Fatal("NewRegistrationManager returned nil")
	}
	rm.Logger = log.New(e.logbuf, "[REG] ", 0)
	rm.LivenessTester = &c06Liveness{}
	if err := rm.AddTransport(pb.TransportType_Min, min.Transport{}); err != nil {
		e.t.Fatal(err)
	}
	return rm
}

// what is stored in reg.Covert, judged by the same rules as a return value of the guard
func (e *c06E2E) judgeStored(label string, detail map[string]interface{}, pol *c06Policy, supplied, stored string, handed []netip.Addr) (lit netip.AddrPort, ok bool) {
	sx := c06Parse(supplied, e.hosts)
	viol := func(sig, msg string, extra map[string]interface{}) {
		d := map[string]interface{}{"scenario": label, "supplied_covert": supplied, "stored_covert": stored, "policy": pol.desc()}
		for k, v := range detail {
			d[k] = v
		}
		for k, v := range extra {
			d[k] = v
		}
		e.rec.Count("violations_by_sig["+sig+"]", 1)
		e.rec.Violation(sig, msg, d)
	}
	ap, err := netip.ParseAddrPort(stored)
	if err != nil {
		oh, _, _, ook := c06Split(stored)
		switch {
		case ook && oh == "":
			viol("e2e:empty-host-covert-became-valid", "a registration whose covert has an empty host became valid; its stored covert is not a literal IP:port and net.Dial connects it to the local host", nil)
		case ook && c06LooksLikeName(oh):
			viol("e2e:valid-registration-keeps-unresolved-name", "a valid registration still carries a host name as covert (it will be resolved again at dial time)", nil)
		default:
			viol("e2e:valid-registration-covert-not-literal", "the covert stored in a valid registration is not a literal IP:port", map[string]interface{}{"parse_error": err.Error()})
		}
		return netip.AddrPort{}, false
	}
	ip := c06Dialed(ap.Addr())
	if why := pol.forbidden(ip); why != "" {
		viol("e2e:valid-registration-covert-forbidden:"+why, "the covert stored in a valid registration is an address that policy forbids", nil)
	}
	if sx.SplitOK {
		if pat := pol.domainMatch(sx.Host); pat != "" {
			viol("e2e:valid-registration-host-matches-blocklisted-domain", "a registration whose covert host matches a blocklisted domain pattern became valid", map[string]interface{}{"pattern": pat})
		}
		if sx.PortClass == "valid" && ap.Port() != sx.PortVal {
			viol("e2e:valid-registration-port-changed", "stored port differs from the supplied one", nil)
		}
	}
	switch {
	case sx.SplitOK && sx.IsLit:
		if !c06SameTarget(sx.Lit, ip) {
			viol("e2e:stored-address-differs-from-supplied-literal", "the stored covert is not the literal the client supplied", nil)
		}
	default:
		found := false
		for _, h := range handed {
			if c06SameTarget(h, ip) {
				found = true
			}
		}
		if sx.SplitOK {
			for _, h := range e.hosts[c06Key(sx.Host)] {
				if c06SameTarget(h, ip) {
					found = true
				}
			}
		}
		if !found {
			viol("e2e:stored-address-not-from-admission-resolution", "the stored covert is not an answer the resolver gave while the registration was being admitted", map[string]interface{}{"handed_out_at_admission": fmt.Sprint(handed)})
		}
	}
	if sx.Canonical && stored != supplied {
		viol("e2e:canonical-covert-changed", "a canonical permitted IP:port was not stored unchanged", nil)
	}
	return ap, true
}

func (e *c06E2E) run(kind, mode string, src pb.RegistrationSource, dual bool, rngBytes []byte) {
	e.seq++
	pol, rm := e.pols[mode], e.rms[mode]
	label := fmt.Sprintf("%s policy=%s source=%s dual=%v flags=%s", kind, mode, src, dual, e.flagsName)
	e.rec.Case(label)
	e.logbuf.Take()

	// listeners: A permitted, B forbidden, plus the loopback addresses an empty host ends up at
	var lnA, lnB, ln1, ln6 *c06Listener
	var err error
	for try := 0; ; try++ {
		if lnA, err = c06Listen("permitted-127.0.0.5", c06Allowed, 0); err != nil {
			e.t.Fatal(err)
		}
		p := lnA.Port()
		lnB, err = c06Listen("forbidden-127.0.0.66", c06Blocked, p)
		if err == nil {
			ln1, err = c06Listen("forbidden-127.0.0.1", c06Loop4, p)
		}
		if err == nil {
			ln6, err = c06Listen("forbidden-::1", c06Loop6, p)
		}
		if err == nil {
			break
		}
		for _, l := range []*c06Listener{lnA, lnB, ln1, ln6} {
			if l != nil {
				l.Close()
			}
		}
		lnA, lnB, ln1, ln6 = nil, nil, nil, nil
		if try > 50 {
			e.t.Fatalf("cannot get the same port on all loopback addresses: %v", err)
		}
	}
	listeners := []*c06Listener{lnA, lnB, ln1, ln6}
	defer func() {
		for _, l := range listeners {
			l.Close()
		}
	}()
	port := lnA.Port()

	name := fmt.Sprintf("e%d.rebind.verif.test", e.seq)
	var covert string
	mustAdmit := false
	switch kind {
	case "rebind-allowed-then-blocked":
		e.dns.Script(name, []c06Round{{V4: []netip.Addr{c06Allowed}}, {V4: []netip.Addr{c06Blocked}}})
		covert = fmt.Sprintf("%s:%d", name, port)
	case "rebind-blocked-then-allowed":
		e.dns.Script(name, []c06Round{{V4: []netip.Addr{c06Blocked}}, {V4: []netip.Addr{c06Allowed}}})
		covert = fmt.Sprintf("%s:%d", name, port)
	case "literal-allowed":
		covert = fmt.Sprintf("127.0.0.5:%d", port)
		mustAdmit = true
	case "literal-blocked":
		covert = fmt.Sprintf("127.0.0.66:%d", port)
	case "empty-host":
		covert = fmt.Sprintf(":%d", port)
	case "empty-host-brackets":
		covert = fmt.Sprintf("[]:%d", port)
	case "hosts-file-localhost":
		name = ""
		covert = fmt.Sprintf("localhost:%d", port)
	case "mapped-blocked":
		covert = fmt.Sprintf("[::ffff:127.0.0.66]:%d", port)
	case "mapped-allowed":
		covert = fmt.Sprintf("[::ffff:127.0.0.5]:%d", port)
	case "name-stable-allowed":
		e.dns.Script(name, []c06Round{{V4: []netip.Addr{c06Allowed}}})
		covert = fmt.Sprintf("%s:%d", name, port)
	case "name-aaaa-loopback":
		e.dns.Script(name, []c06Round{{V6: []netip.Addr{c06Loop6}}})
		covert = fmt.Sprintf("%s:%d", name, port)
	case "name-blocked-pattern":
		name = fmt.Sprintf("e%d.blocked.test", e.seq)
		e.dns.Script(name, []c06Round{{V4: []netip.Addr{c06Allowed}}})
		covert = fmt.Sprintf("%s:%d", name, port)
	case "unspecified-v4":
		covert = fmt.Sprintf("0.0.0.0:%d", port)
	case "literal-allowed-v6-form-of-loopback":
		covert = fmt.Sprintf("[::ffff:7f00:1]:%d", port)
	default:
		e.t.Fatalf("unknown scenario %q", kind)
	}
	if name != "" && !strings.Contains(covert, name) {
		name = ""
	}
	defer func() {
		if name != "" {
			e.dns.Forget(name)
		}
	}()

	// the registration message, as the registrar would publish it
	secret := rngBytes[:32]
	v4, v6 := true, dual
	gen, libv := uint32(1), uint32(2)
	tr := pb.TransportType_Min
	c2sw := &pb.C2SWrapper{
		SharedSecret: secret,
		RegistrationPayload: &pb.ClientToStation{
			CovertAddress:       &covert,
			Transport:           &tr,
			V4Support:           &v4,
			V6Support:           &v6,
			DecoyListGeneration: &gen,
			ClientLibVersion:    &libv,
			Flags:               e.msgFlags(),
		},
		RegistrationSource:  &src,
		RegistrationAddress: net.ParseIP("203.0.113.77").To16(),
	}
	msg, err := proto.Marshal(c2sw)
	if err != nil {
		e.t.Fatal(err)
	}
	regs, err := rm.parseRegMessage(msg)
	if err != nil || len(regs) == 0 {
		// phantom selection can legitimately fail for a seed (C14's subject); such a case observed nothing
		e.rec.Count("parse_failed", 1)
		e.parseFails++
		if e.parseFails > 20 {
			e.t.Fatalf("parseRegMessage keeps failing on well-formed registrations: %v (%d regs)\n%s", err, len(regs), e.logbuf.Take())
		}
		return
	}

	snap := func() (int, []netip.Addr) {
		if name == "" {
			return 0, nil
		}
		a, _, h := e.dns.Snapshot(name)
		return a, h
	}
	evaluated := false
	for ri, reg := range regs {
		detail := map[string]interface{}{"phantom": reg.PhantomIp.String(), "reg_index": ri}
		a0, h0 := snap()
		t0 := time.Now()
		rm.ingestRegistration(reg)
		el := time.Since(t0)
		a1, h1 := snap()
		handed := h1[len(h0):]
		if a1-a0 > 1 {
			if el < 3*time.Second {
				e.rec.Violation("e2e:resolved-more-than-once-at-admission", "the resolver was asked more than once while one registration was being admitted",
					map[string]interface{}{"scenario": label, "covert": covert, "A_queries": a1 - a0, "handed_out": fmt.Sprint(handed)})
			} else {
				e.rec.Inconclusive("more than one query at admission but slow call", map[string]interface{}{"scenario": label, "elapsed": el.String()})
			}
		}
		// a second delivery of the same registration must not change the picture
		if regs2, err := rm.parseRegMessage(msg); err == nil && ri < len(regs2) {
			rm.ingestRegistration(regs2[ri])
		}
		_, h2 := snap()
		handedAll := h2[len(h0):]

		stored := rm.registeredDecoys.RegistrationExists(reg)
		valid := false
		storedCovert := ""
		if stored != nil {
			rm.registeredDecoys.m.RLock()
			valid, storedCovert = stored.Valid, stored.Covert
			rm.registeredDecoys.m.RUnlock()
		}
		detail["valid"] = valid
		evaluated = true
		e.rec.Count("registrations_ingested", 1)
		if !valid {
			e.rec.Count("not_admitted", 1)
			if mustAdmit && pol.forbidden(c06Allowed) == "" {
				e.rec.Violation("e2e:permitted-literal-not-admitted", "a registration with a canonical permitted IP:port covert (all other admission conditions satisfied) did not become valid",
					map[string]interface{}{"scenario": label, "covert": covert, "policy": pol.desc(), "station_log": e.logbuf.Take()})
			}
			continue
		}
		e.rec.Count("admitted", 1)
		lit, isLit := e.judgeStored(label, detail, pol, covert, storedCovert, handedAll)

		// ---- the tunnel: what does Proxy connect to? ----------------------------------------------------------
		aP0, _ := snap()
		nonce := fmt.Sprintf("c06-%d-%d", e.seq, ri)
		client := kit.NewScriptConn("client", kit.TCPAddr("192.0.2.10", 443), kit.TCPAddr("203.0.113.77", 50123), []kit.Seg{{Data: []byte(nonce)}}, kit.EndEOF)
		client.MaxBlock = 60 * time.Second
		plog := log.New(e.logbuf, "[PROXY] ", 0)
		done := make(chan struct{})
		go func() { Proxy(stored, client, plog); close(done) }()
		select {
		case <-done:
		case <-time.After(90 * time.Second):
			e.rec.Inconclusive("Proxy did not return within 90 s", map[string]interface{}{"scenario": label, "covert": storedCovert})
			client.Close()
			for _, l := range listeners {
				l.ln.Close()
			}
			<-done
			return
		}
		aP1, _ := snap()
		if aP1 > aP0 {
			e.rec.Violation("e2e:resolved-again-at-dial", "the resolver was asked again when the tunnel was opened: the address dialed is not the address that was checked at admission",
				map[string]interface{}{"scenario": label, "supplied_covert": covert, "stored_covert": storedCovert, "A_queries_at_dial": aP1 - aP0})
		}
		nconn := 0
		for _, l := range listeners {
			acc, err := l.Settle()
			if err != nil {
				e.rec.Inconclusive("listener could not be settled", map[string]interface{}{"scenario": label, "listener": l.Name, "err": err.Error()})
				continue
			}
			for _, a := range acc {
				nconn++
				e.rec.Count("covert_connections_observed", 1)
				d := map[string]interface{}{"scenario": label, "supplied_covert": covert, "stored_covert": storedCovert, "listener": l.Name, "accepted_local": a.Local, "accepted_remote": a.Remote,
					"received": a.Got, "policy": pol.desc()}
				if why := pol.forbidden(l.IP); why != "" {
					via := "via-forbidden-literal"
					switch {
					case !isLit && strings.HasPrefix(storedCovert, ":"):
						via = "via-empty-host"
					case !isLit:
						via = "via-name-resolved-at-dial"
					case c06Dialed(lit.Addr()).IsUnspecified():
						via = "via-unspecified-address"
					case pol.forbidden(lit.Addr()) == "":
						via = "via-permitted-literal"
					}
					if via == "via-unspecified-address" && pol.forbidden(lit.Addr()) == "" {
						// 0.0.0.0 / :: are literals outside the configured subnets; the kernel delivers them to
						// the local host.  The statement is about the configured subnets, so this is recorded,
						// not judged.
						e.rec.Count("unspecified_address_reached_local_listener", 1)
						continue
					}
					e.rec.Count("violations_by_sig[e2e:connected-to-forbidden-address:"+via+"]", 1)
					e.rec.Violation("e2e:connected-to-forbidden-address:"+via, "the station opened a covert connection to an address that policy forbids ("+why+")", d)
				}
				if isLit && !c06Dialed(lit.Addr()).IsUnspecified() {
					if la, err := netip.ParseAddrPort(a.Local); err != nil || c06Dialed(la.Addr()) != c06Dialed(lit.Addr()) || la.Port() != lit.Port() {
						e.rec.Violation("e2e:dialed-address-differs-from-admitted", "the connection arrived at an address other than the literal stored at admission", d)
					}
				}
			}
		}
		if isLit && nconn == 0 && pol.forbidden(lit.Addr()) == "" && c06Dialed(lit.Addr()) == c06Allowed {
			e.rec.Inconclusive("tunnel to the permitted listener was not observed", map[string]interface{}{"scenario": label, "stored_covert": storedCovert, "log": e.logbuf.Take()})
		} else if nconn > 0 {
			e.rec.Count("tunnels_observed", 1)
		}
		if e.rec.WantSample() && (kind == "rebind-allowed-then-blocked" || kind == "mapped-allowed") {
			e.rec.Sample(map[string]interface{}{"scenario": label, "supplied_covert": covert, "stored_covert": storedCovert, "connections": nconn,
				"A_queries_at_admission": a1 - a0, "A_queries_at_dial": aP1 - aP0})
		}
	}
	if evaluated {
		e.rec.Count("evaluations", 1)
		e.rec.Distinct("nontrivial", kind, mode, src.String(), dual, e.flagsName)
		e.rec.Count("flags["+e.flagsName+"].cases", 1)
		e.rec.Distinct("kinds", kind)
	}
}

func TestVerifC06EndToEnd(t *testing.T) {
	rec := kit.NewRec("C06", "e2e")
	defer rec.Close()
	dns, err := c06Resolver()
	if err != nil {
		t.Fatal(err)
	}
	os.Setenv("PHANTOM_SUBNET_LOCATION", "./test/phantom_subnets.toml")

	// the station's Redis client is pointed at a fake before anything can dial localhost:6379
	fr, err := kit.NewFakeRedis("127.0.0.1:0")
	if err != nil {
		t.Fatal(err)
	}
	defer fr.Close()
	once.Do(func() {})
	client = redis.NewClient(&redis.Options{Addr: fr.Addr(), PoolSize: 4})
	defer client.Close()

	e := &c06E2E{t: t, rec: rec, dns: dns, hosts: c06HostsFile(), logbuf: &c06SyncBuf{}, rms: map[string]*RegistrationManager{}, pols: map[string]*c06Policy{}}
	e.pols["blocklist"] = &c06Policy{ID: "e2e:blocklist", BlockText: []string{"127.0.0.0/30", "127.0.0.64/26", "::1/128"}, Domains: []string{`.*blocked\.test$`}}
	e.pols["allowlist"] = &c06Policy{ID: "e2e:allowlist", AllowText: []string{"127.0.0.4/30"}, Domains: []string{`.*blocked\.test$`}}
	e.pols["loopback-net"] = &c06Policy{ID: "e2e:loopback-net", BlockText: []string{"127.0.0.0/8", "::1/128"}}
	for m, p := range e.pols {
		e.rms[m] = e.newRM(p)
	}
	modes := []string{"blocklist", "allowlist", "loopback-net"}
	// flags of the registration messages: rotated by case number in the exhaustive parts, drawn from a stream
	// of their own in the random parts (zz_verif_c06_flags_test.go)
	frng := kit.Rand("c06/e2e/flags")
	sources := []pb.RegistrationSource{pb.RegistrationSource_API, pb.RegistrationSource_Detector, pb.RegistrationSource_BidirectionalAPI, pb.RegistrationSource_DNS, pb.RegistrationSource_DetectorPrescan}

	// history class: one registration delivered several times with different coverts, tracking records
	// back-dated in between (zz_verif_c06_history_test.go)
	{
		hrng := kit.Rand("c06/e2e/history")
		hmodes := []string{"blocklist", "allowlist"}
		hn := 0
		one := func(kind string, age int, mode string, src pb.RegistrationSource, dual bool) {
			b := make([]byte, 32)
			hrng.Read(b)
			e.runHistory(kind, age, mode, src, dual, b)
			hn++
		}
		for _, kind := range c06HistoryKinds {
			for _, age := range c06HistoryAges {
				for _, mode := range hmodes {
					e.setFlags(hn)
					one(kind, age, mode, sources[hn%len(sources)], hn%5 == 4)
				}
			}
		}
		rec.Exhaustive(fmt.Sprintf("history class: every kind (%d) × every back-dating (%v min) × policy modes %v", len(c06HistoryKinds), c06HistoryAges, hmodes))
		for i := kit.Tier(0, 3000); i > 0; i-- {
			e.setFlagsRand(frng)
			one(c06HistoryKinds[hrng.Intn(len(c06HistoryKinds))], c06HistoryAges[hrng.Intn(len(c06HistoryAges))], hmodes[hrng.Intn(len(hmodes))],
				sources[hrng.Intn(len(sources))], hrng.Intn(4) == 0)
		}
	}

	// "refused" class: the admitted literal has no listener, other addresses of the name have
	// (zz_verif_c06_refused_test.go)
	{
		rrng := kit.Rand("c06/e2e/refused")
		rmodes := []string{"blocklist", "allowlist"}
		rn := 0
		one := func(kind, mode string, src pb.RegistrationSource, dual bool) {
			b := make([]byte, 32)
			rrng.Read(b)
			e.runRefused(kind, mode, src, dual, b)
			rn++
		}
		for rep := 0; rep < 3; rep++ {
			for _, kind := range c06RefusedKinds {
				for _, mode := range rmodes {
					e.setFlags(rn)
					one(kind, mode, sources[rn%len(sources)], rn%5 == 4)
				}
			}
		}
		rec.Exhaustive(fmt.Sprintf("refused class: every kind (%d) × policy modes %v, 3 times", len(c06RefusedKinds), rmodes))
		for i := kit.Tier(0, 3000); i > 0; i-- {
			e.setFlagsRand(frng)
			one(c06RefusedKinds[rrng.Intn(len(c06RefusedKinds))], rmodes[rrng.Intn(len(rmodes))], sources[rrng.Intn(len(sources))], rrng.Intn(4) == 0)
		}
	}

	// "connecting" class: registrations on connecting transports, whose sessions ingest itself hands to
	// Proxy (zz_verif_c06_connecting_test.go)
	{
		e.connStats = &c06ConnStats{}
		e.connRMs = map[string]*RegistrationManager{}
		for m, p := range e.pols {
			e.connRMs[m] = e.newConnRM(p)
		}
		crng := kit.Rand("c06/e2e/connecting")
		tps := []pb.TransportType{c06MockTp, pb.TransportType_DTLS}
		cn := 0
		one := func(class, variant, mode string, tp pb.TransportType, src pb.RegistrationSource, dual bool) {
			b := make([]byte, 32)
			crng.Read(b)
			e.runConnecting(class, variant, mode, tp, src, dual, b)
			cn++
		}
		for _, class := range c06ConnCoverts {
			for _, variant := range c06ConnVariants {
				for _, mode := range modes {
					for _, tp := range tps {
						e.setFlags(cn)
						one(class, variant, mode, tp, sources[cn%len(sources)], cn%5 == 4)
					}
				}
			}
		}
		rec.Exhaustive(fmt.Sprintf("connecting class: every covert class (%d) × ordering variant (%d) × policy mode (%d) × transport (mock, real DTLS)", len(c06ConnCoverts), len(c06ConnVariants), len(modes)))
		for i := kit.Tier(0, 4000); i > 0; i-- {
			e.setFlagsRand(frng)
			one(c06ConnCoverts[crng.Intn(len(c06ConnCoverts))], c06ConnVariants[crng.Intn(len(c06ConnVariants))], modes[crng.Intn(len(modes))], tps[crng.Intn(2)],
				sources[crng.Intn(len(sources))], crng.Intn(4) == 0)
		}
		rec.Count("connecting_stats_created", int(e.connStats.created.Load()))
		rec.Count("connecting_stats_proxied_and_closed", int(e.connStats.discarded.Load()))
		rec.Count("connecting_stats_failed", int(e.connStats.otherFail.Load()+e.connStats.timeout.Load()))
		if e.connectsOK == 0 {
			rec.Inconclusive("connecting class: no Connect ever succeeded, the path from ingest to Proxy was not exercised", nil)
			rec.Close()
			t.Fatal("connecting class observed nothing: no Connect of a connecting transport ever succeeded")
		}
	}

	rng := kit.Rand("c06/e2e")
	n := kit.Tier(600, 20000)
	for i := 0; i < n; i++ {
		var kind, mode string
		var src pb.RegistrationSource
		var dual bool
		if km := len(c06E2EKinds) * len(modes); i < km*len(c06FlagVariants) {
			// every scenario kind under every policy mode with every flags variant at least once
			j := i % km
			kind, mode = c06E2EKinds[j%len(c06E2EKinds)], modes[j/len(c06E2EKinds)]
			src, dual = sources[i%len(sources)], i%4 == 3
			e.setFlags(i / km)
		} else {
			kind, mode = c06E2EKinds[rng.Intn(len(c06E2EKinds))], modes[rng.Intn(len(modes))]
			src, dual = sources[rng.Intn(len(sources))], rng.Intn(4) == 0
			e.setFlagsRand(frng)
		}
		b := make([]byte, 32)
		rng.Read(b)
		e.run(kind, mode, src, dual, b)
	}
	rec.Exhaustive(fmt.Sprintf("every scenario kind (%d) × every policy mode (%d) × every flags variant (%d) at least once", len(c06E2EKinds), len(modes), len(c06FlagVariants)))
	rec.Count("detector_publications", fr.Len())
	rec.Note("covert 0.0.0.0:port (a literal outside the configured subnets) is admitted and the kernel delivers the connection to a listener on 127.0.0.1 although 127.0.0.0/30 resp. 127.0.0.0/8 is blocklisted: counted as unspecified_address_reached_local_listener, not judged (the statement speaks of the configured subnets; operators must list 0.0.0.0/8 and ::/128)")
	if left := kit.WaitNoGoroutineIn(20*time.Second, "station/lib.halfPipe", "station/lib.Proxy"); left != nil {
		rec.Inconclusive("relay goroutine still alive at the end", map[string]interface{}{"stack": left[0].Raw})
	}
}
