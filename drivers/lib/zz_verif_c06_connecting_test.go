//go:build verif

package lib

// C06 – monitor 2, class "connecting": registrations on CONNECTING transports (the station reaches out
// to the client and, once connected, runs Proxy itself from inside ingest – handleConnectingTpReg).
// Two transports whose Connect succeeds: a mock (the real min transport plus a Connect method) and the
// REAL DTLS station transport built through the cdtls export shim around a stand-in listener that hands
// out a conn (its dial attempt towards the client goes to a dead loopback UDP port).  Everything else is
// the station's own code: parseRegMessage, ingestRegistration, the policy, handleConnectingTpReg, Proxy.
//
// Oracle (same as the other e2e classes): every forbidden listener sees zero connections; the resolver
// is asked only at admission (one lookup per admitted-or-rejected registration), never at dial time; a
// Proxy run is only ever observed for a registration that is valid and whose stored Covert is a checked,
// permitted literal, and the connection arrives at exactly that literal.

import (
	"context"
	"fmt"
	"net"
	"net/netip"
	"strings"
	"sync"
	"sync/atomic"
	"time"

	"google.golang.org/protobuf/proto"
	"google.golang.org/protobuf/types/known/anypb"

	kit "github.com/refraction-networking/conjure/internal/verifkit"
	pdtls "github.com/refraction-networking/conjure/pkg/dtls"
	"github.com/refraction-networking/conjure/pkg/transports"
	cdtls "github.com/refraction-networking/conjure/pkg/transports/connecting/dtls"
	"github.com/refraction-networking/conjure/pkg/transports/wrapping/min"
	pb "github.com/refraction-networking/conjure/proto"
)

// ---- Connect control (one per scenario; scenarios run one after the other) -------------------------------

type c06ConnCtl struct {
	slow      bool
	release   chan struct{}
	nonce     string
	calls     atomic.Int64
	succeeded atomic.Int64
	expired   atomic.Int64
}

var (
	c06ConnMu  sync.Mutex
	c06ConnCur *c06ConnCtl
)

func c06SetCtl(c *c06ConnCtl) {
	c06ConnMu.Lock()
	c06ConnCur = c
	c06ConnMu.Unlock()
}

// c06Connect is what both transports' Connect ends in: it "reaches the client" (at once, or when the
// scenario releases the gate) and returns the station's end: a scripted conn that delivers a nonce and EOF.
func c06Connect(ctx context.Context) (net.Conn, error) {
	c06ConnMu.Lock()
	ctl := c06ConnCur
	c06ConnMu.Unlock()
	if ctl == nil {
		return nil, fmt.Errorf("no scenario")
	}
	ctl.calls.Add(1)
	if ctl.slow {
		select {
		case <-ctl.release:
		case <-ctx.Done():
			ctl.expired.Add(1)
			return nil, ctx.Err()
		}
	}
	conn := kit.NewScriptConn("client", kit.TCPAddr("192.0.2.10", 443), kit.TCPAddr("203.0.113.77", 50123), []kit.Seg{{Data: []byte(ctl.nonce)}}, kit.EndEOF)
	conn.MaxBlock = 60 * time.Second
	ctl.succeeded.Add(1)
	return conn, nil
}

// mock connecting transport: the real min transport + Connect
type c06ConnTransport struct{ min.Transport }

func (c06ConnTransport) Connect(ctx context.Context, reg transports.Registration) (net.Conn, error) {
	return c06Connect(ctx)
}

// stand-ins for the real DTLS station transport
type c06DTLSListener struct{}

func (c06DTLSListener) AcceptWithContext(ctx context.Context, c *pdtls.Config) (net.Conn, error) {
	return c06Connect(ctx)
}

type c06DNAT struct{}

func (c06DNAT) AddEntry(clientAddr *net.IP, clientPort uint16, phantomIP *net.IP, phantomPort uint16) error {
	return nil
}

type c06ConnStats struct{ created, timeout, otherFail, discarded atomic.Int64 }

func (s *c06ConnStats) AddCreatedConnecting(asn uint, cc string, tp string)             { s.created.Add(1) }
func (s *c06ConnStats) AddCreatedToSuccessfulConnecting(asn uint, cc string, tp string) {}
func (s *c06ConnStats) AddCreatedToTimeoutConnecting(asn uint, cc string, tp string)    { s.timeout.Add(1) }
func (s *c06ConnStats) AddSuccessfulToDiscardedConnecting(asn uint, cc string, tp string) {
	s.discarded.Add(1)
}
func (s *c06ConnStats) AddOtherFailConnecting(asn uint, cc string, tp string) { s.otherFail.Add(1) }

const c06MockTp = pb.TransportType_Webrtc // any type no real transport of these managers uses

var c06ConnCoverts = []string{"permitted-literal", "forbidden-literal", "forbidden-loopback-v4", "forbidden-loopback-v6", "mapped-forbidden", "mapped-permitted",
	"name-to-forbidden", "name-to-permitted", "name-rebinding", "name-blocked-pattern", "hosts-file-localhost", "empty-host", "malformed-port", "malformed-no-port"}
var c06ConnVariants = []string{"connect-fast", "connect-slow", "connect-fast+duplicate", "connect-slow+duplicate-before-connect"}

func (e *c06E2E) connMsg(secret []byte, covert string, src pb.RegistrationSource, dual bool, tp pb.TransportType) []byte {
	v4, v6 := true, dual
	gen, libv := uint32(1), uint32(4)
	c2s := &pb.ClientToStation{
		CovertAddress:       &covert,
		Transport:           &tp,
		V4Support:           &v4,
		V6Support:           &v6,
		DecoyListGeneration: &gen,
		ClientLibVersion:    &libv,
		Flags:               e.msgFlags(),
	}
	if tp == pb.TransportType_DTLS {
		// the client's own address as the DTLS transport wants it: a dead loopback UDP port, so that the
		// transport's dial attempt harms nobody and fails; the stand-in listener provides the session
		params, err := anypb.New(&pb.DTLSTransportParams{
			SrcAddr4: &pb.Addr{IP: net.ParseIP("127.0.0.9").To4(), Port: proto.Uint32(9)},
			SrcAddr6: &pb.Addr{IP: net.ParseIP("::1"), Port: proto.Uint32(9)},
		})
		if err != nil {
			e.t.Fatal(err)
		}
		c2s.TransportParams = params
	}
	c2sw := &pb.C2SWrapper{
		SharedSecret:        secret,
		RegistrationPayload: c2s,
		RegistrationSource:  &src,
		RegistrationAddress: net.ParseIP("203.0.113.77").To16(),
	}
	msg, err := proto.Marshal(c2sw)
	if err != nil {
		e.t.Fatal(err)
	}
	return msg
}

func (e *c06E2E) runConnecting(class, variant, mode string, tp pb.TransportType, src pb.RegistrationSource, dual bool, secret []byte) {
	e.seq++
	pol, rm := e.pols[mode], e.connRMs[mode]
	tpName := "mock"
	if tp == pb.TransportType_DTLS {
		tpName = "dtls"
	}
	label := fmt.Sprintf("connecting:%s %s transport=%s policy=%s source=%s dual=%v flags=%s", class, variant, tpName, mode, src, dual, e.flagsName)
	e.rec.Case(label)
	e.logbuf.Take()

	// listeners on the permitted and on the forbidden addresses, one common port
	var listeners []*c06Listener
	closeAll := func() {
		for _, l := range listeners {
			l.Close()
		}
		listeners = nil
	}
	defer func() { closeAll() }()
	port := 0
	for try := 0; ; try++ {
		lnA, err := c06Listen("permitted-127.0.0.5", c06Allowed, 0)
		if err != nil {
			e.t.Fatal(err)
		}
		listeners = []*c06Listener{lnA}
		port = lnA.Port()
		for _, x := range []struct {
			n  string
			ip netip.Addr
		}{{"forbidden-127.0.0.66", c06Blocked}, {"forbidden-127.0.0.1", c06Loop4}, {"forbidden-::1", c06Loop6}} {
			var l *c06Listener
			if l, err = c06Listen(x.n, x.ip, port); err != nil {
				break
			}
			listeners = append(listeners, l)
		}
		if err == nil {
			break
		}
		closeAll()
		if try > 50 {
			e.t.Fatalf("cannot get the same port on all loopback addresses: %v", err)
		}
	}

	name := ""
	script := func(n string, rounds []c06Round) string {
		name = n
		e.dns.Script(n, rounds)
		return fmt.Sprintf("%s:%d", n, port)
	}
	var covert string
	switch class {
	case "permitted-literal":
		covert = fmt.Sprintf("127.0.0.5:%d", port)
	case "forbidden-literal":
		covert = fmt.Sprintf("127.0.0.66:%d", port)
	case "forbidden-loopback-v4":
		covert = fmt.Sprintf("127.0.0.1:%d", port)
	case "forbidden-loopback-v6":
		covert = fmt.Sprintf("[::1]:%d", port)
	case "mapped-forbidden":
		covert = fmt.Sprintf("[::ffff:127.0.0.66]:%d", port)
	case "mapped-permitted":
		covert = fmt.Sprintf("[::ffff:127.0.0.5]:%d", port)
	case "name-to-forbidden":
		covert = script(fmt.Sprintf("e%d.connecting.verif.test", e.seq), []c06Round{{V4: []netip.Addr{c06Blocked}}})
	case "name-to-permitted":
		covert = script(fmt.Sprintf("e%d.connecting.verif.test", e.seq), []c06Round{{V4: []netip.Addr{c06Allowed}}})
	case "name-rebinding":
		covert = script(fmt.Sprintf("e%d.connecting.verif.test", e.seq), []c06Round{{V4: []netip.Addr{c06Allowed}}, {V4: []netip.Addr{c06Blocked}}})
	case "name-blocked-pattern":
		covert = script(fmt.Sprintf("e%d.blocked.test", e.seq), []c06Round{{V4: []netip.Addr{c06Allowed}}})
	case "hosts-file-localhost":
		covert = fmt.Sprintf("localhost:%d", port)
	case "empty-host":
		covert = fmt.Sprintf(":%d", port)
	case "malformed-port":
		covert = fmt.Sprintf("127.0.0.1:%d", 65536+port)
	case "malformed-no-port":
		covert = "127.0.0.1"
	default:
		e.t.Fatalf("unknown connecting covert class %q", class)
	}
	defer func() {
		if name != "" {
			e.dns.Forget(name)
		}
	}()

	ctl := &c06ConnCtl{slow: strings.HasPrefix(variant, "connect-slow"), release: make(chan struct{}), nonce: fmt.Sprintf("c06c-%d", e.seq)}
	c06SetCtl(ctl)
	defer c06SetCtl(nil)
	released := false
	release := func() {
		if !released {
			released = true
			close(ctl.release)
		}
	}
	defer release()

	t0 := time.Now()
	msg := e.connMsg(secret, covert, src, dual, tp)
	regs, err := rm.parseRegMessage(msg)
	if err != nil || len(regs) == 0 {
		e.rec.Count("parse_failed", 1)
		e.parseFails++
		if e.parseFails > 20 {
			e.t.Fatalf("parseRegMessage keeps failing on well-formed registrations: %v\n%s", err, e.logbuf.Take())
		}
		return
	}
	for _, reg := range regs {
		rm.ingestRegistration(reg)
	}
	if strings.Contains(variant, "duplicate") {
		if regs2, err := rm.parseRegMessage(msg); err == nil {
			for _, reg := range regs2 {
				rm.ingestRegistration(reg)
			}
		}
	}
	release()

	// quiescence: no goroutine of handleConnectingTpReg (Connect, Proxy, relay) is left – never a sleep
	if left := kit.WaitNoGoroutineIn(60*time.Second, "station/lib.handleConnectingTpReg", "station/lib.Proxy", "station/lib.halfPipe"); left != nil {
		e.rec.Inconclusive("connecting goroutine still running after 60 s", map[string]interface{}{"scenario": label, "stack": left[0].Raw})
		return
	}
	elapsed := time.Since(t0)
	logText := e.logbuf.Take()

	// ---- observations ---------------------------------------------------------------------------------------------
	connectsOK := int(ctl.succeeded.Load())
	summaries := strings.Count(logText, "proxy closed ")
	type acc struct {
		l *c06Listener
		a c06Accept
	}
	var accepts []acc
	for _, l := range listeners {
		as, err := l.Settle()
		if err != nil {
			e.rec.Inconclusive("listener could not be settled", map[string]interface{}{"scenario": label, "listener": l.Name, "err": err.Error()})
			continue
		}
		for _, a := range as {
			accepts = append(accepts, acc{l, a})
		}
	}
	proxyRuns := summaries
	if len(accepts) > proxyRuns {
		proxyRuns = len(accepts)
	}
	nA, handed := 0, []netip.Addr(nil)
	if name != "" {
		nA, _, handed = e.dns.Snapshot(name)
	}

	// registrations of this message that are valid with a checked, permitted literal
	var admitted []netip.AddrPort
	var states []string
	for ri, reg := range regs {
		stored := rm.registeredDecoys.RegistrationExists(reg)
		valid, storedCovert := false, ""
		if stored != nil {
			rm.registeredDecoys.m.RLock()
			valid, storedCovert = stored.Valid, stored.Covert
			rm.registeredDecoys.m.RUnlock()
		}
		states = append(states, fmt.Sprintf("reg%d phantom=%s tracked=%v valid=%v covert=%q", ri, reg.PhantomIp, stored != nil, valid, storedCovert))
		e.rec.Count("registrations_ingested", 1)
		if !valid {
			e.rec.Count("not_admitted", 1)
			continue
		}
		e.rec.Count("admitted", 1)
		if lit, ok := e.judgeStored(label, map[string]interface{}{"reg_index": ri}, pol, covert, storedCovert, handed); ok && pol.forbidden(lit.Addr()) == "" {
			admitted = append(admitted, lit)
		}
	}
	detail := func(extra map[string]interface{}) map[string]interface{} {
		d := map[string]interface{}{"scenario": label, "supplied_covert": covert, "registrations": states, "connects_succeeded": connectsOK, "connect_calls": ctl.calls.Load(),
			"proxy_summaries": summaries, "connections_observed": len(accepts), "policy": pol.desc(), "station_log": logText}
		for k, v := range extra {
			d[k] = v
		}
		return d
	}
	viol := func(sig, msg string, extra map[string]interface{}) {
		e.rec.Count("violations_by_sig["+sig+"]", 1)
		e.rec.Violation(sig, msg, detail(extra))
	}

	for _, x := range accepts {
		e.rec.Count("covert_connections_observed", 1)
		ex := map[string]interface{}{"listener": x.l.Name, "accepted_local": x.a.Local, "accepted_remote": x.a.Remote, "received": x.a.Got}
		if why := pol.forbidden(x.l.IP); why != "" {
			viol("e2e:connecting:connected-to-forbidden-address", "a connecting transport's session was proxied to an address that policy forbids ("+why+")", ex)
			continue
		}
		ok := false
		if la, err := netip.ParseAddrPort(x.a.Local); err == nil {
			for _, lit := range admitted {
				if c06Dialed(la.Addr()) == c06Dialed(lit.Addr()) && la.Port() == lit.Port() {
					ok = true
				}
			}
		}
		if !ok {
			viol("e2e:connecting:dialed-address-differs-from-admitted", "a connecting transport's session was proxied to an address that is not the checked literal of a valid registration", ex)
		}
	}
	if proxyRuns > len(admitted) {
		viol("e2e:connecting:proxy-ran-on-unchecked-covert", "Proxy ran for a connecting-transport registration whose covert was never admitted (not valid, or not a checked permitted literal): it dials a string that was not checked",
			map[string]interface{}{"proxy_runs": proxyRuns, "registrations_with_checked_permitted_covert": len(admitted)})
	}
	if name != "" && nA > len(regs) {
		if elapsed < 3*time.Second {
			viol("e2e:connecting:resolver-asked-outside-admission", "the resolver was asked more often than once per registration admission: a name was resolved again when the tunnel was opened",
				map[string]interface{}{"A_queries": nA, "registrations": len(regs), "handed_out": fmt.Sprint(handed)})
		} else {
			e.rec.Inconclusive("more queries than admissions but the scenario was slow enough for a retransmission", map[string]interface{}{"scenario": label, "elapsed": elapsed.String()})
		}
	}
	if len(admitted) > 0 && connectsOK == 0 {
		e.rec.Inconclusive("a registration was admitted but no Connect succeeded (path not exercised)", map[string]interface{}{"scenario": label, "connect_calls": ctl.calls.Load(), "expired": ctl.expired.Load()})
	}

	// what was exercised
	key := fmt.Sprintf("conn[%s|%s|%s]", mode, class, src)
	e.rec.Count(key+".cases", 1)
	if connectsOK > 0 {
		e.rec.Count(key+".connects_ok", connectsOK)
	}
	if proxyRuns > 0 {
		e.rec.Count(key+".proxy_runs", proxyRuns)
	}
	e.rec.Count("connecting_connect_calls", int(ctl.calls.Load()))
	e.rec.Count("connecting_connects_succeeded", connectsOK)
	e.rec.Count("connecting_proxy_runs", proxyRuns)
	e.rec.Count("connecting_proxy_connections", len(accepts))
	e.connectsOK += connectsOK
	e.rec.Count("evaluations", 1)
	e.rec.Count("connecting_evaluations", 1)
	e.rec.Distinct("nontrivial", "connecting", class, variant, tpName, mode, src.String(), dual, e.flagsName)
	e.rec.Count("flags["+e.flagsName+"].cases", 1)
	e.rec.Distinct("connecting_kinds", class, variant, tpName, mode)
	if e.connSamples < 2 && connectsOK > 0 && name != "" {
		e.connSamples++
		e.rec.Sample(map[string]interface{}{"scenario": label, "supplied_covert": covert, "registrations": states, "connects_succeeded": connectsOK, "proxy_runs": proxyRuns, "connections_observed": len(accepts), "A_queries": nA})
	}
}

// connecting managers: one per policy mode, with the mock connecting transport and the real DTLS one
func (e *c06E2E) newConnRM(pol *c06Policy) *RegistrationManager {
	rm := e.newRM(pol)
	rm.connectingStats = e.connStats
	if err := rm.AddTransport(c06MockTp, c06ConnTransport{}); err != nil {
		e.t.Fatal(err)
	}
	if err := rm.AddTransport(pb.TransportType_DTLS, cdtls.VerifNewTransport(c06DTLSListener{}, c06DNAT{})); err != nil {
		e.t.Fatal(err)
	}
	return rm
}
