//go:build verif

package lib

// C10 – every detector announcement is acceptable to the detector and matches the registration.
//
// The driver admits registrations through the real parseRegMessage + ingestRegistration, activates some of
// them through the real MarkActive and shuts down through the real Cleanup, with the package's detector channel
// pointed at an in-process RESP server.  It captures the EXACT bytes of every PUBLISH, decodes them with the
// real pb.StationToDetector (absent and empty kept apart) and writes one JSON record per message, together with
// what the admitted registration object says (phantom, port, registrant, lifetimes), to $VERIF_OUT/c10_records.jsonl.
// It decides nothing: the orchestrator (cmd/vcheck/prop_c10.go) pipes the records through the detector's own Rust
// code (cut out of the repository's src/*.rs at check time, compiled with rustc) and compares.

import (
	"bufio"
	"context"
	"encoding/binary"
	"encoding/hex"
	"encoding/json"
	"errors"
	"fmt"
	"io"
	"math/rand"
	"net"
	"os"
	"path/filepath"
	"strings"
	"sync"
	"testing"
	"time"

	"github.com/go-redis/redis/v8"
	"google.golang.org/protobuf/proto"
	"google.golang.org/protobuf/types/known/anypb"

	kit "github.com/refraction-networking/conjure/internal/verifkit"
	cjdtls "github.com/refraction-networking/conjure/pkg/dtls"
	"github.com/refraction-networking/conjure/pkg/phantoms"
	"github.com/refraction-networking/conjure/pkg/station/log"
	cdtls "github.com/refraction-networking/conjure/pkg/transports/connecting/dtls"
	tmin "github.com/refraction-networking/conjure/pkg/transports/wrapping/min"
	"github.com/refraction-networking/conjure/pkg/transports/wrapping/obfs4"
	"github.com/refraction-networking/conjure/pkg/transports/wrapping/prefix"
	pb "github.com/refraction-networking/conjure/proto"
)

// ---- stand-ins --------------------------------------------------------------------------------------------

type c10Live struct{}

func (c10Live) PhantomIsLive(string, uint16) (bool, error) { return false, nil }
func (c10Live) PrintAndReset(*log.Logger)                  {}
func (c10Live) PrintStats(*log.Logger)                     {}
func (c10Live) Reset()                                     {}

type c10ConnStats struct{}

func (c10ConnStats) AddCreatedConnecting(uint, string, string)               {}
func (c10ConnStats) AddCreatedToSuccessfulConnecting(uint, string, string)   {}
func (c10ConnStats) AddCreatedToTimeoutConnecting(uint, string, string)      {}
func (c10ConnStats) AddSuccessfulToDiscardedConnecting(uint, string, string) {}
func (c10ConnStats) AddOtherFailConnecting(uint, string, string)             {}

// the DTLS station transport is the real one, built around a listener and a DNAT that refuse at once (its
// constructor binds the fixed UDP port 41245 and opens the tun device)
type c10Listener struct{}

func (c10Listener) AcceptWithContext(context.Context, *cjdtls.Config) (net.Conn, error) {
	return nil, errors.New("verif: stand-in listener")
}

type c10DNAT struct{}

func (c10DNAT) AddEntry(*net.IP, uint16, *net.IP, uint16) error {
	return errors.New("verif: stand-in DNAT")
}

// ---- records ----------------------------------------------------------------------------------------------

// c10Rec is one line of c10_records.jsonl.
//
//	T = "R"  start of an episode (the orchestrator gives the detector a fresh session map)
//	    "A"  the logical clock advances by NS
//	    "M"  one published message (decoded field values + the registration it was published for)
//	    "X"  an admitted / activated registration for which NOTHING was published
//	    "U"  published bytes that the real pb.StationToDetector could not decode
//	    "S"  the station's own lifetimes (read from the RegisteredDecoys the manager uses)
type c10Rec struct {
	T     string `json:"t"`
	NS    uint64 `json:"ns,omitempty"`
	ID    int    `json:"id,omitempty"`
	Kind  string `json:"kind,omitempty"`  // new | update | dup | clear | shutdown-clear | stray
	State string `json:"state,omitempty"` // unused | used: the registration's state on the station when the message was published
	Case  string `json:"case,omitempty"`
	Tr    string `json:"tr,omitempty"`
	Raw   string `json:"raw,omitempty"` // hex of the exact published bytes
	Chan  string `json:"chan,omitempty"`

	// decoded message, nil = field absent on the wire
	Phantom *string `json:"phantom"`
	Client  *string `json:"client"`
	Timeout *uint64 `json:"timeout"`
	Op      *int32  `json:"op"`
	DPort   *uint32 `json:"dport"`
	SPort   *uint32 `json:"sport"`
	Proto   *int32  `json:"proto"`
	Unknown int     `json:"unknown,omitempty"` // bytes of unknown fields

	// the registration (object fields after admission)
	EPhantom string `json:"ephantom,omitempty"` // hex of reg.PhantomIp
	EClient  string `json:"eclient,omitempty"`  // hex of reg.registrationAddr
	EPort    uint32 `json:"eport"`              // reg.GetDstPort()
	RegProto int32  `json:"regproto"`           // reg.PhantomProto
	TrProto  int32  `json:"trproto"`            // the transport's protocol (wrapping transports: TCP, DTLS: UDP)
	ELife    uint64 `json:"elife,omitempty"`    // the station's own lifetime for the state, ns

	// classes for signatures and coverage
	PClass  string `json:"pclass,omitempty"`
	CClass  string `json:"cclass,omitempty"`
	PoClass string `json:"poclass,omitempty"`
	OvClass string `json:"ovclass,omitempty"`

	Unused uint64 `json:"unused,omitempty"`
	Active uint64 `json:"active,omitempty"`

	// lifetime-agreement monitor (c10_life_records.jsonl): "Q" = start of a sequence, "L" = lookup after a sweep
	Seq    int    `json:"seq,omitempty"`
	Fam    string `json:"fam,omitempty"` // exh1 | exh2 | rand
	Ops    string `json:"ops,omitempty"` // the operations executed so far in this sequence
	Reg    int    `json:"reg,omitempty"`
	Holds  bool   `json:"holds,omitempty"`  // after the sweep the station still serves the registration for a connection
	HadDup bool   `json:"haddup,omitempty"` // delivered again (nothing published) since the announcement of its current state
	Window bool   `json:"window,omitempty"` // lifetime since that announcement is over, lifetime since the last re-delivery is not
	VT     uint64 `json:"vt,omitempty"`     // virtual time (sum of the back-dating steps), ns
	AgeAnn uint64 `json:"ageann,omitempty"`
	AgeDup uint64 `json:"agedup,omitempty"`

	Tracked      *bool  `json:"tracked,omitempty"`      // M in a sequence: does the station track the registration right after publishing this?
	AnnUntracked bool   `json:"annuntracked,omitempty"` // L: something was published for this registration while the station did not track it
	Registry     string `json:"registry,omitempty"`     // shutdown records: what the station's registry looked like
	Stale        bool   `json:"stale,omitempty"`        // M: published by MarkActive on an object that is no longer the tracked one; L: that happened earlier
}

type c10Case struct {
	n         int
	tr        string
	gen, lib  uint32
	v4s, v6s  bool
	cclass    string
	registr   []byte // nil = field absent
	params    proto.Message
	pdesc     string
	ovclass   string
	rr        *pb.RegistrationResponse
	update    bool
	secret    []byte
	advBefore uint64
	advUpdate uint64
	advDup    uint64
	src       pb.RegistrationSource // 0 = API
	covert    string                // "" = 192.0.2.99:443
	dup1      int                   // redelivery before use: 0 none, 1 same registrant, 2 another registrant
	dup2      int                   // redelivery after use
}

func (c *c10Case) String() string {
	return fmt.Sprintf("#%d tr=%s gen=%d lib=%d v4=%t v6=%t registrant=%s(%s) params=%s override=%s update=%t secret=%s",
		c.n, c.tr, c.gen, c.lib, c.v4s, c.v6s, c.cclass, hex.EncodeToString(c.registr), c.pdesc, c.ovclass, c.update, hex.EncodeToString(c.secret[:8]))
}

var c10TT = map[string]pb.TransportType{"min": pb.TransportType_Min, "obfs4": pb.TransportType_Obfs4, "prefix": pb.TransportType_Prefix, "dtls": pb.TransportType_DTLS}

// the protocol each transport speaks to the phantom (a fact about the transports, not taken from the code under test)
var c10TrProto = map[string]pb.IPProto{"min": pb.IPProto_Tcp, "obfs4": pb.IPProto_Tcp, "prefix": pb.IPProto_Tcp, "dtls": pb.IPProto_Udp}

func c10ClassOfIP(b []byte) string {
	switch len(b) {
	case 4:
		return "v4"
	case 16:
		if net.IP(b).To4() != nil {
			return "v4mapped"
		}
		return "v6"
	}
	return fmt.Sprintf("len%d", len(b))
}

func c10RandV4(r *rand.Rand) net.IP {
	switch r.Intn(12) {
	case 0:
		return net.IPv4(0, 0, 0, 0).To4()
	case 1:
		return net.IPv4(255, 255, 255, 255).To4()
	case 2:
		return net.IPv4(0, 1, 2, byte(r.Intn(256))).To4()
	}
	return net.IPv4(byte(1+r.Intn(223)), byte(r.Intn(256)), byte(r.Intn(256)), byte(r.Intn(256))).To4()
}

func c10RandV6(r *rand.Rand) net.IP {
	ip := make(net.IP, 16)
	switch r.Intn(10) {
	case 0:
		return net.ParseIP("::1")
	case 1:
		copy(ip, net.ParseIP("fe80::"))
		r.Read(ip[8:])
		return ip
	case 2: // IPv4-compatible (deprecated) form, prints as hex groups
		r.Read(ip[12:])
		ip[12] |= 1
		return ip
	case 3: // runs of zero groups in the middle
		ip[0], ip[1] = 0x20, 0x01
		ip[15] = byte(1 + r.Intn(255))
		ip[6] = byte(r.Intn(256))
		return ip
	}
	r.Read(ip)
	ip[0], ip[1], ip[2], ip[3] = 0x20, 0x01, 0x0d, 0xb8
	return ip
}

func (c *c10Case) gen_(r *rand.Rand, n int) {
	c.n = n
	c.tr = []string{"min", "obfs4", "prefix", "dtls"}[r.Intn(4)]
	c.gen = []uint32{1, 2, 957, 957, 2001, 2001, 2002, 2003}[r.Intn(8)]
	c.lib = []uint32{1, 2, 3, 4, 4, 4}[r.Intn(6)]
	if c.tr == "prefix" && c.lib < 3 {
		c.lib = 3 + uint32(r.Intn(2))
	}
	switch r.Intn(4) {
	case 0:
		c.v4s, c.v6s = true, false
	case 1:
		c.v4s, c.v6s = false, true
	default:
		c.v4s, c.v6s = true, true
	}
	c.secret = make([]byte, 32)
	r.Read(c.secret)

	// registrant address
	switch k := r.Intn(100); {
	case k < 12:
		c.cclass, c.registr = "absent", nil
	case k < 16:
		c.cclass, c.registr = "zero16", make([]byte, 16)
	case k < 46:
		c.cclass, c.registr = "v4", c10RandV4(r)
	case k < 70:
		c.cclass, c.registr = "v6", c10RandV6(r)
	case k < 94:
		c.cclass, c.registr = "v4mapped", c10RandV4(r).To16()
	case k < 96:
		c.cclass, c.registr = "len0", []byte{}
	case k < 98:
		c.cclass, c.registr = "len5", []byte{10, 1, 2, 3, 4}
	default:
		c.cclass, c.registr = "len17", append(c10RandV6(r), 7)
	}

	// transport parameters (the destination port depends on them)
	rnd := r.Intn(2) == 0
	switch c.tr {
	case "min", "obfs4":
		switch r.Intn(3) {
		case 0:
			c.params, c.pdesc = nil, "absent"
		case 1:
			c.params, c.pdesc = &pb.GenericTransportParams{}, "empty"
		default:
			c.params, c.pdesc = &pb.GenericTransportParams{RandomizeDstPort: proto.Bool(rnd)}, fmt.Sprintf("rand=%t", rnd)
		}
	case "prefix":
		id := int32(r.Intn(12)) - 1 // Rand(-1, not in the default set), Min(0) .. OpenSSH2(9), 10 = unknown
		c.params, c.pdesc = &pb.PrefixTransportParams{PrefixId: proto.Int32(id), RandomizeDstPort: proto.Bool(rnd)}, fmt.Sprintf("prefix=%d,rand=%t", id, rnd)
	case "dtls":
		p := &pb.DTLSTransportParams{RandomizeDstPort: proto.Bool(rnd), Unordered: proto.Bool(r.Intn(2) == 0),
			SrcAddr4: &pb.Addr{IP: c10RandV4(r), Port: proto.Uint32(uint32(1024 + r.Intn(60000)))},
			SrcAddr6: &pb.Addr{IP: c10RandV6(r), Port: proto.Uint32(uint32(1024 + r.Intn(60000)))}}
		c.params, c.pdesc = p, fmt.Sprintf("rand=%t", rnd)
	}

	// registrar overrides
	var ov []string
	rr := &pb.RegistrationResponse{}
	if r.Intn(100) < 35 {
		p := []uint32{0, 1, 53, 443, 8443, 65535, 65536 + 443, uint32(r.Intn(1 << 17))}[r.Intn(8)]
		rr.DstPort = proto.Uint32(p)
		ov = append(ov, fmt.Sprintf("port=%d", p))
	}
	if r.Intn(100) < 30 {
		var a uint32
		switch r.Intn(8) {
		case 0:
			a = 0 // "not set" for the station
		case 1:
			a = 0xffffffff
		default:
			a = binary.BigEndian.Uint32(c10RandV4(r))
		}
		rr.Ipv4Addr = proto.Uint32(a)
		ov = append(ov, fmt.Sprintf("ip4=%08x", a))
	}
	if r.Intn(100) < 30 {
		var b []byte
		var cl string
		switch k := r.Intn(100); {
		case k < 50:
			b, cl = c10RandV6(r), "v6"
		case k < 65:
			b, cl = c10RandV4(r).To16(), "v4mapped"
		case k < 85:
			b, cl = c10RandV4(r), "v4-in-v6-slot"
		case k < 90:
			b, cl = []byte{}, "len0"
		case k < 95:
			b, cl = []byte{1, 2, 3, 4, 5}, "len5"
		default:
			b, cl = append(c10RandV6(r), 9), "len17"
		}
		rr.Ipv6Addr = b
		ov = append(ov, "ip6="+cl)
	}
	if len(ov) == 0 {
		c.rr, c.ovclass = nil, "none"
	} else {
		c.rr, c.ovclass = rr, strings.Join(ov, "+")
	}
	c.update = r.Intn(100) < 60
	c.advBefore = uint64(r.Int63n(int64(30 * time.Second)))
	c.advUpdate = uint64(r.Int63n(int64(9 * time.Minute)))
	c.advDup = uint64(r.Int63n(int64(2 * time.Minute)))
	if r.Intn(100) < 30 {
		c.dup1 = 1 + r.Intn(2)
	}
	if r.Intn(100) < 30 {
		c.dup2 = 1 + r.Intn(2)
	}
}

func (c *c10Case) wrapper() ([]byte, error) {
	tt := c10TT[c.tr]
	c2s := &pb.ClientToStation{
		DecoyListGeneration: proto.Uint32(c.gen), ClientLibVersion: proto.Uint32(c.lib),
		V4Support: proto.Bool(c.v4s), V6Support: proto.Bool(c.v6s), Transport: tt.Enum(),
		CovertAddress: proto.String("192.0.2.99:443"),
	}
	if c.covert != "" {
		c2s.CovertAddress = proto.String(c.covert)
	}
	if c.params != nil {
		a, err := anypb.New(c.params)
		if err != nil {
			return nil, err
		}
		c2s.TransportParams = a
	}
	src := pb.RegistrationSource_API
	if c.src != 0 {
		src = c.src
	}
	w := &pb.C2SWrapper{SharedSecret: c.secret, RegistrationPayload: c2s, RegistrationSource: &src, RegistrationResponse: c.rr}
	if c.registr != nil {
		w.RegistrationAddress = c.registr
	}
	return proto.Marshal(w)
}

func c10PortClass(p uint16) string {
	switch {
	case p == 0:
		return "0"
	case p == 443:
		return "443"
	case p == 80 || p == 53 || p == 22:
		return "wellknown"
	case p < 1024:
		return "low"
	}
	return "high"
}

// c10NewStation builds the station side every C10 driver uses: a registration manager with the four real
// transports, a liveness stand-in, extra phantom generations, and the package's detector channel pointed at an
// in-process RESP server.
func c10NewStation(t *testing.T) (*RegistrationManager, *kit.FakeRedis) {
	fr, err := kit.NewFakeRedis("127.0.0.1:0")
	if err != nil {
		t.Fatal(err)
	}
	// repoint the package's detector channel (the station hard-codes localhost:6379)
	once.Do(func() {})
	client = redis.NewClient(&redis.Options{Addr: fr.Addr(), PoolSize: 4})
	if _, err := client.Ping(context.Background()).Result(); err != nil {
		t.Fatalf("infrastructure: stand-in redis: %v", err)
	}
	return c10NewManager(t), fr
}

// c10NewManager builds the registration manager alone; the package's detector channel is left as it is.
func c10NewManager(t *testing.T) *RegistrationManager {
	os.Setenv("PHANTOM_SUBNET_LOCATION", "./test/phantom_subnets.toml")
	rm := NewRegistrationManager(&RegConfig{EnableIPv4: true, EnableIPv6: true, ConnectingStats: c10ConnStats{}})
	if rm == nil {
		t.Fatal("infrastructure: NewRegistrationManager returned nil")
	}
	rm.Logger = log.New(io.Discard, "", 0)
	rm.LivenessTester = c10Live{}
	var priv [32]byte
	copy(priv[:], "verif-c10-station-private-key-00")
	priv[0] &= 248
	priv[31] &= 127
	priv[31] |= 64
	prefT, err := prefix.Default([][32]byte{priv})
	if err != nil {
		t.Fatalf("infrastructure: prefix.Default: %v", err)
	}
	for tt, tr := range map[pb.TransportType]Transport{
		pb.TransportType_Min: tmin.Transport{}, pb.TransportType_Obfs4: obfs4.Transport{},
		pb.TransportType_Prefix: prefT, pb.TransportType_DTLS: cdtls.VerifNewTransport(c10Listener{}, c10DNAT{}),
	} {
		if err := rm.AddTransport(tt, tr); err != nil {
			t.Fatalf("infrastructure: AddTransport: %v", err)
		}
	}
	// more phantom shapes than the repository's test file has: leading zero octet, NAT64 prefix, v6-only and
	// v4-only generations (a v6 request against a v4-only generation yields an IPv4 phantom)
	sub := func(w uint32, rnd bool, nets ...string) *pb.PhantomSubnets {
		return &pb.PhantomSubnets{Weight: proto.Uint32(w), Subnets: nets, RandomizeDstPort: proto.Bool(rnd)}
	}
	rm.PhantomSelector.AddGeneration(2001, &phantoms.SubnetConfig{WeightedSubnets: []*pb.PhantomSubnets{
		sub(3, true, "0.1.2.0/24", "100.64.0.0/10", "2001:db8::/32"), sub(2, false, "64:ff9b::/96", "198.18.0.0/15")}})
	rm.PhantomSelector.AddGeneration(2002, &phantoms.SubnetConfig{WeightedSubnets: []*pb.PhantomSubnets{sub(1, true, "fd00::/8", "2001:0:0:1::/64")}})
	rm.PhantomSelector.AddGeneration(2003, &phantoms.SubnetConfig{WeightedSubnets: []*pb.PhantomSubnets{sub(1, true, "203.0.113.0/24")}})

	return rm
}

// ---- the driver -------------------------------------------------------------------------------------------

func TestVerifC10Announce(t *testing.T) {
	rec := kit.NewRec("C10", "announce")
	defer rec.Close()

	rm, fr := c10NewStation(t)
	defer fr.Close()

	outPath := filepath.Join(kit.OutDir(), "c10_records.jsonl")
	outF, err := os.Create(outPath)
	if err != nil {
		t.Fatal(err)
	}
	w := bufio.NewWriterSize(outF, 1<<20)
	enc := json.NewEncoder(w)
	emit := func(r *c10Rec) {
		if err := enc.Encode(r); err != nil {
			t.Fatalf("infrastructure: writing %s: %v", outPath, err)
		}
	}
	defer func() {
		w.Flush()
		outF.Close()
	}()

	rd := rm.registeredDecoys
	emit(&c10Rec{T: "S", Unused: uint64(rd.timeoutUnused.Nanoseconds()), Active: uint64(rd.timeoutActive.Nanoseconds())})

	nextID := 0
	// recordPubs turns published messages into records for the registration reg in the given state (reg == nil
	// for Clear and for messages that belong to no admitted registration).
	//   kind: new | update | dup | clear | shutdown-clear | stray      state: unused | used | ""
	published, sampled := 0, 0
	recordPubs := func(pubs []kit.Pub, kind, state, desc string, cs *c10Case, reg *DecoyRegistration) int {
		published += len(pubs)
		base := c10Rec{Kind: kind, State: state, Case: desc}
		if cs != nil {
			if desc == "" {
				base.Case = cs.String()
			} else {
				base.Case = desc + " " + cs.String()
			}
			base.Tr, base.CClass, base.OvClass = cs.tr, cs.cclass, cs.ovclass
		}
		if reg != nil {
			base.EPhantom = hex.EncodeToString(reg.PhantomIp)
			base.EClient = hex.EncodeToString(reg.registrationAddr)
			base.EPort = uint32(reg.GetDstPort())
			base.RegProto = int32(reg.PhantomProto)
			base.TrProto = int32(c10TrProto[cs.tr])
			base.PClass = c10ClassOfIP(reg.PhantomIp)
			base.PoClass = c10PortClass(reg.GetDstPort())
			if state == "used" {
				base.ELife = uint64(rd.timeoutActive.Nanoseconds())
			} else {
				base.ELife = uint64(rd.timeoutUnused.Nanoseconds())
			}
		}
		if len(pubs) == 0 && kind != "stray" && kind != "dup" {
			nextID++
			r := base
			r.T, r.ID = "X", nextID
			emit(&r)
			rec.Count("missing_"+kind, 1)
			return 0
		}
		for _, p := range pubs {
			nextID++
			r := base
			r.ID, r.Raw, r.Chan = nextID, hex.EncodeToString(p.Payload), p.Channel
			m := &pb.StationToDetector{}
			if err := proto.Unmarshal(p.Payload, m); err != nil {
				r.T = "U"
				emit(&r)
				rec.Count("undecodable", 1)
				continue
			}
			r.T = "M"
			r.Phantom, r.Client, r.Timeout, r.DPort, r.SPort = m.PhantomIp, m.ClientIp, m.TimeoutNs, m.DstPort, m.SrcPort
			if m.Operation != nil {
				v := int32(*m.Operation)
				r.Op = &v
			}
			if m.Proto != nil {
				v := int32(*m.Proto)
				r.Proto = &v
			}
			r.Unknown = len(m.ProtoReflect().GetUnknown())
			emit(&r)
			rec.Count("published_"+kind, 1)
			if sampled < 2 && kind == "new" {
				sampled++
				rec.Sample(map[string]interface{}{"case": r.Case, "kind": kind, "published_hex": r.Raw, "decoded": m.String()})
			}
		}
		return len(pubs)
	}
	// record: everything published since the last fr.Reset()
	record := func(kind, state, desc string, cs *c10Case, reg *DecoyRegistration) int {
		pubs := fr.Pubs()
		fr.Reset()
		return recordPubs(pubs, kind, state, desc, cs, reg)
	}

	// what the driver knows about every registration the station tracks as valid
	type c10Info struct {
		cs   c10Case
		used bool // MarkActive was called for it (the only way a registration becomes "used")
	}
	info := map[*DecoyRegistration]*c10Info{}
	stateOf := func(i *c10Info) string {
		if i.used {
			return "used"
		}
		return "unused"
	}

	rng := kit.Rand("c10-announce")
	target := kit.Tier(2000, 60000)
	clearEvery := kit.Tier(25, 120)
	admitted, attempts, sinceClear, clears := 0, 0, 0, 0
	emit(&c10Rec{T: "R"})
	doClear := func() {
		fr.Reset()
		rm.Cleanup() // the real shutdown path: cmd/application defers regManager.Cleanup()
		record("clear", "", "", nil, nil)
		clears++
		sinceClear = 0
		emit(&c10Rec{T: "R"})
	}

	// ingestOne hands one registration object built by parseRegMessage to the real ingestRegistration and records
	// what was published because of it.  A delivery for a registration that is already tracked is judged against
	// the TRACKED registration (its registrant, phantom, port) in its CURRENT state.
	ingestOne := func(cs *c10Case, desc string, reg *DecoyRegistration) *DecoyRegistration {
		tracked := rd.RegistrationExists(reg)
		fr.Reset()
		rm.ingestRegistration(reg)
		if tracked != nil && tracked != reg {
			rec.Count("duplicate_deliveries", 1)
			if ti := info[tracked]; ti != nil {
				st := stateOf(ti)
				label := "natural"
				if desc != "" {
					label = strings.SplitN(desc, "=", 2)[0]
				}
				rec.Count("duplicate_deliveries_"+st+"_"+label, 1)
				if n := record("dup", st, desc, &ti.cs, tracked); n > 0 {
					rec.Count("duplicate_deliveries_that_published", 1)
				}
			} else if fr.Len() != 0 {
				record("stray", "", desc, cs, nil)
			}
			return nil
		}
		rd.m.RLock()
		valid := reg.Valid
		rd.m.RUnlock()
		if !valid {
			rec.Count("not_admitted", 1)
			if fr.Len() != 0 {
				record("stray", "", desc, cs, nil)
			}
			return nil
		}
		admitted++
		sinceClear++
		info[reg] = &c10Info{cs: *cs}
		rec.Count("admitted", 1)
		rec.Count("admitted_"+cs.tr, 1)
		rec.Distinct("admitted_classes", cs.tr, c10ClassOfIP(reg.PhantomIp), cs.cclass, c10PortClass(reg.GetDstPort()), cs.ovclass != "none")
		record("new", "unused", desc, cs, reg)
		return reg
	}
	// deliver parses one wrapper and ingests every registration built from it
	deliver := func(cs *c10Case, desc string) (adm []*DecoyRegistration) {
		msg, err := cs.wrapper()
		if err != nil {
			t.Fatalf("infrastructure: marshal: %v", err)
		}
		fr.Reset()
		regs, err := rm.parseRegMessage(msg)
		if err != nil {
			switch {
			case strings.Contains(err.Error(), "IPv6 client chose IPv4 phantom"):
				rec.Count("refused_v6_registrant_v4_phantom", 1)
				rec.Count("refused_v6_registrant_v4_phantom_registrant_"+cs.cclass, 1)
			default:
				rec.Count("refused_other", 1)
			}
		}
		if fr.Len() != 0 {
			// nothing is demanded about refused registrations, but whatever was published must still parse
			record("stray", "", desc, cs, nil)
		}
		if len(regs) == 0 && err == nil {
			rec.Count("no_registration_built", 1)
		}
		for _, reg := range regs {
			if reg == nil {
				continue
			}
			if a := ingestOne(cs, desc, reg); a != nil {
				adm = append(adm, a)
			}
		}
		return adm
	}
	// redeliver sends the same registration (secret, transport, parameters, overrides => same phantom and
	// identifier) again, from the same or from another client address of the same class
	redeliver := func(cs *c10Case, how int, desc string) {
		d := *cs
		if how == 2 {
			for tries := 0; tries < 20; tries++ {
				var a net.IP
				switch cs.cclass {
				case "v4":
					a = c10RandV4(rng)
				case "v4mapped":
					a = c10RandV4(rng).To16()
				default: // v6, and absent / all-zero (an IPv6 address builds the same registrations as no address)
					a = c10RandV6(rng)
				}
				if !a.Equal(net.IP(cs.registr)) {
					d.registr = a
					break
				}
			}
			desc += ":other-registrant=" + hex.EncodeToString(d.registr)
		} else {
			desc += ":same-registrant"
		}
		emit(&c10Rec{T: "A", NS: cs.advDup})
		deliver(&d, desc)
	}

	for admitted < target && attempts < 6*target {
		attempts++
		var cs c10Case
		cs.gen_(rng, attempts)
		rec.CaseCheap(cs.String())
		emit(&c10Rec{T: "A", NS: cs.advBefore})
		adm := deliver(&cs, "")
		if len(adm) > 0 && cs.dup1 != 0 {
			redeliver(&cs, cs.dup1, "redelivery-before-use")
		}
		if cs.update {
			emit(&c10Rec{T: "A", NS: cs.advUpdate})
			for _, reg := range adm {
				fr.Reset()
				rm.MarkActive(reg) // what the connection handlers call on the first valid connection
				info[reg].used = true
				rec.Count("activated", 1)
				record("update", "used", "", &cs, reg)
			}
			if len(adm) > 0 && cs.dup2 != 0 {
				redeliver(&cs, cs.dup2, "redelivery-after-use")
			}
		}
		if sinceClear >= clearEvery {
			doClear()
		}
	}
	if sinceClear > 0 {
		doClear()
	}
	rec.Count("attempts", attempts)
	rec.Count("clears", clears)
	if admitted < target {
		t.Fatalf("infrastructure: only %d of %d registrations were admitted in %d attempts", admitted, target, attempts)
	}

	// ---- the station's real shutdown order (cmd/application/main.go): registrations arrive through the ingest
	// channel of a running HandleRegUpdates; then cancel(), wg.Wait(), and only then the deferred Cleanup().
	rm.IngestWorkerCount = 3
	waitIdle := func(regChan chan interface{}) bool {
		// idle = nothing queued, the distributor and every worker parked in their select (no sleeps decide
		// anything: this only waits, with a generous bound, for the asynchronous workers to finish)
		deadline := time.Now().Add(60 * time.Second)
		sleep := 100 * time.Microsecond
		for {
			idle := len(regChan) == 0
			if idle {
				nd, nw := 0, 0
				for _, g := range kit.InFunc(kit.Stacks(), "HandleRegUpdates", "startIngestThread") {
					switch {
					case g.State != "select":
						idle = false
					case len(g.Frames) > 0 && strings.Contains(g.Frames[0], "startIngestThread"):
						nw++
					case len(g.Frames) > 0 && strings.Contains(g.Frames[0], "HandleRegUpdates"):
						nd++
					default:
						idle = false
					}
				}
				if nd != 1 || nw != rm.IngestWorkerCount {
					idle = false
				}
			}
			if idle {
				return true
			}
			if time.Now().After(deadline) {
				return false
			}
			time.Sleep(sleep)
			if sleep < 5*time.Millisecond {
				sleep *= 2
			}
		}
	}
	lifecycles := kit.Tier(4, 25)
lifecycle:
	for ep := 0; ep < lifecycles; ep++ {
		ctx, cancel := context.WithCancel(context.Background())
		regChan := make(chan interface{}, 4)
		var wg sync.WaitGroup
		wg.Add(1)
		go rm.HandleRegUpdates(ctx, regChan, &wg)
		if !waitIdle(regChan) {
			rec.Inconclusive("lifecycle: ingest workers did not come up", ep)
			cancel()
			break
		}
		viaChan := 0
		for tries := 0; tries < 60 && viaChan < 5; tries++ {
			attempts++
			var cs c10Case
			cs.gen_(rng, attempts)
			// one family per message, so that at most one registration (and one announcement) results
			if cs.v4s && cs.v6s {
				cs.v4s = tries%2 == 0
				cs.v6s = !cs.v4s
			}
			desc := fmt.Sprintf("lifecycle#%d:via-ingest-channel", ep)
			rec.CaseCheap(desc + " " + cs.String())
			msg, err := cs.wrapper()
			if err != nil {
				t.Fatalf("infrastructure: marshal: %v", err)
			}
			emit(&c10Rec{T: "A", NS: cs.advBefore})
			fr.Reset()
			regChan <- msg
			if !waitIdle(regChan) {
				rec.Inconclusive("lifecycle: ingest workers did not become idle", desc)
				cancel()
				break lifecycle
			}
			// find the registration the worker built: a twin object leads to the tracked one
			twins, err := rm.parseRegMessage(msg)
			var reg *DecoyRegistration
			if err == nil && len(twins) == 1 && twins[0] != nil {
				if tr := rd.RegistrationExists(twins[0]); tr != nil && info[tr] == nil {
					rd.m.RLock()
					valid := tr.Valid
					rd.m.RUnlock()
					if valid {
						reg = tr
					}
				}
			}
			if reg == nil {
				if fr.Len() != 0 {
					record("stray", "", desc, &cs, nil)
				}
				continue
			}
			viaChan++
			admitted++
			info[reg] = &c10Info{cs: cs}
			rec.Count("admitted_via_ingest_channel", 1)
			record("new", "unused", desc, &cs, reg)
		}
		cancel()
		done := make(chan struct{})
		go func() { wg.Wait(); close(done) }()
		select {
		case <-done:
		case <-time.After(60 * time.Second):
			// main() would still sit in wg.Wait() and never reach the deferred Cleanup; whether HandleRegUpdates
			// winds down is another property's business
			rec.Inconclusive("lifecycle: HandleRegUpdates did not return within 60 s after cancel", ep)
			break lifecycle
		}
		fr.Reset()
		rm.Cleanup()
		// the publication is synchronous: after Cleanup has returned the Clear is at the server or it never will be
		record("shutdown-clear", "", fmt.Sprintf("lifecycle#%d: HandleRegUpdates(ctx) running, %d registrations admitted through the ingest channel, cancel(), wg.Wait(), Cleanup()", ep, viaChan), nil, nil)
		rec.Count("shutdown_lifecycles", 1)
		emit(&c10Rec{T: "R"})
	}
	rec.Count("published_total", published)
	// the connecting-transport goroutines started by ingest must be gone before the process ends
	if left := kit.WaitNoGoroutineIn(30*time.Second, "handleConnectingTpReg"); left != nil {
		rec.Inconclusive("goroutines still inside handleConnectingTpReg at the end of the run", len(left))
	}
	rec.Note(fmt.Sprintf("records in %s; verdicts are computed by the orchestrator with the detector's own code", filepath.Base(outPath)))
}
