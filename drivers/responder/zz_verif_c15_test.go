//go:build verif

package responder

// C15 – the DNS registrar's encrypted request/response exchange, real requester against real responder.
//   namepacking  (no sockets, no encryption) bytes → requester.DNSPacketConn (real send: base32, 63-byte labels, base domain,
//                WireFormat) → captured datagram → MessageFromWireFormat → the responder's real responseFor == the bytes;
//                and bytes → the responder's real dnsRespToUDPResp → captured datagram → the requester's real recvLoop /
//                dnsResponsePayload / ReadFrom == the bytes
//   exchange     requester.RequestAndRecv(payload) over a loopback UDP socket against RecvAndRespond(callback):
//                callback argument == payload and result == callback's return, for every request length a DNS name can carry
//                and every response length a UDP answer can carry; beyond those limits the call must fail with an error
//                (never return a different value).  A call that neither fails nor answers is reported only after a 20 s
//                watchdog, from a stable parked goroutine, together with the proof that the datagram was dropped by an encoder
//                (the callback never saw the request / the responder logged that it could not build the answer).
//   namecapacity the requester's packet conn across the whole (base-domain wire length × packet size) grid around the capacity of one
//                name: every base-domain wire length 1, 3..200 (two label shapes each, incl. 63-byte labels) × packet sizes
//                maxPacket-3 … maxPacket+3 (maxPacket from independent RFC 1035 arithmetic).  WriteTo's verdict must agree
//                with what happens on the wire: accepted ⇒ exactly one query appears on the (tapped) transport and the
//                responder's real responseFor returns the same bytes; refused ⇒ nothing is sent and the packet really does
//                not fit.  "Never sent" is concluded from the send loop observed idle with an empty queue (stack scan), not
//                from a bare timeout.
//   concurrent   bursts of 4 / 16 / 32 requesters, each with its own socket and a unique payload, against one fresh responder:
//                "prequeued" (all queries are in the responder's socket buffer before RecvAndRespond is started) and "barrier"
//                (RecvAndRespond already running, the requesters released together).  The callback answers with a value derived
//                from the payload it was given.  Oracle: the multiset of callback arguments equals the multiset of payloads
//                sent (none decoded twice, none missing although its datagram was read, none unknown) and every requester's
//                result is the answer to ITS payload.

import (
	"bytes"
	"context"
	"crypto/sha256"
	"encoding/base32"
	"errors"
	"fmt"
	"log"
	mrand "math/rand"
	"net"
	"runtime"
	"runtime/debug"
	"sort"
	"strings"
	"sync"
	"testing"
	"time"

	"github.com/flynn/noise"
	kit "github.com/refraction-networking/conjure/internal/verifkit"
	"github.com/refraction-networking/conjure/pkg/registrars/dns-registrar/dns"
	"github.com/refraction-networking/conjure/pkg/registrars/dns-registrar/encryption"
	"github.com/refraction-networking/conjure/pkg/registrars/dns-registrar/requester"
)

func c15Try(f func()) (panicked bool, val interface{}, stack string) {
	defer func() {
		if r := recover(); r != nil {
			panicked, val, stack = true, r, string(debug.Stack())
		}
	}()
	f()
	return
}

// ---- log capture (both sides report dropped datagrams only through the standard logger) ---------------------------------

var c15Markers = []string{"send: ", "dnsRespToUDPResp err", "AddFormat err", "resp WireFormat", "RemoveFormat err", "craftResponse err", "NXDOMAIN: base32",
	"MessageFromWireFormat: ", "cannot parse DNS query"}

type c15LogSink struct {
	mu     sync.Mutex
	cnt    map[string]int
	recent map[string][]string
	total  int
}

func (l *c15LogSink) Write(p []byte) (int, error) {
	line := strings.TrimSpace(string(p))
	l.mu.Lock()
	l.total++
	if l.cnt == nil {
		l.cnt, l.recent = map[string]int{}, map[string][]string{}
	}
	for _, m := range c15Markers {
		if i := strings.Index(line, m); i >= 0 {
			l.cnt[m]++
			r := append(l.recent[m], line[i:])
			if len(r) > 40 {
				r = r[len(r)-40:]
			}
			l.recent[m] = r
		}
	}
	l.mu.Unlock()
	return len(p), nil
}

// count returns how many log lines so far contained the marker (must be one of c15Markers).
func (l *c15LogSink) count(marker string) int {
	l.mu.Lock()
	defer l.mu.Unlock()
	return l.cnt[marker]
}

// last returns up to max of the most recent lines containing the marker.
func (l *c15LogSink) last(marker string, max int) []string {
	l.mu.Lock()
	defer l.mu.Unlock()
	r := l.recent[marker]
	if len(r) > max {
		r = r[len(r)-max:]
	}
	return append([]string(nil), r...)
}

type c15Marks map[string]int

func (l *c15LogSink) marks() c15Marks {
	l.mu.Lock()
	defer l.mu.Unlock()
	m := c15Marks{}
	for _, k := range c15Markers {
		m[k] = l.cnt[k]
	}
	return m
}

// since returns how many lines with one of the markers were logged after the marks were taken.
func (l *c15LogSink) since(m c15Marks, markers ...string) int {
	l.mu.Lock()
	defer l.mu.Unlock()
	n := 0
	for _, k := range markers {
		n += l.cnt[k] - m[k]
	}
	return n
}

var c15Logs = &c15LogSink{}

// ---- what one DNS name can carry (RFC 1035 arithmetic; used to CLASSIFY outcomes, never to demand acceptance) ------------

func c15DomainWire(domain dns.Name) int {
	n := 1
	for _, l := range domain {
		n += 1 + len(l)
	}
	return n
}

var c15B32 = base32.StdEncoding.WithPadding(base32.NoPadding)

// c15FitsName: can `raw` bytes, base32-encoded into 63-byte labels in front of the domain, form a name of <= 255 bytes?
func c15FitsName(raw int, domain dns.Name) bool {
	n := c15B32.EncodedLen(raw)
	labels := (n + 62) / 63
	return n+labels+c15DomainWire(domain) <= 255
}

const c15NoiseOverhead = 1 + 32 + 16 // length prefix + ephemeral key + AEAD tag around the request payload

// ---- a net.Conn that captures datagrams and replays scripted ones -----------------------------------------------------------

type c15CapConn struct {
	writes chan []byte
	reads  chan []byte
	closed chan struct{}
}

func newC15CapConn() *c15CapConn {
	return &c15CapConn{writes: make(chan []byte, 16), reads: make(chan []byte, 16), closed: make(chan struct{})}
}
func (c *c15CapConn) Write(p []byte) (int, error) {
	c.writes <- append([]byte(nil), p...)
	return len(p), nil
}
func (c *c15CapConn) Read(p []byte) (int, error) {
	select {
	case b := <-c.reads:
		return copy(p, b), nil
	case <-c.closed:
		return 0, errors.New("verif capture conn closed") // not a net.Error: recvLoop returns instead of spinning
	}
}
func (c *c15CapConn) Close() error                       { return nil }
func (c *c15CapConn) LocalAddr() net.Addr                { return kit.TCPAddr("127.0.0.1", 1) }
func (c *c15CapConn) RemoteAddr() net.Addr               { return c15PeerAddr }
func (c *c15CapConn) SetDeadline(t time.Time) error      { return nil }
func (c *c15CapConn) SetReadDeadline(t time.Time) error  { return nil }
func (c *c15CapConn) SetWriteDeadline(t time.Time) error { return nil }

var c15PeerAddr = &net.UDPAddr{IP: net.IPv4(127, 0, 0, 1), Port: 53}

func c15Domains() []string {
	return []string{"t.example.com", "a", "T.Example.COM", ".", "registration-channel-with-a-long-base-domain.example-operator.org"}
}

// ---- namepacking ----------------------------------------------------------------------------------------------------------

func TestVerifC15NamePacking(t *testing.T) {
	log.SetOutput(c15Logs)
	rec := kit.NewRec("C15", "namepacking")
	defer rec.Close()
	rng := kit.Rand("c15namepacking")

	for _, dom := range c15Domains() {
		domain, err := dns.ParseName(dom)
		if err != nil {
			t.Fatal(err)
		}
		r := &Responder{domain: domain, maxUDPPayload: 1280 - 40 - 8}
		conn := newC15CapConn()
		pc := requester.NewDNSPacketConn(conn, c15PeerAddr, domain)

		// upstream: raw packet lengths 0..300 (every length), three fills
		for n := 0; n <= 300; n++ {
			for fill := 0; fill < kit.Tier(2, 3); fill++ {
				p := make([]byte, n)
				switch fill {
				case 0:
					rng.Read(p)
				case 1: // all zero: base32 "aaaa…", labels indistinguishable from one another
				case 2:
					for i := range p {
						p[i] = 0xff
					}
				}
				desc := fmt.Sprintf("upstream domain=%q rawlen=%d fill=%d fits_name=%v", dom, n, fill, c15FitsName(n, domain))
				rec.CaseCheap(desc)
				rec.Count("evaluations", 1)
				before := c15Logs.count("send: ")
				if _, err := pc.WriteTo(p, c15PeerAddr); err != nil {
					rec.Count("rejected", 1)
					rec.Distinct("nontrivial", desc)
					continue
				}
				var wire []byte
				deadline := time.After(30 * time.Second)
				tick := time.NewTicker(200 * time.Microsecond)
			wait:
				for {
					select {
					case wire = <-conn.writes:
						break wait
					case <-tick.C:
						if c15Logs.count("send: ") > before {
							// the encoder refused the packet (the refusal is only logged at this layer)
							select {
							case wire = <-conn.writes:
							default:
							}
							break wait
						}
					case <-deadline:
						break wait
					}
				}
				tick.Stop()
				if wire == nil {
					if c15Logs.count("send: ") > before {
						rec.Count("rejected", 1)
						rec.Distinct("nontrivial", desc)
						if c15FitsName(n, domain) {
							rec.Count("rejected_although_fits_a_name", 1)
						}
					} else {
						rec.Inconclusive("packet neither sent nor refused within 30 s", desc)
					}
					continue
				}
				var q dns.Message
				var perr error
				var got []byte
				var resp *dns.Message
				if pk, v, st := c15Try(func() {
					q, perr = dns.MessageFromWireFormat(wire)
					if perr == nil {
						resp, got = r.responseFor(&q, domain)
					}
				}); pk {
					rec.Violation("namepacking:upstream:decoder-panic-on-own-encoding", "the responder side panicked on a query the requester produced",
						map[string]interface{}{"case": desc, "wire": kit.HexN(wire, 64), "panic": fmt.Sprint(v), "stack": st})
					continue
				}
				if perr != nil {
					rec.Violation("namepacking:upstream:query-not-parsable", "the query the requester produced is refused by MessageFromWireFormat",
						map[string]interface{}{"case": desc, "error": perr.Error(), "wire": kit.HexN(wire, 64)})
					continue
				}
				if got == nil && n > 0 || !bytes.Equal(got, p) {
					d := map[string]interface{}{"case": desc, "sent": kit.HexN(p, 16), "got": kit.HexN(got, 16), "got_len": len(got), "qname": c15ShortName(q)}
					if resp != nil {
						d["rcode"] = resp.Rcode()
					}
					rec.Violation("namepacking:upstream:roundtrip-mismatch", "responseFor does not return the bytes the requester packed into the query name", d)
					continue
				}
				rec.Count("accepted_roundtrips", 1)
				if n > 0 {
					rec.Distinct("nontrivial", desc)
				}
				if !c15FitsName(n, domain) {
					rec.Note("a packet was carried although the reference arithmetic says it cannot fit: " + desc)
				}
				if rec.WantSample() && n == 100 {
					rec.Sample(map[string]interface{}{"case": desc, "qname": c15ShortName(q), "wire_len": len(wire), "decoded_equal": true})
				}
			}
		}

		// downstream: response payload lengths 0..4200; the requester's receive buffer is 4096 bytes and the responder never
		// sends more than maxUDPPayload, so lengths beyond are expected to be dropped or truncated BY THE TRANSPORT, which this
		// socket-less monitor does not model: judged only up to what fits the 4096-byte read
		qname, _ := dns.NewName(append([][]byte{[]byte("mfrggzdfmztwq2lk")}, domain...))
		lens := []int{}
		for n := 0; n <= 1300; n++ {
			lens = append(lens, n)
		}
		for n := 1300; n <= 4200; n += kit.Tier(7, 1) {
			lens = append(lens, n)
		}
		for _, n := range lens {
			p := make([]byte, n)
			rng.Read(p)
			desc := fmt.Sprintf("downstream domain=%q len=%d", dom, n)
			rec.CaseCheap(desc)
			rec.Count("evaluations", 1)
			resp := &dns.Message{ID: uint16(n), Flags: 0x8400, Question: []dns.Question{{Name: qname, Type: dns.RRTypeTXT, Class: dns.ClassIN}},
				Additional: []dns.RR{{Name: dns.Name{}, Type: dns.RRTypeOPT, Class: 4096, Data: []byte{}}}}
			var wire []byte
			var err error
			if pk, v, st := c15Try(func() { wire, err = r.dnsRespToUDPResp(resp, p) }); pk {
				rec.Violation("namepacking:downstream:encoder-panic", "dnsRespToUDPResp panicked", map[string]interface{}{"case": desc, "panic": fmt.Sprint(v), "stack": st})
				continue
			}
			if err != nil {
				rec.Count("rejected", 1)
				rec.Distinct("nontrivial", desc)
				continue
			}
			if len(wire) > 4096 {
				rec.Count("downstream_beyond_receive_buffer", 1)
				continue
			}
			for len(pc.QueuePacketConn.OutgoingQueue(c15PeerAddr)) > 0 { // nothing pending upstream
				<-pc.QueuePacketConn.OutgoingQueue(c15PeerAddr)
			}
			parseErrsBefore := c15Logs.count("MessageFromWireFormat: ")
			conn.reads <- wire
			type rr struct {
				b    []byte
				addr net.Addr
				err  error
			}
			ch := make(chan rr, 1)
			go func() {
				buf := make([]byte, 8192)
				k, a, e := pc.ReadFrom(buf)
				ch <- rr{buf[:k], a, e}
			}()
			select {
			case got := <-ch:
				if got.err != nil || !bytes.Equal(got.b, p) {
					rec.Violation("namepacking:downstream:roundtrip-mismatch", "the requester's packet conn does not return the bytes the responder packed into the TXT answer",
						map[string]interface{}{"case": desc, "got_len": len(got.b), "err": fmt.Sprint(got.err), "wire_len": len(wire)})
					continue
				}
				rec.Count("accepted_roundtrips", 1)
				if n > 0 {
					rec.Distinct("nontrivial", desc)
				}
			case <-time.After(c15Watchdog):
				if idle, _ := c15RecvLoopsIdle(); idle && len(conn.reads) == 0 && c15Logs.count("MessageFromWireFormat: ") == parseErrsBefore {
					rec.Violation("namepacking:downstream:answer-read-by-requester-but-swallowed", "the requester's receive loop read the responder's answer, logged no parse error, is parked in its read again, and never delivered the payload",
						map[string]interface{}{"case": desc, "wire_len": len(wire), "payload_len": n})
				} else if c15Logs.count("MessageFromWireFormat: ") > parseErrsBefore {
					rec.Violation("namepacking:downstream:answer-not-parsable", "the answer the responder produced is refused by the requester's parser",
						map[string]interface{}{"case": desc, "log": c15Logs.last("MessageFromWireFormat: ", 3), "wire_len": len(wire)})
				} else {
					rec.Inconclusive("answer not delivered within the watchdog", desc)
				}
				pc.Close() // release the reader
				<-ch
				return
			}
		}
		close(conn.closed)
	}
	rec.Exhaustive("upstream raw packet lengths 0..300 × 5 base domains; downstream payload lengths 0..1300 × 5 base domains")
}

func c15ShortName(q dns.Message) string {
	if len(q.Question) != 1 {
		return fmt.Sprintf("(%d questions)", len(q.Question))
	}
	s := q.Question[0].Name.String()
	if len(s) > 100 {
		s = s[:50] + "…" + s[len(s)-40:]
	}
	return s
}

// ---- exchange ---------------------------------------------------------------------------------------------------------------

// c15Tap wraps the responder's own socket (an interface field of Responder) and counts the datagrams that really crossed it.
// This is the observation point that tells "the encoder refused the value" (nothing was put on the wire) from "the decoder
// refused an encoding that was put on the wire".
type c15Tap struct {
	net.PacketConn
	mu              sync.Mutex
	reqs            int // datagrams received
	answers         int // datagrams sent
	answersWithData int // sent, RCODE 0, one TXT answer with a non-empty payload
	shutByDriver    bool
}

func (t *c15Tap) ReadFrom(p []byte) (int, net.Addr, error) {
	n, a, err := t.PacketConn.ReadFrom(p)
	t.mu.Lock()
	defer t.mu.Unlock()
	if err == nil {
		t.reqs++
	} else if t.shutByDriver {
		// RecvAndRespond retries forever on every net.Error (a closed socket yields one); hand it a plain error so that it returns
		return 0, nil, errors.New("verif: socket closed by the driver")
	}
	return n, a, err
}

// shut closes the socket at the end of a burst (frees the port) in a way that lets RecvAndRespond return.
func (t *c15Tap) shut() {
	t.mu.Lock()
	t.shutByDriver = true
	t.mu.Unlock()
	t.PacketConn.Close()
}

func (t *c15Tap) WriteTo(p []byte, a net.Addr) (int, error) {
	withData := false
	if m, err := dns.MessageFromWireFormat(p); err == nil && m.Rcode() == dns.RcodeNoError && len(m.Answer) == 1 && m.Answer[0].Type == dns.RRTypeTXT {
		if b, err := dns.DecodeRDataTXT(m.Answer[0].Data); err == nil && len(b) > 0 {
			withData = true
		}
	}
	t.mu.Lock()
	t.answers++
	if withData {
		t.answersWithData++
	}
	t.mu.Unlock()
	return t.PacketConn.WriteTo(p, a)
}

type c15TapMarks struct{ reqs, answers, answersWithData int }

func (t *c15Tap) marks() c15TapMarks {
	t.mu.Lock()
	defer t.mu.Unlock()
	return c15TapMarks{t.reqs, t.answers, t.answersWithData}
}

// since returns what crossed the socket after the marks were taken.
func (t *c15Tap) since(m c15TapMarks) c15TapMarks {
	n := t.marks()
	return c15TapMarks{n.reqs - m.reqs, n.answers - m.answers, n.answersWithData - m.answersWithData}
}

type c15Server struct {
	dom    string
	domain dns.Name
	r      *Responder
	tap    *c15Tap
	addr   string
	pub    []byte

	mu       sync.Mutex
	expected map[string][]byte // request payload → response the callback returns
	calls    map[string]int    // request payload → number of callback invocations
	unknown  int
}

func c15StartServer(t *testing.T, dom string) *c15Server {
	priv, err := encryption.GeneratePrivkey()
	if err != nil {
		t.Fatal(err)
	}
	r, err := NewDnsResponder(dom, "127.0.0.1:0", priv)
	if err != nil {
		t.Fatal(err)
	}
	tap := &c15Tap{PacketConn: r.transport}
	r.transport = tap
	s := &c15Server{dom: dom, domain: r.domain, r: r, tap: tap, addr: tap.LocalAddr().String(), pub: encryption.PubkeyFromPrivkey(priv),
		expected: map[string][]byte{}, calls: map[string]int{}}
	// NOTE: the responder is deliberately never closed: after Close, RecvAndRespond spins on the net.Error forever.
	go r.RecvAndRespond(func(b []byte) ([]byte, error) {
		s.mu.Lock()
		defer s.mu.Unlock()
		s.calls[string(b)]++
		if resp, ok := s.expected[string(b)]; ok {
			return resp, nil
		}
		s.unknown++
		return []byte("verif: request unknown to the driver"), nil
	})
	return s
}

// c15ReqTap counts the datagrams the requester's receive loop has really read from its socket.
type c15ReqTap struct {
	mu    sync.Mutex
	reads int
}

func (t *c15ReqTap) n() int {
	t.mu.Lock()
	defer t.mu.Unlock()
	return t.reads
}

type c15ReqConn struct {
	net.Conn
	tap *c15ReqTap
}

func (c *c15ReqConn) Read(p []byte) (int, error) {
	k, err := c.Conn.Read(p)
	if err == nil {
		c.tap.mu.Lock()
		c.tap.reads++
		c.tap.mu.Unlock()
	}
	return k, err
}

var (
	c15ReqTapsMu sync.Mutex
	c15ReqTaps   = map[*requester.Requester]*c15ReqTap{}
)

func c15ReqTapOf(rq *requester.Requester) *c15ReqTap {
	c15ReqTapsMu.Lock()
	defer c15ReqTapsMu.Unlock()
	return c15ReqTaps[rq]
}

func (s *c15Server) newRequester(t *testing.T) *requester.Requester {
	return s.newRequesterFor(t, s.dom)
}

// newRequesterFor makes a requester whose base domain may differ from the responder's (the responder then answers NXDOMAIN).
func (s *c15Server) newRequesterFor(t *testing.T, baseDomain string) *requester.Requester {
	tap := &c15ReqTap{}
	dial := func(ctx context.Context, network, addr string) (net.Conn, error) {
		c, err := (&net.Dialer{}).DialContext(ctx, network, addr)
		if err != nil {
			return nil, err
		}
		return &c15ReqConn{Conn: c, tap: tap}, nil
	}
	rq, err := requester.NewRequester(&requester.Config{TransportMethod: requester.UDP, Target: s.addr, BaseDomain: baseDomain, Pubkey: s.pub, DialTransport: dial})
	if err != nil {
		t.Fatal(err)
	}
	c15ReqTapsMu.Lock()
	c15ReqTaps[rq] = tap
	c15ReqTapsMu.Unlock()
	return rq
}

// c15RecvLoopsIdle reports whether every requester receive loop of this process is parked in its socket read (and how many
// there are): nothing read from a socket is still being processed.
func c15RecvLoopsIdle() (bool, int) {
	buf := make([]byte, 1<<20)
	for {
		k := runtime.Stack(buf, true)
		if k < len(buf) {
			buf = buf[:k]
			break
		}
		buf = make([]byte, 2*len(buf))
	}
	n, idle := 0, true
	for _, blk := range bytes.Split(buf, []byte("\n\n")) {
		if !bytes.Contains(blk, []byte("requester.(*DNSPacketConn).recvLoop(")) {
			continue
		}
		n++
		hdr := blk[:bytes.IndexByte(blk, '\n')+1]
		// parked in the UDP socket read ("IO wait") or in the driver's capture conn's Read ("select")
		if !bytes.HasPrefix(blk, []byte("goroutine ")) || !(bytes.Contains(hdr, []byte("[IO wait")) || bytes.Contains(hdr, []byte("[select"))) {
			idle = false
		}
	}
	return idle, n
}

type c15Call struct {
	s        *c15Server
	rq       *requester.Requester
	desc     string
	payload  []byte
	response []byte
	reqFits  bool
	marks    c15Marks    // log counters when the call was started
	tmarks   c15TapMarks // datagram counters of the responder's socket when the call was started
	rreads   int         // datagrams read by this requester's receive loop when the call was started
	foreign  bool        // the requester's base domain is deliberately not the responder's: an error is the expected outcome
	done     chan struct{}
	res      []byte
	err      error
	panicked string
}

func (s *c15Server) start(rq *requester.Requester, desc string, payload, response []byte) *c15Call {
	c := &c15Call{s: s, rq: rq, desc: desc, payload: payload, response: response, done: make(chan struct{}),
		reqFits: c15FitsName(c15NoiseOverhead+len(payload), s.domain), marks: c15Logs.marks(), tmarks: s.tap.marks()}
	if rt := c15ReqTapOf(rq); rt != nil {
		c.rreads = rt.n()
	}
	s.mu.Lock()
	s.expected[string(payload)] = response
	delete(s.calls, string(payload))
	s.mu.Unlock()
	go func() {
		defer close(c.done)
		if pk, v, st := c15Try(func() { c.res, c.err = rq.RequestAndRecv(payload) }); pk {
			c.panicked = fmt.Sprint(v) + "\n" + st
		}
	}()
	return c
}

func (c *c15Call) finished(wait time.Duration) bool {
	if wait <= 0 {
		select {
		case <-c.done:
			return true
		default:
			return false
		}
	}
	tm := time.NewTimer(wait)
	defer tm.Stop()
	select {
	case <-c.done:
		return true
	case <-tm.C:
		return false
	}
}

func (c *c15Call) callbackCalls() int {
	c.s.mu.Lock()
	defer c.s.mu.Unlock()
	return c.s.calls[string(c.payload)]
}

func (c *c15Call) reqClass() string {
	if c.reqFits {
		return "request-fits-a-name"
	}
	return "request-beyond-a-name"
}

// judge evaluates a finished call.  exclusive = nothing else used this server while the call ran, so every datagram that crossed
// the responder's socket since the call started belongs to it.
func (c *c15Call) judge(rec *kit.Rec, exclusive bool) {
	reqClass := c.reqClass()
	if c.panicked != "" {
		rec.Violation("exchange:panic:"+reqClass, "RequestAndRecv panicked", map[string]interface{}{"case": c.desc, "panic": c.panicked})
		return
	}
	calls := c.callbackCalls()
	if c.err != nil {
		// A refusal by an ENCODER is acceptable whatever the size: the requester refusing to build the request, or the responder
		// declining to carry the callback's value (it then sends an answer without data).  A refusal by a DECODER of something
		// its peer encoded without error and put on the wire is not.
		if exclusive {
			x := c.s.tap.since(c.tmarks)
			d := map[string]interface{}{"case": c.desc, "error": c.err.Error(), "callback_invocations_for_this_payload": calls,
				"datagrams_received_by_responder": x.reqs, "answers_sent": x.answers, "answers_sent_carrying_data": x.answersWithData}
			switch {
			case calls > 0 && x.answersWithData > 0:
				rec.Violation("exchange:"+reqClass+":requester-refuses-response-encoded-and-sent-without-error",
					"the responder encrypted, framed and sent the callback's value without an error, but RequestAndRecv could not decode it", d)
				return
			case calls == 0 && x.reqs > 0 && !c.foreign:
				rec.Violation("exchange:"+reqClass+":responder-refuses-request-encoded-without-error",
					"the requester encoded and sent the request without an error but the responder could not decode it (its callback never ran)", d)
				return
			}
		}
		rec.Count("rejected", 1)
		rec.Count("rejected_"+reqClass, 1)
		if calls > 0 {
			rec.Count("rejected_by_responder_side_encoder", 1)
		} else {
			rec.Count("rejected_by_requester_side_encoder", 1)
		}
		rec.Distinct("nontrivial", c.desc)
		rec.Distinct("reject_reasons", c15ErrClass(c.err))
		return
	}
	if calls == 0 {
		c.s.mu.Lock()
		unknown := c.s.unknown
		c.s.mu.Unlock()
		rec.Violation("exchange:result-without-callback:"+reqClass, "RequestAndRecv returned a result although the responder's callback never received this payload (the request was altered on the way, or the result is not the callback's)",
			map[string]interface{}{"case": c.desc, "result": kit.HexN(c.res, 24), "payload": kit.HexN(c.payload, 24), "unknown_payloads_seen_by_callback": unknown})
		return
	}
	if !bytes.Equal(c.res, c.response) {
		rec.Violation("exchange:response-altered:"+reqClass, "RequestAndRecv returned bytes that differ from what the responder's callback returned",
			map[string]interface{}{"case": c.desc, "want_len": len(c.response), "got_len": len(c.res), "want": kit.HexN(c.response, 16), "got": kit.HexN(c.res, 16)})
		return
	}
	rec.Count("accepted_roundtrips", 1)
	rec.Count("accepted_roundtrips_"+reqClass, 1)
	if len(c.payload)+len(c.response) > 0 {
		rec.Distinct("nontrivial", c.desc)
	}
	rec.Distinct("request_lengths_ok", c.s.dom, len(c.payload))
	rec.Distinct("response_lengths_ok", c.s.dom, len(c.response))
	if rec.WantSample() && len(c.payload) > 60 && len(c.response) > 100 {
		rec.Sample(map[string]interface{}{"case": c.desc, "callback_saw_payload": true, "result_equals_callback_return": true, "callback_invocations": calls})
	}
}

func c15ErrClass(err error) string {
	s := err.Error()
	for _, k := range []string{"name is longer", "message authentication failed", "too long", "invalid message length", "label longer"} {
		if strings.Contains(s, k) {
			return k
		}
	}
	if len(s) > 60 {
		s = s[:60]
	}
	return s
}

// c15Stuck evaluates calls (all on the same server) that are still running after the watchdog.  All of them were started
// after the marks were taken and nothing else used that server since, so what crossed the responder's socket and what was
// logged since then belongs to them.  "Never sent" is concluded for the calls whose callback never ran only if no datagram
// beyond those of the calls whose callback did run reached the responder AND the requester logged at least as many refusals of
// its name encoder as there are such calls; "never answered" only if the responder sent nothing AND logged as many refusals.
// finishedWithCallback = calls started after the same marks that have returned and whose callback ran: each of them accounts
// for one received datagram and at most one answer.
func c15Stuck(rec *kit.Rec, calls []*c15Call, finishedWithCallback int, marks c15Marks, tmarks c15TapMarks, waited time.Duration) {
	stable, parked := c15ParkedStable(len(calls))
	var noCallback, withCallback int
	for _, c := range calls {
		if c.callbackCalls() == 0 {
			noCallback++
		} else {
			withCallback++
		}
	}
	x := calls[0].s.tap.since(tmarks)
	sendDrops := c15Logs.since(marks, "send: ")
	respDrops := c15Logs.since(marks, "dnsRespToUDPResp err", "AddFormat err")
	for _, c := range calls {
		n := c.callbackCalls()
		d := map[string]interface{}{"case": c.desc, "waited": waited.Round(time.Millisecond).String(), "callback_invocations_for_this_payload": n,
			"calls_still_running": len(calls), "of_which_callback_never_ran": noCallback, "calls_of_the_same_batch_that_returned_after_their_callback_ran": finishedWithCallback,
			"goroutines_parked_in_RequestAndRecv": parked, "parked_state_stable": stable,
			"datagrams_received_by_responder_since_start": x.reqs, "answers_sent_by_responder_since_start": x.answers,
			"requester_name_encoder_refusals_logged_since_start": sendDrops, "responder_answer_encoder_refusals_logged_since_start": respDrops,
			"requester_log": c15Logs.last("send: ", 3), "responder_log": append(append(c15Logs.last("dnsRespToUDPResp err", 2), c15Logs.last("AddFormat err", 2)...), c15Logs.last("RemoveFormat err", 2)...)}
		readByRequester := 0
		if rt := c15ReqTapOf(c.rq); rt != nil {
			readByRequester = rt.n() - c.rreads
		}
		recvIdle, recvLoops := c15RecvLoopsIdle()
		d["answer_datagrams_read_by_this_requesters_receive_loop"] = readByRequester
		d["requester_receive_loops_all_parked_in_socket_read"] = recvIdle
		d["requester_receive_loops"] = recvLoops
		d["answers_carrying_data_sent_by_responder_since_start"] = x.answersWithData
		switch {
		case !stable:
			rec.Inconclusive("call still running after the watchdog but no stable parked state", d)
		case readByRequester >= 1 && recvIdle && x.answers >= 1:
			// the responder put an answer on the wire, this requester's receive loop read it from its socket and is parked in the
			// socket read again, and RequestAndRecv is still waiting: the answer was swallowed
			kind := "answer-without-data"
			if x.answersWithData >= len(calls)+finishedWithCallback {
				kind = "answer-with-data"
			}
			rec.Violation("exchange:"+c.reqClass()+":"+kind+"-read-by-requester-but-swallowed-and-RequestAndRecv-blocks-forever",
				"the responder's answer reached the requester's receive loop, which dropped it: RequestAndRecv returns neither the reply nor an error", d)
		case n == 0 && x.reqs <= withCallback+finishedWithCallback && sendDrops >= noCallback:
			rec.Violation("exchange:"+c.reqClass()+":never-sent-and-RequestAndRecv-blocks-forever",
				"the request was refused by the requester's name encoder, but the refusal is only logged: RequestAndRecv neither returns an error nor an answer", d)
		case n == 0 && x.reqs >= len(calls)+finishedWithCallback && finishedWithCallback == 0:
			rec.Violation("exchange:"+c.reqClass()+":responder-refuses-request-encoded-without-error",
				"the requester encoded and sent the request without an error but the responder could not decode it (its callback never ran); RequestAndRecv waits forever", d)
		case n > 0 && x.answers <= finishedWithCallback && respDrops >= withCallback:
			rec.Violation("exchange:response-beyond-an-rr:never-sent-and-RequestAndRecv-blocks-forever",
				"the callback's return value does not fit a DNS resource record (or its length framing); the responder only logs its encoder's refusal and sends nothing, RequestAndRecv waits forever", d)
		case n > 0 && x.answersWithData >= withCallback+finishedWithCallback:
			rec.Violation("exchange:"+c.reqClass()+":requester-drops-response-encoded-and-sent-without-error",
				"the responder sent an answer carrying the callback's value but the requester never delivered it; RequestAndRecv waits forever", d)
		default:
			rec.Inconclusive("call still running after the watchdog, no proof of where the datagram was dropped (possible UDP loss)", d)
		}
	}
}

func c15Parked() int {
	n := 0
	for _, g := range kit.InFunc(kit.Stacks(), "requester.(*Requester).RequestAndRecv") {
		if g.State == "select" || g.State == "chan receive" {
			n++
		}
	}
	return n
}

// c15ParkedStable samples the stacks three times and reports whether the same number (>= want) of goroutines sits parked inside
// RequestAndRecv every time.
func c15ParkedStable(want int) (bool, int) {
	a := c15Parked()
	time.Sleep(400 * time.Millisecond)
	b := c15Parked()
	time.Sleep(400 * time.Millisecond)
	c := c15Parked()
	return a == b && b == c && a >= want, c
}

const c15Watchdog = 20 * time.Second

func c15Payload(rng *mrand.Rand, n int) []byte {
	p := make([]byte, n)
	rng.Read(p)
	return p
}

func c15Capacity(domain dns.Name) int {
	if !c15FitsName(c15NoiseOverhead, domain) {
		return -1
	}
	n := 0
	for c15FitsName(c15NoiseOverhead+n+1, domain) {
		n++
	}
	return n
}

func TestVerifC15Exchange(t *testing.T) {
	log.SetOutput(c15Logs)
	rec := kit.NewRec("C15", "exchange")
	defer rec.Close()
	rng := kit.Rand("c15exchange")
	t0 := time.Now()

	doms := c15Domains()
	servers := map[string]*c15Server{}
	for _, d := range doms {
		servers[d] = c15StartServer(t, d)
	}

	// ---- sequential sweep: one call in flight at a time, so every logged drop belongs to the call that is running --------
	stuckN := 0
	foreign := false
	run := func(s *c15Server, rq **requester.Requester, reqLen, respLen int, note string) {
		if stuckN >= 2 { // two calls that never return are enough evidence; each costs a full watchdog
			return
		}
		p, resp := c15Payload(rng, reqLen), c15Payload(rng, respLen)
		desc := fmt.Sprintf("domain=%q request=%d response=%d %s", s.dom, reqLen, respLen, note)
		rec.Case(desc)
		rec.Count("evaluations", 1)
		c := s.start(*rq, desc, p, resp)
		c.foreign = foreign
		if c.finished(c15Watchdog) {
			c.judge(rec, true)
			s.mu.Lock()
			delete(s.expected, string(p))
			s.mu.Unlock()
			return
		}
		c15Stuck(rec, []*c15Call{c}, 0, c.marks, c.tmarks, c15Watchdog)
		stuckN++
		old := *rq
		*rq = s.newRequester(t) // the old one has a reader parked on its queue
		old.Close()
		c.finished(10 * time.Second)
	}

	// error-RCODE path through the real pair: a requester whose base domain the responder is not authoritative for gets an
	// NXDOMAIN answer; RequestAndRecv must turn that into an error (the callback never runs)
	foreign = true
	for i, other := range []string{"other.example.net", "example.com", "u.t.example.org"} {
		s := servers[doms[0]]
		rq := s.newRequesterFor(t, other)
		run(s, &rq, 20+i, 30, "requester-base-domain="+other+" (responder answers NXDOMAIN)")
	}
	foreign = false
	for di, d := range doms {
		s := servers[d]
		rq := s.newRequester(t)
		capacity := c15Capacity(s.domain)
		// every request length from 0 to the capacity of one name
		for n := 0; n <= capacity; n++ {
			run(s, &rq, n, (n*13)%600, "reused-requester")
			if n%16 == 5 {
				fresh := s.newRequester(t)
				run(s, &fresh, n, 40, "fresh-requester")
			}
		}
		// every response length from 0 to beyond what a UDP answer can carry (answers beyond are replaced by an empty answer,
		// which the requester must turn into an error)
		step := 1
		if di != 0 && !kit.Thorough() {
			step = 17
		}
		for n := 0; n <= 1400; n += step {
			run(s, &rq, (20+n%50)%(capacity+1), n, "reused-requester")
		}
		for _, n := range []int{2000, 4000, 4078, 4079, 4080, 4094, 4095, 4096, 5000, 16384, 40000, 64000} {
			run(s, &rq, 30, n, "reused-requester")
		}
	}
	t.Logf("sweep done after %v, calls that never returned: %d", time.Since(t0).Round(time.Millisecond), stuckN)
	// seeded pairs
	rqs := map[string]*requester.Requester{}
	for i, n := 0, kit.Tier(700, 120000); i < n; i++ {
		s := servers[doms[rng.Intn(len(doms))]]
		if rqs[s.dom] == nil || i%500 == 0 {
			rqs[s.dom] = s.newRequester(t)
		}
		rq := rqs[s.dom]
		run(s, &rq, rng.Intn(c15Capacity(s.domain)+1), rng.Intn(1300), "seeded")
		rqs[s.dom] = rq
	}
	t.Logf("seeded pairs done after %v, calls that never returned: %d", time.Since(t0).Round(time.Millisecond), stuckN)
	rec.Exhaustive("request payload lengths 0..capacity of one name × 5 base domains; response payload lengths 0..1400 (first domain: every length)")

	// ---- calls beyond the limits, each on its own requester, all started together and judged after one watchdog ---------------
	main := servers[doms[0]]
	capacity := c15Capacity(main.domain)
	batchMarks, batchTapMarks := c15Logs.marks(), main.tap.marks()
	batchStart := time.Now()
	var batch []*c15Call
	for _, n := range []int{capacity + 1, capacity + 2, capacity + 7, 150, 206, 207, 208, 255, 256, 300, 1000, 4000, 65535 - 48, 65535 - 47, 65536, 70000} {
		desc := fmt.Sprintf("domain=%q request=%d response=16 own-requester (request beyond one name)", main.dom, n)
		rec.Case(desc)
		batch = append(batch, main.start(main.newRequester(t), desc, c15Payload(rng, n), c15Payload(rng, 16)))
	}
	for _, n := range []int{65000, 65200, 65300, 65519, 65520, 65535, 65536, 70000} {
		desc := fmt.Sprintf("domain=%q request=24 response=%d own-requester (response beyond one RR)", main.dom, n)
		rec.Case(desc)
		batch = append(batch, main.start(main.newRequester(t), desc, c15Payload(rng, 24), c15Payload(rng, n)))
	}
	var running []*c15Call
	finishedWithCallback := 0
	for _, c := range batch {
		rec.Count("evaluations", 1)
		rest := c15Watchdog - time.Since(batchStart)
		if c.finished(rest) {
			c.judge(rec, false)
			if c.callbackCalls() > 0 {
				finishedWithCallback++
			}
		} else {
			running = append(running, c)
		}
	}
	if len(running) > 0 {
		c15Stuck(rec, running, finishedWithCallback, batchMarks, batchTapMarks, time.Since(batchStart))
		for _, c := range running { // release the parked readers
			c.rq.Close()
		}
		for _, c := range running {
			c.finished(10 * time.Second)
		}
	}
	rec.Count("log_lines_captured", c15Logs.total)
}

// ---- craftResponse on a caller-owned buffer -----------------------------------------------------------------------------------

// TestVerifC15CraftResponse hands the SAME encrypted request bytes to the real craftResponse twice (a retransmitted query):
// the callback must see the payload both times, the caller's buffer must be unchanged, and the first answer must decrypt to
// the callback's return under the initiator's cipher state.
func TestVerifC15CraftResponse(t *testing.T) {
	log.SetOutput(c15Logs)
	rec := kit.NewRec("C15", "craft")
	defer rec.Close()
	rng := kit.Rand("c15craft")
	priv, err := encryption.GeneratePrivkey()
	if err != nil {
		t.Fatal(err)
	}
	r, err := NewDnsResponder("t.example.com", "127.0.0.1:0", priv)
	if err != nil {
		t.Fatal(err)
	}
	defer r.Close() // RecvAndRespond is not running here
	pub := encryption.PubkeyFromPrivkey(priv)
	for n := 0; n <= kit.Tier(300, 2000); n++ {
		desc := fmt.Sprintf("craftResponse request=%d response=%d", n, (n*7)%900)
		rec.CaseCheap(desc)
		rec.Count("evaluations", 1)
		req, resp := c15Payload(rng, n), c15Payload(rng, (n*7)%900)
		ic := encryption.NewConfig()
		ic.Initiator = true
		ic.PeerStatic = pub
		ih, err := noise.NewHandshakeState(ic)
		if err != nil {
			t.Fatal(err)
		}
		msg, iRecv, _, err := ih.WriteMessage(nil, req)
		if err != nil {
			rec.Count("rejected", 1)
			continue
		}
		snap := append([]byte(nil), msg...)
		var seen [][]byte
		cb := func(b []byte) ([]byte, error) {
			seen = append(seen, append([]byte(nil), b...))
			return resp, nil
		}
		var out1, out2 []byte
		var e1, e2 error
		if pk, v, st := c15Try(func() {
			out1, e1 = r.craftResponse(msg, cb)
			out2, e2 = r.craftResponse(msg, cb)
		}); pk {
			rec.Violation("craft:panic", "craftResponse panicked on a request the initiator produced", map[string]interface{}{"case": desc, "panic": fmt.Sprint(v), "stack": st})
			continue
		}
		if !bytes.Equal(msg, snap) {
			rec.Violation("craft:decoder-modifies-its-input", "craftResponse changed the caller's request buffer", map[string]interface{}{"case": desc})
			continue
		}
		if e1 != nil || e2 != nil || len(seen) != 2 || !bytes.Equal(seen[0], req) || !bytes.Equal(seen[1], req) {
			rec.Violation("craft:request-not-recovered-on-every-read", "the same encrypted request handed to craftResponse twice did not give the callback the payload both times",
				map[string]interface{}{"case": desc, "err1": fmt.Sprint(e1), "err2": fmt.Sprint(e2), "callback_invocations": len(seen)})
			continue
		}
		got, derr := iRecv.Decrypt(nil, nil, out1)
		if derr != nil || !bytes.Equal(got, resp) {
			rec.Violation("craft:response-mismatch", "the initiator cannot decrypt craftResponse's answer to the callback's return value", map[string]interface{}{"case": desc, "error": fmt.Sprint(derr)})
			continue
		}
		_ = out2
		rec.Count("accepted_roundtrips", 1)
		if n > 0 {
			rec.Distinct("nontrivial", desc)
		}
	}
}

// ---- concurrent exchange --------------------------------------------------------------------------------------------------------

// c15CountConn counts the datagrams a requester has really handed to its socket.
type c15CountConn struct {
	net.Conn
	mu   *sync.Mutex
	n    *int
	shut bool
}

// Read hands the requester's recvLoop a plain error once the driver has closed the socket (it would spin on a net.Error).
func (c *c15CountConn) Read(p []byte) (int, error) {
	k, err := c.Conn.Read(p)
	if err != nil {
		c.mu.Lock()
		shut := c.shut
		c.mu.Unlock()
		if shut {
			return 0, errors.New("verif: socket closed by the driver")
		}
	}
	return k, err
}

func (c *c15CountConn) shutdown() {
	c.mu.Lock()
	c.shut = true
	c.mu.Unlock()
	c.Conn.Close()
}

func (c *c15CountConn) Write(p []byte) (int, error) {
	k, err := c.Conn.Write(p)
	if err == nil {
		c.mu.Lock()
		*c.n++
		c.mu.Unlock()
	}
	return k, err
}

// c15Answer is what the callback of the concurrent phase returns for a payload: derived from it, different for different
// payloads, of varying length.
func c15Answer(p []byte) []byte {
	h := sha256.Sum256(p)
	out := append([]byte("answer-to:"), h[:]...)
	return append(out, p[:len(p)/2]...)
}

type c15Burst struct {
	mode string
	n    int
	lens string
}

func c15RunBurst(t *testing.T, rec *kit.Rec, rng *mrand.Rand, b c15Burst, idx int) (clean bool) {
	desc := fmt.Sprintf("burst#%d mode=%s requesters=%d payload-lengths=%s", idx, b.mode, b.n, b.lens)
	rec.Case(desc)
	rec.Count("evaluations", 1)

	priv, err := encryption.GeneratePrivkey()
	if err != nil {
		t.Fatal(err)
	}
	const dom = "t.example.com"
	r, err := NewDnsResponder(dom, "127.0.0.1:0", priv)
	if err != nil {
		t.Fatal(err)
	}
	tap := &c15Tap{PacketConn: r.transport}
	r.transport = tap
	pub := encryption.PubkeyFromPrivkey(priv)
	var mu sync.Mutex
	args := map[string]int{}
	var argOrder [][]byte
	serve := func() {
		// never closed: after Close, RecvAndRespond spins on the net.Error forever
		go r.RecvAndRespond(func(p []byte) ([]byte, error) {
			mu.Lock()
			args[string(p)]++
			argOrder = append(argOrder, append([]byte(nil), p...))
			mu.Unlock()
			return c15Answer(p), nil
		})
	}

	// unique payloads: 8-byte burst/requester id + random bytes; all of one length, or mixed lengths
	capacity := c15Capacity(r.domain)
	fixed := 12 + rng.Intn(capacity-12)
	payloads := make([][]byte, b.n)
	for i := range payloads {
		l := fixed
		if b.lens == "mixed" {
			l = 12 + rng.Intn(capacity-12)
		}
		p := c15Payload(rng, l)
		copy(p, fmt.Sprintf("%04x%04x", idx&0xffff, i))
		payloads[i] = p
	}

	var wmu sync.Mutex
	writes := 0
	var conns []*c15CountConn
	dial := func(ctx context.Context, network, addr string) (net.Conn, error) {
		c, err := (&net.Dialer{}).DialContext(ctx, network, addr)
		if err != nil {
			return nil, err
		}
		cc := &c15CountConn{Conn: c, mu: &wmu, n: &writes}
		wmu.Lock()
		conns = append(conns, cc)
		wmu.Unlock()
		return cc, nil
	}
	type outcome struct {
		res  []byte
		err  error
		pk   string
		done chan struct{}
	}
	outs := make([]*outcome, b.n)
	rqs := make([]*requester.Requester, b.n)
	for i := range rqs {
		rq, err := requester.NewRequester(&requester.Config{TransportMethod: requester.UDP, Target: tap.LocalAddr().String(), BaseDomain: dom, Pubkey: pub, DialTransport: dial})
		if err != nil {
			t.Fatal(err)
		}
		rqs[i] = rq
		outs[i] = &outcome{done: make(chan struct{})}
	}
	if b.mode == "barrier" {
		serve()
	}
	release := make(chan struct{})
	var ready sync.WaitGroup
	for i := range rqs {
		ready.Add(1)
		go func(i int) {
			defer close(outs[i].done)
			ready.Done()
			<-release
			if pk, v, st := c15Try(func() { outs[i].res, outs[i].err = rqs[i].RequestAndRecv(payloads[i]) }); pk {
				outs[i].pk = fmt.Sprint(v) + "\n" + st
			}
		}(i)
	}
	ready.Wait()
	start := time.Now()
	close(release)
	sent := func() int {
		wmu.Lock()
		defer wmu.Unlock()
		return writes
	}
	if b.mode == "prequeued" {
		// wait until every query is in the responder's socket buffer (loopback delivery is synchronous with the send), then
		// start reading
		for sent() < b.n && time.Since(start) < c15Watchdog {
			time.Sleep(200 * time.Microsecond)
		}
		serve()
	}
	deadline := time.NewTimer(c15Watchdog)
	defer deadline.Stop()
	timedOut := false
	for i := range outs {
		if timedOut {
			select {
			case <-outs[i].done:
			default:
			}
			continue
		}
		select {
		case <-outs[i].done:
		case <-deadline.C:
			timedOut = true
		}
	}
	if timedOut {
		time.Sleep(500 * time.Millisecond) // let handlers that are mid-way finish recording
	}

	// ---- judge the burst ----------------------------------------------------------------------------------------------------
	mu.Lock()
	seen := map[string]int{}
	for k, v := range args {
		seen[k] = v
	}
	order := append([][]byte(nil), argOrder...)
	mu.Unlock()
	x := tap.marks()
	nSent := sent()
	base := map[string]interface{}{"case": desc, "datagrams_sent_by_requesters": nSent, "datagrams_read_by_responder": x.reqs,
		"answers_sent_by_responder": x.answers, "answers_carrying_data": x.answersWithData, "callback_invocations": len(order)}
	with := func(extra map[string]interface{}) map[string]interface{} {
		d := map[string]interface{}{}
		for k, v := range base {
			d[k] = v
		}
		for k, v := range extra {
			d[k] = v
		}
		return d
	}
	clean = true
	isSent := map[string]int{}
	for i, p := range payloads {
		isSent[string(p)] = i
	}
	for _, a := range order {
		if _, ok := isSent[string(a)]; !ok {
			clean = false
			rec.Violation("concurrent:"+b.mode+":callback-received-a-payload-nobody-sent", "the responder's callback was handed bytes that no requester sent",
				with(map[string]interface{}{"payload": kit.HexN(a, 24)}))
			break
		}
	}
	for i, p := range payloads {
		o := outs[i]
		finished := false
		select {
		case <-o.done:
			finished = true
		default:
		}
		id := fmt.Sprintf("requester %d payload %s…(%dB)", i, string(p[:8]), len(p))
		k := seen[string(p)]
		switch {
		case o.pk != "":
			clean = false
			rec.Violation("concurrent:"+b.mode+":panic", "RequestAndRecv panicked", with(map[string]interface{}{"requester": id, "panic": o.pk}))
		case k > 1:
			clean = false
			rec.Violation("concurrent:"+b.mode+":payload-decoded-more-than-once", "one requester's payload reached the callback more than once although it was sent once (another query's handler decoded it)",
				with(map[string]interface{}{"requester": id, "times": k}))
		case k == 0 && x.reqs >= b.n && nSent >= b.n:
			clean = false
			rec.Violation("concurrent:"+b.mode+":request-read-but-never-decoded", "every query was read from the socket by the responder, yet this requester's payload never reached the callback",
				with(map[string]interface{}{"requester": id, "finished": finished, "error": fmt.Sprint(o.err)}))
		case finished && o.err == nil && !bytes.Equal(o.res, c15Answer(p)):
			clean = false
			rec.Violation("concurrent:"+b.mode+":result-is-not-the-answer-to-own-payload", "RequestAndRecv returned bytes that are not the callback's answer to this requester's payload",
				with(map[string]interface{}{"requester": id, "got": kit.HexN(o.res, 24), "want": kit.HexN(c15Answer(p), 24)}))
		case finished && o.err != nil && k == 1:
			clean = false
			rec.Violation("concurrent:"+b.mode+":requester-cannot-decode-the-answer-it-received", "the callback answered this requester's payload, but RequestAndRecv failed on the answer datagram it received (an answer meant for another session?)",
				with(map[string]interface{}{"requester": id, "error": fmt.Sprint(o.err)}))
		case finished && o.err != nil:
			clean = false
			rec.Inconclusive("RequestAndRecv failed and the query is not proven to have reached the responder", with(map[string]interface{}{"requester": id, "error": fmt.Sprint(o.err)}))
		case !finished:
			clean = false
			rec.Inconclusive("no answer within the watchdog and no proof of cross-talk (possible UDP loss)", with(map[string]interface{}{"requester": id, "callback_saw_payload": k}))
		default:
			rec.Count("accepted_roundtrips", 1)
			rec.Distinct("nontrivial", desc, i)
		}
	}
	for i, o := range outs { // release readers that are still parked
		select {
		case <-o.done:
		default:
			rqs[i].Close()
		}
	}
	// free the sockets of this burst (thousands of bursts would otherwise exhaust the ephemeral ports)
	wmu.Lock()
	cs := append([]*c15CountConn(nil), conns...)
	wmu.Unlock()
	for _, c := range cs {
		c.shutdown()
	}
	tap.shut()
	if clean {
		rec.Count("bursts_clean", 1)
		rec.Distinct("burst_shapes", b.mode, b.n, b.lens)
		if rec.WantSample() && b.n >= 16 {
			rec.Sample(base)
		}
	}
	return clean
}

func TestVerifC15ExchangeConcurrent(t *testing.T) {
	log.SetOutput(c15Logs)
	rec := kit.NewRec("C15", "concurrent")
	defer rec.Close()
	rng := kit.Rand("c15concurrent")
	reps := kit.Tier(4, 40)
	idx, dirty := 0, 0
	for rep := 0; rep < reps; rep++ {
		for _, mode := range []string{"prequeued", "barrier"} {
			for _, n := range []int{4, 16, 32} {
				for _, lens := range []string{"equal", "mixed"} {
					if dirty >= 3 { // enough evidence; a burst that hangs costs a full watchdog
						return
					}
					idx++
					if !c15RunBurst(t, rec, rng, c15Burst{mode, n, lens}, idx) {
						dirty++
					}
				}
			}
		}
	}
}

// ---- capacity grid: WriteTo's verdict against the wire ---------------------------------------------------------------------------

// c15DomainOfWire builds a base domain whose wire encoding (length octets + labels + root octet) is exactly w octets.
// shape 0: as few labels as possible (63-byte labels first); shape 1: seeded label lengths 1..20.
func c15DomainOfWire(rng *mrand.Rand, w, shape int) dns.Name {
	rest := w - 1 // octets for (length octet + label) pairs
	var lens []int
	for rest > 0 {
		max := rest - 1
		if max > 63 {
			max = 63
		}
		l := max
		if shape == 1 && max > 1 {
			l = 1 + rng.Intn(max)
			if l > 20 {
				l = 1 + rng.Intn(20)
			}
		}
		if rest-(1+l) == 1 { // would leave a lone length octet
			if l > 1 {
				l--
			} else {
				l++
			}
		}
		lens = append(lens, l)
		rest -= 1 + l
	}
	var labels [][]byte
	for i, l := range lens {
		b := make([]byte, l)
		for j := range b {
			b[j] = "abcdefghijklmnopqrstuvwxyz0123456789"[(i*7+j)%36]
		}
		labels = append(labels, b)
	}
	name, err := dns.NewName(labels)
	if err != nil {
		panic(fmt.Sprintf("driver bug: domain of wire length %d: %v", w, err))
	}
	if c15DomainWire(name) != w {
		panic(fmt.Sprintf("driver bug: domain of wire length %d came out as %d", w, c15DomainWire(name)))
	}
	return name
}

// c15SendLoopsIdle reports whether every requester send loop of this process is parked waiting for a packet (and how many there
// are).  Only one packet is in flight at a time in the grid test, so "all idle" means "ours is idle".
func c15SendLoopsIdle() (bool, int) {
	buf := make([]byte, 1<<20)
	for {
		k := runtime.Stack(buf, true)
		if k < len(buf) {
			buf = buf[:k]
			break
		}
		buf = make([]byte, 2*len(buf))
	}
	n, idle := 0, true
	for _, blk := range bytes.Split(buf, []byte("\n\n")) {
		if !bytes.Contains(blk, []byte("requester.(*DNSPacketConn).sendLoop(")) {
			continue // (the "created by ...NewDNSPacketConn.func2" line of a send loop does not match: no "sendLoop(" in it)
		}
		n++
		if !bytes.HasPrefix(blk, []byte("goroutine ")) || !bytes.Contains(blk[:bytes.IndexByte(blk, '\n')+1], []byte("[chan receive")) {
			idle = false
		}
	}
	return idle, n
}

// c15GridWireLens: the root domain (1 octet) and every wire length a non-empty domain can have from 3 to 200 octets.
func c15GridWireLens() []int {
	out := []int{1}
	for w := 3; w <= 200; w++ {
		out = append(out, w)
	}
	return out
}

func TestVerifC15NameCapacityGrid(t *testing.T) {
	log.SetOutput(c15Logs)
	rec := kit.NewRec("C15", "namecapacity")
	defer rec.Close()
	rng := kit.Rand("c15namecapacity")

	nConns := 0
	if _, k := c15SendLoopsIdle(); k > 0 {
		nConns = k // send loops left parked by earlier tests of this process
	}
	for _, w := range c15GridWireLens() {
		for shape := 0; shape < 2; shape++ {
			domain := c15DomainOfWire(rng, w, shape)
			r := &Responder{domain: domain, maxUDPPayload: 1280 - 40 - 8}
			conn := newC15CapConn()
			pc := requester.NewDNSPacketConn(conn, c15PeerAddr, domain)
			nConns++
			maxPacket := -1
			for c15FitsName(maxPacket+1, domain) {
				maxPacket++
			}
			sizes := map[int]bool{}
			for d := -3; d <= 3; d++ {
				if maxPacket+d >= 0 {
					sizes[maxPacket+d] = true
				}
			}
			sizes[0] = true
			sizes[rng.Intn(maxPacket+10)] = true
			var order []int
			for n := range sizes {
				order = append(order, n)
			}
			sort.Ints(order)
			for _, n := range order {
				fits := c15FitsName(n, domain)
				desc := fmt.Sprintf("domain-wire-len=%d shape=%d (%d labels) packet=%d max-packet-by-reference=%d fits=%v", w, shape, len(domain), n, maxPacket, fits)
				rec.CaseCheap(desc)
				rec.Count("evaluations", 1)
				p := c15Payload(rng, n)
				marks := c15Logs.marks()
				var werr error
				if pk, v, st := c15Try(func() { _, werr = pc.WriteTo(p, c15PeerAddr) }); pk {
					rec.Violation("namecapacity:panic", "DNSPacketConn.WriteTo panicked", map[string]interface{}{"case": desc, "panic": fmt.Sprint(v), "stack": st})
					continue
				}
				// wait for the query on the transport, or for the send loop to be idle again with nothing queued
				var wire []byte
				idle := false
				deadline := time.Now().Add(c15Watchdog)
				if werr != nil && len(pc.QueuePacketConn.OutgoingQueue(c15PeerAddr)) == 0 && len(conn.writes) == 0 {
					// refused and nothing queued: the send loop (idle since the previous case) has nothing to take.  A query that
					// appears nevertheless is caught by the per-domain check below.
					idle = true
				}
				for wire == nil && !idle && time.Now().Before(deadline) {
					wait := 2 * time.Millisecond
					select {
					case wire = <-conn.writes:
					case <-time.After(wait):
						if len(pc.QueuePacketConn.OutgoingQueue(c15PeerAddr)) == 0 {
							if ok, k := c15SendLoopsIdle(); ok && k == nConns {
								select { // the write may have landed between the two looks
								case wire = <-conn.writes:
								default:
									idle = true
								}
							}
						}
					}
				}
				d := map[string]interface{}{"case": desc, "WriteTo_error": fmt.Sprint(werr), "query_on_the_wire": wire != nil, "send_loop_idle_and_queue_empty": idle,
					"name_encoder_refusals_logged": c15Logs.since(marks, "send: "), "requester_log": c15Logs.last("send: ", 1)}
				switch {
				case wire == nil && !idle:
					rec.Inconclusive("neither a query on the transport nor an idle send loop within the watchdog", d)
				case werr == nil && wire == nil:
					cls := "packet-beyond-one-name"
					if fits {
						cls = "packet-fits-one-name"
					}
					rec.Violation("namecapacity:accepted-by-WriteTo-but-never-sent:"+cls,
						"WriteTo accepted the packet without an error, but no query was put on the transport (the send loop is idle again, its queue empty): the packet was dropped where the caller cannot see it", d)
				case werr != nil && wire != nil:
					rec.Violation("namecapacity:refused-by-WriteTo-but-sent", "WriteTo returned an error and yet a query was put on the transport", d)
				case werr != nil && fits:
					rec.Violation("namecapacity:refused-although-it-fits-one-name",
						"WriteTo refused a packet whose base32 text in 63-byte labels plus the base domain fits the 255 octets of one name", d)
				case werr != nil:
					rec.Count("rejected", 1)
					rec.Distinct("nontrivial", desc)
				default:
					var q dns.Message
					var perr error
					var got []byte
					if pk, v, st := c15Try(func() {
						q, perr = dns.MessageFromWireFormat(wire)
						if perr == nil {
							_, got = r.responseFor(&q, domain)
						}
					}); pk {
						rec.Violation("namecapacity:decoder-panic-on-own-encoding", "the responder side panicked on a query the requester produced", map[string]interface{}{"case": desc, "panic": fmt.Sprint(v), "stack": st})
						continue
					}
					if perr != nil || !bytes.Equal(got, p) {
						d["parse_error"] = fmt.Sprint(perr)
						d["got_len"] = len(got)
						rec.Violation("namecapacity:roundtrip-mismatch", "the responder side does not recover the packet from the query the requester sent", d)
						continue
					}
					if !fits {
						rec.Note("carried although the reference arithmetic says it cannot fit: " + desc)
					}
					rec.Count("accepted_roundtrips", 1)
					if n > 0 {
						rec.Distinct("nontrivial", desc)
					}
					if n == maxPacket {
						rec.Distinct("domain_wire_lengths_carried_at_capacity", w)
						if rec.WantSample() && (w == 60 || w == 126 || w == 190) {
							rec.Sample(map[string]interface{}{"case": desc, "qname_wire_len": c15DomainWire(q.Question[0].Name), "decoded_equal": true})
						}
					}
				}
			}
			// per domain: once the send loop is idle again no query may be left over from a refused packet
			for end := time.Now().Add(c15Watchdog); time.Now().Before(end); time.Sleep(200 * time.Microsecond) {
				if ok, k := c15SendLoopsIdle(); ok && k == nConns && len(pc.QueuePacketConn.OutgoingQueue(c15PeerAddr)) == 0 {
					break
				}
			}
			if len(conn.writes) > 0 {
				rec.Violation("namecapacity:refused-by-WriteTo-but-sent", "a query was put on the transport for a packet that WriteTo had refused",
					map[string]interface{}{"case": fmt.Sprintf("domain-wire-len=%d shape=%d", w, shape), "stray_queries": len(conn.writes)})
			}
			close(conn.closed) // lets recvLoop return; the send loop stays parked (counted in nConns)
		}
	}
	rec.Exhaustive("every base-domain wire length 1, 3..200 × 2 label shapes × packet sizes maxPacket-3..maxPacket+3")
}
