//go:build verif

package responder

// C15 – the DNS registrar's encrypted request/response exchange, real requester against real responder.
//   namepacking  (no sockets, no encryption) bytes → requester.DNSPacketConn (real send: base32, 63-byte labels, base domain,
//                WireFormat) → captured datagram → MessageFromWireFormat → the responder's real responseFor == the bytes;
//                and bytes → the responder's real dnsRespToUDPResp → captured datagram → the requester's real recvLoop /
//                dnsResponsePayload / ReadFrom == the bytes
//   exchange     requester.RequestAndRecv(payload) over a loopback UDP socket against RecvAndRespond(callback):
//                callback argument == payload and result == callback's return, for every request length a DNS name can carry
//                and every response length a UDP answer can carry; beyond those limits the call must fail with an error
//                (never return a different value).  A call that neither fails nor answers is reported only after a 20 s
//                watchdog, from a stable parked goroutine, together with the proof that the datagram was dropped by an encoder
//                (the callback never saw the request / the responder logged that it could not build the answer).

import (
	"bytes"
	"encoding/base32"
	"errors"
	"fmt"
	"log"
	mrand "math/rand"
	"net"
	"runtime/debug"
	"strings"
	"sync"
	"testing"
	"time"

	kit "github.com/refraction-networking/conjure/internal/verifkit"
	"github.com/refraction-networking/conjure/pkg/registrars/dns-registrar/dns"
	"github.com/refraction-networking/conjure/pkg/registrars/dns-registrar/encryption"
	"github.com/refraction-networking/conjure/pkg/registrars/dns-registrar/requester"
)

func c15Try(f func()) (panicked bool, val interface{}, stack string) {
	defer func() {
		if r := recover(); r != nil {
			panicked, val, stack = true, r, string(debug.Stack())
		}
	}()
	f()
	return
}

// ---- log capture (both sides report dropped datagrams only through the standard logger) ---------------------------------

type c15LogSink struct {
	mu    sync.Mutex
	lines []string
	total int
}

func (l *c15LogSink) Write(p []byte) (int, error) {
	l.mu.Lock()
	l.total++
	if len(l.lines) < 5000 {
		l.lines = append(l.lines, strings.TrimSpace(string(p)))
	}
	l.mu.Unlock()
	return len(p), nil
}

func (l *c15LogSink) count(sub string) int {
	l.mu.Lock()
	defer l.mu.Unlock()
	n := 0
	for _, s := range l.lines {
		if strings.Contains(s, sub) {
			n++
		}
	}
	return n
}

func (l *c15LogSink) matching(sub string, max int) []string {
	l.mu.Lock()
	defer l.mu.Unlock()
	var out []string
	for _, s := range l.lines {
		if strings.Contains(s, sub) && len(out) < max {
			if i := strings.Index(s, sub); i > 0 {
				s = s[i:]
			}
			out = append(out, s)
		}
	}
	return out
}

var c15Logs = &c15LogSink{}

// ---- what one DNS name can carry (RFC 1035 arithmetic; used to CLASSIFY outcomes, never to demand acceptance) ------------

func c15DomainWire(domain dns.Name) int {
	n := 1
	for _, l := range domain {
		n += 1 + len(l)
	}
	return n
}

var c15B32 = base32.StdEncoding.WithPadding(base32.NoPadding)

// c15FitsName: can `raw` bytes, base32-encoded into 63-byte labels in front of the domain, form a name of <= 255 bytes?
func c15FitsName(raw int, domain dns.Name) bool {
	n := c15B32.EncodedLen(raw)
	labels := (n + 62) / 63
	return n+labels+c15DomainWire(domain) <= 255
}

const c15NoiseOverhead = 1 + 32 + 16 // length prefix + ephemeral key + AEAD tag around the request payload

// ---- a net.Conn that captures datagrams and replays scripted ones -----------------------------------------------------------

type c15CapConn struct {
	writes chan []byte
	reads  chan []byte
	closed chan struct{}
}

func newC15CapConn() *c15CapConn {
	return &c15CapConn{writes: make(chan []byte, 16), reads: make(chan []byte, 16), closed: make(chan struct{})}
}
func (c *c15CapConn) Write(p []byte) (int, error) {
	c.writes <- append([]byte(nil), p...)
	return len(p), nil
}
func (c *c15CapConn) Read(p []byte) (int, error) {
	select {
	case b := <-c.reads:
		return copy(p, b), nil
	case <-c.closed:
		return 0, errors.New("verif capture conn closed") // not a net.Error: recvLoop returns instead of spinning
	}
}
func (c *c15CapConn) Close() error                       { return nil }
func (c *c15CapConn) LocalAddr() net.Addr                { return kit.TCPAddr("127.0.0.1", 1) }
func (c *c15CapConn) RemoteAddr() net.Addr               { return c15PeerAddr }
func (c *c15CapConn) SetDeadline(t time.Time) error      { return nil }
func (c *c15CapConn) SetReadDeadline(t time.Time) error  { return nil }
func (c *c15CapConn) SetWriteDeadline(t time.Time) error { return nil }

var c15PeerAddr = &net.UDPAddr{IP: net.IPv4(127, 0, 0, 1), Port: 53}

func c15Domains() []string {
	return []string{"t.example.com", "a", "T.Example.COM", ".", "registration-channel-with-a-long-base-domain.example-operator.org"}
}

// ---- namepacking ----------------------------------------------------------------------------------------------------------

func TestVerifC15NamePacking(t *testing.T) {
	log.SetOutput(c15Logs)
	rec := kit.NewRec("C15", "namepacking")
	defer rec.Close()
	rng := kit.Rand("c15namepacking")

	for _, dom := range c15Domains() {
		domain, err := dns.ParseName(dom)
		if err != nil {
			t.Fatal(err)
		}
		r := &Responder{domain: domain, maxUDPPayload: 1280 - 40 - 8}
		conn := newC15CapConn()
		pc := requester.NewDNSPacketConn(conn, c15PeerAddr, domain)

		// upstream: raw packet lengths 0..300 (every length), three fills
		for n := 0; n <= 300; n++ {
			for fill := 0; fill < kit.Tier(2, 3); fill++ {
				p := make([]byte, n)
				switch fill {
				case 0:
					rng.Read(p)
				case 1: // all zero: base32 "aaaa…", labels indistinguishable from one another
				case 2:
					for i := range p {
						p[i] = 0xff
					}
				}
				desc := fmt.Sprintf("upstream domain=%q rawlen=%d fill=%d fits_name=%v", dom, n, fill, c15FitsName(n, domain))
				rec.CaseCheap(desc)
				rec.Count("evaluations", 1)
				before := c15Logs.count("send: ")
				if _, err := pc.WriteTo(p, c15PeerAddr); err != nil {
					rec.Count("rejected", 1)
					rec.Distinct("nontrivial", desc)
					continue
				}
				var wire []byte
				deadline := time.After(30 * time.Second)
				tick := time.NewTicker(200 * time.Microsecond)
			wait:
				for {
					select {
					case wire = <-conn.writes:
						break wait
					case <-tick.C:
						if c15Logs.count("send: ") > before {
							// the encoder refused the packet (the refusal is only logged at this layer)
							select {
							case wire = <-conn.writes:
							default:
							}
							break wait
						}
					case <-deadline:
						break wait
					}
				}
				tick.Stop()
				if wire == nil {
					if c15Logs.count("send: ") > before {
						rec.Count("rejected", 1)
						rec.Distinct("nontrivial", desc)
						if c15FitsName(n, domain) {
							rec.Count("rejected_although_fits_a_name", 1)
						}
					} else {
						rec.Inconclusive("packet neither sent nor refused within 30 s", desc)
					}
					continue
				}
				var q dns.Message
				var perr error
				var got []byte
				var resp *dns.Message
				if pk, v, st := c15Try(func() {
					q, perr = dns.MessageFromWireFormat(wire)
					if perr == nil {
						resp, got = r.responseFor(&q, domain)
					}
				}); pk {
					rec.Violation("namepacking:upstream:decoder-panic-on-own-encoding", "the responder side panicked on a query the requester produced",
						map[string]interface{}{"case": desc, "wire": kit.HexN(wire, 64), "panic": fmt.Sprint(v), "stack": st})
					continue
				}
				if perr != nil {
					rec.Violation("namepacking:upstream:query-not-parsable", "the query the requester produced is refused by MessageFromWireFormat",
						map[string]interface{}{"case": desc, "error": perr.Error(), "wire": kit.HexN(wire, 64)})
					continue
				}
				if got == nil && n > 0 || !bytes.Equal(got, p) {
					d := map[string]interface{}{"case": desc, "sent": kit.HexN(p, 16), "got": kit.HexN(got, 16), "got_len": len(got), "qname": c15ShortName(q)}
					if resp != nil {
						d["rcode"] = resp.Rcode()
					}
					rec.Violation("namepacking:upstream:roundtrip-mismatch", "responseFor does not return the bytes the requester packed into the query name", d)
					continue
				}
				rec.Count("accepted_roundtrips", 1)
				if n > 0 {
					rec.Distinct("nontrivial", desc)
				}
				if !c15FitsName(n, domain) {
					rec.Note("a packet was carried although the reference arithmetic says it cannot fit: " + desc)
				}
				if rec.WantSample() && n == 100 {
					rec.Sample(map[string]interface{}{"case": desc, "qname": c15ShortName(q), "wire_len": len(wire), "decoded_equal": true})
				}
			}
		}

		// downstream: response payload lengths 0..4200; the requester's receive buffer is 4096 bytes and the responder never
		// sends more than maxUDPPayload, so lengths beyond are expected to be dropped or truncated BY THE TRANSPORT, which this
		// socket-less monitor does not model: judged only up to what fits the 4096-byte read
		qname, _ := dns.NewName(append([][]byte{[]byte("mfrggzdfmztwq2lk")}, domain...))
		lens := []int{}
		for n := 0; n <= 1300; n++ {
			lens = append(lens, n)
		}
		for n := 1300; n <= 4200; n += kit.Tier(7, 1) {
			lens = append(lens, n)
		}
		for _, n := range lens {
			p := make([]byte, n)
			rng.Read(p)
			desc := fmt.Sprintf("downstream domain=%q len=%d", dom, n)
			rec.CaseCheap(desc)
			rec.Count("evaluations", 1)
			resp := &dns.Message{ID: uint16(n), Flags: 0x8400, Question: []dns.Question{{Name: qname, Type: dns.RRTypeTXT, Class: dns.ClassIN}},
				Additional: []dns.RR{{Name: dns.Name{}, Type: dns.RRTypeOPT, Class: 4096, Data: []byte{}}}}
			var wire []byte
			var err error
			if pk, v, st := c15Try(func() { wire, err = r.dnsRespToUDPResp(resp, p) }); pk {
				rec.Violation("namepacking:downstream:encoder-panic", "dnsRespToUDPResp panicked", map[string]interface{}{"case": desc, "panic": fmt.Sprint(v), "stack": st})
				continue
			}
			if err != nil {
				rec.Count("rejected", 1)
				rec.Distinct("nontrivial", desc)
				continue
			}
			if len(wire) > 4096 {
				rec.Count("downstream_beyond_receive_buffer", 1)
				continue
			}
			for len(pc.QueuePacketConn.OutgoingQueue(c15PeerAddr)) > 0 { // nothing pending upstream
				<-pc.QueuePacketConn.OutgoingQueue(c15PeerAddr)
			}
			conn.reads <- wire
			type rr struct {
				b    []byte
				addr net.Addr
				err  error
			}
			ch := make(chan rr, 1)
			go func() {
				buf := make([]byte, 8192)
				k, a, e := pc.ReadFrom(buf)
				ch <- rr{buf[:k], a, e}
			}()
			select {
			case got := <-ch:
				if got.err != nil || !bytes.Equal(got.b, p) {
					rec.Violation("namepacking:downstream:roundtrip-mismatch", "the requester's packet conn does not return the bytes the responder packed into the TXT answer",
						map[string]interface{}{"case": desc, "got_len": len(got.b), "err": fmt.Sprint(got.err), "wire_len": len(wire)})
					continue
				}
				rec.Count("accepted_roundtrips", 1)
				if n > 0 {
					rec.Distinct("nontrivial", desc)
				}
			case <-time.After(30 * time.Second):
				if k := c15Logs.count("MessageFromWireFormat: "); k > 0 {
					rec.Violation("namepacking:downstream:answer-not-parsable", "the answer the responder produced is refused by the requester's parser",
						map[string]interface{}{"case": desc, "log": c15Logs.matching("MessageFromWireFormat: ", 3), "wire_len": len(wire)})
				} else {
					rec.Inconclusive("answer not delivered within 30 s", desc)
				}
				pc.Close() // release the reader
				<-ch
				return
			}
		}
		close(conn.closed)
	}
	rec.Exhaustive("upstream raw packet lengths 0..300 × 5 base domains; downstream payload lengths 0..1300 × 5 base domains")
}

func c15ShortName(q dns.Message) string {
	if len(q.Question) != 1 {
		return fmt.Sprintf("(%d questions)", len(q.Question))
	}
	s := q.Question[0].Name.String()
	if len(s) > 100 {
		s = s[:50] + "…" + s[len(s)-40:]
	}
	return s
}

// ---- exchange ---------------------------------------------------------------------------------------------------------------

type c15Server struct {
	dom    string
	domain dns.Name
	r      *Responder
	addr   string
	pub    []byte

	mu       sync.Mutex
	expected map[string][]byte // request payload → response the callback returns
	calls    map[string]int    // request payload → number of callback invocations
	unknown  int
}

func c15StartServer(t *testing.T, dom string) *c15Server {
	priv, err := encryption.GeneratePrivkey()
	if err != nil {
		t.Fatal(err)
	}
	r, err := NewDnsResponder(dom, "127.0.0.1:0", priv)
	if err != nil {
		t.Fatal(err)
	}
	s := &c15Server{dom: dom, domain: r.domain, r: r, addr: r.transport.LocalAddr().String(), pub: encryption.PubkeyFromPrivkey(priv),
		expected: map[string][]byte{}, calls: map[string]int{}}
	// NOTE: the responder is deliberately never closed: after Close, RecvAndRespond spins on the net.Error forever.
	go r.RecvAndRespond(func(b []byte) ([]byte, error) {
		s.mu.Lock()
		defer s.mu.Unlock()
		s.calls[string(b)]++
		if resp, ok := s.expected[string(b)]; ok {
			return resp, nil
		}
		s.unknown++
		return []byte("verif: request unknown to the driver"), nil
	})
	return s
}

func (s *c15Server) newRequester(t *testing.T) *requester.Requester {
	rq, err := requester.NewRequester(&requester.Config{TransportMethod: requester.UDP, Target: s.addr, BaseDomain: s.dom, Pubkey: s.pub})
	if err != nil {
		t.Fatal(err)
	}
	return rq
}

type c15Call struct {
	s        *c15Server
	rq       *requester.Requester
	desc     string
	payload  []byte
	response []byte
	reqFits  bool
	done     chan struct{}
	res      []byte
	err      error
	panicked string
}

func (s *c15Server) start(rq *requester.Requester, desc string, payload, response []byte) *c15Call {
	c := &c15Call{s: s, rq: rq, desc: desc, payload: payload, response: response, done: make(chan struct{}),
		reqFits: c15FitsName(c15NoiseOverhead+len(payload), s.domain)}
	s.mu.Lock()
	s.expected[string(payload)] = response
	delete(s.calls, string(payload))
	s.mu.Unlock()
	go func() {
		defer close(c.done)
		if pk, v, st := c15Try(func() { c.res, c.err = rq.RequestAndRecv(payload) }); pk {
			c.panicked = fmt.Sprint(v) + "\n" + st
		}
	}()
	return c
}

func (c *c15Call) finished(wait time.Duration) bool {
	select {
	case <-c.done:
		return true
	case <-time.After(wait):
		return false
	}
}

func (c *c15Call) callbackCalls() int {
	c.s.mu.Lock()
	defer c.s.mu.Unlock()
	return c.s.calls[string(c.payload)]
}

// judge evaluates a finished call.
func (c *c15Call) judge(rec *kit.Rec) {
	reqClass := "request-fits-a-name"
	if !c.reqFits {
		reqClass = "request-beyond-a-name"
	}
	if c.panicked != "" {
		rec.Violation("exchange:panic:"+reqClass, "RequestAndRecv panicked", map[string]interface{}{"case": c.desc, "panic": c.panicked})
		return
	}
	calls := c.callbackCalls()
	if c.err != nil {
		// a refusal is acceptable whatever the size; but the responder must not have been handed a different request
		rec.Count("rejected", 1)
		rec.Count("rejected_"+reqClass, 1)
		rec.Distinct("nontrivial", c.desc)
		rec.Distinct("reject_reasons", c15ErrClass(c.err))
		return
	}
	if calls == 0 {
		rec.Violation("exchange:result-without-callback:"+reqClass, "RequestAndRecv returned a result although the responder's callback never received this payload (the request was altered on the way, or the result is not the callback's)",
			map[string]interface{}{"case": c.desc, "result": kit.HexN(c.res, 24), "payload": kit.HexN(c.payload, 24), "unknown_payloads_seen_by_callback": c.s.unknown})
		return
	}
	if !bytes.Equal(c.res, c.response) {
		rec.Violation("exchange:response-altered:"+reqClass, "RequestAndRecv returned bytes that differ from what the responder's callback returned",
			map[string]interface{}{"case": c.desc, "want_len": len(c.response), "got_len": len(c.res), "want": kit.HexN(c.response, 16), "got": kit.HexN(c.res, 16)})
		return
	}
	rec.Count("accepted_roundtrips", 1)
	rec.Count("accepted_roundtrips_"+reqClass, 1)
	if len(c.payload)+len(c.response) > 0 {
		rec.Distinct("nontrivial", c.desc)
	}
	rec.Distinct("request_lengths_ok", c.s.dom, len(c.payload))
	rec.Distinct("response_lengths_ok", c.s.dom, len(c.response))
	if rec.WantSample() && len(c.payload) > 60 && len(c.response) > 100 {
		rec.Sample(map[string]interface{}{"case": c.desc, "callback_saw_payload": true, "result_equals_callback_return": true, "callback_invocations": calls})
	}
}

func c15ErrClass(err error) string {
	s := err.Error()
	for _, k := range []string{"name is longer", "message authentication failed", "too long", "invalid message length", "label longer"} {
		if strings.Contains(s, k) {
			return k
		}
	}
	if len(s) > 60 {
		s = s[:60]
	}
	return s
}

// stuck evaluates a call that is still running after the watchdog.
func (c *c15Call) stuck(rec *kit.Rec, waited time.Duration, parkedStable bool, parked int) {
	calls := c.callbackCalls()
	sendDrops := c15Logs.matching("send: ", 4)
	respDrops := append(c15Logs.matching("dnsRespToUDPResp err", 2), c15Logs.matching("resp WireFormat", 2)...)
	reqDrops := append(append(c15Logs.matching("RemoveFormat err", 2), c15Logs.matching("craftResponse err", 2)...), c15Logs.matching("NXDOMAIN: base32", 2)...)
	d := map[string]interface{}{"case": c.desc, "waited": waited.String(), "callback_invocations_for_this_payload": calls,
		"goroutines_parked_in_RequestAndRecv": parked, "parked_state_stable": parkedStable,
		"requester_log": sendDrops, "responder_log": append(respDrops, reqDrops...)}
	switch {
	case !parkedStable:
		rec.Inconclusive("call still running after the watchdog but no stable parked state", d)
	case calls == 0 && len(sendDrops) > 0 && !c.reqFits:
		rec.Violation("exchange:request-beyond-a-name:never-sent-and-RequestAndRecv-blocks-forever",
			"a request payload too large for one DNS name is neither refused with an error nor answered: the name encoder's refusal is only logged and RequestAndRecv waits forever", d)
	case calls == 0 && len(sendDrops) > 0 && c.reqFits:
		rec.Violation("exchange:request-fits-a-name:never-sent-and-RequestAndRecv-blocks-forever",
			"a request payload that fits one DNS name was refused by the name encoder (logged only) and RequestAndRecv waits forever", d)
	case calls == 0 && len(reqDrops) > 0:
		rec.Violation("exchange:responder-cannot-decode-request-encoded-without-error",
			"the requester encoded and sent the request without an error but the responder refused it; RequestAndRecv waits forever", d)
	case calls > 0 && len(respDrops) > 0:
		rec.Violation("exchange:response-beyond-an-rr:never-sent-and-RequestAndRecv-blocks-forever",
			"the callback's return value does not fit a DNS resource record; the responder logs the encoder's refusal and sends nothing, RequestAndRecv waits forever", d)
	default:
		rec.Inconclusive("call still running after the watchdog, no proof of a dropped datagram (possible UDP loss)", d)
	}
}

func c15Parked() int {
	n := 0
	for _, g := range kit.InFunc(kit.Stacks(), "requester.(*Requester).RequestAndRecv") {
		if g.State == "select" || g.State == "chan receive" {
			n++
		}
	}
	return n
}

// c15ParkedStable samples the stacks three times and reports whether the same number (>= want) of goroutines sits parked inside
// RequestAndRecv every time.
func c15ParkedStable(want int) (bool, int) {
	a := c15Parked()
	time.Sleep(400 * time.Millisecond)
	b := c15Parked()
	time.Sleep(400 * time.Millisecond)
	c := c15Parked()
	return a == b && b == c && a >= want, c
}

const c15Watchdog = 20 * time.Second

func c15Payload(rng *mrand.Rand, n int) []byte {
	p := make([]byte, n)
	rng.Read(p)
	return p
}

func TestVerifC15Exchange(t *testing.T) {
	log.SetOutput(c15Logs)
	rec := kit.NewRec("C15", "exchange")
	defer rec.Close()
	rng := kit.Rand("c15exchange")

	doms := c15Domains()
	servers := map[string]*c15Server{}
	for _, d := range doms {
		servers[d] = c15StartServer(t, d)
	}
	main := servers[doms[0]]

	// ---- batch of calls beyond the limits, each on its own requester, all started now and judged after the watchdog -----
	batchStart := time.Now()
	var batch []*c15Call
	capacity := 0 // largest request payload that fits a name under the main domain
	for c15FitsName(c15NoiseOverhead+capacity+1, main.domain) {
		capacity++
	}
	for _, n := range []int{capacity + 1, capacity + 2, capacity + 7, 150, 206, 207, 208, 255, 256, 300, 1000, 4000, 65535 - 48, 65535 - 47, 65536, 70000} {
		p := c15Payload(rng, n)
		batch = append(batch, main.start(main.newRequester(t), fmt.Sprintf("batch domain=%q request=%d response=16 (request beyond one name)", main.dom, n), p, c15Payload(rng, 16)))
	}
	for _, n := range []int{65000, 65200, 65300, 65519, 65520, 65535, 65536, 70000} {
		p := c15Payload(rng, 24)
		batch = append(batch, main.start(main.newRequester(t), fmt.Sprintf("batch domain=%q request=24 response=%d (response beyond one RR)", main.dom, n), p, c15Payload(rng, n)))
	}

	// ---- sequential sweep ---------------------------------------------------------------------------------------------------
	stuckN := 0
	run := func(s *c15Server, rq **requester.Requester, reqLen, respLen int, note string) {
		if stuckN >= 2 {
			return
		}
		p, resp := c15Payload(rng, reqLen), c15Payload(rng, respLen)
		if reqLen <= 2 { // keep tiny payloads distinct from earlier ones of the same length
			s.mu.Lock()
			delete(s.expected, string(p))
			s.mu.Unlock()
		}
		desc := fmt.Sprintf("domain=%q request=%d response=%d %s", s.dom, reqLen, respLen, note)
		rec.Case(desc)
		rec.Count("evaluations", 1)
		c := s.start(*rq, desc, p, resp)
		if c.finished(c15Watchdog) {
			c.judge(rec)
			s.mu.Lock()
			delete(s.expected, string(p))
			s.mu.Unlock()
			return
		}
		stable, parked := c15ParkedStable(1)
		c.stuck(rec, c15Watchdog, stable, parked)
		stuckN++
		*rq = s.newRequester(t) // the old one has a reader parked on its queue
	}

	for _, d := range doms {
		s := servers[d]
		rq := s.newRequester(t)
		cap := 0
		for c15FitsName(c15NoiseOverhead+cap+1, s.domain) {
			cap++
		}
		// every request length from 0 to the capacity of one name
		for n := 0; n <= cap; n++ {
			run(s, &rq, n, (n*13)%600, "reused-requester")
			if n%16 == 5 {
				fresh := s.newRequester(t)
				run(s, &fresh, n, 40, "fresh-requester")
			}
		}
		// every response length from 0 to beyond what a UDP answer can carry (answers beyond are replaced by an empty answer,
		// which the requester must turn into an error)
		step := 1
		if d != doms[0] && !kit.Thorough() {
			step = 9
		}
		for n := 0; n <= 1400; n += step {
			run(s, &rq, 20+n%50, n, "reused-requester")
		}
		for _, n := range []int{2000, 4000, 4078, 4079, 4080, 4094, 4095, 4096, 5000, 16384, 40000, 64000} {
			run(s, &rq, 30, n, "reused-requester")
		}
	}
	// seeded pairs
	for i, n := 0, kit.Tier(400, 20000); i < n; i++ {
		s := servers[doms[rng.Intn(len(doms))]]
		rq := s.newRequester(t)
		for k := 0; k < 8; k++ {
			run(s, &rq, rng.Intn(110), rng.Intn(1300), "seeded")
		}
	}
	rec.Exhaustive("request payload lengths 0..capacity of one name × 5 base domains; response payload lengths 0..1400 (main domain: every length)")

	// ---- judge the batch ------------------------------------------------------------------------------------------------------
	if rest := c15Watchdog - time.Since(batchStart); rest > 0 {
		// only wait if something is still running
		for _, c := range batch {
			if !c.finished(0) {
				time.Sleep(rest)
				break
			}
		}
	}
	var running []*c15Call
	for _, c := range batch {
		rec.Count("evaluations", 1)
		if c.finished(0) {
			c.judge(rec)
		} else {
			running = append(running, c)
		}
	}
	if len(running) > 0 {
		stable, parked := c15ParkedStable(len(running))
		for _, c := range running {
			c.stuck(rec, time.Since(batchStart), stable, parked)
		}
		for _, c := range running { // release the parked readers
			c.rq.Close()
		}
		for _, c := range running {
			c.finished(10 * time.Second)
		}
	}
	rec.Count("log_lines_captured", c15Logs.total)
}
