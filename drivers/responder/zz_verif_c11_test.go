//go:build verif

package responder

// C11 – entry point (7), the DNS responder's packet handling: arbitrary datagrams to the real
// Responder.RecvAndRespond on a loopback UDP socket (the responder's own socket), with a callback
// that answers with nothing / a short / a medium / an over-long payload or an error.
//
// RecvAndRespond handles every datagram in a goroutine of its own without recover, so a panic there
// ends the process.  Each datagram therefore first passes, under recover, through the functions the
// goroutine calls, in its order (dns.MessageFromWireFormat, responseFor, msgformat.RemoveRequestFormat,
// craftResponse, msgformat.AddResponseFormat, dnsRespToUDPResp): a panic there is reported with the
// datagram, which is then NOT sent; every other datagram is sent to the real loop, whose survival is
// the verdict.  Datagrams the responder drops get no answer by design: after every 32 datagrams on a
// socket a well-formed query ("ping") is sent and its answer awaited, and at the end the monitor
// waits until no request goroutine is left.
//
// Datagrams: genuine queries as the requester builds them (Noise message for the server key, length
// octet, base32, 63-byte labels, domain, EDNS OPT) with arbitrary plaintext; the same with an
// undecryptable / truncated / empty Noise message; envelope variants (QR set, opcode, QTYPE, several
// or no questions, OPT version / payload size / duplicates, foreign domain, mixed case, invalid
// base32); all of them raw-mutated; pointer-compressed names; random bytes.

import (
	"bytes"
	"errors"
	"fmt"
	"io"
	golog "log"
	"math/rand"
	"net"
	"os"
	"runtime"
	"sync"
	"sync/atomic"
	"testing"
	"time"

	"github.com/flynn/noise"
	kit "github.com/refraction-networking/conjure/internal/verifkit"
	"github.com/refraction-networking/conjure/pkg/registrars/dns-registrar/dns"
	"github.com/refraction-networking/conjure/pkg/registrars/dns-registrar/encryption"
	"github.com/refraction-networking/conjure/pkg/registrars/dns-registrar/msgformat"
)

const verifC11Entry = "responder.RecvAndRespond"
const verifC11Domain = "r.example.com"

type verifC11Resp struct {
	r       *Responder
	addr    *net.UDPAddr
	pubkey  []byte
	domain  dns.Name
	rec     *kit.Rec
	pool    chan *verifC11Sock
	sent    atomic.Int64
	pings   atomic.Int64
	answers atomic.Int64
	calls   atomic.Int64
	serveEr chan error

	dead       atomic.Bool // a control query stayed unanswered: stop sending
	controlsOK atomic.Int64
	lastClass  atomic.Value
}

type verifC11Sock struct {
	c     *net.UDPConn
	since int
}

// the registrar's side of the exchange: what comes back depends on the first plaintext byte
func (h *verifC11Resp) verifCallback(p []byte) ([]byte, error) {
	h.calls.Add(1)
	sel := byte(0)
	if len(p) > 0 {
		sel = p[0]
	}
	switch sel % 6 {
	case 0:
		return nil, errors.New("verif: registrar refuses")
	case 1:
		return []byte{}, nil
	case 2:
		return bytes.Repeat([]byte{0xab}, 40), nil
	case 3:
		return bytes.Repeat([]byte{0xcd}, 700), nil
	case 4:
		return bytes.Repeat([]byte{0xef}, 1500), nil // does not fit the responder's UDP payload limit
	}
	return bytes.Repeat([]byte{0x11}, 70000), nil // does not fit a 16-bit length either
}

func verifC11Setup(t testing.TB, listen bool) *verifC11Resp {
	golog.SetOutput(io.Discard)
	priv := make([]byte, 32)
	kit.Rand("c11-dns-key").Read(priv)
	r, err := NewDnsResponder(verifC11Domain, "127.0.0.1:0", priv)
	if err != nil {
		t.Fatalf("cannot build the responder (infrastructure): %v", err)
	}
	h := &verifC11Resp{r: r, pubkey: encryption.PubkeyFromPrivkey(priv), pool: make(chan *verifC11Sock, 64), serveEr: make(chan error, 1)}
	h.domain, _ = dns.ParseName(verifC11Domain)
	h.addr = r.transport.LocalAddr().(*net.UDPAddr)
	if listen {
		go func() { h.serveEr <- r.RecvAndRespond(h.verifCallback) }()
	}
	return h
}

func (h *verifC11Resp) verifNoise(p []byte) []byte {
	cfg := encryption.NewConfig()
	cfg.Initiator = true
	cfg.PeerStatic = h.pubkey
	hs, err := noise.NewHandshakeState(cfg)
	if err != nil {
		panic("verif infrastructure: noise: " + err.Error())
	}
	msg, _, _, err := hs.WriteMessage(nil, p)
	if err != nil {
		panic("verif infrastructure: noise: " + err.Error())
	}
	return msg
}

var verifC11B32 = base32Encoding

// verifName packs raw bytes into a question name the way the requester does.
func (h *verifC11Resp) verifName(raw []byte, domain dns.Name, upper bool) (dns.Name, bool) {
	enc := make([]byte, verifC11B32.EncodedLen(len(raw)))
	verifC11B32.Encode(enc, raw)
	if !upper {
		enc = bytes.ToLower(enc)
	}
	var labels [][]byte
	for len(enc) > 0 {
		n := len(enc)
		if n > 63 {
			n = 63
		}
		labels = append(labels, enc[:n])
		enc = enc[n:]
	}
	labels = append(labels, domain...)
	name, err := dns.NewName(labels)
	return name, err == nil
}

func (h *verifC11Resp) verifQuery(r *rand.Rand) ([]byte, string) {
	kind := "query"
	// plaintext and Noise layer
	pt := make([]byte, r.Intn(70))
	r.Read(pt)
	var framed []byte
	switch x := r.Intn(10); {
	case x < 6:
		framed = h.verifNoise(pt)
	case x < 7: // not a Noise message for this key
		framed = make([]byte, []int{0, 1, 31, 32, 33, 47, 48, 49, 80}[r.Intn(9)])
		r.Read(framed)
		kind += ":undecryptable"
	case x < 8:
		framed = h.verifNoise(pt)
		framed = framed[:r.Intn(len(framed))]
		kind += ":noise-cut"
	default:
		framed = h.verifNoise(pt)
		framed[r.Intn(len(framed))] ^= 1 << uint(r.Intn(8))
		kind += ":noise-flip"
	}
	// length octet
	switch x := r.Intn(10); {
	case x < 7:
		if f, err := msgformat.AddRequestFormat(framed); err == nil {
			framed = f
		}
	case x < 8:
		framed = append([]byte{byte(r.Intn(256))}, framed...)
		kind += ":len-octet-wrong"
	case x < 9:
		kind += ":no-len-octet"
	default:
		framed = nil
		kind += ":empty"
	}
	domain := h.domain
	if r.Intn(12) == 0 {
		domain, _ = dns.ParseName([]string{"other.example.org", "example.com", "com", "x.r.example.com.evil"}[r.Intn(4)])
		kind += ":foreign-domain"
	}
	name, ok := h.verifName(framed, domain, r.Intn(4) == 0)
	if !ok {
		name, _ = h.verifName(framed[:len(framed)/3], domain, false)
		kind += ":shortened"
	}
	if r.Intn(12) == 0 && len(name) > 0 {
		name[0] = append([]byte(nil), name[0]...)
		name[0][r.Intn(len(name[0]))] = "0189!-_ \x00"[r.Intn(9)] // not base32
		kind += ":bad-base32"
	}
	q := &dns.Message{ID: uint16(r.Intn(0x8000)), Flags: 0x0100, Question: []dns.Question{{Name: name, Type: dns.RRTypeTXT, Class: dns.ClassIN}},
		Additional: []dns.RR{{Name: dns.Name{}, Type: dns.RRTypeOPT, Class: 4096, TTL: 0, Data: []byte{}}}}
	switch r.Intn(16) {
	case 0:
		q.Flags |= 0x8000
		kind += ":qr"
	case 1:
		q.Flags |= uint16(1+r.Intn(15)) << 11
		kind += ":opcode"
	case 2:
		q.Question[0].Type = []uint16{1, 2, 28, 255, 0}[r.Intn(5)]
		kind += ":qtype"
	case 3:
		q.Question = append(q.Question, q.Question[0])
		kind += ":2-questions"
	case 4:
		q.Question = nil
		kind += ":0-questions"
	case 5:
		q.Additional = nil
		kind += ":no-opt"
	case 6:
		q.Additional = append(q.Additional, q.Additional[0])
		kind += ":2-opt"
	case 7:
		q.Additional[0].TTL = uint32(1+r.Intn(255)) << 16
		kind += ":edns-version"
	case 8:
		q.Additional[0].Class = []uint16{0, 511, 512, 1231, 1232, 1233}[r.Intn(6)]
		kind += ":payload-size"
	case 9:
		q.Answer = []dns.RR{{Name: name, Type: dns.RRTypeTXT, Class: dns.ClassIN, TTL: 1, Data: dns.EncodeRDataTXT(pt)}}
		kind += ":with-answer"
	}
	b, err := q.WireFormat()
	if err != nil {
		return []byte{0, 1, 1, 0, 0, 1, 0, 0, 0, 0, 0, 0}, "query:unencodable"
	}
	return b, kind
}

func (h *verifC11Resp) verifGen(r *rand.Rand, idx int) kit.C11Case {
	switch x := r.Intn(20); {
	case x < 9:
		b, k := h.verifQuery(r)
		return kit.C11Case{In: b, Kind: k}
	case x < 17:
		a, _ := h.verifQuery(r)
		o, _ := h.verifQuery(r)
		b, k := kit.C11Mutate(r, a, o)
		return kit.C11Case{In: b, Kind: k}
	case x < 18: // compression pointers in the question name
		b := []byte{0x12, 0x34, 0x01, 0x00, 0, 1, 0, 0, 0, 0, 0, 0}
		switch r.Intn(4) {
		case 0:
			b = append(b, 0xc0, 12)
		case 1:
			b = append(b, 0xc0, 14, 0xc0, 12)
		case 2:
			for i, n := 0, []int{9, 10, 11, 40}[r.Intn(4)]; i < n; i++ {
				b = append(b, 0xc0, byte(12+2*(i+1)))
			}
			b = append(b, 1, 'a', 0)
		default:
			b = append(b, 0xc0|byte(r.Intn(64)), byte(r.Intn(256)))
		}
		return kit.C11Case{In: append(b, 0, 16, 0, 1), Kind: "pointers"}
	}
	return kit.C11Case{In: kit.C11Random(r, 600), Kind: "random"}
}

// verifPreflight runs the datagram through the functions the request goroutine calls, in its order.
func (h *verifC11Resp) verifPreflight(in []byte) string {
	query, err := dns.MessageFromWireFormat(in)
	out := "parsed"
	if err != nil {
		out = "parse-error"
	}
	resp, payload := h.r.responseFor(&query, h.r.domain)
	if resp == nil {
		return out + "/no-response"
	}
	var responseBuf []byte
	if payload != nil {
		payload, err = msgformat.RemoveRequestFormat(payload)
		if err != nil {
			return out + "/dropped:format"
		}
		responseBuf, err = h.r.craftResponse(payload, h.verifCallback)
		if err != nil {
			return out + "/dropped:craft"
		}
		responseBuf, err = msgformat.AddResponseFormat(responseBuf)
		if err != nil {
			return out + "/dropped:response-format"
		}
		out += "/payload"
	}
	b, err := h.r.dnsRespToUDPResp(resp, responseBuf)
	if err != nil {
		return out + "/dropped:encode"
	}
	if len(b) > h.r.maxUDPPayload {
		if _, err = h.r.dnsRespToUDPResp(resp, []byte{}); err != nil {
			return out + "/dropped:encode-empty"
		}
		return out + "/answered-empty(too long)"
	}
	return out + "/answered"
}

// verifControlOn sends a query that a healthy responder always answers (a name it is not authoritative
// for: NXDOMAIN) on the socket and waits for the answer.
func (h *verifC11Resp) verifControlOn(c *net.UDPConn, id uint16, wait time.Duration) bool {
	name, _ := dns.ParseName("ping.example.net")
	q := &dns.Message{ID: id, Flags: 0x0100, Question: []dns.Question{{Name: name, Type: dns.RRTypeTXT, Class: dns.ClassIN}}}
	b, err := q.WireFormat()
	if err != nil {
		panic("verif infrastructure: " + err.Error())
	}
	c.Write(b)
	h.pings.Add(1)
	c.SetReadDeadline(time.Now().Add(wait))
	buf := make([]byte, 4096)
	for {
		n, err := c.Read(buf)
		if err != nil {
			return false
		}
		h.answers.Add(1)
		if n >= 2 && buf[0] == byte(id>>8) && buf[1] == byte(id) {
			return true
		}
	}
}

// verifPing is the CONTROL exchange: it must be answered.  If it is not, it is retried twice on a
// fresh socket; if that fails too the stacks decide: the receive loop parked in a channel operation /
// select / lock instead of its socket read on three scans = the responder hangs (violation, with the
// stack); anything else = inconclusive.  Either way the run stops sending (h.dead).
func (h *verifC11Resp) verifPing(s *verifC11Sock) bool {
	if h.dead.Load() {
		return false
	}
	if h.verifControlOn(s.c, 0xf000, 10*time.Second) {
		h.controlsOK.Add(1)
		return true
	}
	for try := 1; try <= 2; try++ {
		uc, err := net.DialUDP("udp", nil, h.addr)
		if err != nil {
			panic("verif infrastructure: " + err.Error())
		}
		ok := h.verifControlOn(uc, uint16(0xf000+try), 10*time.Second)
		uc.Close()
		if ok {
			h.controlsOK.Add(1)
			h.rec.Count("controls_answered_only_on_retry", 1)
			return true
		}
	}
	if !h.dead.CompareAndSwap(false, true) {
		return false
	}
	blocked, found, state, stack := kit.C11LoopBlocked("responder.(*Responder).RecvAndRespond", "RecvAndRespond.func")
	lingering := len(kit.InFunc(kit.Stacks(), "RecvAndRespond.func1"))
	d := map[string]interface{}{"receive_loop_found": found, "receive_loop_state": state, "receive_loop_stack": stack, "request_goroutines_alive": lingering,
		"datagrams_sent_so_far": h.sent.Load(), "controls_answered_so_far": h.controlsOK.Load(), "last_junk_class": h.lastClass.Load()}
	if found && blocked {
		h.rec.Violation("hang:dns-responder:receive-loop-blocked", "a well-formed control query got no answer (3 attempts, 2 on fresh sockets): the responder's receive loop is parked in ["+state+
			"], not in its socket read – it will never answer a query again", d)
	} else {
		h.rec.Inconclusive("a well-formed control query got no answer (3 attempts) but the receive loop is not stably parked outside its socket read", d)
	}
	return false
}

func (h *verifC11Resp) verifExec(c *kit.C11Case) string {
	in := append([]byte(nil), c.In...)
	if len(in) >= 2 && in[0] >= 0xf0 {
		in[0] &= 0x7f // message IDs from 0xf000 are the pings'
	}
	out := h.verifPreflight(append([]byte(nil), in...)) // a panic here is caught by the runner; the datagram is then not sent
	if h.rec == nil {
		return out
	}
	if h.dead.Load() {
		return out + "/not-sent(responder no longer answers)"
	}
	var s *verifC11Sock
	select {
	case s = <-h.pool:
	default:
		uc, err := net.DialUDP("udp", nil, h.addr)
		if err != nil {
			panic("verif infrastructure: " + err.Error())
		}
		s = &verifC11Sock{c: uc}
	}
	if len(in) > 0 { // an empty datagram cannot be told from "nothing sent"
		s.c.Write(in)
		h.sent.Add(1)
		s.since++
	}
	if s.since >= 32 {
		s.since = 0
		h.verifPing(s) // decides itself (violation / inconclusive) when the control is not answered
	}
	select {
	case h.pool <- s:
	default:
		s.c.Close()
	}
	return out
}

func TestVerifC11Responder(t *testing.T) {
	rec := kit.NewRec("C11", "dns-responder")
	defer rec.Close()
	h := verifC11Setup(t, true) // ONE responder for the whole run, never restarted
	h.rec = rec
	h.lastClass.Store("")
	h.verifAlive(t) // still answering after bursts of every kind of junk?
	kit.C11Drive(rec, kit.C11Entry{Name: verifC11Entry, N: kit.Tier(40000, 1000000), Workers: 4, Budget: 120 * time.Second,
		Gen: h.verifGen, Exec: h.verifExec, SampleEvery: 5000})
	if !h.dead.Load() {
		uc, err := net.DialUDP("udp", nil, h.addr)
		if err != nil {
			t.Fatal(err)
		}
		h.verifPing(&verifC11Sock{c: uc})
		if left := kit.WaitNoGoroutineIn(60*time.Second, "RecvAndRespond.func1"); left != nil {
			rec.Inconclusive("request goroutines of the responder still running 60 s after the last datagram", map[string]interface{}{"count": len(left), "first": left[0].Raw})
		}
	}
	select {
	case err := <-h.serveEr:
		rec.Violation("dns-server-stopped:"+verifC11Entry, "RecvAndRespond returned while datagrams were being sent: the responder stopped serving", err.Error())
	default:
	}
	rec.Count("datagrams_sent", int(h.sent.Load()))
	rec.Count("pings_sent", int(h.pings.Load()))
	rec.Count("controls_answered", int(h.controlsOK.Load()))
	rec.Count("answers_received", int(h.answers.Load()))
	rec.Count("callback_calls", int(h.calls.Load()))
}

// ---- "still alive after junk" -----------------------------------------------------------------------
//
// The one responder of this run is fed bursts of datagrams of every class that takes an early exit in
// the request goroutine (and of the classes that are answered), 300, 1 000 and 5 000 of each and mixed,
// from one socket and from four sockets at once.  Datagrams go out in chunks small enough for the
// server's socket buffer; after every chunk and at the end of every burst a CONTROL query is sent that a
// healthy responder answers (verifPing: unanswered => retried on fresh sockets => stack scan).  After a
// burst has settled the request goroutines still alive are counted: more than 10 000 lingering, parked,
// on three scans = resource:goroutines-leaked.

type verifC11Junk struct {
	name string
	gen  func(h *verifC11Resp, r *rand.Rand) []byte
}

func (h *verifC11Resp) verifFramedQuery(framed []byte, domain dns.Name, mod func(q *dns.Message)) []byte {
	name, ok := h.verifName(framed, domain, false)
	if !ok {
		panic("verif infrastructure: junk payload does not fit a name")
	}
	q := &dns.Message{ID: uint16(0x100), Flags: 0x0100, Question: []dns.Question{{Name: name, Type: dns.RRTypeTXT, Class: dns.ClassIN}},
		Additional: []dns.RR{{Name: dns.Name{}, Type: dns.RRTypeOPT, Class: 4096, TTL: 0, Data: []byte{}}}}
	if mod != nil {
		mod(q)
	}
	b, err := q.WireFormat()
	if err != nil {
		panic("verif infrastructure: " + err.Error())
	}
	return b
}

func (h *verifC11Resp) verifNoiseQuery(r *rand.Rand, first byte, mod func(q *dns.Message)) []byte {
	pt := make([]byte, 1+r.Intn(40))
	r.Read(pt)
	pt[0] = first
	framed, err := msgformat.AddRequestFormat(h.verifNoise(pt))
	if err != nil {
		panic("verif infrastructure: " + err.Error())
	}
	return h.verifFramedQuery(framed, h.domain, mod)
}

var verifC11JunkClasses = []verifC11Junk{
	{"qr-bit-set(no answer)", func(h *verifC11Resp, r *rand.Rand) []byte {
		return h.verifNoiseQuery(r, 2, func(q *dns.Message) { q.Flags |= 0x8000 })
	}},
	{"bad-length-prefix(dropped)", func(h *verifC11Resp, r *rand.Rand) []byte {
		p := make([]byte, 12)
		r.Read(p)
		p[0] = 200 // announces more than follows
		return h.verifFramedQuery(p, h.domain, nil)
	}},
	{"invalid-noise-payload(dropped)", func(h *verifC11Resp, r *rand.Rand) []byte {
		p := make([]byte, 1+48+r.Intn(20))
		r.Read(p)
		p[0] = byte(len(p) - 1)
		return h.verifFramedQuery(p, h.domain, nil)
	}},
	{"registrar-refuses(dropped)", func(h *verifC11Resp, r *rand.Rand) []byte { return h.verifNoiseQuery(r, 0, nil) }},
	{"answer-exceeds-16-bit-length(dropped)", func(h *verifC11Resp, r *rand.Rand) []byte { return h.verifNoiseQuery(r, 5, nil) }},
	{"answer-exceeds-udp-limit(answered empty)", func(h *verifC11Resp, r *rand.Rand) []byte { return h.verifNoiseQuery(r, 4, nil) }},
	{"valid(answered)", func(h *verifC11Resp, r *rand.Rand) []byte { return h.verifNoiseQuery(r, 2, nil) }},
	{"wrong-domain(nxdomain)", func(h *verifC11Resp, r *rand.Rand) []byte {
		d, _ := dns.ParseName("other.example.org")
		return h.verifFramedQuery([]byte{3, 1, 2, 3}, d, nil)
	}},
	{"truncated", func(h *verifC11Resp, r *rand.Rand) []byte {
		b := h.verifNoiseQuery(r, 2, nil)
		return b[:1+r.Intn(len(b)-1)]
	}},
	{"oversized", func(h *verifC11Resp, r *rand.Rand) []byte {
		b := make([]byte, 4097+r.Intn(2000))
		r.Read(b)
		b[2] &^= 0x80
		return b
	}},
	{"zero-length", func(h *verifC11Resp, r *rand.Rand) []byte { return []byte{} }},
	{"random", func(h *verifC11Resp, r *rand.Rand) []byte { return kit.C11Random(r, 300) }},
	{"no-opt/small-payload-size(formerr)", func(h *verifC11Resp, r *rand.Rand) []byte {
		return h.verifNoiseQuery(r, 2, func(q *dns.Message) {
			if r.Intn(2) == 0 {
				q.Additional = nil
			} else {
				q.Additional[0].Class = 512
			}
		})
	}},
}

func (h *verifC11Resp) verifBurst(class string, n, sockets int, gen func(r *rand.Rand) (string, []byte)) bool {
	var wg sync.WaitGroup
	okAll := atomic.Bool{}
	okAll.Store(true)
	for k := 0; k < sockets; k++ {
		wg.Add(1)
		go func(k int) {
			defer wg.Done()
			r := kit.Rand(fmt.Sprintf("c11-alive/%s/%d/%d/%d", class, n, sockets, k))
			uc, err := net.DialUDP("udp", nil, h.addr)
			if err != nil {
				panic("verif infrastructure: " + err.Error())
			}
			defer uc.Close()
			s := &verifC11Sock{c: uc}
			inChunk, bytesInChunk := 0, 0
			for i := k; i < n; i += sockets {
				if h.dead.Load() {
					okAll.Store(false)
					return
				}
				cls, b := gen(r)
				h.lastClass.Store(cls)
				uc.Write(b)
				h.sent.Add(1)
				h.rec.Count("junk_sent["+cls+"]", 1)
				inChunk++
				bytesInChunk += len(b) + 800
				// keep what is in flight per socket well inside the server's socket buffer
				if inChunk >= 100/sockets+8 || bytesInChunk > 100000/sockets {
					inChunk, bytesInChunk = 0, 0
					if !h.verifPing(s) {
						okAll.Store(false)
						return
					}
				}
			}
			if !h.verifPing(s) {
				okAll.Store(false)
			}
		}(k)
	}
	wg.Wait()
	return okAll.Load()
}

func (h *verifC11Resp) verifAlive(t *testing.T) {
	rec := h.rec
	base := runtime.NumGoroutine()
	settle := func(what string) {
		// wait until the request goroutines of the burst are gone (or stop going)
		deadline := time.Now().Add(20 * time.Second)
		for runtime.NumGoroutine() > base+50 && time.Now().Before(deadline) {
			time.Sleep(5 * time.Millisecond)
		}
		if n := runtime.NumGoroutine() - base; n > 10000 {
			stable, parked, sample := kit.C11Lingering("RecvAndRespond.func1")
			d := map[string]interface{}{"after": what, "request_goroutines_lingering": stable, "of_them_parked": parked, "sample_stack": sample}
			if stable > 10000 && parked > 10000 {
				rec.Violation("resource:goroutines-leaked:dns-responder", fmt.Sprintf("%d request goroutines of the responder linger, parked, after the burst has settled (three scans)", parked), d)
			} else {
				rec.Inconclusive("many goroutines after a burst, but not stably parked request goroutines", d)
			}
		}
	}
	sizes := []struct{ n, sockets int }{{300, 1}, {1000, 1}, {1000, 4}, {5000, 4}}
	bursts := 0
	for _, jc := range verifC11JunkClasses {
		jc := jc
		for _, sz := range sizes {
			what := fmt.Sprintf("%d x %s from %d socket(s)", sz.n, jc.name, sz.sockets)
			rec.Case(map[string]interface{}{"alive_after_junk": what})
			ok := h.verifBurst(jc.name, sz.n, sz.sockets, func(r *rand.Rand) (string, []byte) { return jc.name, jc.gen(h, r) })
			bursts++
			rec.Count("evaluations", sz.n)
			rec.Distinct("nontrivial", "alive-after-junk", jc.name, sz.n, sz.sockets)
			if !ok {
				return
			}
			settle(what)
		}
	}
	for _, sz := range append(sizes, struct{ n, sockets int }{kit.Tier(5000, 100000), 1}) {
		what := fmt.Sprintf("%d x mixed from %d socket(s)", sz.n, sz.sockets)
		rec.Case(map[string]interface{}{"alive_after_junk": what})
		ok := h.verifBurst("mixed", sz.n, sz.sockets, func(r *rand.Rand) (string, []byte) {
			jc := verifC11JunkClasses[r.Intn(len(verifC11JunkClasses))]
			return jc.name, jc.gen(h, r)
		})
		bursts++
		rec.Count("evaluations", sz.n)
		rec.Distinct("nontrivial", "alive-after-junk", "mixed", sz.n, sz.sockets)
		if !ok {
			return
		}
		settle(what)
	}
	rec.Count("alive_after_junk_bursts", bursts)
	rec.Sample(map[string]interface{}{"entry": "alive-after-junk", "bursts": bursts, "controls_answered": h.controlsOK.Load(), "goroutines_before": base, "goroutines_after": runtime.NumGoroutine()})
}

func FuzzVerifC11Responder(f *testing.F) {
	h := verifC11Setup(f, false)
	for _, s := range kit.C11Seeds(verifC11Entry, 300, h.verifGen) {
		f.Add(s)
	}
	f.Fuzz(func(t *testing.T, b []byte) {
		c := &kit.C11Case{In: b, Kind: "fuzz"}
		if p := kit.C11FuzzOne(verifC11Entry, b, func() { h.verifExec(c) }); p != nil && os.Getenv("VERIF_C11_FUZZ_OUT") == "" {
			t.Fatalf("panic in %s: %s\n%v", p.Frame, p.Val, p.Stack)
		}
	})
}
