//go:build verif

package main

// C02 – only proof of knowledge of a currently validated, unexpired registration's secret on that
// same phantom opens a tunnel, and it is matched to exactly that registration.
// Monitor: flights whose ground truth is known by construction (produced by the real client
// transports, then replayed / mutated / truncated with a label) are presented to every enabled
// transport's WrapConnection and to the real handleNewTCPConn (+ covert dial recorder) against
// registry states built by random register / track-only / use / age+sweep sequences; an independent
// reference map of those sequences says what must happen.

import (
	"bytes"
	"errors"
	"fmt"
	"math/rand"
	"net"
	"sort"
	"sync"
	"sync/atomic"
	"testing"
	"time"

	kit "github.com/refraction-networking/conjure/internal/verifkit"
	"github.com/refraction-networking/conjure/pkg/core"
	cj "github.com/refraction-networking/conjure/pkg/station/lib"
	"github.com/refraction-networking/conjure/pkg/transports"
	"github.com/refraction-networking/conjure/pkg/transports/wrapping/prefix"
	pb "github.com/refraction-networking/conjure/proto"
)

type c02Key struct {
	P  int // phantom index
	S  int // secret index
	TT pb.TransportType
}

// sortedEntries returns the model's entries in key order: map iteration order must not decide which cases a seed produces.
func (w *c02World) sortedEntries() []*c02Entry {
	out := make([]*c02Entry, 0, len(w.model))
	for _, e := range w.model {
		out = append(out, e)
	}
	sort.Slice(out, func(i, j int) bool {
		a, b := out[i].key, out[j].key
		if a.P != b.P {
			return a.P < b.P
		}
		if a.S != b.S {
			return a.S < b.S
		}
		return a.TT < b.TT
	})
	return out
}

type c02Entry struct {
	key      c02Key
	prefixID prefix.PrefixID
	spec     vRegSpec
	reg      *cj.DecoyRegistration
	valid    bool // admitted (validated)
	used     bool
	age      time.Duration
	covert   *c02Covert
}

type c02Covert struct {
	ln      net.Listener
	accepts atomic.Int64
}

func c02NewCovert() *c02Covert {
	ln, err := net.Listen("tcp", "127.0.0.1:0")
	if err != nil {
		panic(err)
	}
	c := &c02Covert{ln: ln}
	go func() {
		for {
			conn, err := ln.Accept()
			if err != nil {
				return
			}
			c.accepts.Add(1)
			conn.Close()
		}
	}()
	return c
}

type c02World struct {
	s        *vStation
	phantoms []net.IP
	secrets  [][]byte
	model    map[c02Key]*c02Entry // reference: what is tracked now
	gone     []*c02Entry          // expired and swept
	ops      []string
}

func (w *c02World) spec(k c02Key, id prefix.PrefixID, covert string) vRegSpec {
	sp := vRegSpec{Secret: w.secrets[k.S], TT: k.TT, LibVer: 4, Phantom: w.phantoms[k.P], Covert: covert}
	if k.TT == pb.TransportType_Prefix {
		sp.Params = vPrefixParams(id, false, prefix.DefaultFlush)
	} else {
		sp.Params = &pb.GenericTransportParams{RandomizeDstPort: boolp(false)}
	}
	return sp
}

var c02TTs = []pb.TransportType{pb.TransportType_Min, pb.TransportType_Obfs4, pb.TransportType_Prefix}

type c02Op struct {
	op string // admit, use, age
	k  c02Key
	d  time.Duration
}

// c02Scripts: per transport, two registrations with different secrets on phantom 0 (and a bystander on phantom 1);
// "used" keeps one alive while the other expires, "later" registers one after the other has aged.
var c02Scripts = func() (out [][]c02Op) {
	for _, ta := range c02TTs {
		for _, tb := range c02TTs {
			a, b, c := c02Key{0, 0, ta}, c02Key{0, 1, tb}, c02Key{1, 2, ta}
			// a is used and stays, b expires unused
			out = append(out, []c02Op{{op: "admit", k: a}, {op: "admit", k: b}, {op: "admit", k: c}, {op: "use", k: a}, {op: "age", d: 11 * time.Minute}})
			// b is registered later and stays, a expires
			out = append(out, []c02Op{{op: "admit", k: a}, {op: "age", d: 7 * time.Minute}, {op: "admit", k: b}, {op: "admit", k: c}, {op: "age", d: 4 * time.Minute}})
		}
	}
	// a registration is delivered again after its lifetime ran out but before the sweep (and, as a control, shortly
	// before): the duplicate must neither revive it nor restart its clock
	for _, ta := range c02TTs {
		a, b := c02Key{0, 0, ta}, c02Key{0, 1, c02TTs[0]}
		out = append(out, []c02Op{{op: "admit", k: a}, {op: "ageonly", d: 11 * time.Minute}, {op: "dup", k: a}, {op: "admit", k: b}, {op: "age", d: 0}})
		out = append(out, []c02Op{{op: "admit", k: a}, {op: "use", k: a}, {op: "ageonly", d: 6*time.Hour + 2*time.Minute}, {op: "dup", k: a}, {op: "admit", k: b}, {op: "age", d: 0}})
		out = append(out, []c02Op{{op: "admit", k: a}, {op: "ageonly", d: 9 * time.Minute}, {op: "dup", k: a}, {op: "admit", k: b}, {op: "age", d: 0}, {op: "age", d: 2 * time.Minute}})
	}
	// one secret under two transports on one phantom (same port, so the detector's entry is the same): the first is only
	// tracked (refused or still being probed) when its sibling is validated – validating the sibling must not make the
	// tracked one matchable; and the reverse order as a control (added after seeded change C02-N)
	for i, ta := range c02TTs {
		for j, tb := range c02TTs {
			if ta == tb {
				continue
			}
			a, b, c := c02Key{0, 0, ta}, c02Key{0, 0, tb}, c02Key{0, 1, ta}
			out = append(out, []c02Op{{op: "track", k: a}, {op: "admit", k: b}, {op: "admit", k: c}})
			if (i+j)%2 == 1 {
				out = append(out, []c02Op{{op: "admit", k: b}, {op: "track", k: a}, {op: "admit", k: c}})
			}
		}
	}
	// a used registration outlives two generations of neighbours and finally expires itself
	a, b, c := c02Key{0, 0, pb.TransportType_Min}, c02Key{0, 1, pb.TransportType_Prefix}, c02Key{0, 2, pb.TransportType_Obfs4}
	out = append(out, []c02Op{{op: "admit", k: a}, {op: "use", k: a}, {op: "admit", k: b}, {op: "age", d: 3 * time.Hour}, {op: "admit", k: c}, {op: "age", d: 4 * time.Hour}})
	return out
}()

func c02Build(t *testing.T, rng *rand.Rand, idx int) *c02World {
	w := &c02World{s: vNewStation(t, fmt.Sprint("c02-", idx)), model: map[c02Key]*c02Entry{}}
	for i := 0; i < 3; i++ {
		w.phantoms = append(w.phantoms, net.IPv4(100, 70, byte(idx), byte(10+i)).To4())
	}
	for i := 0; i < 4; i++ {
		w.secrets = append(w.secrets, vSecret(rng))
	}
	admit := func(k c02Key, id prefix.PrefixID, trackOnly bool) {
		e := &c02Entry{key: k, prefixID: id, covert: c02NewCovert()}
		e.spec = w.spec(k, id, e.covert.ln.Addr().String())
		var err error
		if trackOnly {
			e.reg, err = w.s.vTrackOnly(e.spec)
			w.ops = append(w.ops, fmt.Sprintf("track-only%v", k))
		} else {
			e.reg, err = w.s.vAdmit(e.spec)
			e.valid = true
			w.ops = append(w.ops, fmt.Sprintf("admit%v", k))
		}
		if err != nil {
			t.Fatalf("cannot build registration %v: %v", e.spec, err)
		}
		w.model[k] = e
	}
	use := func(e *c02Entry) {
		w.s.rm.MarkActive(e.reg)
		e.used = true
		w.ops = append(w.ops, fmt.Sprintf("use%v", e.key))
	}
	ageSweep := func(d time.Duration) {
		w.s.rm.VerifBackdate(d)
		w.s.rm.RemoveOldRegistrations()
		w.ops = append(w.ops, fmt.Sprintf("age(%v)+sweep", d))
		for _, e := range w.sortedEntries() {
			k := e.key
			e.age += d
			if (!e.used && e.age > 10*time.Minute) || e.age > 6*time.Hour {
				delete(w.model, k)
				w.gone = append(w.gone, e)
			}
		}
	}
	if idx < len(c02Scripts) {
		// fixed worlds first: staggered expiry on one phantom (one registration is forgotten while a neighbour on the
		// same phantom stays) in every combination the random worlds only reach by luck
		for _, op := range c02Scripts[idx] {
			switch op.op {
			case "admit":
				admit(op.k, vAllPrefixIDs[(idx+op.k.S)%len(vAllPrefixIDs)], false)
			case "track":
				admit(op.k, vAllPrefixIDs[(idx+op.k.S)%len(vAllPrefixIDs)], true)
			case "use":
				use(w.model[op.k])
			case "age":
				ageSweep(op.d)
			case "ageonly": // time passes, no sweep yet
				w.s.rm.VerifBackdate(op.d)
				w.ops = append(w.ops, fmt.Sprintf("age(%v)", op.d))
				for _, e := range w.sortedEntries() {
					e.age += op.d
				}
			case "dup": // the same registration is delivered again (real ingest): it changes nothing, in particular not its age
				if e := w.model[op.k]; e != nil {
					if _, err := w.s.vAdmit(e.spec); err != nil {
						t.Fatalf("duplicate delivery: %v", err)
					}
					w.ops = append(w.ops, fmt.Sprintf("duplicate%v", op.k))
				}
			}
		}
		return w
	}
	nOps := 8 + rng.Intn(8)
	willSweep := idx%3 != 0 // a third of the worlds never sweep and may share one secret between transports on one phantom
	for i := 0; i < nOps; i++ {
		switch r := rng.Intn(10); {
		case r < 5: // admit or track-only a fresh key
			k := c02Key{rng.Intn(3), rng.Intn(4), c02TTs[rng.Intn(3)]}
			if _, ok := w.model[k]; ok {
				continue
			}
			if willSweep {
				clash := false
				for o := range w.model {
					if o.P == k.P && o.S == k.S {
						clash = true // same secret, other transport, same phantom: expiry of that pair is C08's subject
					}
				}
				if clash {
					continue
				}
			}
			id := vAllPrefixIDs[rng.Intn(len(vAllPrefixIDs))]
			admit(k, id, rng.Intn(4) == 0)
		case r < 6: // a connection arrives: mark used
			for _, e := range w.sortedEntries() {
				if e.valid && rng.Intn(3) == 0 {
					use(e)
					break
				}
			}
		default:
			if !willSweep {
				continue
			}
			ageSweep([]time.Duration{4 * time.Minute, 7 * time.Minute, 3 * time.Hour, 4 * time.Hour}[rng.Intn(4)])
		}
	}
	return w
}

type c02Flight struct {
	Label  string // what it is
	Data   []byte
	Src    *c02Entry // registration the flight was derived from (nil: none)
	Expect *c02Entry // registration that must be returned at the phantom it is sent to (nil: reject)
	P      int
	Kind   string
}

func (w *c02World) expectAt(p int, src *c02Entry, flightPrefix prefix.PrefixID) *c02Entry {
	// a genuine, unmodified flight of src's (secret, transport[, prefix]) sent to phantom p
	e, ok := w.model[c02Key{p, src.key.S, src.key.TT}]
	if !ok || !e.valid {
		return nil
	}
	if e.key.TT == pb.TransportType_Prefix && e.prefixID != flightPrefix {
		return nil
	}
	return e
}

func (w *c02World) flights(t *testing.T, rng *rand.Rand, bitBudget int) []c02Flight {
	var out []c02Flight
	all := w.sortedEntries()
	all = append(all, w.gone...)
	for _, e := range all {
		fl, err := w.s.vFlight(e.spec)
		if err != nil {
			t.Fatalf("flight: %v", err)
		}
		state := "valid"
		if _, ok := w.model[e.key]; !ok {
			state = "expired+swept"
		} else if !e.valid {
			state = "tracked-not-valid"
		}
		// genuine flight at every phantom (own phantom: accept iff valid; others: replay)
		for p := range w.phantoms {
			kind := "genuine@own-phantom:" + state
			if p != e.key.P {
				kind = "replay@other-phantom"
			}
			out = append(out, c02Flight{Label: fmt.Sprintf("%s %v -> phantom %d", kind, e.key, p), Data: fl, Src: e, Expect: w.expectAt(p, e, e.prefixID), P: p, Kind: kind})
		}
		// the same secret with every OTHER transport / other prefix id (genuine client flights for those)
		for _, tt := range c02TTs {
			ids := []prefix.PrefixID{e.prefixID}
			if tt == pb.TransportType_Prefix {
				ids = []prefix.PrefixID{vAllPrefixIDs[rng.Intn(len(vAllPrefixIDs))], vAllPrefixIDs[rng.Intn(len(vAllPrefixIDs))]}
			}
			for _, id := range ids {
				if tt == e.key.TT && (tt != pb.TransportType_Prefix || id == e.prefixID) {
					continue
				}
				other := &c02Entry{key: c02Key{e.key.P, e.key.S, tt}, prefixID: id}
				other.spec = w.spec(other.key, id, "127.0.0.1:9")
				ofl, err := w.s.vFlight(other.spec)
				if err != nil {
					t.Fatalf("flight: %v", err)
				}
				kind := "other-transport"
				if tt == e.key.TT {
					kind = "other-prefix-id"
				}
				out = append(out, c02Flight{Label: fmt.Sprintf("%s: secret of %v sent as %s/%s", kind, e.key, tt, id.Name()), Data: ofl, Src: e,
					Expect: w.expectAt(e.key.P, other, id), P: e.key.P, Kind: kind})
			}
		}
		if state != "valid" {
			continue
		}
		// altered anywhere in the tag
		var bits []int
		var skip map[int]bool
		switch e.key.TT {
		case pb.TransportType_Min:
			for b := 0; b < 256; b++ {
				bits = append(bits, b)
			}
		case pb.TransportType_Prefix:
			from, to, sk := c03TagBitsOf(e.key.TT, fl)
			skip = sk
			for b := from; b < to; b++ {
				bits = append(bits, b)
			}
		case pb.TransportType_Obfs4:
			for b := 0; b < 32*8; b++ { // representative
				bits = append(bits, b)
			}
			for b := (len(fl) - 32) * 8; b < len(fl)*8; b++ { // mark and MAC at the tail
				bits = append(bits, b)
			}
			for i := 0; i < 32 && len(fl) > 64; i++ { // padding sample
				bits = append(bits, 32*8+rng.Intn((len(fl)-64)*8))
			}
		}
		if len(bits) > bitBudget {
			rng.Shuffle(len(bits), func(i, j int) { bits[i], bits[j] = bits[j], bits[i] })
			bits = bits[:bitBudget]
		}
		for _, b := range bits {
			if skip[b] {
				continue
			}
			out = append(out, c02Flight{Label: fmt.Sprintf("bitflip@%d of genuine %v", b, e.key), Data: flipBit(fl, b), Src: e, Expect: nil, P: e.key.P, Kind: "bitflip:" + e.key.TT.String()})
		}
		// truncations: every proper prefix near the thresholds, and a sample elsewhere
		for _, l := range []int{0, 1, 16, 31, len(fl) - 33, len(fl) - 32, len(fl) - 17, len(fl) - 16, len(fl) - 2, len(fl) - 1} {
			if l >= 0 && l < len(fl) {
				out = append(out, c02Flight{Label: fmt.Sprintf("truncated to %d/%d of genuine %v", l, len(fl), e.key), Data: fl[:l], Src: e, Expect: nil, P: e.key.P, Kind: "truncated:" + e.key.TT.String()})
			}
		}
	}
	// random blobs at the threshold lengths, on every phantom
	for p := range w.phantoms {
		for _, l := range []int{0, 1, 31, 32, 33, 63, 64, 65, 85, 86, 140, 141, 8191, 8192, 8193} {
			b := make([]byte, l)
			rng.Read(b)
			out = append(out, c02Flight{Label: fmt.Sprintf("random %dB -> phantom %d", l, p), Data: b, Expect: nil, P: p, Kind: "random"})
		}
	}
	return out
}

func c03TagBitsOf(tt pb.TransportType, fl []byte) (int, int, map[int]bool) {
	return c03TagBits(c03Reg{spec: vRegSpec{TT: tt}, flight: fl})
}

// c02Wrap presents the flight to every enabled transport exactly as the handler would after having
// read all of it, and reports which registration (if any) was accepted.
func (w *c02World) wrap(f c02Flight) (accepted *cj.DecoyRegistration, by string, errs map[string]string) {
	errs = map[string]string{}
	phantom := w.phantoms[f.P]
	for tt, tr := range w.s.rm.GetWrappingTransports() {
		buf := bytes.NewBuffer(append([]byte(nil), f.Data...))
		conn := kit.NewScriptConn("c02", kit.TCPAddr(phantom.String(), 443), kit.TCPAddr("203.0.113.77", 40100), nil, kit.EndEOF)
		reg, wrapped, err := tr.WrapConnection(buf, conn, phantom, w.s.rm)
		if err == nil {
			if r, ok := reg.(*cj.DecoyRegistration); ok {
				accepted, by = r, tt.String()
			} else {
				errs[tt.String()] = fmt.Sprintf("accepted with registration of type %T", reg)
			}
			_ = wrapped
			continue
		}
		switch {
		case errors.Is(err, transports.ErrTryAgain):
			errs[tt.String()] = "try-again"
		case errors.Is(err, transports.ErrNotTransport):
			errs[tt.String()] = "not-transport"
		default:
			errs[tt.String()] = "error: " + err.Error()
		}
	}
	return
}

func TestVerifC02(t *testing.T) {
	rec := kit.NewRec("C02", "flights")
	defer rec.Close()
	rng := kit.Rand("c02")
	nWorlds := len(c02Scripts) + kit.Tier(12, 150)
	bitBudget := kit.Tier(520, 100000)
	type hcase struct {
		w *c02World
		f c02Flight
	}
	var handlerCases []hcase
	for wi := 0; wi < nWorlds; wi++ {
		w := c02Build(t, rng, wi)
		fls := w.flights(t, rng, bitBudget)
		for _, f := range fls {
			rec.CaseCheap(f.Label)
			acc, by, errs := w.wrap(f)
			detail := map[string]interface{}{"flight": f.Label, "world_ops": w.ops, "transport_answers": errs, "accepted_by": by, "flight_head": kit.HexN(f.Data, 40)}
			switch {
			case f.Expect == nil && acc != nil:
				detail["accepted_registration"] = fmt.Sprintf("%s secret=%s phantom=%s valid=%v", acc.Transport, kit.HexN(acc.Keys.SharedSecret, 4), acc.PhantomIp, acc.Valid)
				rec.Violation("accepted-but-must-reject:"+f.Kind, "a first flight that must not open a tunnel was accepted", detail)
			case f.Expect != nil && acc == nil:
				rec.Violation("rejected-but-genuine:"+f.Kind, "a genuine first flight for a validated registration on this phantom was rejected", detail)
			case f.Expect != nil && acc != f.Expect.reg:
				detail["expected"] = fmt.Sprint(f.Expect.key)
				detail["accepted_registration"] = fmt.Sprintf("%s secret=%s phantom=%s", acc.Transport, kit.HexN(acc.Keys.SharedSecret, 4), acc.PhantomIp)
				rec.Violation("matched-to-another-registration:"+f.Kind, "the flight was matched to a registration other than the one whose secret it proves", detail)
			}
			rec.Count("evaluations", 1)
			if f.Expect != nil {
				rec.Count("accepts_expected", 1)
			}
			rec.Distinct("nontrivial", wi, f.Label)
			rec.Distinct("kinds", f.Kind, f.Expect != nil)
			if rec.WantSample() && (f.Kind == "replay@other-phantom" || f.Kind == "other-prefix-id") {
				rec.Sample(map[string]interface{}{"flight": f.Label, "world_ops": w.ops, "expected_accept": f.Expect != nil, "transport_answers": errs})
			}
			// a subset goes through the real handler as well
			pick := false
			switch {
			case f.Expect != nil:
				pick = true
			case f.Kind == "random":
				pick = rng.Intn(8) == 0
			case len(f.Kind) > 7 && f.Kind[:7] == "bitflip":
				pick = rng.Intn(40) == 0
			default:
				pick = rng.Intn(3) == 0
			}
			if pick {
				handlerCases = append(handlerCases, hcase{w, f})
			}
		}
	}
	// ---- second level: the real connection handler; accept = the registration's covert is dialled
	hrec := kit.NewRec("C02", "handler")
	defer hrec.Close()
	var wg sync.WaitGroup
	ch := make(chan hcase, 64)
	for i := 0; i < 96; i++ {
		wg.Add(1)
		go func() {
			defer wg.Done()
			for hc := range ch {
				if hrec.Violations() > 60 {
					continue
				}
				c02Handler(hrec, hc.w, hc.f)
			}
		}()
	}
	for _, hc := range handlerCases {
		ch <- hc
	}
	close(ch)
	wg.Wait()
	// ---- epilogue: after real connections have been proxied on some registrations (the handler cases
	// above went through MarkActive and Proxy), let more than the longest lifetime pass and sweep: every
	// registration is expired now, whatever it carried, so no genuine flight may be accepted any more.
	seenWorld := map[*c02World]bool{}
	for _, hc := range handlerCases {
		w := hc.w
		if seenWorld[w] {
			continue
		}
		seenWorld[w] = true
		w.s.rm.VerifBackdate(7 * time.Hour)
		w.s.rm.RemoveOldRegistrations()
		entries := w.sortedEntries()
		for _, e := range entries {
			fl, err := w.s.vFlight(e.spec)
			if err != nil {
				continue
			}
			f := c02Flight{Label: fmt.Sprintf("genuine@own-phantom after 7 h + sweep %v (used=%v)", e.key, e.used), Data: fl, Src: e, P: e.key.P, Kind: "genuine@own-phantom:expired-after-use"}
			rec.CaseCheap(f.Label)
			acc, by, errs := w.wrap(f)
			if acc != nil {
				rec.Violation("accepted-but-must-reject:"+f.Kind, "a registration older than every lifetime still matches connections after the sweep",
					map[string]interface{}{"flight": f.Label, "world_ops": w.ops, "accepted_by": by, "transport_answers": errs})
			}
			rec.Count("evaluations", 1)
			rec.Distinct("nontrivial", fmt.Sprintf("%p", w), f.Label)
		}
		if regs, tos := w.s.rm.VerifTotals(); regs != 0 || tos != 0 {
			rec.Violation("state-not-forgotten-after-all-lifetimes", "registrations or timeout records are still tracked although everything is older than every lifetime",
				map[string]interface{}{"world_ops": w.ops, "registrations": regs, "timeout_records": tos})
		}
	}
	_ = core.ConjureHMAC
}

var c02WorldMu sync.Map // *c02World -> *sync.RWMutex

// Accept-expected cases run exclusively per world (they are fast); reject-expected cases share the
// world (some of them sleep 5-10 s of real time inside the handler) and, if any covert of the world
// is dialled meanwhile, re-run alone to attribute the dial.
func c02Handler(rec *kit.Rec, w *c02World, f c02Flight) {
	muI, _ := c02WorldMu.LoadOrStore(w, &sync.RWMutex{})
	mu := muI.(*sync.RWMutex)
	if f.Expect != nil {
		mu.Lock()
		defer mu.Unlock()
		c02HandlerOnce(rec, w, f, true)
		return
	}
	mu.RLock()
	clean := c02HandlerOnce(rec, w, f, false)
	mu.RUnlock()
	if !clean {
		mu.Lock()
		c02HandlerOnce(rec, w, f, true)
		mu.Unlock()
	}
}

// c02HandlerOnce returns false when a dial was seen but cannot be attributed (report=false).
func c02HandlerOnce(rec *kit.Rec, w *c02World, f c02Flight, report bool) bool {
	phantom := w.phantoms[f.P]
	before := map[*c02Entry]int64{}
	entries := w.sortedEntries()
	entries = append(entries, w.gone...)
	for _, e := range entries {
		before[e] = e.covert.accepts.Load()
	}
	conn := kit.NewScriptConn("c02h", kit.TCPAddr(phantom.String(), 443), kit.TCPAddr("203.0.113.77", 40200), []kit.Seg{{Data: f.Data}}, kit.EndVirtualTimeout)
	conn.MaxBlock = 60 * time.Second
	w.s.vHandle(conn, phantom)
	// a dial that happened is visible once Accept returned; Proxy has returned, so the TCP handshake completed;
	// give the accept loop a moment
	var dialled []*c02Entry
	settle := func() {
		dialled = dialled[:0]
		for _, e := range entries {
			if e.covert.accepts.Load() > before[e] {
				dialled = append(dialled, e)
			}
		}
	}
	settle()
	if f.Expect != nil && len(dialled) == 0 {
		vWaitFor(20*time.Second, func() bool { settle(); return len(dialled) > 0 })
	} else {
		time.Sleep(2 * time.Millisecond)
		settle()
	}
	if !report {
		if len(dialled) > 0 {
			return false
		}
	}
	detail := map[string]interface{}{"flight": f.Label, "world_ops": w.ops, "ops_tail": opsTail(conn)}
	switch {
	case f.Expect == nil && len(dialled) > 0:
		detail["dialled"] = fmt.Sprint(dialled[0].key)
		rec.Violation("handler-proxied-but-must-reject:"+f.Kind, "the station proxied a connection whose first flight must not open a tunnel", detail)
	case f.Expect != nil && len(dialled) == 0:
		rec.Violation("handler-rejected-genuine:"+f.Kind, "the station did not proxy a genuine connection for a validated registration", detail)
	case f.Expect != nil && (len(dialled) != 1 || dialled[0] != f.Expect):
		detail["dialled"] = fmt.Sprint(dialled[0].key)
		rec.Violation("handler-proxied-to-another-registration:"+f.Kind, "the connection was proxied to the covert of another registration", detail)
	}
	if f.Expect != nil {
		f.Expect.used = true
	}
	rec.Count("evaluations", 1)
	rec.Distinct("nontrivial", fmt.Sprintf("%p", w), f.Label)
	if rec.WantSample() && f.Expect != nil {
		rec.Sample(map[string]interface{}{"flight": f.Label, "dialled": fmt.Sprint(f.Expect.key), "ops_tail": opsTail(conn)})
	}
	return true
}

// TestVerifC02MidClassification: "aimed at a registration that is … already expired … never accepted" also has to hold
// for a connection that was accepted while the registration was alive and completes its first flight after the
// registration has expired and was swept (the handler must judge with the registry as it is, not as it was when the
// connection arrived).  The real handler runs on a conn fed in two steps; the gap runs once the handler is parked in Read.
// (Helpers shared with the C08 handler stage: c08Connect, c08NewCovert, c08Transport.)
// c02ConnectReplyGap presents the whole stream at once; between() runs inside the station's FIRST Write to the client (on
// the handler's own goroutine, outside the conn's lock): the client is slow to take the server's reply.
func c02ConnectReplyGap(s *vStation, phantom net.IP, port int, stream []byte, between func()) c08ConnResult {
	conn := kit.NewScriptConn("client", kit.TCPAddr(phantom.String(), 443), kit.TCPAddr("203.0.113.77", port), nil, kit.EndBlock)
	conn.MaxBlock = 120 * time.Second
	var once sync.Once
	var ran atomic.Bool
	conn.OnWrite = func([]byte) { once.Do(func() { between(); ran.Store(true) }) }
	done := make(chan struct{})
	t0 := time.Now()
	go func() { s.vHandle(conn, phantom); close(done) }()
	conn.Feed(kit.Seg{Data: stream})
	conn.SetAtEnd(kit.EndEOF)
	res := c08ConnResult{}
	select {
	case <-done:
		res.returned = true
	case <-time.After(90 * time.Second):
		conn.Close()
		select {
		case <-done:
		case <-time.After(30 * time.Second):
		}
	}
	res.elapsed = time.Since(t0)
	st := conn.State()
	res.realTimout = st.TerminalReadErr != nil && kit.IsTimeout(st.TerminalReadErr) && !st.VirtualFired
	res.ops = opsTail(conn)
	res.gapRan = ran.Load()
	return res
}

func TestVerifC02MidClassification(t *testing.T) {
	rec := kit.NewRec("C02", "midclass")
	defer rec.Close()
	rng := kit.Rand("c02-midclass")
	trs := []c08Transport{{"min", pb.TransportType_Min, 0}, {"obfs4", pb.TransportType_Obfs4, 0}}
	for _, id := range vAllPrefixIDs[:kit.Tier(2, len(vAllPrefixIDs))] {
		trs = append(trs, c08Transport{fmt.Sprintf("prefix-%d", id), pb.TransportType_Prefix, id})
	}
	n := 0
	for rep := 0; rep < kit.Tier(1, 6); rep++ {
		for _, tr := range trs {
			for _, gap := range []string{"none", "expired+swept"} {
				cutKinds := []string{"inside-tag", "last-byte", "accept"}
				if tr.TT == pb.TransportType_Obfs4 {
					// the obfs4 station answers the client's handshake before WrapConnection returns: a client that is slow to
					// take the reply opens a gap between the registry lookup and MarkActive (added after seeded change C02-M)
					cutKinds = append(cutKinds, "server-reply")
				}
				for _, cutKind := range cutKinds {
					n++
					label := fmt.Sprintf("#%d %s cut=%s gap=%s", n, tr.Name, cutKind, gap)
					rec.CaseCheap(label)
					s := vNewStation(t, fmt.Sprintf("c02mid/%d", n))
					phantom := net.IPv4(198, 19, byte(1+n/250), byte(1+n%250)).To4()
					cov := c08NewCovert(t)
					sp := tr.spec(vSecret(rng), phantom, cov.ln.Addr().String())
					if _, err := s.vAdmit(sp); err != nil {
						rec.Inconclusive("the registration was refused", label)
						cov.ln.Close()
						continue
					}
					flight, err := s.vFlight(sp)
					if err != nil {
						rec.Inconclusive("client transport failed", label)
						cov.ln.Close()
						continue
					}
					from, to := tr.tagSpan(flight)
					cut := 0
					switch cutKind {
					case "inside-tag":
						cut = from + 1 + rng.Intn(to-from-2)
					case "last-byte":
						cut = to - 1
					}
					stream := append([]byte{}, flight...)
					if tr.TT != pb.TransportType_Obfs4 {
						stream = append(stream, []byte("\x10application data of the client")...)
					}
					before, _ := cov.settle()
					gapFn := func() {
						if gap == "expired+swept" {
							s.rm.VerifBackdate(11 * time.Minute)
							s.rm.RemoveOldRegistrations()
						}
					}
					var r c08ConnResult
					if cutKind == "server-reply" {
						r = c02ConnectReplyGap(s, phantom, 42000+n, stream, gapFn)
					} else {
						r = c08Connect(s, phantom, 42000+n, stream, cut, gapFn)
					}
					after, ok := cov.settle()
					if ok && r.returned && gap == "expired+swept" {
						// whatever became of that connection: the registration is forgotten now, so a FRESH genuine flight for it
						// (complete, in one piece) must be refused – a handler that was holding the registration's object across
						// the sweep must not have brought it back
						if fl2, err := s.vFlight(sp); err == nil {
							st2 := append([]byte{}, fl2...)
							if tr.TT != pb.TransportType_Obfs4 {
								st2 = append(st2, []byte("\x10second connection after the sweep")...)
							}
							b2, _ := cov.settle()
							r2 := c08Connect(s, phantom, 52000+n, st2, 0, nil)
							a2, ok2 := cov.settle()
							if ok2 && r2.returned {
								rec.Count("evaluations", 1)
								rec.Count("midclass_fresh_flight_after_sweep", 1)
								if a2 > b2 {
									rec.Violation("handler-proxied-but-must-reject:fresh-flight-after-sweep:"+cutKind, "after a registration had expired and was swept while a connection for it was being classified, a later genuine flight for it was proxied (the forgotten registration is being served again)",
										map[string]interface{}{"case": label, "first_connection_proxied": after > before, "ops_first": r.ops, "ops_second": r2.ops})
								}
							}
						}
					}
					cov.ln.Close()
					if cutKind == "server-reply" {
						// the match happened before the gap; whether that connection is still proxied is not judged
						// (gap none: it must be, as a control that the rendezvous does not disturb a healthy session)
						if ok && r.returned {
							rec.Count("evaluations", 1)
							rec.Distinct("nontrivial", tr.Name, cutKind, gap)
							if gap == "none" && after <= before && !r.realTimout && r.elapsed <= 4*time.Second {
								rec.Violation("handler-rejected-genuine:slow-reply", "a genuine obfs4 flight whose client took the server reply slowly (registration alive throughout) was not proxied",
									map[string]interface{}{"case": label, "ops": r.ops})
							}
							if !r.gapRan {
								rec.Inconclusive("the station wrote nothing to the client: the reply rendezvous was never reached", label)
							}
						} else {
							rec.Inconclusive("the connection could not be judged", map[string]interface{}{"case": label, "returned": r.returned, "ops": r.ops})
						}
						continue
					}
					if !ok || !r.returned {
						rec.Inconclusive("the connection could not be judged", map[string]interface{}{"case": label, "returned": r.returned, "ops": r.ops})
						continue
					}
					proxied := after > before
					rec.Count("evaluations", 1)
					rec.Distinct("nontrivial", tr.Name, cutKind, gap)
					switch {
					case gap == "expired+swept" && proxied:
						rec.Violation("handler-proxied-but-must-reject:expired+swept-during-classification", "a connection whose first flight was completed after its registration had expired and was swept was proxied",
							map[string]interface{}{"case": label, "ops": r.ops})
					case gap == "none" && !proxied:
						if r.realTimout || r.elapsed > 4*time.Second {
							rec.Inconclusive("a live registration was not proxied but a real timeout may have intervened", label)
						} else {
							rec.Violation("handler-rejected-genuine:paused-flight", "a genuine flight that pauses during classification (registration alive throughout) was not proxied",
								map[string]interface{}{"case": label, "ops": r.ops})
						}
					}
				}
			}
		}
	}
}
