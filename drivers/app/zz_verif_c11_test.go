//go:build verif

package main

// C11 – entry point (2): arbitrary first flights on phantom connections.
//
//   handleNewTCPConn      the station's real connection handler on a scripted conn (kit.ScriptConn,
//                         end of script = EOF / RST, so nothing waits for a real deadline) against
//                         phantoms that carry no, one, many mixed, obfs4-only and prefix-only
//                         registrations; the flight arrives in one piece, in random cuts or byte-wise
//   min/obfs4/prefix.WrapConnection   the same flights handed to each transport's WrapConnection
//                         directly (whole buffer at once, and every prefix length around the
//                         thresholds for short flights)
//
// Flights: random bytes at the threshold lengths, protocol look-alikes, every static prefix +
// garbage, genuine first flights of the registered clients (real client transports) raw-mutated,
// truncated, extended, spliced, aimed at the wrong phantom, and (rarely, because the handler then
// sleeps until its 5-10 s deadline by design) with a valid mark / tag and a broken remainder.
//
// Oracle: process survival (panics in the handler's goroutine are recovered per case and reported
// with the input; the relay goroutines of Proxy are the handler's own and would kill the process)
// + per-input watchdog (60 s; the handler legitimately sleeps up to 10 s on a transport error).
//
// Input framing: In[0] = bits 0-2 registry, bits 3-4 segmentation (0 whole, 1 random cuts, 2 byte-wise
// first 100, 3 around thresholds), bit 5 end (0 EOF, 1 RST); In[1:] = the flight.

import (
	"bytes"
	"io"
	"math/rand"
	"net"
	"os"
	"sync/atomic"
	"testing"
	"time"

	kit "github.com/refraction-networking/conjure/internal/verifkit"
	cj "github.com/refraction-networking/conjure/pkg/station/lib"
	"github.com/refraction-networking/conjure/pkg/station/log"
	"github.com/refraction-networking/conjure/pkg/transports"
	"github.com/refraction-networking/conjure/pkg/transports/wrapping/min"
	"github.com/refraction-networking/conjure/pkg/transports/wrapping/obfs4"
	"github.com/refraction-networking/conjure/pkg/transports/wrapping/prefix"
	pb "github.com/refraction-networking/conjure/proto"
)

type verifC11Reg struct {
	spec   vRegSpec
	flight []byte
}

type verifC11App struct {
	s        *vStation
	names    []string
	ips      map[string]net.IP
	regs     map[string][]verifC11Reg
	all      []verifC11Reg
	covertLn net.Listener
	matched  atomic.Int64
}

var verifC11Registries = []string{"none", "onemin", "many", "obfs4", "prefix", "none6"}

func verifC11AppSetup(t testing.TB) *verifC11App {
	if devnull, err := os.OpenFile(os.DevNull, os.O_WRONLY, 0); err == nil {
		os.Stdout = devnull // every [CONN] line is formatted (most verbose level) and thrown away
	}
	log.SetLevel(log.TraceLevel)
	s := vNewStation(t, "c11")
	s.rm.Logger = log.New(io.Discard, "[REG] ", 0)
	h := &verifC11App{s: s, names: verifC11Registries, regs: map[string][]verifC11Reg{}, ips: map[string]net.IP{
		"none": net.ParseIP("192.122.190.20"), "onemin": net.ParseIP("192.122.190.21"), "many": net.ParseIP("192.122.190.22"),
		"obfs4": net.ParseIP("192.122.190.23"), "prefix": net.ParseIP("192.122.190.24"), "none6": net.ParseIP("2001:48a8:687f:1::77"),
	}}
	// a covert that accepts and discards (half of the registrations); the other half is refused at once
	ln, err := net.Listen("tcp", "127.0.0.1:0")
	if err != nil {
		t.Fatal(err)
	}
	h.covertLn = ln
	go func() {
		for {
			c, err := ln.Accept()
			if err != nil {
				return
			}
			go func() { io.Copy(io.Discard, c); c.Close() }()
		}
	}()
	rng := kit.Rand("c11-regs")
	n := 0
	add := func(name string, tt pb.TransportType, params interface{}) {
		n++
		covert := "127.0.0.1:9"
		if n%2 == 0 {
			covert = ln.Addr().String()
		}
		sp := vRegSpec{Secret: vSecret(rng), TT: tt, LibVer: 4, Phantom: h.ips[name], Covert: covert}
		switch p := params.(type) {
		case *pb.GenericTransportParams:
			sp.Params = p
		case *pb.PrefixTransportParams:
			sp.Params = p
		}
		if _, err := s.vAdmit(sp); err != nil {
			t.Fatalf("admit %v: %v", sp, err)
		}
		fl, err := s.vFlight(sp)
		if err != nil {
			t.Fatalf("flight %v: %v", sp, err)
		}
		r := verifC11Reg{sp, fl}
		h.regs[name] = append(h.regs[name], r)
		h.all = append(h.all, r)
	}
	gen := &pb.GenericTransportParams{RandomizeDstPort: boolp(false)}
	add("onemin", pb.TransportType_Min, gen)
	add("many", pb.TransportType_Min, gen)
	add("many", pb.TransportType_Min, nil)
	add("many", pb.TransportType_Obfs4, gen)
	add("many", pb.TransportType_Obfs4, gen)
	for _, id := range vAllPrefixIDs {
		add("many", pb.TransportType_Prefix, vPrefixParams(id, false, prefix.DefaultFlush))
	}
	add("obfs4", pb.TransportType_Obfs4, gen)
	add("prefix", pb.TransportType_Prefix, vPrefixParams(prefix.GetLong, false, prefix.DefaultFlush))
	add("prefix", pb.TransportType_Prefix, vPrefixParams(prefix.Min, false, prefix.DefaultFlush))
	add("prefix", pb.TransportType_Prefix, vPrefixParams(prefix.TLSClientHello, true, prefix.DefaultFlush))
	for name, regs := range h.regs {
		if got := s.rm.CountRegistrations(h.ips[name]); got != len(regs) {
			t.Fatalf("registry %s: %d registrations tracked, expected %d", name, got, len(regs))
		}
	}
	return h
}

var verifC11Lengths = []int{0, 1, 31, 32, 33, 63, 64, 65, 69, 70, 71, 79, 80, 81, 84, 85, 86, 108, 109, 110, 127, 140, 141, 142, 4095, 4096, 4097, 8191, 8192, 8193, 12000}

var verifC11Lookalikes = [][]byte{
	[]byte("GET / HTTP/1.1\r\nHost: example.com\r\nUser-Agent: curl/8.0\r\nAccept: */*\r\n\r\n"),
	[]byte("POST / HTTP/1.1\r\nHost: example.com\r\nContent-Length: 4096\r\n\r\n"),
	[]byte("SSH-2.0-OpenSSH_8.9p1 Ubuntu-3\r\n"),
	append([]byte{0x16, 0x03, 0x01, 0x02, 0x00, 0x01, 0x00, 0x01, 0xfc, 0x03, 0x03}, make([]byte, 501)...),
	[]byte("\x00\x1e\xab\xcd\x01\x00\x00\x01\x00\x00\x00\x00\x00\x00\x07example\x03com\x00\x00\x01\x00\x01"),
	[]byte("HTTP/1.1 200\r\nContent-Type: text/html\r\n\r\n<html>"),
}

// verifGen generates one framed first flight.  Flights that make the handler sleep until its deadline
// (valid mark / tag, broken remainder) are only generated for one case in sleepEvery of the classes
// that can produce them (0 = never).
func (h *verifC11App) verifGen(sleepEvery int) func(r *rand.Rand, idx int) kit.C11Case {
	return func(r *rand.Rand, idx int) kit.C11Case {
		sleepers := sleepEvery > 0 && r.Intn(sleepEvery) == 0
		reg := r.Intn(len(h.names))
		name := h.names[reg]
		randBytes := func(k int) []byte { b := make([]byte, k); r.Read(b); return b }
		pick := func() verifC11Reg {
			regs := h.regs[name]
			if len(regs) == 0 || r.Intn(6) == 0 {
				return h.all[r.Intn(len(h.all))] // a genuine flight aimed at another phantom
			}
			return regs[r.Intn(len(regs))]
		}
		var data []byte
		var kind string
		switch x := r.Intn(100); {
		case x < 12:
			data, kind = randBytes(verifC11Lengths[r.Intn(len(verifC11Lengths))]), "random@threshold"
		case x < 20:
			data, kind = randBytes(r.Intn(9000)), "random"
		case x < 26:
			la := verifC11Lookalikes[r.Intn(len(verifC11Lookalikes))]
			data, kind = append(append([]byte{}, la...), randBytes(r.Intn(300))...), "lookalike"
		case x < 36:
			p := vAllPrefixIDs[r.Intn(len(vAllPrefixIDs))]
			pre := prefix.DefaultPrefixes[p].Bytes()
			data, kind = append(append([]byte{}, pre...), randBytes(r.Intn(200))...), "static-prefix+garbage"
			if r.Intn(3) == 0 { // exactly around the point where the tag would be complete
				data = append(append([]byte{}, pre...), randBytes(61+r.Intn(6))...)
			}
		case x < 40: // a static prefix cut short
			p := vAllPrefixIDs[r.Intn(len(vAllPrefixIDs))]
			pre := prefix.DefaultPrefixes[p].Bytes()
			data, kind = append([]byte{}, pre[:r.Intn(len(pre)+1)]...), "static-prefix-cut"
		case x < 44:
			g := pick()
			data, kind = append([]byte{}, g.flight...), "genuine:"+g.spec.TT.String()
			if r.Intn(2) == 0 {
				data = append(data, randBytes(r.Intn(200))...) // application data behind the handshake
			}
		case x < 56: // truncated / extended genuine flight
			g := pick()
			kind = "genuine-cut:" + g.spec.TT.String()
			data = append([]byte{}, g.flight[:r.Intn(len(g.flight)+1)]...)
			if r.Intn(4) == 0 {
				data = append(data, randBytes(r.Intn(64))...)
			}
		case x < 70: // damage inside the tag / representative / mark (never leaves a valid tag behind)
			g := pick()
			kind = "genuine-tagflip:" + g.spec.TT.String()
			data = append([]byte{}, g.flight...)
			from, to := 0, 32
			switch g.spec.TT {
			case pb.TransportType_Prefix:
				from, to = len(data)-64, len(data)-64+31 // byte 31 of the representative carries two padding bits
			case pb.TransportType_Obfs4:
				if r.Intn(2) == 0 {
					from, to = len(data)-32, len(data)-16 // the mark
				}
			}
			i := from + r.Intn(to-from)
			data[i] ^= 1 << uint(r.Intn(8))
			if r.Intn(3) == 0 {
				data = append(data, randBytes(r.Intn(40))...)
			}
		case x < 90: // raw mutation of a genuine flight
			g := pick()
			if g.spec.TT == pb.TransportType_Obfs4 && !sleepers {
				// a mutation that leaves the mark intact makes the handler sleep 5-10 s: cut instead
				data, kind = append([]byte{}, g.flight[:r.Intn(len(g.flight))]...), "genuine-cut:Obfs4"
				break
			}
			o := h.all[r.Intn(len(h.all))]
			data, kind = kit.C11Mutate(r, g.flight, o.flight)
			kind += ":" + g.spec.TT.String()
		case x < 96:
			data, kind = randBytes(verifC11Lengths[r.Intn(len(verifC11Lengths))]), "random@threshold"
		default:
			if !sleepers {
				data, kind = randBytes(verifC11Lengths[r.Intn(len(verifC11Lengths))]), "random@threshold"
				break
			}
			g := pick()
			switch g.spec.TT {
			case pb.TransportType_Obfs4: // valid mark, broken padding / MAC
				data, kind = append([]byte{}, g.flight...), "validmark-broken:Obfs4"
				if len(data) > 100 {
					data[40+r.Intn(len(data)-40-32)] ^= 0x10
				}
			case pb.TransportType_Prefix: // valid tag behind another prefix's static bytes
				p := vAllPrefixIDs[r.Intn(len(vAllPrefixIDs))]
				pre := prefix.DefaultPrefixes[p].Bytes()
				data, kind = append(append([]byte{}, pre...), g.flight[len(g.flight)-64:]...), "validtag-otherprefix:Prefix"
			default:
				data, kind = append([]byte{}, g.flight...), "genuine:"+g.spec.TT.String()
			}
		}
		sel := byte(reg) | byte(r.Intn(4))<<3
		if r.Intn(8) == 0 {
			sel |= 1 << 5
		}
		return kit.C11Case{In: append([]byte{sel}, data...), Kind: kind}
	}
}

func (h *verifC11App) verifDecode(in []byte) (name string, data []byte, segMode int, rst bool) {
	sel := byte(0)
	if len(in) > 0 {
		sel, data = in[0], in[1:]
	}
	return h.names[int(sel&7)%len(h.names)], data, int(sel>>3) & 3, sel&(1<<5) != 0
}

func verifC11Cuts(data []byte, mode int) []int {
	l := len(data)
	switch mode {
	case 1: // pseudo-random cuts derived from the data (the witness is self-contained)
		var c []int
		x := uint32(l)*2654435761 + 12345
		for i := 0; i < 5 && l > 1; i++ {
			x = x*1664525 + 1013904223
			c = append(c, 1+int(x>>8)%(l-1))
		}
		sortInts(c)
		return c
	case 2:
		var c []int
		for i := 1; i < l && i < 100; i++ {
			c = append(c, i)
		}
		return c
	case 3:
		var c []int
		for _, th := range []int{32, 64, 85, 109, 141, 8192} {
			for i := th - 2; i <= th+2; i++ {
				if i > 0 && i < l {
					c = append(c, i)
				}
			}
		}
		return c
	}
	return nil
}

func (h *verifC11App) verifExecHandler(c *kit.C11Case) string {
	name, data, segMode, rst := h.verifDecode(c.In)
	phantom := h.ips[name]
	port := 443
	local := &net.TCPAddr{IP: phantom, Port: port}
	remote := kit.TCPAddr("203.0.113.77", 40000)
	segs := c03Segments(data, verifC11Cuts(data, segMode))
	if rst {
		segs = append(segs, kit.Seg{Err: kit.NetOpErr("read", local, remote, kit.SysErr("read", 104))})
	}
	conn := kit.NewScriptConn("c11", local, remote, segs, kit.EndEOF)
	conn.MaxBlock = 40 * time.Second
	t0 := time.Now()
	h.s.vHandle(conn, phantom)
	st := conn.State()
	_ = st
	out := "unmatched"
	for _, o := range conn.Ops() {
		if o.Op == "setdeadline" && o.Arg.IsZero() { // the handler clears the deadline when a transport matched
			out = "matched"
			h.matched.Add(1)
			break
		}
	}
	if time.Since(t0) > 4*time.Second {
		out += "+slept-to-deadline"
	}
	return out
}

type verifC11Wrapper interface {
	WrapConnection(data *bytes.Buffer, c net.Conn, originalDst net.IP, regManager transports.RegManager) (transports.Registration, net.Conn, error)
}

func (h *verifC11App) verifExecWrap(t verifC11Wrapper) func(c *kit.C11Case) string {
	return func(c *kit.C11Case) string {
		name, data, segMode, _ := h.verifDecode(c.In)
		phantom := h.ips[name]
		local := &net.TCPAddr{IP: phantom, Port: 443}
		remote := kit.TCPAddr("203.0.113.77", 40000)
		out := "not-transport"
		try := func(n int) {
			buf := bytes.NewBuffer(append([]byte(nil), data[:n]...))
			conn := kit.NewScriptConn("c11w", local, remote, nil, kit.EndEOF)
			reg, wrapped, err := t.WrapConnection(buf, conn, phantom, h.s.rm)
			switch {
			case err == nil && reg != nil && wrapped != nil:
				out = "wrapped"
				// the caller's next steps with what it was given
				_ = reg.TransportType()
				wrapped.SetDeadline(time.Time{})
				var b [64]byte
				wrapped.Read(b[:])
			case err == transports.ErrTryAgain:
				if out == "not-transport" {
					out = "try-again"
				}
			case err != nil && err != transports.ErrNotTransport:
				out = "error"
			}
		}
		try(len(data))
		if segMode != 0 { // shorter buffers the handler could present, around every threshold
			for _, th := range []int{0, 32, 64, 85, 109, 141} {
				for n := th - 1; n <= th+1; n++ {
					if n >= 0 && n < len(data) {
						try(n)
					}
				}
			}
		}
		return out
	}
}

func TestVerifC11Handler(t *testing.T) {
	rec := kit.NewRec("C11", "station-conn")
	defer rec.Close()
	h := verifC11AppSetup(t)
	defer h.covertLn.Close()
	before := map[string]int{}
	for name := range h.ips {
		before[name] = h.s.rm.CountRegistrations(h.ips[name])
	}
	n := kit.Tier(40000, 500000) // thorough is scaled down from 2 M: ~0.5 ms of curve arithmetic per case
	kit.C11Drive(rec, kit.C11Entry{Name: "application.handleNewTCPConn", N: n, Workers: 192, Budget: 60 * time.Second,
		Gen: h.verifGen(kit.Tier(8, 400)), Exec: h.verifExecHandler, SampleEvery: 5000})
	for _, e := range []struct {
		name string
		t    verifC11Wrapper
	}{{"min.WrapConnection", min.Transport{}}, {"obfs4.WrapConnection", obfs4.Transport{}}, {"prefix.WrapConnection", h.s.prefT}} {
		kit.C11Drive(rec, kit.C11Entry{Name: e.name, N: n, Workers: 8, Budget: 60 * time.Second,
			Gen: h.verifGen(1), Exec: h.verifExecWrap(e.t), SampleEvery: 5000})
	}
	if left := kit.WaitNoGoroutineIn(60*time.Second, "lib.halfPipe", "lib.Proxy"); left != nil {
		rec.Inconclusive("relay goroutines still running 60 s after the last case", map[string]interface{}{"count": len(left), "first": left[0].Raw})
	}
	for name := range h.ips {
		if got := h.s.rm.CountRegistrations(h.ips[name]); got != before[name] {
			rec.Note("registry " + name + " changed size during the run")
		}
	}
}

func verifC11AppFuzz(f *testing.F, entry string, exec func(h *verifC11App) func(c *kit.C11Case) string) {
	h := verifC11AppSetup(f)
	for _, s := range kit.C11Seeds(entry, 300, h.verifGen(0)) {
		f.Add(s)
	}
	ex := exec(h)
	f.Fuzz(func(t *testing.T, b []byte) {
		c := &kit.C11Case{In: b, Kind: "fuzz"}
		if p := kit.C11FuzzOne(entry, b, func() { ex(c) }); p != nil && os.Getenv("VERIF_C11_FUZZ_OUT") == "" {
			t.Fatalf("panic in %s: %s\n%v", p.Frame, p.Val, p.Stack)
		}
	})
}

// The handler sleeps 5-10 s (by design) when a transport reports an unexpected error, which would
// stall the fuzzer: such inputs (recognised by calling the transports directly on the whole buffer)
// are left to the WrapConnection targets; everything else goes through the handler in one segment.
func FuzzVerifC11Handler(f *testing.F) {
	verifC11AppFuzz(f, "application.handleNewTCPConn", func(h *verifC11App) func(c *kit.C11Case) string {
		direct := []func(c *kit.C11Case) string{h.verifExecWrap(min.Transport{}), h.verifExecWrap(obfs4.Transport{}), h.verifExecWrap(h.s.prefT)}
		return func(c *kit.C11Case) string {
			if len(c.In) == 0 {
				return ""
			}
			c.In[0] &^= 3 << 3 // whole buffer in one read
			for _, d := range direct {
				if d(c) == "error" {
					return "skipped-sleeper"
				}
			}
			return h.verifExecHandler(c)
		}
	})
}
func FuzzVerifC11WrapMin(f *testing.F) {
	verifC11AppFuzz(f, "min.WrapConnection", func(h *verifC11App) func(c *kit.C11Case) string { return h.verifExecWrap(min.Transport{}) })
}
func FuzzVerifC11WrapObfs4(f *testing.F) {
	verifC11AppFuzz(f, "obfs4.WrapConnection", func(h *verifC11App) func(c *kit.C11Case) string { return h.verifExecWrap(obfs4.Transport{}) })
}
func FuzzVerifC11WrapPrefix(f *testing.F) {
	verifC11AppFuzz(f, "prefix.WrapConnection", func(h *verifC11App) func(c *kit.C11Case) string { return h.verifExecWrap(h.s.prefT) })
}

var _ = cj.Stat
