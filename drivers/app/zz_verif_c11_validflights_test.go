//go:build verif

package main

// C11 – stage "validflights": first flights that carry a CORRECT tag.
//
// Random and mutated bytes never get past a transport's tag check, so the code that runs once a
// registration HAS been found (type assertions on its parameters, prefix-id comparison, buffer
// arithmetic behind the tag, the obfs4 server handshake, Proxy) is only reached by flights built
// with the registration's secret.  This stage therefore
//
//  1. builds registrations of every shape the ingest path admits: transport (min, obfs4, prefix) ×
//     transport_params (absent; an empty Any; the right message with every / each single optional
//     field set or unset; another transport's message where UnmarshalAnypbTo tolerates it; legacy and
//     foreign type URLs) × client library version (0, 2, 3, current, current+1) × generation (1: no
//     port randomisation, 957: mixed) × several secrets, with v4 and v6 support, through the REAL
//     parseRegMessage + ingestRegistration (a shape the station refuses is counted and skipped; what
//     it admits is kept together with TransportParams() as the station stored them), plus "trios":
//     one secret registered under all three transports (same phantom);
//  2. sends, to the phantom of every admitted registration, flights with a correct tag: the genuine
//     flight of the real client transport (prefix: under EVERY prefix id, not only the registered
//     one), followed by nothing / application data / 9000 bytes, cut short inside and right behind
//     the tag, with the bytes before / behind the tag mutated (tag intact), split at every cut (a
//     representative of every shape in quick, everything in thorough); and cross flights: the
//     identifier of a prefix registration in the clear (min framing), the identifier of a min
//     registration obfuscated behind every prefix, each flight of a trio to the shared phantom.
//
// Every flight first goes, whole, to each transport's WrapConnection directly; unless a transport
// answered with an unexpected error (the handler then sleeps 5-10 s by design: only one in 500 (quick) / 4000
// (thorough) of those goes on) it then goes through the real handleNewTCPConn on a scripted conn with its cut.
//
// Oracle: no panic (recovered per case: signature panic:validflights.<transport>:<innermost
// repository frame>, witness = registration shape + phantom + cut + flight) + per-input watchdog.
// The stage FAILS AS INCONCLUSIVE (test failure, exit 2) if for any of the three transports no
// flight ever reached "registration found".
//
// Input framing: In[0:16] phantom (16-byte form), In[16] flags (bit 0: may go through the handler
// even after a transport error), In[17:19] cut (big endian, 0 = one segment), In[19:] the flight.

import (
	"bytes"
	"encoding/binary"
	"fmt"
	"io"
	"math/rand"
	"net"
	"os"
	"strings"
	"sync"
	"sync/atomic"
	"testing"
	"time"

	kit "github.com/refraction-networking/conjure/internal/verifkit"
	"github.com/refraction-networking/conjure/pkg/core"
	cj "github.com/refraction-networking/conjure/pkg/station/lib"
	"github.com/refraction-networking/conjure/pkg/station/log"
	"github.com/refraction-networking/conjure/pkg/transports"
	"github.com/refraction-networking/conjure/pkg/transports/wrapping/min"
	"github.com/refraction-networking/conjure/pkg/transports/wrapping/obfs4"
	"github.com/refraction-networking/conjure/pkg/transports/wrapping/prefix"
	pb "github.com/refraction-networking/conjure/proto"
	"google.golang.org/protobuf/proto"
	"google.golang.org/protobuf/types/known/anypb"
)

type verifC11VFShape struct {
	TT     pb.TransportType
	PKind  string
	Any    *anypb.Any
	LibVer uint32
	Gen    uint32
}

func (sh verifC11VFShape) String() string {
	return fmt.Sprintf("%s/params=%s/lib=%d/gen=%d", strings.ToLower(sh.TT.String()), sh.PKind, sh.LibVer, sh.Gen)
}

type verifC11VFReg struct {
	shape  verifC11VFShape
	secret []byte
	reg    *cj.DecoyRegistration
	desc   string // shape + what the station stored
	trio   bool
}

type verifC11VF struct {
	s       *vStation
	regs    []*verifC11VFReg
	cases   map[pb.TransportType][]kit.C11Case
	found   map[pb.TransportType]*atomic.Int64
	handler atomic.Int64
	slept   atomic.Int64
	refused map[string]int
	rec     *kit.Rec
}

func verifC11VFAnyNoURL(m proto.Message) *anypb.Any {
	b, _ := proto.Marshal(m)
	return &anypb.Any{Value: b}
}

func verifC11VFAny(m proto.Message) *anypb.Any {
	a, err := anypb.New(m)
	if err != nil {
		panic(err)
	}
	return a
}

// verifC11VFParamShapes lists the transport_params variants for a transport.
func verifC11VFParamShapes(tt pb.TransportType) []struct {
	kind string
	a    *anypb.Any
} {
	type ps = struct {
		kind string
		a    *anypb.Any
	}
	dtlsMsg := &pb.DTLSTransportParams{SrcAddr4: &pb.Addr{IP: []byte{198, 51, 100, 7}, Port: proto.Uint32(4444)}, RandomizeDstPort: proto.Bool(true)}
	legacy := func(a *anypb.Any) *anypb.Any {
		a.TypeUrl = strings.Replace(a.TypeUrl, "proto.", "tapdance.", 1)
		return a
	}
	if tt == pb.TransportType_Prefix {
		out := []ps{
			{"absent", nil},
			{"empty-any", &anypb.Any{}},
			{"prefix{}", verifC11VFAny(&pb.PrefixTransportParams{})},
			{"prefix{}-nourl", verifC11VFAnyNoURL(&pb.PrefixTransportParams{})},
			{"prefix{rand=true}", verifC11VFAny(&pb.PrefixTransportParams{RandomizeDstPort: proto.Bool(true)})},
			{"prefix{rand=false}", verifC11VFAny(&pb.PrefixTransportParams{RandomizeDstPort: proto.Bool(false)})},
			{"prefix{flush=1}", verifC11VFAny(&pb.PrefixTransportParams{CustomFlushPolicy: proto.Int32(1)})},
			{"prefix{bytes}", verifC11VFAny(&pb.PrefixTransportParams{Prefix: []byte("GET / HTTP/1.1\r\n")})},
			{"prefix{id=3}", verifC11VFAny(&pb.PrefixTransportParams{PrefixId: proto.Int32(3)})},
			{"prefix{id=1,rand=true,flush=2,bytes}", verifC11VFAny(&pb.PrefixTransportParams{PrefixId: proto.Int32(1), RandomizeDstPort: proto.Bool(true), CustomFlushPolicy: proto.Int32(2), Prefix: []byte("x")})},
			{"prefix{id=2}-legacyurl", legacy(verifC11VFAny(&pb.PrefixTransportParams{PrefixId: proto.Int32(2)}))},
			{"generic{rand=false}-nourl", verifC11VFAnyNoURL(&pb.GenericTransportParams{RandomizeDstPort: proto.Bool(false)})},
			{"generic{rand=true}-nourl", verifC11VFAnyNoURL(&pb.GenericTransportParams{RandomizeDstPort: proto.Bool(true)})},
			{"dtls-nourl", verifC11VFAnyNoURL(dtlsMsg)},
			{"generic-url", verifC11VFAny(&pb.GenericTransportParams{RandomizeDstPort: proto.Bool(false)})},
		}
		for _, id := range vAllPrefixIDs {
			out = append(out, ps{fmt.Sprintf("prefix{id=%d,rand=false}", id), verifC11VFAny(&pb.PrefixTransportParams{PrefixId: proto.Int32(int32(id)), RandomizeDstPort: proto.Bool(false)})})
		}
		return out
	}
	return []ps{
		{"absent", nil},
		{"empty-any", &anypb.Any{}},
		{"generic{}", verifC11VFAny(&pb.GenericTransportParams{})},
		{"generic{rand=true}", verifC11VFAny(&pb.GenericTransportParams{RandomizeDstPort: proto.Bool(true)})},
		{"generic{rand=false}", verifC11VFAny(&pb.GenericTransportParams{RandomizeDstPort: proto.Bool(false)})},
		{"generic{rand=true}-nourl", verifC11VFAnyNoURL(&pb.GenericTransportParams{RandomizeDstPort: proto.Bool(true)})},
		{"generic{rand=false}-legacyurl", legacy(verifC11VFAny(&pb.GenericTransportParams{RandomizeDstPort: proto.Bool(false)}))},
		{"prefix{id=3,rand=true}-nourl", verifC11VFAnyNoURL(&pb.PrefixTransportParams{PrefixId: proto.Int32(3), RandomizeDstPort: proto.Bool(true)})},
		{"dtls-nourl", verifC11VFAnyNoURL(dtlsMsg)},
		{"prefix-url", verifC11VFAny(&pb.PrefixTransportParams{PrefixId: proto.Int32(3)})},
	}
}

// verifAdmit sends the shape through the station's real parser and ingest and returns what was admitted.
func (h *verifC11VF) verifAdmit(sh verifC11VFShape, secret []byte, trio bool) []*verifC11VFReg {
	c2s := &pb.ClientToStation{ClientLibVersion: proto.Uint32(sh.LibVer), Transport: sh.TT.Enum(), CovertAddress: proto.String("127.0.0.1:9"),
		DecoyListGeneration: proto.Uint32(sh.Gen), V4Support: proto.Bool(true), V6Support: proto.Bool(true)}
	if sh.Any != nil {
		c2s.TransportParams = proto.Clone(sh.Any).(*anypb.Any)
	}
	src := pb.RegistrationSource_API
	w := &pb.C2SWrapper{SharedSecret: secret, RegistrationPayload: c2s, RegistrationSource: &src, RegistrationAddress: []byte{203, 0, 113, 77}}
	b, err := proto.Marshal(w)
	if err != nil {
		panic("verif infrastructure: " + err.Error())
	}
	regs, err := h.s.rm.VerifParseRegMessage(b)
	if err != nil {
		h.refused[sh.String()]++
		return nil
	}
	var out []*verifC11VFReg
	for _, reg := range regs {
		if reg == nil {
			continue
		}
		h.s.rm.VerifIngest(reg)
		if !reg.Valid {
			h.refused[sh.String()]++
			continue
		}
		fam := "v4"
		if reg.PhantomIp.To4() == nil {
			fam = "v6"
		}
		stored := "nil"
		if p := reg.TransportParams(); p != nil {
			stored = fmt.Sprintf("%T", p)
			if m, ok := p.(proto.Message); ok && !m.ProtoReflect().IsValid() {
				stored += "(nil)"
			}
		}
		out = append(out, &verifC11VFReg{shape: sh, secret: secret, reg: reg, trio: trio,
			desc: fmt.Sprintf("reg{%s/%s-phantom/port=%d/stored-params=%s}", sh, fam, reg.PhantomPort, strings.TrimPrefix(stored, "*proto."))})
	}
	return out
}

func (h *verifC11VF) verifFrame(r *verifC11VFReg, flight []byte, cut int, sleepOK bool) []byte {
	b := make([]byte, 19, 19+len(flight))
	copy(b, r.reg.PhantomIp.To16())
	if sleepOK {
		b[16] = 1
	}
	binary.BigEndian.PutUint16(b[17:], uint16(cut))
	return append(b, flight...)
}

// verifCases builds the flights for one admitted registration.
func (h *verifC11VF) verifCases(t testing.TB, rng *rand.Rand, r *verifC11VFReg, everyCut bool) {
	tt := r.shape.TT
	add := func(kind string, flight []byte, cut int) {
		sleepOK := rng.Intn(kit.Tier(500, 4000)) == 0
		h.cases[tt] = append(h.cases[tt], kit.C11Case{In: h.verifFrame(r, flight, cut, sleepOK), Kind: r.desc + " flight{" + kind + "}"})
	}
	randBytes := func(n int) []byte { b := make([]byte, n); rng.Read(b); return b }
	v6 := r.reg.PhantomIp.To4() == nil
	// mode 0: the flight alone and with application data; 1: + damaged / cut variants and splits at the
	// thresholds; 2: + a split at every cut (flights of up to 200 bytes, else 40 random cuts)
	variants := func(kind string, fl []byte, tagFrom, tagTo, mode int) {
		add(kind, fl, 0)
		add(kind+"+appdata", append(append([]byte{}, fl...), randBytes(1+rng.Intn(200))...), 0)
		if mode == 0 {
			return
		}
		add(kind+"+9000B", append(append([]byte{}, fl...), randBytes(9000)...), 0)
		add(kind+"-cut-inside-tag", fl[:tagFrom+(tagTo-tagFrom)/2], 0)
		add(kind+"-cut-1-before-end", fl[:len(fl)-1], 0)
		if tagFrom > 0 { // bytes in front of the tag damaged, tag intact
			m := append([]byte{}, fl...)
			m[rng.Intn(tagFrom)] ^= 1 << uint(rng.Intn(8))
			add(kind+"-front-mutated", m, 0)
		}
		if tagTo < len(fl) { // bytes behind the tag damaged, tag intact
			m := append([]byte{}, fl...)
			m[tagTo+rng.Intn(len(fl)-tagTo)] ^= 1 << uint(rng.Intn(8))
			add(kind+"-behind-mutated", m, 0)
		}
		var cuts []int
		if mode == 2 && len(fl) <= 200 {
			for c := 1; c < len(fl); c++ {
				cuts = append(cuts, c)
			}
		} else {
			for _, c := range []int{1, tagFrom, tagFrom + 1, tagTo - 1, tagTo, 32, 64, 85, len(fl) - 1} {
				if c > 0 && c < len(fl) {
					cuts = append(cuts, c)
				}
			}
			if mode == 2 {
				for i := 0; i < 40; i++ {
					cuts = append(cuts, 1+rng.Intn(len(fl)-1))
				}
			}
		}
		for _, c := range cuts {
			add(fmt.Sprintf("%s-split@%d", kind, c), fl, c)
		}
	}
	mode := 1
	if everyCut {
		mode = 2
	} else if v6 && !kit.Thorough() {
		mode = 0 // the v6 twin of a registration gets the plain flights only (quick)
	}
	sp := vRegSpec{Secret: r.secret, TT: tt, LibVer: r.shape.LibVer}
	switch tt {
	case pb.TransportType_Min:
		fl, err := h.s.vFlight(sp)
		if err != nil {
			t.Fatalf("flight for %s: %v", r.desc, err)
		}
		variants("genuine", fl, 0, 32, mode)
	case pb.TransportType_Obfs4:
		fl, err := h.s.vFlight(sp)
		if err != nil {
			t.Fatalf("flight for %s: %v", r.desc, err)
		}
		variants("genuine", fl, len(fl)-32, len(fl)-16, mode)
	case pb.TransportType_Prefix:
		regID := int32(-99)
		if pp, ok := r.reg.TransportParams().(*pb.PrefixTransportParams); ok && pp != nil {
			regID = pp.GetPrefixId()
		}
		pick := vAllPrefixIDs[rng.Intn(len(vAllPrefixIDs))]
		for _, id := range vAllPrefixIDs {
			sp.Params = vPrefixParams(id, false, prefix.DefaultFlush)
			fl, err := h.s.vFlight(sp)
			if err != nil {
				t.Fatalf("flight for %s under prefix %d: %v", r.desc, id, err)
			}
			kind := fmt.Sprintf("genuine-prefix-id=%d", id)
			m := 0
			if id == prefix.PrefixID(regID) || id == prefix.Min || id == pick {
				m = mode
			} else if kit.Thorough() && mode > 0 {
				m = 1
			}
			variants(kind, fl, len(fl)-64, len(fl), m)
		}
		// cross: this registration's identifier in the clear, min framing
		add("cross:prefix-identifier-in-min-framing", append([]byte(h.s.prefT.GetIdentifier(r.reg)), randBytes(rng.Intn(40))...), 0)
	}
	if tt == pb.TransportType_Min { // cross: this registration's identifier obfuscated behind every prefix
		for _, id := range vAllPrefixIDs {
			tag, err := transports.CTRObfuscator{}.Obfuscate([]byte(min.Transport{}.GetIdentifier(r.reg)), h.s.pub[:])
			if err != nil {
				t.Fatalf("obfuscate: %v", err)
			}
			add(fmt.Sprintf("cross:min-identifier-behind-prefix-id=%d", id), append(append([]byte{}, prefix.DefaultPrefixes[id].Bytes()...), tag...), 0)
		}
	}
}

func verifC11VFSetup(t testing.TB) *verifC11VF {
	if devnull, err := os.OpenFile(os.DevNull, os.O_WRONLY, 0); err == nil {
		os.Stdout = devnull
	}
	log.SetLevel(log.TraceLevel)
	h := &verifC11VF{s: vNewStation(t, "c11-validflights"), cases: map[pb.TransportType][]kit.C11Case{}, refused: map[string]int{},
		found: map[pb.TransportType]*atomic.Int64{pb.TransportType_Min: {}, pb.TransportType_Obfs4: {}, pb.TransportType_Prefix: {}}}
	h.s.rm.Logger = log.New(io.Discard, "[REG] ", 0)
	rng := kit.Rand("c11-validflights")
	cur := core.CurrentClientLibraryVersion()
	nSecrets := kit.Tier(2, 8)
	tts := []pb.TransportType{pb.TransportType_Min, pb.TransportType_Obfs4, pb.TransportType_Prefix}
	seenShape := map[string]bool{}
	for _, tt := range tts {
		for _, ps := range verifC11VFParamShapes(tt) {
			for _, lv := range []uint32{0, 2, 3, cur, cur + 1} {
				for _, gen := range []uint32{1, 957} {
					sh := verifC11VFShape{TT: tt, PKind: ps.kind, Any: ps.a, LibVer: lv, Gen: gen}
					for k := 0; k < nSecrets; k++ {
						for _, r := range h.verifAdmit(sh, vSecret(rng), false) {
							h.regs = append(h.regs, r)
							// every cut for the first registration of each (shape, family, stored-params) class, and for all in thorough
							every := kit.Thorough() || !seenShape[r.desc]
							seenShape[r.desc] = true
							h.verifCases(t, rng, r, every && (kit.Thorough() || r.reg.PhantomIp.To4() != nil))
						}
					}
				}
			}
		}
	}
	// trios: one secret registered under all three transports, i.e. three registrations on one phantom
	for k, n := 0, kit.Tier(4, 16); k < n; k++ {
		secret := vSecret(rng)
		gen := []uint32{1, 957}[k%2]
		for _, tt := range tts {
			var a *anypb.Any
			kind := "absent"
			if k%4 >= 2 {
				if tt == pb.TransportType_Prefix {
					a, kind = verifC11VFAny(&pb.PrefixTransportParams{PrefixId: proto.Int32(int32(k % 10)), RandomizeDstPort: proto.Bool(false)}), fmt.Sprintf("prefix{id=%d,rand=false}", k%10)
				} else {
					a, kind = verifC11VFAny(&pb.GenericTransportParams{RandomizeDstPort: proto.Bool(false)}), "generic{rand=false}"
				}
			}
			for _, r := range h.verifAdmit(verifC11VFShape{TT: tt, PKind: "trio:" + kind, Any: a, LibVer: cur, Gen: gen}, secret, true) {
				h.regs = append(h.regs, r)
				h.verifCases(t, rng, r, false)
			}
		}
	}
	return h
}

func (h *verifC11VF) verifExec(tt pb.TransportType) func(c *kit.C11Case) string {
	direct := []struct {
		tt pb.TransportType
		t  verifC11Wrapper
	}{{pb.TransportType_Min, min.Transport{}}, {pb.TransportType_Obfs4, obfs4.Transport{}}, {pb.TransportType_Prefix, h.s.prefT}}
	return func(c *kit.C11Case) string {
		if len(c.In) < 19 {
			return "malformed-frame"
		}
		phantom := net.IP(append([]byte(nil), c.In[:16]...))
		if p4 := phantom.To4(); p4 != nil {
			phantom = p4
		}
		sleepOK := c.In[16]&1 != 0
		cut := int(binary.BigEndian.Uint16(c.In[17:19]))
		flight := c.In[19:]
		local := &net.TCPAddr{IP: phantom, Port: 443}
		remote := kit.TCPAddr("203.0.113.77", 40000)
		found, transportErr := false, false
		for _, d := range direct {
			conn := kit.NewScriptConn("c11vf", local, remote, nil, kit.EndEOF)
			reg, wrapped, err := d.t.WrapConnection(bytes.NewBuffer(append([]byte(nil), flight...)), conn, phantom, h.s.rm)
			switch {
			case err == nil && reg != nil:
				found = true
				h.found[d.tt].Add(1)
				_ = reg.TransportType()
				_ = reg.TransportParams()
				if wrapped != nil {
					wrapped.SetDeadline(time.Time{})
					var b [64]byte
					wrapped.Read(b[:])
				}
			case err != nil && err != transports.ErrTryAgain && err != transports.ErrNotTransport:
				transportErr = true
			}
		}
		out := "not-found"
		if found {
			out = "registration-found"
		}
		if transportErr {
			out += "+transport-error"
			if !sleepOK {
				return out + "/direct-only"
			}
		}
		// the real handler, with the cut
		var segs []kit.Seg
		if cut > 0 && cut < len(flight) {
			segs = []kit.Seg{{Data: flight[:cut]}, {Data: flight[cut:]}}
		} else if len(flight) > 0 {
			segs = []kit.Seg{{Data: flight}}
		}
		conn := kit.NewScriptConn("c11vf", local, remote, segs, kit.EndEOF)
		conn.MaxBlock = 40 * time.Second
		t0 := time.Now()
		h.s.vHandle(conn, phantom)
		h.handler.Add(1)
		matched := false
		for _, o := range conn.Ops() {
			if o.Op == "setdeadline" && o.Arg.IsZero() {
				matched = true
				break
			}
		}
		if matched {
			out += "/handler-matched"
		} else {
			out += "/handler-unmatched"
		}
		if time.Since(t0) > 4*time.Second {
			h.slept.Add(1)
			out += "+slept"
		}
		return out
	}
}

func TestVerifC11ValidFlights(t *testing.T) {
	rec := kit.NewRec("C11", "valid-flights")
	defer rec.Close()
	t0 := time.Now()
	h := verifC11VFSetup(t)
	h.rec = rec
	rec.Count("setup_ms", int(time.Since(t0).Milliseconds()))
	rec.Count("registrations_admitted", len(h.regs))
	nRefused := 0
	for _, n := range h.refused {
		nRefused += n
	}
	rec.Count("registration_shapes_refused_by_the_station", len(h.refused))
	rec.Count("registrations_refused_by_the_station", nRefused)
	nilParams := 0
	for _, r := range h.regs {
		rec.Distinct("admitted_shapes", r.desc)
		if r.reg.TransportParams() == nil {
			nilParams++
		}
	}
	rec.Count("registrations_admitted_with_nil_TransportParams", nilParams)
	// the three entries run side by side: each has a few flights that sleep 5-10 s in the handler
	var wg sync.WaitGroup
	for _, tt := range []pb.TransportType{pb.TransportType_Min, pb.TransportType_Obfs4, pb.TransportType_Prefix} {
		// those flights go first, so that their sleep overlaps with the rest
		var cases, rest []kit.C11Case
		for _, c := range h.cases[tt] {
			if c.In[16]&1 != 0 {
				cases = append(cases, c)
			} else {
				rest = append(rest, c)
			}
		}
		cases = append(cases, rest...)
		name := "validflights." + strings.ToLower(tt.String())
		wg.Add(1)
		go func(tt pb.TransportType) {
			defer wg.Done()
			kit.C11Drive(rec, kit.C11Entry{Name: name, N: len(cases), Workers: 32, Budget: 60 * time.Second,
				Gen: func(r *rand.Rand, idx int) kit.C11Case { return cases[idx] }, Exec: h.verifExec(tt), SampleEvery: 997})
		}(tt)
	}
	wg.Wait()
	rec.Count("elapsed_ms", int(time.Since(t0).Milliseconds()))
	if left := kit.WaitNoGoroutineIn(60*time.Second, "lib.halfPipe", "lib.Proxy"); left != nil {
		rec.Inconclusive("relay goroutines still running 60 s after the last case", map[string]interface{}{"count": len(left), "first": left[0].Raw})
	}
	rec.Count("handler_runs", int(h.handler.Load()))
	rec.Count("handler_slept_to_deadline", int(h.slept.Load()))
	if os.Getenv("VERIF_C11_REPLAY") != "" || os.Getenv("VERIF_C11_CASE") != "" {
		return
	}
	for tt, n := range h.found {
		rec.Count("registration_found_by["+strings.ToLower(tt.String())+".WrapConnection]", int(n.Load()))
		if n.Load() == 0 {
			rec.Inconclusive("no flight ever reached 'registration found' in "+tt.String()+".WrapConnection: the valid-tag path was not exercised", nil)
			t.Errorf("inconclusive: %s.WrapConnection never returned a registration (the valid-tag path was not exercised)", tt)
		}
	}
}
