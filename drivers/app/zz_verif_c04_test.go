//go:build verif

package main

// C04 – a registered client's first flight is recognised under any TCP segmentation, the
// registration is marked used, and application bytes (including early data in the same segments
// as the tag) reach the covert exactly once and in order; the covert's reply reaches the client.
// Monitor: real client transports produce the flight; a segmenter re-chunks it onto a scripted
// conn (paced: segment k+1 only after the handler consumed segment k); the covert is a real
// loopback server reached through the real Proxy/net.Dial.

import (
	"bytes"
	"encoding/binary"
	"fmt"
	"io"
	"net"
	"sync"
	"sync/atomic"
	"testing"
	"time"

	kit "github.com/refraction-networking/conjure/internal/verifkit"
	cj "github.com/refraction-networking/conjure/pkg/station/lib"
	"github.com/refraction-networking/conjure/pkg/transports/wrapping/prefix"
	pb "github.com/refraction-networking/conjure/proto"
	"google.golang.org/protobuf/proto"
)

func c04IDs(tag byte, n int) []byte {
	b := make([]byte, n)
	for i := 0; i+8 <= n; i += 8 {
		binary.BigEndian.PutUint64(b[i:], uint64(tag)<<56|uint64(i/8))
	}
	for i := n - n%8; i < n; i++ {
		b[i] = tag ^ byte(i)
	}
	return b
}

type c04Covert struct {
	ln       net.Listener
	reply    []byte
	mu       sync.Mutex
	got      []byte
	accepted int
	done     chan struct{}
}

func c04NewCovert(reply []byte) (*c04Covert, error) {
	ln, err := net.Listen("tcp", "127.0.0.1:0")
	if err != nil {
		return nil, err
	}
	c := &c04Covert{ln: ln, reply: reply, done: make(chan struct{})}
	go func() {
		defer close(c.done)
		conn, err := ln.Accept()
		if err != nil {
			return
		}
		c.mu.Lock()
		c.accepted++
		c.mu.Unlock()
		defer conn.Close()
		go conn.Write(reply)
		buf := make([]byte, 32768)
		for {
			n, err := conn.Read(buf)
			if n > 0 {
				c.mu.Lock()
				c.got = append(c.got, buf[:n]...)
				c.mu.Unlock()
			}
			if err != nil {
				return
			}
		}
	}()
	return c, nil
}
func (c *c04Covert) Got() ([]byte, int) {
	c.mu.Lock()
	defer c.mu.Unlock()
	return append([]byte(nil), c.got...), c.accepted
}

var c04PhantomCtr atomic.Uint32

func c04NextPhantom() net.IP {
	n := c04PhantomCtr.Add(1)
	return net.IPv4(100, 64+byte(n>>16), byte(n>>8), byte(n)).To4()
}

type c04Case struct {
	TT     pb.TransportType
	Params proto.Message
	Desc   string
	Cuts   []int
	Early  int
	Others bool
	// the client's first attempt arrives while its registration is tracked but not validated yet
	// (it is refused, as C02 demands); the registration is then validated and the client retries
	EarlyAttempt bool
	// the client falls silent for Pause after the PauseAfter-th segment (a lost segment retransmitted after back-off)
	Pause      time.Duration
	PauseAfter int
}

func (c c04Case) label() string {
	ea := ""
	if c.EarlyAttempt {
		ea = " after-early-attempt"
	}
	if c.Pause > 0 {
		ea += fmt.Sprintf(" pause=%v-after-segment-%d", c.Pause, c.PauseAfter)
	}
	return fmt.Sprintf("%s cuts=%v early=%d others=%v%s", c.Desc, c.Cuts, c.Early, c.Others, ea)
}

// one min/prefix session
func c04Session(s *vStation, rec *kit.Rec, rng interface{ Read([]byte) (int, error) }, cs c04Case) {
	label := cs.label()
	reply := c04IDs(0xB0, 1000)
	cov, err := c04NewCovert(reply)
	if err != nil {
		rec.Inconclusive("cannot listen", err.Error())
		return
	}
	defer cov.ln.Close()
	phantom := c04NextPhantom()
	sp := vRegSpec{Secret: vSecret(rng), TT: cs.TT, Params: cs.Params, LibVer: 4, Phantom: phantom, Covert: cov.ln.Addr().String()}
	if cs.Others {
		gen := &pb.GenericTransportParams{RandomizeDstPort: boolp(false)}
		for _, o := range []vRegSpec{
			{Secret: vSecret(rng), TT: pb.TransportType_Min, Params: gen, LibVer: 4, Phantom: phantom, Covert: "127.0.0.1:9"},
			{Secret: vSecret(rng), TT: pb.TransportType_Obfs4, Params: gen, LibVer: 4, Phantom: phantom, Covert: "127.0.0.1:9"},
			{Secret: vSecret(rng), TT: pb.TransportType_Prefix, Params: vPrefixParams(prefix.GetLong, false, 0), LibVer: 4, Phantom: phantom, Covert: "127.0.0.1:9"},
		} {
			if _, err := s.vAdmit(o); err != nil {
				rec.Inconclusive("cannot admit neighbour", err.Error())
				return
			}
		}
	}
	var reg *cj.DecoyRegistration
	if cs.EarlyAttempt {
		reg, err = s.vAdmitPaused(sp, func() {
			// the too-early attempt: a genuine flight while the ingest worker is between "track" and "validate"
			if efl, e2 := s.vFlight(sp); e2 == nil {
				pc := kit.NewScriptConn("early", kit.TCPAddr(phantom.String(), 443), kit.TCPAddr("203.0.113.77", 40003), []kit.Seg{{Data: efl}}, kit.EndVirtualTimeout)
				s.vHandle(pc, phantom)
			}
		})
	} else {
		reg, err = s.vAdmit(sp)
	}
	if err != nil {
		rec.Violation("genuine-registration-refused", "a well-formed registration was refused by the station", map[string]interface{}{"case": label, "err": err.Error()})
		return
	}
	flight, err := s.vFlight(sp)
	if err != nil {
		rec.Inconclusive("client transport failed", err.Error())
		return
	}
	early := c04IDs(0xA0, cs.Early)
	stream := append(append([]byte{}, flight...), early...)
	segs := c03Segments(stream, cs.Cuts)
	if cs.Pause > 0 && cs.PauseAfter < len(segs) {
		withPause := append([]kit.Seg{}, segs[:cs.PauseAfter]...)
		withPause = append(withPause, kit.Seg{Pause: cs.Pause})
		segs = append(withPause, segs[cs.PauseAfter:]...)
	}

	conn := kit.NewScriptConn("client", kit.TCPAddr(phantom.String(), 443), kit.TCPAddr("203.0.113.77", 40001), nil, kit.EndBlock)
	conn.MaxBlock = 120 * time.Second
	done := make(chan struct{})
	go func() { s.vHandle(conn, phantom); close(done) }()

	viol := func(sig, msg string, extra map[string]interface{}) {
		got, acc := cov.Got()
		d := map[string]interface{}{"case": label, "flight_len": len(flight), "covert_accepted": acc, "covert_got": len(got), "client_got": len(conn.Written()), "ops_tail": opsTail(conn)}
		for k, v := range extra {
			d[k] = v
		}
		rec.Violation(sig, msg, d)
	}
	class := fmt.Sprintf("%s", cs.TT)
	stuck := false
	for i, sg := range segs {
		conn.Feed(sg)
		if !conn.WaitConsumed(30 * time.Second) {
			select {
			case <-done:
			default:
			}
			viol("segment-not-consumed:"+class, "the handler stopped reading the client's first flight", map[string]interface{}{"segment": i})
			stuck = true
			break
		}
	}
	ok := false
	if !stuck {
		ok = vWaitFor(30*time.Second, func() bool {
			got, _ := cov.Got()
			return len(got) >= len(early) && len(conn.Written()) >= len(reply)
		})
	}
	if ok {
		// the tunnel is open and has carried data in both directions: the registration must be in the
		// "used" state NOW (a registration that is carrying a connection must not run on the 10-minute
		// lifetime of an unused one), not only once the connection has ended
		if used, tracked := s.rm.VerifUsed(reg); !tracked || !used {
			viol("not-marked-used-while-connection-open:"+class, "the registration is carrying an open, relaying connection but is not marked as used", map[string]interface{}{"tracked": tracked, "used": used})
		}
	}
	conn.SetAtEnd(kit.EndEOF)
	select {
	case <-done:
	case <-time.After(60 * time.Second):
		viol("handler-did-not-return:"+class, "the handler did not return after the client closed", nil)
		conn.Close()
		<-done
	}
	cov.ln.Close()
	select {
	case <-cov.done:
	case <-time.After(30 * time.Second):
	}
	got, acc := cov.Got()
	clientGot := conn.Written()
	if !stuck {
		switch {
		case acc == 0:
			viol("not-recognised:"+class, "a genuine first flight was not matched to its registration (the covert was never dialled)", nil)
		case !bytes.Equal(got, early):
			sig := "covert-data-mismatch:" + class
			if len(got) == 0 && len(early) > 0 {
				sig = "covert-got-nothing:" + class
			}
			viol(sig, "bytes at the covert differ from the client's application bytes", map[string]interface{}{"expected": len(early), "first_diff": firstDiff(early, got), "got_head": kit.HexN(got, 24), "want_head": kit.HexN(early, 24)})
		case !bytes.Equal(clientGot, reply):
			viol("client-reply-mismatch:"+class, "the covert's reply did not reach the client intact", map[string]interface{}{"expected": len(reply), "first_diff": firstDiff(reply, clientGot)})
		case !ok:
			rec.Inconclusive("data complete only after the bound", label)
		}
		if acc > 0 {
			if used, tracked := s.rm.VerifUsed(reg); !tracked || !used {
				viol("not-marked-used:"+class, "the registration was matched but not marked as used", map[string]interface{}{"tracked": tracked, "used": used})
			}
		}
	}
	rec.Count("evaluations", 1)
	rec.Count("bytes_to_covert", len(got))
	rec.Distinct("nontrivial", label)
	rec.Distinct("configs", cs.Desc, cs.Others)
	if rec.WantSample() && len(cs.Cuts) == 2 {
		rec.Sample(map[string]interface{}{"case": label, "flight_len": len(flight), "covert_got": len(got), "client_got": len(clientGot), "ops_head": opsTail(conn)})
	}
}

type c04Config struct {
	TT     pb.TransportType
	Params proto.Message
	Desc   string
	FLen   int
}

func c04Configs() []c04Config {
	var out []c04Config
	out = append(out, c04Config{pb.TransportType_Min, &pb.GenericTransportParams{RandomizeDstPort: boolp(false)}, "min", 32})
	out = append(out, c04Config{pb.TransportType_Min, &pb.GenericTransportParams{RandomizeDstPort: boolp(true)}, "min/randport", 32})
	for _, id := range vAllPrefixIDs {
		pl := len(prefix.DefaultPrefixes[id].Bytes())
		for _, fl := range []int32{prefix.DefaultFlush, prefix.NoAddedFlush, prefix.FlushAfterPrefix} {
			for _, rp := range []bool{false, true} {
				out = append(out, c04Config{pb.TransportType_Prefix, vPrefixParams(id, rp, fl), fmt.Sprintf("prefix/%s/flush%d/rand=%v", id.Name(), fl, rp), pl + 64})
			}
		}
	}
	return out
}

func TestVerifC04MinPrefix(t *testing.T) {
	rec := kit.NewRec("C04", "minprefix")
	defer rec.Close()
	s := vNewStation(t, "c04")
	rng := kit.Rand("c04")
	cfgs := c04Configs()
	var cases []c04Case
	earlies := []int{0, 1, 31, 4096, 65536}
	// (a) every 1-cut of flight+3 for every configuration; early data cycles through the sizes
	k := 0
	for _, c := range cfgs {
		for cut := 1; cut < c.FLen+3; cut++ {
			cases = append(cases, c04Case{TT: c.TT, Params: c.Params, Desc: c.Desc, Cuts: []int{cut}, Early: earlies[k%len(earlies)], Others: k%2 == 1})
			k++
		}
		cases = append(cases, c04Case{TT: c.TT, Params: c.Params, Desc: c.Desc, Early: 8, Others: false}) // no cut
		cases = append(cases, c04Case{TT: c.TT, Params: c.Params, Desc: c.Desc, Early: 8, Others: k%2 == 0, EarlyAttempt: true})
		cases = append(cases, c04Case{TT: c.TT, Params: c.Params, Desc: c.Desc, Cuts: []int{1 + k%(c.FLen-1)}, Early: 31, Others: k%2 == 1, EarlyAttempt: true})
	}
	// (a') read-buffer boundaries: the handler reads with a 4096-byte buffer; the client's LAST segment is
	// exactly 4095 / 4096 / 4097 / 8192 bytes long (after which the client waits for the covert's reply),
	// with the flight uncut, cut inside the tag, and cut right after the tag
	for _, c := range cfgs {
		for _, last := range []int{4095, 4096, 4097, 8192} {
			for _, cut := range []int{0, 20, c.FLen} {
				early := last + cut - c.FLen
				if early < 0 {
					continue
				}
				var cuts []int
				if cut > 0 {
					cuts = []int{cut}
				}
				cases = append(cases, c04Case{TT: c.TT, Params: c.Params, Desc: c.Desc, Cuts: cuts, Early: early, Others: k%2 == 0})
				k++
			}
		}
	}
	rec.Exhaustive(fmt.Sprintf("every 1-cut segmentation of flight+3 bytes for %d transport/prefix/flush/port configurations", len(cfgs)))
	// (b) every 2-cut: quick = min transport and three prefixes (no flush variants); thorough = every prefix id
	twoCut := []c04Config{cfgs[0]}
	for _, c := range cfgs {
		if c.TT != pb.TransportType_Prefix {
			continue
		}
		pp := c.Params.(*pb.PrefixTransportParams)
		if pp.GetCustomFlushPolicy() != prefix.DefaultFlush || pp.GetRandomizeDstPort() {
			continue
		}
		id := prefix.PrefixID(pp.GetPrefixId())
		if kit.Thorough() || id == prefix.Min || id == prefix.TLSAlertFatal {
			twoCut = append(twoCut, c)
		}
	}
	for _, c := range twoCut {
		n := c.FLen + 3
		for a := 1; a < n; a++ {
			for b := a + 1; b < n; b++ {
				e := earlies[k%len(earlies)]
				if !kit.Thorough() && e == 65536 {
					e = 8
				}
				cases = append(cases, c04Case{TT: c.TT, Params: c.Params, Desc: c.Desc, Cuts: []int{a, b}, Early: e, Others: k%3 == 0})
				k++
			}
		}
		rec.Exhaustive("every 2-cut segmentation of flight+3 bytes for " + c.Desc)
	}
	// (c) random k-cuts over flight + early data
	nRand := kit.Tier(600, 30000)
	for i := 0; i < nRand; i++ {
		c := cfgs[rng.Intn(len(cfgs))]
		e := earlies[rng.Intn(len(earlies))]
		total := c.FLen + e
		var cuts []int
		for j := rng.Intn(8); j > 0 && total > 1; j-- {
			cuts = append(cuts, 1+rng.Intn(total-1))
		}
		sortInts(cuts)
		cases = append(cases, c04Case{TT: c.TT, Params: c.Params, Desc: c.Desc, Cuts: cuts, Early: e, Others: rng.Intn(2) == 0, EarlyAttempt: rng.Intn(5) == 0})
	}
	// (d) many cuts inside the handshake: a flight may arrive in any number of segments (a slow or deliberately
	// fragmenting client): 8..48 cuts, and every byte as its own segment
	for _, c := range cfgs {
		for _, k := range []int{8, 9, 10, 12, 16, 24, 32, 48} {
			for rep := 0; rep < kit.Tier(1, 6); rep++ {
				if k >= c.FLen {
					continue
				}
				seen := map[int]bool{}
				var cuts []int
				for len(cuts) < k {
					if p := 1 + rng.Intn(c.FLen-1); !seen[p] {
						seen[p] = true
						cuts = append(cuts, p)
					}
				}
				sortInts(cuts)
				cases = append(cases, c04Case{TT: c.TT, Params: c.Params, Desc: c.Desc, Cuts: cuts, Early: earlies[(k+rep)%len(earlies)], Others: k%2 == 0})
			}
		}
		var every []int
		for p := 1; p < c.FLen; p++ {
			every = append(every, p)
		}
		cases = append(cases, c04Case{TT: c.TT, Params: c.Params, Desc: c.Desc, Cuts: every, Early: 31, Others: true})
	}
	// (e) a silence of a few seconds in the middle of the flight (well below the 5 s the classification deadline is at
	// least): the segment after the cut was lost and is retransmitted after back-off.  With and without other
	// registrations (min, obfs4, prefix) on the phantom; cuts before and after the 64th byte.
	for _, c := range cfgs {
		for _, cut := range []int{1, 31, 63, 64, 65, 70, c.FLen - 1} {
			if cut <= 0 || cut >= c.FLen {
				continue
			}
			for _, pause := range []time.Duration{2500 * time.Millisecond, 4 * time.Second}[:kit.Tier(1, 2)] {
				cases = append(cases, c04Case{TT: c.TT, Params: c.Params, Desc: c.Desc, Cuts: []int{cut}, Early: 31, Others: cut%2 == 0 || cut >= 64, Pause: pause, PauseAfter: 1})
			}
		}
	}
	var wg sync.WaitGroup
	ch := make(chan c04Case, 64)
	for i := 0; i < 16; i++ {
		wg.Add(1)
		srng := kit.Rand(fmt.Sprintf("c04-worker-%d", i))
		go func() {
			defer wg.Done()
			for c := range ch {
				if rec.Violations() > 60 {
					continue // enough witnesses; on a broken tree every further session costs real seconds
				}
				c04Session(s, rec, srng, c)
			}
		}()
	}
	for _, c := range cases {
		ch <- c
	}
	close(ch)
	wg.Wait()
	// (f) a station that holds several private keys (a key directory, e.g. during key rotation): clients obfuscate their
	// prefix tags for one of them, not necessarily the first of the station's list
	for use := 0; use < 3; use++ {
		ks := vNewStationKeys(t, fmt.Sprintf("c04-keys-%d", use), 3, use)
		krng := kit.Rand(fmt.Sprintf("c04-keys-%d", use))
		for i, c := range cfgs {
			if rec.Violations() > 60 {
				break
			}
			if c.TT != pb.TransportType_Prefix && i > 0 {
				continue
			}
			cut := 1 + (i*7+use)%(c.FLen-1)
			c04Session(ks, rec, krng, c04Case{TT: c.TT, Params: c.Params, Desc: fmt.Sprintf("%s station-keys=3 client-key=%d", c.Desc, use), Cuts: []int{cut}, Early: 31, Others: i%2 == 0})
		}
	}
}

// ---- obfs4: interactive handshake through a segmenting pump ------------------------------------------

func c04Obfs4Session(s *vStation, rec *kit.Rec, rng interface{ Read([]byte) (int, error) }, cutsOf func(hl int) []int, appN int, others bool, tag string) {
	reply := c04IDs(0xB1, 600)
	cov, err := c04NewCovert(reply)
	if err != nil {
		rec.Inconclusive("cannot listen", err.Error())
		return
	}
	defer cov.ln.Close()
	phantom := c04NextPhantom()
	gen := &pb.GenericTransportParams{RandomizeDstPort: boolp(false)}
	sp := vRegSpec{Secret: vSecret(rng), TT: pb.TransportType_Obfs4, Params: gen, LibVer: 4, Phantom: phantom, Covert: cov.ln.Addr().String()}
	if others {
		for _, o := range []vRegSpec{
			{Secret: vSecret(rng), TT: pb.TransportType_Min, Params: gen, LibVer: 4, Phantom: phantom, Covert: "127.0.0.1:9"},
			{Secret: vSecret(rng), TT: pb.TransportType_Obfs4, Params: gen, LibVer: 4, Phantom: phantom, Covert: "127.0.0.1:9"},
			{Secret: vSecret(rng), TT: pb.TransportType_Prefix, Params: vPrefixParams(prefix.Min, false, 0), LibVer: 4, Phantom: phantom, Covert: "127.0.0.1:9"},
		} {
			s.vAdmit(o)
		}
	}
	reg, err := s.vAdmit(sp)
	if err != nil {
		rec.Violation("genuine-registration-refused", "a well-formed registration was refused by the station", map[string]interface{}{"case": tag, "err": err.Error()})
		return
	}
	wrap, err := s.vClient(sp)
	if err != nil {
		rec.Inconclusive("client transport failed", err.Error())
		return
	}
	c1, c2 := net.Pipe() // c1: client side, c2: harness side
	conn := kit.NewScriptConn("client", kit.TCPAddr(phantom.String(), 443), kit.TCPAddr("203.0.113.77", 40002), nil, kit.EndBlock)
	conn.MaxBlock = 120 * time.Second
	conn.OnWrite = func(b []byte) { c2.Write(b) }
	var hsLen atomic.Int64
	var usedCuts atomic.Value
	pumpDone := make(chan struct{})
	go func() { // client -> station, first read = the handshake, re-segmented and paced
		defer close(pumpDone)
		buf := make([]byte, 65536)
		first := true
		for {
			n, err := c2.Read(buf)
			if n > 0 {
				data := append([]byte(nil), buf[:n]...)
				if first {
					first = false
					hsLen.Store(int64(n))
					cuts := cutsOf(n)
					usedCuts.Store(cuts)
					for _, sg := range c03Segments(data, cuts) {
						conn.Feed(sg)
						if !conn.WaitConsumed(30 * time.Second) {
							break
						}
					}
				} else {
					conn.Feed(kit.Seg{Data: data})
				}
			}
			if err != nil {
				return
			}
		}
	}()
	done := make(chan struct{})
	go func() { s.vHandle(conn, phantom); close(done) }()

	app := c04IDs(0xA1, appN)
	var clientGot []byte
	var cmu sync.Mutex
	clientErr := make(chan error, 1)
	go func() {
		c1.SetDeadline(time.Now().Add(90 * time.Second))
		wc, err := wrap(c1)
		if err != nil {
			clientErr <- fmt.Errorf("handshake: %w", err)
			return
		}
		go func() {
			buf := make([]byte, 4096)
			for {
				n, err := wc.Read(buf)
				if n > 0 {
					cmu.Lock()
					clientGot = append(clientGot, buf[:n]...)
					cmu.Unlock()
				}
				if err != nil {
					return
				}
			}
		}()
		_, err = wc.Write(app)
		clientErr <- err
	}()
	var cerr error
	select {
	case cerr = <-clientErr:
	case <-time.After(100 * time.Second):
		cerr = fmt.Errorf("client did not finish within 100 s")
	}
	ok := false
	if cerr == nil {
		ok = vWaitFor(30*time.Second, func() bool {
			got, _ := cov.Got()
			cmu.Lock()
			defer cmu.Unlock()
			return len(got) >= len(app) && len(clientGot) >= len(reply)
		})
	}
	// end of session: client goes away
	c1.Close()
	c2.Close()
	conn.SetAtEnd(kit.EndEOF)
	select {
	case <-done:
	case <-time.After(60 * time.Second):
		conn.Close()
		<-done
	}
	<-pumpDone
	cov.ln.Close()
	select {
	case <-cov.done:
	case <-time.After(30 * time.Second):
	}
	got, acc := cov.Got()
	cmu.Lock()
	cg := append([]byte(nil), clientGot...)
	cmu.Unlock()
	cuts, _ := usedCuts.Load().([]int)
	label := fmt.Sprintf("obfs4 %s handshake=%dB cuts=%v app=%d others=%v", tag, hsLen.Load(), cuts, appN, others)
	d := map[string]interface{}{"case": label, "covert_accepted": acc, "covert_got": len(got), "client_got": len(cg), "client_err": fmt.Sprint(cerr), "ops_tail": opsTail(conn)}
	switch {
	case acc == 0:
		rec.Violation("not-recognised:Obfs4", "a genuine obfs4 handshake was not matched to its registration (the covert was never dialled)", d)
	case !bytes.Equal(got, app):
		sig := "covert-data-mismatch:Obfs4"
		if len(got) == 0 && len(app) > 0 {
			sig = "covert-got-nothing:Obfs4"
		}
		rec.Violation(sig, "bytes at the covert differ from the client's application bytes", d)
	case !bytes.Equal(cg, reply):
		rec.Violation("client-reply-mismatch:Obfs4", "the covert's reply did not reach the client intact", d)
	case !ok:
		rec.Inconclusive("data complete only after the bound", label)
	}
	if acc > 0 {
		if used, tracked := s.rm.VerifUsed(reg); !tracked || !used {
			rec.Violation("not-marked-used:Obfs4", "the registration was matched but not marked as used", d)
		}
	}
	rec.Count("evaluations", 1)
	rec.Distinct("nontrivial", label)
	if rec.WantSample() {
		rec.Sample(d)
	}
	_ = io.EOF
}

func TestVerifC04Obfs4(t *testing.T) {
	rec := kit.NewRec("C04", "obfs4")
	defer rec.Close()
	s := vNewStation(t, "c04o")
	rng := kit.Rand("c04-obfs4")
	type job struct {
		cutsOf func(int) []int
		app    int
		others bool
		tag    string
	}
	var jobs []job
	bound := []int{1, 31, 32, 33, 63, 64, 65, 4095, 4096, 4097}
	for _, b := range bound {
		b := b
		jobs = append(jobs, job{func(l int) []int { return []int{b} }, 64, b%2 == 0, fmt.Sprintf("1cut@%d", b)})
	}
	for _, b := range []int{1, 15, 16, 17, 31, 32, 33, 48} { // distances from the end (mark+mac at the tail)
		b := b
		jobs = append(jobs, job{func(l int) []int { return []int{l - b} }, 64, b%2 == 0, fmt.Sprintf("1cut@end-%d", b)})
	}
	jobs = append(jobs, job{func(l int) []int { return nil }, 4096, false, "nocut"})
	jobs = append(jobs, job{func(l int) []int { return nil }, 0, true, "nocut-noapp"})
	nRand := kit.Tier(60, 3000)
	for i := 0; i < nRand; i++ {
		k := 1 + rng.Intn(3)
		seed := rng.Int63()
		jobs = append(jobs, job{func(l int) []int {
			r := kit.Rand(fmt.Sprint("c04cuts", seed))
			var c []int
			for j := 0; j < k && l > 1; j++ {
				c = append(c, 1+r.Intn(l-1))
			}
			sortInts(c)
			return c
		}, []int{0, 1, 64, 1400, 4096}[rng.Intn(5)], rng.Intn(2) == 0, fmt.Sprintf("%dcut-random", k)})
	}
	if kit.Thorough() {
		// every 1-cut position up to the maximum handshake length (positions beyond the actual length are skipped by the segmenter)
		for p := 1; p < 8192; p++ {
			p := p
			jobs = append(jobs, job{func(l int) []int { return []int{p} }, 16, false, fmt.Sprintf("1cut@%d", p)})
		}
	}
	var wg sync.WaitGroup
	ch := make(chan job, 32)
	for i := 0; i < 12; i++ {
		wg.Add(1)
		srng := kit.Rand(fmt.Sprintf("c04o-worker-%d", i))
		go func() {
			defer wg.Done()
			for j := range ch {
				if rec.Violations() > 60 {
					continue
				}
				c04Obfs4Session(s, rec, srng, j.cutsOf, j.app, j.others, j.tag)
			}
		}()
	}
	for _, j := range jobs {
		ch <- j
	}
	close(ch)
	wg.Wait()
}

// TestVerifC04Obfs4Lengths: the obfs4 client pads its handshake with a random amount, so handshake lengths range from
// the protocol minimum to 8192 bytes and an interactive session only ever sees one random length.  Here thousands of
// genuine client handshakes are generated with the real client transport; the shortest and the longest ones seen, plus
// a sample in between, are presented to the real handler (whole, and cut into 3 and into 12 segments).  Every one of
// them must be recognised: the covert listener of the registration receives the station's connection.
// (covert recorder and two-step conn shared with the C08 handler stage)
func TestVerifC04Obfs4Lengths(t *testing.T) {
	rec := kit.NewRec("C04", "obfs4lengths")
	defer rec.Close()
	rng := kit.Rand("c04-o4len")
	s := vNewStation(t, "c04ol")
	phantom := net.IPv4(198, 20, 0, 7).To4()
	cov := c08NewCovert(t)
	defer cov.ln.Close()
	// three registrations share the phantom (the station has to pick the right one)
	var sp vRegSpec
	for i := 0; i < 3; i++ {
		x := vRegSpec{Secret: vSecret(rng), TT: pb.TransportType_Obfs4, Params: &pb.GenericTransportParams{RandomizeDstPort: boolp(false)}, LibVer: 4, Phantom: phantom, Covert: cov.ln.Addr().String()}
		if _, err := s.vAdmit(x); err != nil {
			t.Fatal(err)
		}
		if i == 1 {
			sp = x
		}
	}
	draws := kit.Tier(4000, 40000)
	byLen := map[int][]byte{}
	for i := 0; i < draws; i++ {
		fl, err := s.vFlight(sp)
		if err != nil {
			t.Fatalf("client handshake: %v", err)
		}
		if _, ok := byLen[len(fl)]; !ok {
			byLen[len(fl)] = fl
		}
	}
	var lens []int
	for l := range byLen {
		lens = append(lens, l)
	}
	sortInts(lens)
	rec.Count("client_handshakes_generated", draws)
	rec.Count("distinct_handshake_lengths", len(lens))
	rec.Note(fmt.Sprintf("handshake lengths seen: %d … %d", lens[0], lens[len(lens)-1]))
	pick := map[int]bool{}
	for i := 0; i < len(lens) && i < kit.Tier(12, 200); i++ {
		pick[lens[i]] = true // the shortest
	}
	for i := len(lens) - 1; i >= 0 && i >= len(lens)-kit.Tier(4, 50); i-- {
		pick[lens[i]] = true // the longest
	}
	for i := 0; i < kit.Tier(8, 600); i++ {
		pick[lens[rng.Intn(len(lens))]] = true
	}
	var chosen []int
	for l := range pick {
		chosen = append(chosen, l)
	}
	sortInts(chosen)
	port := 43000
	for _, l := range chosen {
		fl := byLen[l]
		for _, nseg := range []int{1, 3, 12} {
			port++
			label := fmt.Sprintf("obfs4 handshake of %d bytes in %d segment(s)", l, nseg)
			rec.CaseCheap(label)
			conn := kit.NewScriptConn("client", kit.TCPAddr(phantom.String(), 443), kit.TCPAddr("203.0.113.77", port), nil, kit.EndBlock)
			conn.MaxBlock = 60 * time.Second
			var cuts []int
			for j := 1; j < nseg; j++ {
				cuts = append(cuts, 1+rng.Intn(l-1))
			}
			sortInts(cuts)
			before, _ := cov.settle()
			done := make(chan struct{})
			go func() { s.vHandle(conn, phantom); close(done) }()
			conn.Feed(c03Segments(fl, cuts)...)
			// the station answers the handshake and dials the covert; the (mute) client then goes away
			recognised := vWaitFor(4*time.Second, func() bool { return cov.accepts.Load() > before })
			conn.SetAtEnd(kit.EndEOF)
			select {
			case <-done:
			case <-time.After(60 * time.Second):
				conn.Close()
				<-done
			}
			after, ok := cov.settle()
			if !ok {
				rec.Inconclusive("covert recorder did not settle", label)
				continue
			}
			rec.Count("evaluations", 1)
			rec.Distinct("nontrivial", l, nseg)
			if after <= before && !recognised {
				rec.Violation("obfs4:genuine-handshake-not-recognised", "a genuine obfs4 client handshake for a validated registration on this phantom was not matched (no connection to its covert)",
					map[string]interface{}{"case": label, "handshake_length": l, "cuts": cuts, "ops": opsTail(conn)})
			}
		}
	}
}
