package main

// C03 – probe class "genuine obfs4 flight, one bit flipped in the MAC, followed by more data".
//
// The quantifier names "genuine flights with one bit flipped".  The other probe classes flip bits of the representative
// and the mark; a flight whose mark is intact and whose MAC is damaged (a recorded handshake replayed after tampering, or
// simply more than an hour later: the MAC covers the epoch hour) still never presents a valid tag – the obfs4 server
// handshake rejects it – so the statement applies: no byte to the peer, no close before the 5–10 s deadline, whatever the
// content, length or pacing of the data, and the station keeps reading.  Pointed out (as an untested suspicion) by two of
// the independent seeding agents for C03.
//
// Oracle: (1) nothing written; (2) no Close call on the connection while no Read has returned an error (timeout, EOF,
// reset) yet, the peer still has data to send, and less than 5 s have passed since the handler was entered.  Real time is
// used in the harmless direction only: a slow machine can make the elapsed time larger (a miss), never smaller.

import (
	"fmt"
	"sync"
	"testing"
	"time"

	kit "github.com/refraction-networking/conjure/internal/verifkit"
	pb "github.com/refraction-networking/conjure/proto"
)

func TestVerifC03MacFlip(t *testing.T) {
	rec := kit.NewRec("C03", "macflip")
	defer rec.Close()
	rng := kit.Rand("c03-macflip")
	w := c03Setup(t)
	randBytes := func(n int) []byte { b := make([]byte, n); rng.Read(b); return b }

	type target struct {
		registry string
		r        c03Reg
	}
	var targets []target
	for _, name := range []string{"obfs4", "many", "many6"} {
		for _, r := range w.phantoms[name] {
			if r.spec.TT == pb.TransportType_Obfs4 {
				targets = append(targets, target{name, r})
			}
		}
	}
	if len(targets) == 0 {
		t.Fatal("infrastructure: no obfs4 registrations in the C03 world")
	}
	tails := []int{0, 64, 1500, 9000, 12000, 16000}
	reps := kit.Tier(2, 40)
	n := 0
	// a station that hands such a connection to the obfs4 library sleeps out its own deadline in REAL time afterwards
	// (5–10 s per case on such a tree): the cases run side by side
	var wg sync.WaitGroup
	sem := make(chan struct{}, 48)
	for rep := 0; rep < reps; rep++ {
		for _, tg := range targets {
			for _, tail := range tails {
				for _, where := range []string{"mac", "mark+mac-boundary"} {
					n++
					fl := tg.r.flight
					// mark (16 bytes) and MAC (16 bytes) end the client handshake
					bit := (len(fl)-16)*8 + rng.Intn(16*8)
					if where == "mark+mac-boundary" {
						bit = (len(fl)-16)*8 + rng.Intn(8)
					}
					data := append(flipBit(fl, bit), randBytes(tail)...)
					// the damaged handshake in one piece, the tail in segments of ≤ 1400 bytes
					cuts := []int{len(fl)}
					for off := len(fl) + 1400; off < len(data); off += 1400 {
						cuts = append(cuts, off)
					}
					if tail == 0 {
						cuts = nil
					}
					label := fmt.Sprintf("#%d registry=%s obfs4 flight with bit %d flipped (%s) + %d bytes in %d segments", n, tg.registry, bit, where, tail, len(cuts)+1)
					rec.CaseCheap(label)
					n, tg, tail, where := n, tg, tail, where
					wg.Add(1)
					sem <- struct{}{}
					go func() {
						defer func() { <-sem; wg.Done() }()
						local := kit.TCPAddr(w.ips[tg.registry].String(), 443)
						remote := kit.TCPAddr(fmt.Sprintf("203.0.113.%d", 1+n%250), 41000+n%20000)
						if w.ips[tg.registry].To4() == nil {
							remote = kit.TCPAddr(fmt.Sprintf("2001:db8:3::%x", 1+n%60000), 41000+n%20000)
						}
						conn := kit.NewScriptConn("probe", local, remote, c03Segments(data, cuts), kit.EndVirtualTimeout)
						conn.MaxBlock = 40 * time.Second
						t0 := time.Now()
						w.s.vHandle(conn, w.ips[tg.registry])
						st := conn.State()
						if st.BytesWritten > 0 {
							rec.Violation("macflip:wrote-to-unauthenticated-peer", "the station wrote bytes to a connection whose obfs4 handshake carries a damaged MAC",
								map[string]interface{}{"probe": label, "bytes": st.BytesWritten})
						}
						// the first Close call, and what had happened before it
						readErrBefore := false
						for _, o := range conn.Ops() {
							if o.Op == "read" && o.Err != "" {
								readErrBefore = true
							}
							if o.Op == "close" {
								elapsed := o.Now.Sub(t0)
								if !readErrBefore && st.SegsConsumed < st.SegsTotal && elapsed < 5*time.Second {
									rec.Violation("macflip:closed-early:peer-still-sending", "the connection was closed before the classification deadline, with no read error or timeout delivered and data of the peer still unread",
										map[string]interface{}{"probe": label, "closed_after_ms": elapsed.Milliseconds(), "consumed": fmt.Sprintf("%d/%d segments", st.SegsConsumed, st.SegsTotal), "ops_tail": opsTail(conn)})
								}
								break
							}
						}
						rec.Count("evaluations", 1)
						rec.Distinct("nontrivial", tg.registry, tail, where)
						if rec.WantSample() {
							rec.Sample(map[string]interface{}{"probe": label, "ops_tail": opsTail(conn), "handler_ms": time.Since(t0).Milliseconds()})
						}
					}()
				}
			}
		}
	}
	wg.Wait()
}
