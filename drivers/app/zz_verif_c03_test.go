//go:build verif

package main

// C03 – a connection that never presents a valid tag gets no byte and is not closed before the
// randomised 5-10 s classification deadline, and the station keeps reading meanwhile.
// Monitor: kit.ScriptConn (virtual deadline) around the real handleNewTCPConn.

import (
	"context"
	"fmt"
	"math/rand"
	"net"
	"os/exec"
	"runtime"
	"sync"
	"testing"
	"time"

	kit "github.com/refraction-networking/conjure/internal/verifkit"
	"github.com/refraction-networking/conjure/pkg/transports/wrapping/prefix"
	pb "github.com/refraction-networking/conjure/proto"
)

type c03World struct {
	s        *vStation
	phantoms map[string][]c03Reg // registry name -> registrations on that phantom
	ips      map[string]net.IP
}

func c03Setup(t *testing.T) *c03World {
	s := vNewStation(t, "c03")
	w := &c03World{s: s, phantoms: map[string][]c03Reg{}, ips: map[string]net.IP{
		"none":   net.ParseIP("192.122.190.10"),
		"onemin": net.ParseIP("192.122.190.11"),
		"many":   net.ParseIP("192.122.190.12"),
		"obfs4":  net.ParseIP("192.122.190.13"),
		"prefix": net.ParseIP("192.122.190.14"),
		"none6":  net.ParseIP("2001:48a8:687f:1::10"),
		"many6":  net.ParseIP("2001:48a8:687f:1::12"),
	}}
	rng := kit.Rand("c03-regs")
	add := func(name string, tt pb.TransportType, params interface{}) {
		sp := vRegSpec{Secret: vSecret(rng), TT: tt, LibVer: 4, Phantom: w.ips[name], Covert: "127.0.0.1:9"}
		switch p := params.(type) {
		case *pb.GenericTransportParams:
			sp.Params = p
		case *pb.PrefixTransportParams:
			sp.Params = p
		}
		_, err := s.vAdmit(sp)
		for try := 0; err != nil && try < 40 && w.ips[name].To4() == nil; try++ {
			// the station derives a phantom from the secret before the registrar's override is applied; some secrets
			// select a subnet group without IPv6 subnets and are refused: take another secret
			sp.Secret = vSecret(rng)
			_, err = s.vAdmit(sp)
		}
		if err != nil {
			t.Fatalf("admit %v: %v", sp, err)
		}
		fl, err := s.vFlight(sp)
		if err != nil {
			t.Fatalf("flight %v: %v", sp, err)
		}
		w.phantoms[name] = append(w.phantoms[name], c03Reg{sp, fl})
	}
	gen := &pb.GenericTransportParams{RandomizeDstPort: boolp(false)}
	add("onemin", pb.TransportType_Min, gen)
	add("many", pb.TransportType_Min, gen)
	add("many", pb.TransportType_Min, gen)
	add("many", pb.TransportType_Obfs4, gen)
	add("many", pb.TransportType_Obfs4, gen)
	for _, id := range vAllPrefixIDs {
		add("many", pb.TransportType_Prefix, vPrefixParams(id, false, prefix.DefaultFlush))
	}
	add("many6", pb.TransportType_Min, gen)
	add("many6", pb.TransportType_Obfs4, gen)
	add("many6", pb.TransportType_Prefix, vPrefixParams(prefix.GetLong, false, prefix.DefaultFlush))
	add("many6", pb.TransportType_Prefix, vPrefixParams(prefix.OpenSSH2, false, prefix.DefaultFlush))
	add("obfs4", pb.TransportType_Obfs4, gen)
	add("prefix", pb.TransportType_Prefix, vPrefixParams(prefix.GetLong, false, prefix.DefaultFlush))
	add("prefix", pb.TransportType_Prefix, vPrefixParams(prefix.Min, false, prefix.DefaultFlush))
	// sanity: the registries are what we think they are
	for name, regs := range w.phantoms {
		if got := s.rm.CountRegistrations(w.ips[name]); got != len(regs) {
			t.Fatalf("registry %s: %d registrations tracked, expected %d", name, got, len(regs))
		}
	}
	return w
}

type c03Probe struct {
	Registry string
	Kind     string
	Data     []byte
	Cuts     []int  // segment boundaries
	End      string // deadline | eof | rst
}

func (p c03Probe) label() string {
	return fmt.Sprintf("registry=%s kind=%s len=%d segs=%d end=%s", p.Registry, p.Kind, len(p.Data), len(p.Cuts)+1, p.End)
}

var c03Lookalikes = [][]byte{
	[]byte("GET / HTTP/1.1\r\nHost: example.com\r\nUser-Agent: curl/8.0\r\nAccept: */*\r\n\r\n"),
	[]byte("POST / HTTP/1.1\r\nHost: example.com\r\nContent-Length: 4096\r\n\r\n"),
	[]byte("SSH-2.0-OpenSSH_8.9p1 Ubuntu-3\r\n"),
	append([]byte{0x16, 0x03, 0x01, 0x02, 0x00, 0x01, 0x00, 0x01, 0xfc, 0x03, 0x03}, make([]byte, 501)...),
	[]byte("\x00\x1e\xab\xcd\x01\x00\x00\x01\x00\x00\x00\x00\x00\x00\x07example\x03com\x00\x00\x01\x00\x01"),
	[]byte("HTTP/1.1 200\r\nContent-Type: text/html\r\n\r\n<html>"),
}

func c03Generate(w *c03World, rng *rand.Rand, n int) []c03Probe {
	var out []c03Probe
	registries := []string{"none", "onemin", "many", "obfs4", "prefix", "none6", "many6"}
	lengths := []int{0, 1, 31, 32, 33, 63, 64, 65, 69, 70, 71, 79, 80, 81, 84, 85, 86, 127, 4095, 4096, 4097, 8191, 8192, 8193, 16384}
	randBytes := func(k int) []byte { b := make([]byte, k); rng.Read(b); return b }
	cutsFor := func(data []byte, mode int) []int {
		l := len(data)
		switch mode {
		case 0:
			return nil
		case 1: // byte at a time around the thresholds
			var c []int
			for _, th := range []int{32, 64, 85, 8192} {
				for i := th - 3; i <= th+3; i++ {
					if i > 0 && i < l {
						c = append(c, i)
					}
				}
			}
			return c
		case 2: // random k cuts
			k := 1 + rng.Intn(6)
			var c []int
			for i := 0; i < k && l > 1; i++ {
				c = append(c, 1+rng.Intn(l-1))
			}
			sortInts(c)
			return c
		default: // many tiny segments at the start
			var c []int
			for i := 1; i < l && i < 100; i++ {
				c = append(c, i)
			}
			return c
		}
	}
	ends := []string{"deadline", "deadline", "deadline", "eof", "rst"}
	add := func(reg, kind string, data []byte) {
		out = append(out, c03Probe{Registry: reg, Kind: kind, Data: data, Cuts: cutsFor(data, rng.Intn(4)), End: ends[rng.Intn(len(ends))]})
	}
	// deterministic part: every registry × every threshold length × single segment, deadline end
	for _, reg := range registries {
		for _, l := range lengths {
			out = append(out, c03Probe{Registry: reg, Kind: "random", Data: randBytes(l), End: "deadline"})
		}
		for _, p := range vAllPrefixIDs {
			pre := prefix.DefaultPrefixes[p].Bytes()
			out = append(out, c03Probe{Registry: reg, Kind: "static-prefix+garbage:" + p.Name(), Data: append(append([]byte{}, pre...), randBytes(200)...), End: "deadline"})
		}
	}
	// crafted tags whose Elligator representative decodes to a low-order point (all-zero representative,
	// with every setting of the two masked top bits): the key agreement itself fails for these, which is
	// a different code path from "tag does not match anything".  Bare and behind every static prefix,
	// always followed by more data that must still be read.
	for _, reg := range []string{"many", "prefix", "onemin"} {
		for _, top := range []byte{0x00, 0x40, 0x80, 0xC0} {
			for _, p := range vAllPrefixIDs {
				pre := prefix.DefaultPrefixes[p].Bytes()
				rep := make([]byte, 32)
				rep[31] = top
				data := append(append(append([]byte{}, pre...), rep...), randBytes(32+200)...)
				out = append(out, c03Probe{Registry: reg, Kind: "low-order-representative:" + p.Name(), Data: data, Cuts: []int{len(pre) + 64, len(pre) + 64 + 50}, End: "deadline"})
			}
		}
	}
	// many-segment family ("arbitrary segmentation" includes a peer that dribbles its stream): short probes
	// that arrive in 129…1000 reads while at least one transport (obfs4, < 8192 bytes) is still undecided.
	// Every byte its own segment for the 150–600-byte probes, 4-byte segments for the 2 KiB ones.
	everyK := func(l, k int) []int {
		var c []int
		for i := k; i < l; i += k {
			c = append(c, i)
		}
		return c
	}
	msEnds := []string{"deadline", "eof", "deadline", "rst"}
	msN := 0
	addMS := func(reg, kind string, data []byte, k int) {
		out = append(out, c03Probe{Registry: reg, Kind: "manyseg:" + kind, Data: data, Cuts: everyK(len(data), k), End: msEnds[msN%len(msEnds)]})
		msN++
	}
	for _, reg := range []string{"none", "onemin", "many", "obfs4", "many6"} {
		// random bytes
		for _, l := range []int{150, 200, 333, 600} {
			addMS(reg, "random", randBytes(l), 1)
		}
		addMS(reg, "random", randBytes(2048), 4)
		addMS(reg, "random", randBytes(1000), 1)
		// static prefix + garbage
		for i, p := range vAllPrefixIDs {
			pre := prefix.DefaultPrefixes[p].Bytes()
			l, k := 200+rng.Intn(401), 1
			if i%4 == 3 {
				l, k = 2048, 4
			}
			addMS(reg, "static-prefix+garbage:"+p.Name(), append(append([]byte{}, pre...), randBytes(l)...), k)
		}
		// bit-flipped genuine flights (of a registration on this phantom, or on another one), padded with garbage
		regs := w.phantoms[reg]
		if len(regs) == 0 {
			regs = w.phantoms["many"]
		}
		for i := 0; i < 3; i++ {
			r := regs[rng.Intn(len(regs))]
			from, to, skip := c03TagBits(r)
			if to <= from {
				continue
			}
			bit := from + rng.Intn(to-from)
			for skip[bit] {
				bit = from + rng.Intn(to-from)
			}
			data := flipBit(r.flight, bit)
			l, k := 200+rng.Intn(401), 1
			if i == 2 {
				l, k = 2048, 4
			}
			if len(data) < l {
				data = append(data, randBytes(l-len(data))...)
			}
			if len(data) > 1000 {
				k = 4
			}
			if len(data) > 4000 {
				k = 8
			}
			addMS(reg, fmt.Sprintf("bitflip:%s", r.spec.TT), data, k)
		}
	}
	for len(out) < n {
		reg := registries[rng.Intn(len(registries))]
		switch rng.Intn(6) {
		case 0:
			add(reg, "random", randBytes(lengths[rng.Intn(len(lengths))]))
		case 1:
			add(reg, "random", randBytes(rng.Intn(16385)))
		case 2:
			la := c03Lookalikes[rng.Intn(len(c03Lookalikes))]
			add(reg, "lookalike", append(append([]byte{}, la...), randBytes(rng.Intn(300))...))
		case 3:
			p := vAllPrefixIDs[rng.Intn(len(vAllPrefixIDs))]
			pre := prefix.DefaultPrefixes[p].Bytes()
			add(reg, "static-prefix+garbage:"+p.Name(), append(append([]byte{}, pre...), randBytes(rng.Intn(400))...))
		case 4, 5:
			regs := w.phantoms[reg]
			if len(regs) == 0 {
				// a genuine flight for a registration that lives on ANOTHER phantom, bit-flipped
				regs = w.phantoms["many"]
			}
			r := regs[rng.Intn(len(regs))]
			from, to, skip := c03TagBits(r)
			bit := from + rng.Intn(to-from)
			for skip[bit] {
				bit = from + rng.Intn(to-from)
			}
			data := flipBit(r.flight, bit)
			data = append(data, randBytes(rng.Intn(100))...)
			add(reg, fmt.Sprintf("bitflip:%s", r.spec.TT), data)
		}
	}
	return out
}

type c03Shared struct {
	mu        sync.Mutex
	deadlines map[int64]int
}

func c03Run(w *c03World, rec *kit.Rec, sh *c03Shared, p c03Probe) {
	label := p.label()
	segs := c03Segments(p.Data, p.Cuts)
	atEnd := kit.EndVirtualTimeout
	local := kit.TCPAddr(w.ips[p.Registry].String(), 443)
	// the peer's address varies with the probe (the handler's per-country / per-AS accounting depends on it);
	// IPv6 phantoms are reached by IPv6 peers
	h := 0
	for _, b := range p.Data {
		h = h*131 + int(b)
	}
	if h < 0 {
		h = -h
	}
	remote := kit.TCPAddr(fmt.Sprintf("203.0.%d.%d", 113+h%3, 1+h%250), 40000+h%20000)
	if w.ips[p.Registry].To4() == nil {
		remote = kit.TCPAddr(fmt.Sprintf("2001:db8:%x::%x", h%5, 1+h%65000), 40000+h%20000)
	}
	switch p.End {
	case "eof":
		atEnd = kit.EndEOF
	case "rst":
		segs = append(segs, kit.Seg{Err: kit.NetOpErr("read", local, remote, kit.SysErr("read", 104))})
		atEnd = kit.EndEOF
	}
	conn := kit.NewScriptConn("probe", local, remote, segs, atEnd)
	conn.MaxBlock = 40 * time.Second
	t0 := time.Now()
	w.s.vHandle(conn, w.ips[p.Registry])
	tEnd := time.Now()
	st := conn.State()
	viol := func(sig, msg string, extra map[string]interface{}) {
		d := map[string]interface{}{"probe": label, "ops_tail": opsTail(conn), "first_bytes": kit.HexN(p.Data, 48)}
		for k, v := range extra {
			d[k] = v
		}
		rec.Violation(sig, msg, d)
	}
	// 1. not a single byte to the peer
	if st.BytesWritten > 0 {
		viol("wrote-to-unauthenticated-peer", "the station wrote bytes to a connection that never presented a valid tag", map[string]interface{}{"bytes": st.BytesWritten, "written": kit.HexN(conn.Written(), 64)})
	}
	// 2. the deadline the handler set
	var dlArg time.Time
	nDL := 0
	for _, o := range conn.Ops() {
		if o.Op == "setdeadline" || o.Op == "setreaddeadline" {
			nDL++
			if o.Arg.IsZero() {
				viol("deadline:cleared", "the classification deadline was removed on an unauthenticated connection", nil)
				continue
			}
			d := o.Arg.Sub(o.Now)
			e := o.Now.Sub(t0)
			if dlArg.IsZero() {
				dlArg = o.Arg
				sh.mu.Lock()
				sh.deadlines[int64(d/time.Millisecond)]++
				sh.mu.Unlock()
			}
			switch {
			case d > 10*time.Second:
				viol("deadline:above-10s", "classification deadline longer than 10 s", map[string]interface{}{"d_ms": d.Milliseconds()})
			case d >= 5*time.Second:
			case d+e < 5*time.Second:
				viol("deadline:below-5s", "classification deadline shorter than 5 s", map[string]interface{}{"d_ms": d.Milliseconds(), "e_ms": e.Milliseconds()})
			default:
				rec.Inconclusive("deadline lower bound not decidable for this sample (scheduling delay)", map[string]interface{}{"d_ms": d.Milliseconds(), "e_ms": e.Milliseconds()})
			}
		}
	}
	if nDL == 0 || st.HungNoDeadline {
		viol("deadline:none-set", "no classification deadline was set on the connection", nil)
	}
	// 3. no close before {timeout delivered, peer EOF/RST delivered, real deadline reached}
	realDeadlinePassed := !dlArg.IsZero() && !tEnd.Before(dlArg)
	if st.TerminalReadErr == nil && !realDeadlinePassed {
		viol("closed-early", "the handler gave up (= the connection is closed) before the deadline fired and before the peer ended the stream",
			map[string]interface{}{"consumed": fmt.Sprintf("%d/%d segments", st.SegsConsumed, st.SegsTotal), "after_ms": tEnd.Sub(t0).Milliseconds()})
	}
	// 4. it kept reading
	if st.SegsConsumed < st.SegsTotal {
		realTimeout := st.TerminalReadErr != nil && kit.IsTimeout(st.TerminalReadErr) && !st.VirtualFired
		if !realTimeout {
			viol("stopped-reading", "the handler stopped reading although the peer had more to send and the deadline had not fired",
				map[string]interface{}{"consumed": fmt.Sprintf("%d/%d segments", st.SegsConsumed, st.SegsTotal)})
		} else {
			rec.Inconclusive("real deadline fired before the script was consumed (machine stalled?)", label)
		}
	}
	rec.Count("evaluations", 1)
	rec.Count("probe_bytes", len(p.Data))
	rec.Count("reads_observed", len(conn.Ops()))
	rec.Distinct("nontrivial", p.Registry, p.Kind, len(p.Data), p.Cuts, p.End)
	rec.Distinct("kinds", p.Registry, p.Kind, p.End)
	if rec.WantSample() && len(p.Cuts) > 0 && len(p.Data) > 64 {
		rec.Sample(map[string]interface{}{"probe": label, "first_bytes": kit.HexN(p.Data, 32), "ops_tail": opsTail(conn), "handler_ms": tEnd.Sub(t0).Milliseconds()})
	}
}

func TestVerifC03Probes(t *testing.T) {
	rec := kit.NewRec("C03", "probes")
	defer rec.Close()
	w := c03Setup(t)
	rng := kit.Rand("c03-probes")
	probes := c03Generate(w, rng, kit.Tier(4000, 150000))
	sh := &c03Shared{deadlines: map[int64]int{}}
	// handlers are independent: run them on a small pool
	var wg sync.WaitGroup
	ch := make(chan c03Probe, 64)
	for i := 0; i < 8; i++ {
		wg.Add(1)
		go func() {
			defer wg.Done()
			for p := range ch {
				c03Run(w, rec, sh, p)
			}
		}()
	}
	for _, p := range probes {
		ch <- p
	}
	close(ch)
	wg.Wait()
	// 5. the deadline is randomised
	sh.mu.Lock()
	nd := len(sh.deadlines)
	total := 0
	for _, c := range sh.deadlines {
		total += c
	}
	sh.mu.Unlock()
	rec.Count("distinct_deadline_values_ms", nd)
	if total >= 100 && nd < 10 {
		rec.Violation("deadline:not-randomised", "the classification deadline takes (almost) the same value on every connection",
			map[string]interface{}{"distinct_ms_values": nd, "connections": total})
	}
	// the registries must still be intact (a probe must not consume or alter a registration)
	for name, regs := range w.phantoms {
		if got := w.s.rm.CountRegistrations(w.ips[name]); got != len(regs) {
			rec.Violation("registry-changed-by-probes", "probing changed the set of registrations", map[string]interface{}{"registry": name, "before": len(regs), "after": got})
		}
	}
}

// ---- thorough: real TCP through acceptConnections in a network namespace ------------------------------
// The orchestrator starts this test inside `unshare -n` (lo up).  An AnyIP route makes 198.51.100.0/24
// local and a REDIRECT rule sends it to the station's fixed listener :41245, so the real
// acceptConnections → handleNewConn → getOriginalDst (SO_ORIGINAL_DST) → handleNewTCPConn path runs with
// the kernel in the loop.  Time is measured from BEFORE connect(), so load can only make the observed
// interval longer: a close earlier than 5 s after that instant cannot come from a correct station.

func TestVerifC03RealTCP(t *testing.T) {
	rec := kit.NewRec("C03", "realtcp")
	defer rec.Close()
	run := func(name string, args ...string) error {
		out, err := exec.Command(name, args...).CombinedOutput()
		if err != nil {
			return fmt.Errorf("%s %v: %v: %s", name, args, err, out)
		}
		return nil
	}
	if err := run("ip", "route", "add", "local", "198.51.100.0/24", "dev", "lo"); err != nil {
		rec.Note("real-TCP sub-stage skipped: " + err.Error())
		rec.Inconclusive("cannot set up the network namespace", err.Error())
		return
	}
	if err := run("iptables", "-t", "nat", "-A", "OUTPUT", "-d", "198.51.100.0/24", "-p", "tcp", "-j", "REDIRECT", "--to-ports", "41245"); err != nil {
		rec.Note("real-TCP sub-stage skipped: " + err.Error())
		rec.Inconclusive("cannot set up the REDIRECT rule", err.Error())
		return
	}
	// registrations on 198.51.100.7, none on 198.51.100.8
	s := vNewStation(t, "c03tcp")
	sharedLogger = s.rm.Logger
	withRegs := net.ParseIP("198.51.100.7").To4()
	rng := kit.Rand("c03-realtcp")
	gen := &pb.GenericTransportParams{RandomizeDstPort: boolp(false)}
	var regs []c03Reg
	for _, sp := range []vRegSpec{
		{Secret: vSecret(rng), TT: pb.TransportType_Min, Params: gen, LibVer: 4, Phantom: withRegs, Covert: "127.0.0.1:9"},
		{Secret: vSecret(rng), TT: pb.TransportType_Obfs4, Params: gen, LibVer: 4, Phantom: withRegs, Covert: "127.0.0.1:9"},
		{Secret: vSecret(rng), TT: pb.TransportType_Prefix, Params: vPrefixParams(prefix.GetLong, false, 0), LibVer: 4, Phantom: withRegs, Covert: "127.0.0.1:9"},
	} {
		if _, err := s.vAdmit(sp); err != nil {
			t.Fatal(err)
		}
		fl, err := s.vFlight(sp)
		if err != nil {
			t.Fatal(err)
		}
		regs = append(regs, c03Reg{sp, fl})
	}
	ctx, cancel := context.WithCancel(context.Background())
	defer cancel()
	go s.cm.acceptConnections(ctx, s.rm, s.rm.Logger)
	// wait for the listener
	if !vWaitFor(20*time.Second, func() bool {
		c, err := net.DialTimeout("tcp", "127.0.0.1:41245", time.Second)
		if err == nil {
			c.Close()
		}
		return err == nil
	}) {
		rec.Inconclusive("station listener did not come up", nil)
		return
	}
	type probe struct {
		dst   string
		kind  string
		data  []byte
		pause bool
	}
	var probes []probe
	rb := func(n int) []byte { b := make([]byte, n); rng.Read(b); return b }
	n := 64
	for i := 0; i < n; i++ {
		dst := "198.51.100.7:443"
		if i%4 == 3 {
			dst = "198.51.100.8:443"
		}
		switch i % 6 {
		case 0:
			probes = append(probes, probe{dst, "random-32", rb(32), false})
		case 1:
			probes = append(probes, probe{dst, "random-8192", rb(8192), true})
		case 2:
			probes = append(probes, probe{dst, "http-lookalike", []byte("GET / HTTP/1.1\r\nHost: example.com\r\n\r\n"), false})
		case 3:
			r := regs[i%len(regs)]
			from, to, skip := c03TagBits(r)
			bit := from + rng.Intn(to-from)
			for skip[bit] {
				bit = from + rng.Intn(to-from)
			}
			probes = append(probes, probe{dst, "bitflip:" + r.spec.TT.String(), flipBit(r.flight, bit), true})
		case 4:
			probes = append(probes, probe{dst, "silent", nil, false})
		case 5:
			probes = append(probes, probe{dst, "random-16384", rb(16384), true})
		}
	}
	// peers that keep sending for the first four seconds (far more than any socket buffer holds): the station must keep
	// reading, whatever other connections are doing at the same time (half of them run next to obfs4 handshakes that
	// were damaged outside the mark, which the obfs4 library holds on to for a long time by design)
	for i := 0; i < 6; i++ {
		probes = append(probes, probe{"198.51.100.7:443", "stream", rb(4096), false})
		r := regs[1] // obfs4
		fl := append([]byte{}, r.flight...)
		fl[len(fl)-5] ^= 0x10 // inside the MAC that ends the handshake: the mark is intact
		probes = append(probes, probe{"198.51.100.7:443", "obfs4-damaged-mac", fl, false})
	}
	// the collector may run at any moment in a real station; here it runs every 50 ms while the probes overlap, so that
	// anything the handler leaves to finalizers (descriptors, buffers) is finalized while other connections are live
	gcStop := make(chan struct{})
	defer close(gcStop)
	go func() {
		for {
			select {
			case <-gcStop:
				return
			case <-time.After(50 * time.Millisecond):
				runtime.GC()
			}
		}
	}()
	var wg sync.WaitGroup
	for i, p := range probes {
		wg.Add(1)
		go func(i int, p probe) {
			defer wg.Done()
			if i >= 32 {
				time.Sleep(time.Duration(i-31) * 40 * time.Millisecond) // the second half arrives staggered: accepts reuse descriptors
			}
			label := fmt.Sprintf("#%d dst=%s kind=%s len=%d", i, p.dst, p.kind, len(p.data))
			t0 := time.Now() // before connect()
			c, err := net.DialTimeout("tcp", p.dst, 20*time.Second)
			if err != nil {
				rec.Inconclusive("connect failed", map[string]interface{}{"probe": label, "err": err.Error()})
				return
			}
			defer c.Close()
			if p.kind == "stream" {
				time.Sleep(700 * time.Millisecond) // the damaged handshakes are in the library's hands by now
				chunk := make([]byte, 256<<10)
				sent := len(p.data)
				c.Write(p.data)
				for time.Since(t0) < 4*time.Second {
					c.SetWriteDeadline(time.Now().Add(3 * time.Second))
					k, werr := c.Write(chunk)
					sent += k
					if werr != nil {
						if kit.IsTimeout(werr) {
							rec.Violation("realtcp:stopped-reading", "the station stopped reading from an unauthenticated connection before its deadline (a write of the peer blocked for 3 s)",
								map[string]interface{}{"probe": label, "bytes_sent_before_the_stall": sent, "after_ms": time.Since(t0).Milliseconds()})
						}
						break
					}
					time.Sleep(20 * time.Millisecond)
				}
				c.SetWriteDeadline(time.Time{})
				rec.Count("bytes_streamed_to_the_station", sent)
			} else if p.pause && len(p.data) > 100 {
				c.Write(p.data[:37])
				time.Sleep(150 * time.Millisecond)
				c.Write(p.data[37:])
			} else if len(p.data) > 0 {
				c.Write(p.data)
			}
			c.SetReadDeadline(time.Now().Add(45 * time.Second))
			if p.kind == "obfs4-damaged-mac" {
				// the obfs4 library keeps such a connection for 30-90 s by design: only "no early close, no bytes" is judged
				c.SetReadDeadline(time.Now().Add(12 * time.Second))
			}
			buf := make([]byte, 4096)
			got := 0
			var rerr error
			for {
				k, err := c.Read(buf)
				got += k
				if err != nil {
					rerr = err
					break
				}
			}
			el := time.Since(t0)
			if got > 0 {
				rec.Violation("realtcp:wrote-to-unauthenticated-peer", "the station sent bytes to a connection that never presented a valid tag", map[string]interface{}{"probe": label, "bytes": got})
			}
			if kit.IsTimeout(rerr) && p.kind == "obfs4-damaged-mac" {
				rec.Count("damaged_obfs4_handshakes_still_held_after_12s", 1)
			} else if kit.IsTimeout(rerr) {
				rec.Inconclusive("the station had not closed the connection 45 s after connect", label)
			} else if el < 5*time.Second {
				rec.Violation("realtcp:closed-early", "the station closed (FIN/RST) an unauthenticated connection earlier than 5 s after the client started to connect",
					map[string]interface{}{"probe": label, "after_ms": el.Milliseconds(), "read_error": fmt.Sprint(rerr)})
			}
			rec.Count("evaluations", 1)
			rec.Distinct("nontrivial", p.dst, p.kind, len(p.data))
			if rec.WantSample() {
				rec.Sample(map[string]interface{}{"probe": label, "closed_after_ms": el.Milliseconds(), "bytes_received": got, "read_error": fmt.Sprint(rerr)})
			}
		}(i, p)
	}
	wg.Wait()
}
