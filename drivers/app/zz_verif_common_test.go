//go:build verif

package main

// Shared harness of the /verif monitors that drive the station's connection handler
// (handleNewTCPConn) with scripted connections: C02, C03, C04, C17.

import (
	"bytes"
	"context"
	"encoding/binary"
	"fmt"
	"net"
	"os"
	"sync"
	"testing"
	"time"

	"github.com/refraction-networking/conjure/internal/conjurepath"
	"github.com/refraction-networking/conjure/internal/verifhook"
	kit "github.com/refraction-networking/conjure/internal/verifkit"
	"github.com/refraction-networking/conjure/pkg/core"
	cj "github.com/refraction-networking/conjure/pkg/station/lib"
	"github.com/refraction-networking/conjure/pkg/station/log"
	"github.com/refraction-networking/conjure/pkg/transports/wrapping/min"
	"github.com/refraction-networking/conjure/pkg/transports/wrapping/obfs4"
	"github.com/refraction-networking/conjure/pkg/transports/wrapping/prefix"
	pb "github.com/refraction-networking/conjure/proto"
	"golang.org/x/crypto/curve25519"
	"google.golang.org/protobuf/proto"
	"google.golang.org/protobuf/types/known/anypb"
)

type vStation struct {
	rm    *cj.RegistrationManager
	cm    *connManager
	priv  [32]byte
	pub   [32]byte
	redis *kit.FakeRedis
	prefT *prefix.Transport
}

// vLivenessTester is a liveness stub: nothing is live.
type vLivenessTester struct{}

func (vLivenessTester) PhantomIsLive(addr string, port uint16) (bool, error) { return false, nil }
func (vLivenessTester) PrintAndReset(*log.Logger)                            {}
func (vLivenessTester) PrintStats(*log.Logger)                               {}
func (vLivenessTester) Reset()                                               {}

// vGeoIP stands in for the operator's GeoIP databases (none exist in this sandbox): country and AS number are a
// function of the address; some addresses are unknown ("unk", as the station's empty database answers), some have an
// empty country code.
type vGeoIP struct{}

func vGeoKey(ip net.IP) int {
	k := 0
	for _, b := range ip {
		k = k*31 + int(b)
	}
	if k < 0 {
		k = -k
	}
	return k
}

func (vGeoIP) CC(ip net.IP) (string, error) {
	return []string{"US", "DE", "unk", "IR", "CN", "", "RU", "BR"}[vGeoKey(ip)%8], nil
}
func (vGeoIP) ASN(ip net.IP) (uint, error) {
	if ip.To4() == nil {
		return uint(65100 + vGeoKey(ip)%37), nil // networks seen over IPv6 only
	}
	return uint(64500 + vGeoKey(ip)%37), nil
}

var vRedisOnce sync.Once
var vRedis *kit.FakeRedis

// vNewStationKeys builds a station that holds nKeys private keys (a key directory during rotation); clients obfuscate for
// the key with index use.
func vNewStationKeys(t testing.TB, name string, nKeys, use int) *vStation {
	vStationKeys, vStationKeyUse = nKeys, use
	defer func() { vStationKeys, vStationKeyUse = 1, 0 }()
	return vNewStation(t, name)
}

var vStationKeys, vStationKeyUse = 1, 0

func vNewStation(t testing.TB, name string) *vStation {
	os.Setenv("PHANTOM_SUBNET_LOCATION", conjurepath.Root+"/pkg/station/lib/test/phantom_subnets.toml")
	vRedisOnce.Do(func() {
		r, err := kit.NewFakeRedis("127.0.0.1:0")
		if err != nil {
			t.Fatal(err)
		}
		vRedis = r
		cj.VerifUseRedis(r.Addr())
	})
	s := &vStation{redis: vRedis}
	s.rm = cj.NewRegistrationManager(&cj.RegConfig{EnableIPv4: true, EnableIPv6: true})
	if s.rm == nil {
		t.Fatal("NewRegistrationManager returned nil")
	}
	s.rm.LivenessTester = vLivenessTester{}
	s.rm.GeoIP = vGeoIP{}
	rng := kit.Rand("station-key/" + name)
	rng.Read(s.priv[:])
	s.priv[0] &= 248
	s.priv[31] &= 127
	s.priv[31] |= 64
	pub, err := curve25519.X25519(s.priv[:], curve25519.Basepoint)
	if err != nil {
		t.Fatal(err)
	}
	copy(s.pub[:], pub)
	privs := [][32]byte{s.priv}
	for i := 1; i < vStationKeys; i++ {
		var k [32]byte
		rng.Read(k[:])
		k[0] &= 248
		k[31] &= 127
		k[31] |= 64
		privs = append(privs, k)
	}
	if vStationKeyUse > 0 && vStationKeyUse < len(privs) {
		// the clients' key is not the first one of the station's list
		privs[0], privs[vStationKeyUse] = privs[vStationKeyUse], privs[0]
	}
	s.prefT, err = prefix.Default(privs)
	if err != nil {
		t.Fatal(err)
	}
	for tt, tr := range map[pb.TransportType]cj.Transport{
		pb.TransportType_Min:    min.Transport{},
		pb.TransportType_Obfs4:  obfs4.Transport{},
		pb.TransportType_Prefix: s.prefT,
	} {
		if err := s.rm.AddTransport(tt, tr); err != nil {
			t.Fatal(err)
		}
	}
	s.cm = newConnManager(nil)
	return s
}

// vRegSpec describes one client registration.
type vRegSpec struct {
	Secret  []byte
	TT      pb.TransportType
	Params  proto.Message // *pb.GenericTransportParams / *pb.PrefixTransportParams / nil
	LibVer  uint32
	Phantom net.IP // IPv4 phantom pinned through the registrar-override path
	Covert  string
	Client  net.IP // registrant address (4 bytes)
	Gen     uint32
	// ask the station to send a PROXY-protocol header to the covert
	ProxyHeader bool
}

func (sp vRegSpec) String() string {
	return fmt.Sprintf("{%s secret=%s params=%v lib=%d phantom=%s}", sp.TT, kit.HexN(sp.Secret, 4), sp.Params, sp.LibVer, sp.Phantom)
}

// vBuild turns the spec into a DecoyRegistration through the station's real message parser.
func (s *vStation) vBuild(sp vRegSpec) (*cj.DecoyRegistration, error) {
	gen := sp.Gen
	if gen == 0 {
		gen = 957
	}
	c2s := &pb.ClientToStation{
		ClientLibVersion:    proto.Uint32(sp.LibVer),
		Transport:           sp.TT.Enum(),
		CovertAddress:       proto.String(sp.Covert),
		DecoyListGeneration: proto.Uint32(gen),
		V4Support:           proto.Bool(true),
		V6Support:           proto.Bool(false),
	}
	if sp.ProxyHeader {
		c2s.Flags = &pb.RegistrationFlags{ProxyHeader: proto.Bool(true)}
	}
	if sp.Params != nil {
		a, err := anypb.New(sp.Params)
		if err != nil {
			return nil, err
		}
		c2s.TransportParams = a
	}
	src := pb.RegistrationSource_API
	client := sp.Client
	if client == nil {
		client = net.IPv4(203, 0, 113, 77).To4()
	}
	w := &pb.C2SWrapper{
		SharedSecret:        sp.Secret,
		RegistrationPayload: c2s,
		RegistrationSource:  &src,
		RegistrationAddress: []byte(client),
	}
	if sp.Phantom != nil && sp.Phantom.To4() != nil {
		w.RegistrationResponse = &pb.RegistrationResponse{Ipv4Addr: proto.Uint32(binary.BigEndian.Uint32(sp.Phantom.To4())), DstPort: proto.Uint32(443)}
	} else if sp.Phantom != nil {
		// an IPv6 phantom: the registration built for the client's IPv6 support, from an IPv6 registrant
		c2s.V4Support, c2s.V6Support = proto.Bool(false), proto.Bool(true)
		if sp.Client == nil {
			w.RegistrationAddress = []byte(net.ParseIP("2001:db8::77:88"))
		}
		w.RegistrationResponse = &pb.RegistrationResponse{Ipv6Addr: []byte(sp.Phantom.To16()), DstPort: proto.Uint32(443)}
	}
	b, err := proto.Marshal(w)
	if err != nil {
		return nil, err
	}
	regs, err := s.rm.VerifParseRegMessage(b)
	if err != nil {
		return nil, err
	}
	if len(regs) != 1 {
		return nil, fmt.Errorf("expected 1 registration, got %d", len(regs))
	}
	return regs[0], nil
}

// vAdmit runs the real ingest on a freshly built registration (liveness stub says "not live").
func (s *vStation) vAdmit(sp vRegSpec) (*cj.DecoyRegistration, error) {
	reg, err := s.vBuild(sp)
	if err != nil {
		return nil, err
	}
	s.rm.VerifIngest(reg)
	return reg, nil
}

// vTrackOnly leaves the registration tracked but not validated (the state between the first and
// the last critical section of ingest).
func (s *vStation) vTrackOnly(sp vRegSpec) (*cj.DecoyRegistration, error) {
	reg, err := s.vBuild(sp)
	if err != nil {
		return nil, err
	}
	return reg, s.rm.TrackRegistration(reg)
}

// ---- client side: real client transports produce the first flight -----------------------------------

type vRecConn struct {
	net.Conn
	mu     sync.Mutex
	buf    bytes.Buffer
	closed chan struct{}
	once   sync.Once
	writes []int
}

func newVRecConn() *vRecConn { return &vRecConn{closed: make(chan struct{})} }
func (c *vRecConn) Write(p []byte) (int, error) {
	c.mu.Lock()
	c.buf.Write(p)
	c.writes = append(c.writes, len(p))
	c.mu.Unlock()
	return len(p), nil
}
func (c *vRecConn) Read(p []byte) (int, error)       { <-c.closed; return 0, net.ErrClosed }
func (c *vRecConn) Close() error                     { c.once.Do(func() { close(c.closed) }); return nil }
func (c *vRecConn) LocalAddr() net.Addr              { return kit.TCPAddr("203.0.113.77", 50123) }
func (c *vRecConn) RemoteAddr() net.Addr             { return kit.TCPAddr("192.0.2.10", 443) }
func (c *vRecConn) SetDeadline(time.Time) error      { return nil }
func (c *vRecConn) SetReadDeadline(time.Time) error  { return nil }
func (c *vRecConn) SetWriteDeadline(time.Time) error { return nil }
func (c *vRecConn) Bytes() []byte {
	c.mu.Lock()
	defer c.mu.Unlock()
	return append([]byte(nil), c.buf.Bytes()...)
}

// vClient builds the real client transport for a spec, keyed as the client library keys it.
func (s *vStation) vClient(sp vRegSpec) (wrap func(net.Conn) (net.Conn, error), err error) {
	keys, err := core.GenSharedKeys(uint(sp.LibVer), sp.Secret, sp.TT)
	if err != nil {
		return nil, err
	}
	switch sp.TT {
	case pb.TransportType_Min:
		ct := &min.ClientTransport{}
		if err = ct.SetParams(vGeneric(sp.Params)); err != nil {
			return nil, err
		}
		if err = ct.Prepare(context.Background(), nil); err != nil {
			return nil, err
		}
		if err = ct.PrepareKeys(s.pub, sp.Secret, keys.TransportReader); err != nil {
			return nil, err
		}
		return ct.WrapConn, nil
	case pb.TransportType_Obfs4:
		ct := &obfs4.ClientTransport{}
		if err = ct.SetParams(vGeneric(sp.Params)); err != nil {
			return nil, err
		}
		if err = ct.Prepare(context.Background(), nil); err != nil {
			return nil, err
		}
		if err = ct.PrepareKeys(s.pub, sp.Secret, keys.TransportReader); err != nil {
			return nil, err
		}
		return ct.WrapConn, nil
	case pb.TransportType_Prefix:
		ct := &prefix.ClientTransport{}
		var p any
		if sp.Params != nil {
			p = sp.Params
		}
		if err = ct.SetParams(p); err != nil {
			return nil, err
		}
		if err = ct.Prepare(context.Background(), nil); err != nil {
			return nil, err
		}
		if err = ct.PrepareKeys(s.pub, sp.Secret, keys.TransportReader); err != nil {
			return nil, err
		}
		return ct.WrapConn, nil
	}
	return nil, fmt.Errorf("no client transport for %v", sp.TT)
}

func vGeneric(m proto.Message) any {
	if m == nil {
		return nil
	}
	return m
}

// vFlight returns the bytes of the client's first flight (everything the real client transport
// writes before it needs an answer from the station).
func (s *vStation) vFlight(sp vRegSpec) ([]byte, error) {
	wrap, err := s.vClient(sp)
	if err != nil {
		return nil, err
	}
	rc := newVRecConn()
	done := make(chan error, 1)
	go func() { _, err := wrap(rc); done <- err }()
	if sp.TT == pb.TransportType_Obfs4 {
		// the obfs4 client writes its handshake in one Write and then waits for the server
		deadline := time.Now().Add(30 * time.Second)
		for len(rc.Bytes()) == 0 && time.Now().Before(deadline) {
			time.Sleep(200 * time.Microsecond)
		}
		time.Sleep(2 * time.Millisecond)
		rc.Close()
		<-done
	} else {
		if err := <-done; err != nil {
			return nil, err
		}
		rc.Close()
	}
	b := rc.Bytes()
	if len(b) == 0 {
		return nil, fmt.Errorf("client transport wrote nothing")
	}
	return b, nil
}

// vHandle runs the real connection handler on conn and returns when it returns.
func (s *vStation) vHandle(conn net.Conn, phantom net.IP) (elapsed time.Duration) {
	t0 := time.Now()
	s.cm.handleNewTCPConn(s.rm, conn, phantom)
	return time.Since(t0)
}

func vPrefixParams(id prefix.PrefixID, randomize bool, flush int32) *pb.PrefixTransportParams {
	return &pb.PrefixTransportParams{PrefixId: proto.Int32(int32(id)), RandomizeDstPort: proto.Bool(randomize), CustomFlushPolicy: proto.Int32(flush)}
}

var vAllPrefixIDs = []prefix.PrefixID{prefix.Min, prefix.GetLong, prefix.PostLong, prefix.HTTPResp, prefix.TLSClientHello,
	prefix.TLSServerHello, prefix.TLSAlertWarning, prefix.TLSAlertFatal, prefix.DNSOverTCP, prefix.OpenSSH2}

func vSecret(rng interface{ Read([]byte) (int, error) }) []byte {
	b := make([]byte, 32)
	rng.Read(b)
	return b
}

// ---- small helpers shared by the drivers ----

func boolp(b bool) *bool { return &b }

func flipBit(b []byte, bit int) []byte {
	out := append([]byte(nil), b...)
	out[bit/8] ^= 0x80 >> uint(bit%8)
	return out
}

func c03Segments(data []byte, cuts []int) []kit.Seg {
	var segs []kit.Seg
	prev := 0
	for _, c := range cuts {
		if c <= prev || c >= len(data) {
			continue
		}
		segs = append(segs, kit.Seg{Data: data[prev:c]})
		prev = c
	}
	if prev < len(data) {
		segs = append(segs, kit.Seg{Data: data[prev:]})
	}
	return segs
}

func sortInts(a []int) {
	for i := 1; i < len(a); i++ {
		for j := i; j > 0 && a[j] < a[j-1]; j-- {
			a[j], a[j-1] = a[j-1], a[j]
		}
	}
}

func opsTail(c *kit.ScriptConn) []string {
	ops := c.Ops()
	var out []string
	for _, o := range ops {
		out = append(out, o.String())
	}
	if len(out) > 10 {
		out = append(append([]string{}, out[:3]...), append([]string{"…"}, out[len(out)-6:]...)...)
	}
	return out
}

func firstDiff(a, b []byte) int {
	n := len(a)
	if len(b) < n {
		n = len(b)
	}
	for i := 0; i < n; i++ {
		if a[i] != b[i] {
			return i
		}
	}
	return n
}

type c03Reg struct {
	spec   vRegSpec
	flight []byte
}

// tagRegion returns [from,to) bit positions of the flight whose flipping makes the tag invalid.
func c03TagBits(r c03Reg) (from, to int, skip map[int]bool) {
	skip = map[int]bool{}
	switch r.spec.TT {
	case pb.TransportType_Min:
		return 0, 32 * 8, skip
	case pb.TransportType_Obfs4:
		// representative (32 bytes); flipping padding or MAC leaves the mark valid, which is outside C03's domain
		return 0, 32 * 8, skip
	case pb.TransportType_Prefix:
		off := len(r.flight) - 64
		// the two high bits of representative byte 31 are random padding masked by the station
		skip[(off+31)*8+0] = true // bit index counted from the most significant bit of the byte
		skip[(off+31)*8+1] = true
		return off * 8, (off + 64) * 8, skip
	}
	return 0, 0, skip
}

func vWaitFor(bound time.Duration, cond func() bool) bool {
	deadline := time.Now().Add(bound)
	sleep := 20 * time.Microsecond
	for !cond() {
		if time.Now().After(deadline) {
			return false
		}
		time.Sleep(sleep)
		if sleep < 5*time.Millisecond {
			sleep *= 2
		}
	}
	return true
}

// ---- pausing a real ingest between its critical sections (verifhook.Yield) ----------------------------

type vPauseInfo struct{ parked, gate chan struct{} }

var vPauses sync.Map // goroutine id -> vPauseInfo
var vPauseOnce sync.Once

// vAdmitPaused runs the real ingest of the registration in its own goroutine, parks it at the yield
// point after the registration has been tracked (and before it is validated), runs during(), and lets
// the ingest finish.  This is the state a too-early connection attempt meets.
func (s *vStation) vAdmitPaused(sp vRegSpec, during func()) (*cj.DecoyRegistration, error) {
	vPauseOnce.Do(func() {
		verifhook.Set(func(point string) {
			if point != "ingest:after-track" {
				return
			}
			if v, ok := vPauses.Load(kit.GoID()); ok {
				pi := v.(vPauseInfo)
				close(pi.parked)
				<-pi.gate
			}
		})
	})
	reg, err := s.vBuild(sp)
	if err != nil {
		return nil, err
	}
	pi := vPauseInfo{make(chan struct{}), make(chan struct{})}
	done := make(chan struct{})
	go func() {
		id := kit.GoID()
		vPauses.Store(id, pi)
		defer vPauses.Delete(id)
		defer close(done)
		s.rm.VerifIngest(reg)
	}()
	select {
	case <-pi.parked:
		during()
		close(pi.gate)
	case <-done:
	}
	<-done
	return reg, nil
}
