//go:build verif

package main

// C04, stage "concurrent": the station serves every incoming connection on its own goroutine, and a phantom address
// is shared by several registrations and by any number of connections at the same moment (clients open several
// connections; probes and half-finished flights hit the same address).  The statement quantifies over "other
// registrations present on the same phantom" and over any pacing of the first flight; the other C04 stages run many
// sessions in parallel but give each one a phantom of its own, so two classifications never look at the same
// registrations at the same time.  Here every round puts several obfs4, one min and one prefix registration on ONE
// phantom and lets all of their clients (several connections per registration, flights whole / in three segments /
// trickled in hundreds of small segments) arrive together with a few probes and abandoned flights, through the real
// handler.  Every genuine flight must be matched to its own registration:
//   - obfs4: the station answers the client's handshake on that connection, and the registration's covert is
//     dialled once per flight;
//   - min / prefix: a connection to the registration's covert carries exactly this connection's application bytes;
//   - every matched registration is marked used.
// Verdicts do not depend on time: every scripted client ends with EOF after its last segment, so each handler
// returns on its own, and the coverts are settled with a sentinel connection before they are read.

import (
	"bytes"
	"encoding/binary"
	"fmt"
	"net"
	"runtime/debug"
	"strings"
	"sync"
	"testing"
	"time"

	kit "github.com/refraction-networking/conjure/internal/verifkit"
	cj "github.com/refraction-networking/conjure/pkg/station/lib"
	"github.com/refraction-networking/conjure/pkg/transports/wrapping/prefix"
	pb "github.com/refraction-networking/conjure/proto"
)

// c04cCovert accepts any number of connections and keeps what each one received.
type c04cCovert struct {
	ln       net.Listener
	mu       sync.Mutex
	finished [][]byte // station connections that have ended, with the bytes they carried
	open     int
	sentinel int
}

func c04cNewCovert() (*c04cCovert, error) {
	ln, err := net.Listen("tcp", "127.0.0.1:0")
	if err != nil {
		return nil, err
	}
	c := &c04cCovert{ln: ln}
	go func() {
		for {
			conn, err := ln.Accept()
			if err != nil {
				return
			}
			c.mu.Lock()
			c.open++
			c.mu.Unlock()
			go func() {
				defer conn.Close()
				conn.SetDeadline(time.Now().Add(90 * time.Second))
				var got []byte
				buf := make([]byte, 8192)
				for {
					n, err := conn.Read(buf)
					got = append(got, buf[:n]...)
					if err != nil {
						break
					}
				}
				c.mu.Lock()
				c.open--
				if len(got) == 1 && got[0] == 0xFF {
					c.sentinel++
				} else {
					c.finished = append(c.finished, got)
				}
				c.mu.Unlock()
			}()
		}
	}()
	return c, nil
}

// settle: connections are accepted in order, so once the driver's own sentinel connection has been served, every
// connection the station completed before is known; it then waits for their readers to see the station's close.
func (c *c04cCovert) settle() ([][]byte, bool) {
	c.mu.Lock()
	before := c.sentinel
	c.mu.Unlock()
	s, err := net.DialTimeout("tcp", c.ln.Addr().String(), 20*time.Second)
	if err != nil {
		return nil, false
	}
	s.Write([]byte{0xFF})
	s.Close()
	ok := vWaitFor(60*time.Second, func() bool {
		c.mu.Lock()
		defer c.mu.Unlock()
		return c.sentinel > before && c.open == 0
	})
	c.mu.Lock()
	defer c.mu.Unlock()
	return append([][]byte(nil), c.finished...), ok
}

type c04cReg struct {
	sp    vRegSpec
	reg   *cj.DecoyRegistration
	cov   *c04cCovert
	class string
	sent  int // genuine complete flights presented for this registration
}

type c04cConn struct {
	kind    string // obfs4 | min | prefix: a genuine complete flight; probe | abandoned: other parties on the phantom
	reg     int    // index of the registration (genuine and abandoned)
	style   string
	flight  int
	early   []byte
	segs    []kit.Seg
	conn    *kit.ScriptConn
	pan     string
	retd    bool
	genuine bool
}

func (c *c04cConn) label(round int) string {
	return fmt.Sprintf("round=%d %s reg#%d flight=%dB %s segments=%d early=%d", round, c.kind, c.reg, c.flight, c.style, len(c.segs), len(c.early))
}

// c04cTrickle cuts data so that everything up to the last `tail` bytes comes in one segment and the tail in pieces of
// 1..maxPiece bytes.
func c04cTrickle(rng interface{ Intn(int) int }, n, tail, maxPiece int) []int {
	if tail > n-1 {
		tail = n - 1
	}
	var cuts []int
	for p := n - tail; p < n; p += 1 + rng.Intn(maxPiece) {
		if p > 0 {
			cuts = append(cuts, p)
		}
	}
	return cuts
}

func TestVerifC04Concurrent(t *testing.T) {
	rec := kit.NewRec("C04", "concurrent")
	defer rec.Close()
	s := vNewStation(t, "c04c")
	rng := kit.Rand("c04-concurrent")
	gen := &pb.GenericTransportParams{RandomizeDstPort: boolp(false)}
	rounds := kit.Tier(14, 150)
	port := 44000
	for round := 0; round < rounds && rec.Violations() <= 40; round++ {
		phantom := net.IPv4(198, 21, byte(round>>8), byte(round)).To4()
		// the registrations on this phantom: 3-4 obfs4, one min, one prefix
		var regs []*c04cReg
		nObfs4 := 3 + round%2
		pid := vAllPrefixIDs[round%len(vAllPrefixIDs)]
		setup := true
		for i := 0; i < nObfs4+2; i++ {
			cov, err := c04cNewCovert()
			if err != nil {
				t.Fatalf("infrastructure: listen: %v", err)
			}
			defer cov.ln.Close()
			r := &c04cReg{cov: cov}
			switch {
			case i < nObfs4:
				r.sp = vRegSpec{Secret: vSecret(rng), TT: pb.TransportType_Obfs4, Params: gen, LibVer: 4, Phantom: phantom, Covert: cov.ln.Addr().String()}
			case i == nObfs4:
				r.sp = vRegSpec{Secret: vSecret(rng), TT: pb.TransportType_Min, Params: gen, LibVer: 4, Phantom: phantom, Covert: cov.ln.Addr().String()}
			default:
				r.sp = vRegSpec{Secret: vSecret(rng), TT: pb.TransportType_Prefix, Params: vPrefixParams(pid, false, prefix.DefaultFlush), LibVer: 4, Phantom: phantom, Covert: cov.ln.Addr().String()}
			}
			r.class = fmt.Sprintf("%s", r.sp.TT)
			reg, err := s.vAdmit(r.sp)
			if err != nil {
				rec.Violation("genuine-registration-refused", "a well-formed registration was refused by the station", map[string]interface{}{"round": round, "spec": r.sp.String(), "err": err.Error()})
				setup = false
				break
			}
			r.reg = reg
			regs = append(regs, r)
		}
		if !setup {
			continue
		}

		// the connections of this round (all random choices are made here, before anything runs concurrently)
		var conns []*c04cConn
		for i, r := range regs {
			n := 2
			if r.sp.TT == pb.TransportType_Obfs4 {
				n = 3
			}
			for k := 0; k < n; k++ {
				conns = append(conns, &c04cConn{kind: strings.ToLower(r.class), reg: i, genuine: true, style: []string{"trickled", "whole", "3-segments"}[(k+round)%3]})
			}
		}
		// other parties: a client of one of the obfs4 registrations that gives up in the middle of a trickled flight,
		// and probes sending random bytes
		conns = append(conns, &c04cConn{kind: "abandoned", reg: round % nObfs4, style: "trickled"})
		conns = append(conns, &c04cConn{kind: "abandoned", reg: (round + 1) % nObfs4, style: "trickled"})
		for k := 0; k < 3; k++ {
			conns = append(conns, &c04cConn{kind: "probe", reg: -1, style: "trickled"})
		}
		// flights from the real client transports (generated in parallel: an obfs4 handshake costs milliseconds)
		flights := make([][]byte, len(conns))
		ferr := make([]error, len(conns))
		var fwg sync.WaitGroup
		for i, c := range conns {
			if c.reg < 0 {
				continue
			}
			fwg.Add(1)
			go func(i int, sp vRegSpec) {
				defer fwg.Done()
				flights[i], ferr[i] = s.vFlight(sp)
			}(i, regs[c.reg].sp)
		}
		fwg.Wait()
		for i, c := range conns {
			var stream []byte
			switch c.kind {
			case "probe":
				stream = make([]byte, 200+rng.Intn(1500))
				rng.Read(stream)
				c.flight = len(stream)
			default:
				if ferr[i] != nil {
					rec.Inconclusive("client transport failed", ferr[i].Error())
					setup = false
					continue
				}
				c.flight = len(flights[i])
				stream = append([]byte{}, flights[i]...)
			}
			if c.genuine && c.kind != "obfs4" {
				// application bytes that name this connection (an obfs4 client says nothing before the station answered)
				c.early = make([]byte, 8, 8+512)
				binary.BigEndian.PutUint64(c.early, 0xC4<<56|uint64(round)<<16|uint64(i))
				c.early = append(c.early, c04IDs(byte(0xA0+i%16), 64+8*rng.Intn(56))...)
				stream = append(stream, c.early...)
			}
			var cuts []int
			switch c.style {
			case "trickled":
				cuts = c04cTrickle(rng, len(stream), 150+rng.Intn(500), 3)
			case "3-segments":
				cuts = []int{1 + rng.Intn(len(stream)-1), 1 + rng.Intn(len(stream)-1)}
				sortInts(cuts)
			}
			if c.kind == "abandoned" {
				// the client goes away before its last segments
				stream = stream[:len(stream)-1-rng.Intn(40)]
			}
			c.segs = c03Segments(stream, cuts)
			port++
			c.conn = kit.NewScriptConn("client", kit.TCPAddr(phantom.String(), 443), kit.TCPAddr("203.0.113.77", port), c.segs, kit.EndEOF)
			c.conn.MaxBlock = 120 * time.Second
			if c.genuine {
				regs[c.reg].sent++
			}
		}
		if !setup {
			continue
		}
		rec.Case(map[string]interface{}{"round": round, "phantom": phantom.String(), "obfs4_registrations": nObfs4, "prefix": pid.Name(), "connections": len(conns)})

		// all of them arrive at the same moment
		start := make(chan struct{})
		var wg sync.WaitGroup
		for _, c := range conns {
			wg.Add(1)
			go func(c *c04cConn) {
				defer wg.Done()
				defer func() {
					if r := recover(); r != nil {
						c.pan = fmt.Sprintf("%v\n%s", r, debug.Stack())
					}
				}()
				<-start
				s.vHandle(c.conn, phantom)
				c.retd = true
			}(c)
		}
		close(start)
		allDone := make(chan struct{})
		go func() { wg.Wait(); close(allDone) }()
		select {
		case <-allDone:
		case <-time.After(150 * time.Second):
			for _, c := range conns {
				c.conn.Close()
			}
			<-allDone
			rec.Inconclusive("handlers did not return within 150 s of their clients' EOF", map[string]interface{}{"round": round})
			continue
		}
		for _, c := range conns {
			if c.pan != "" {
				frame := "?"
				for _, l := range strings.Split(c.pan, "\n") {
					if strings.Contains(l, "refraction-networking/conjure/") && strings.Contains(l, "(") && !strings.Contains(l, "zz_verif") && !strings.Contains(l, "TestVerif") {
						frame = l[strings.LastIndex(l, "/")+1:]
						if p := strings.Index(frame, "("); p > 0 {
							frame = frame[:p]
						}
						break
					}
				}
				rec.Violation("concurrent:handler-panicked:"+frame, "the connection handler panicked while several connections to one phantom were being classified (in the station this ends the process and with it every client's session)",
					map[string]interface{}{"case": c.label(round), "panic": c.pan})
			}
		}
		// settle the coverts, then judge every genuine connection
		got := make([][][]byte, len(regs))
		settled := true
		for i, r := range regs {
			var ok bool
			if got[i], ok = r.cov.settle(); !ok {
				settled = false
			}
		}
		if !settled {
			rec.Inconclusive("a covert recorder did not settle", map[string]interface{}{"round": round})
			continue
		}
		answered := make([]int, len(regs))
		for _, c := range conns {
			if !c.genuine || c.pan != "" {
				continue
			}
			r := regs[c.reg]
			label := c.label(round)
			detail := map[string]interface{}{"case": label, "registrations_on_phantom": len(regs), "connections_at_once": len(conns), "station_wrote": len(c.conn.Written()), "covert_connections": len(got[c.reg]), "flights_for_this_registration": r.sent, "ops_tail": opsTail(c.conn)}
			rec.Count("evaluations", 1)
			rec.Distinct("nontrivial", label)
			rec.Distinct("shapes", c.kind, c.style, len(regs))
			switch c.kind {
			case "obfs4":
				// the station's half of the handshake is the only thing it ever writes to a client that has not been
				// matched to an obfs4 registration
				if len(c.conn.Written()) == 0 {
					rec.Violation("concurrent:not-recognised:Obfs4", "a complete genuine obfs4 first flight was not matched to its registration while other connections to the same phantom were being classified (the station never answered the handshake)", detail)
				} else {
					answered[c.reg]++
				}
			default:
				var mine []byte
				found := false
				for _, g := range got[c.reg] {
					if len(g) >= 8 && bytes.Equal(g[:8], c.early[:8]) {
						mine, found = g, true
					}
				}
				switch {
				case !found:
					rec.Violation("concurrent:not-recognised:"+r.class, "a complete genuine first flight was not matched to its registration while other connections to the same phantom were being classified (no covert connection carries its application bytes)", detail)
				case !bytes.Equal(mine, c.early):
					detail["expected"], detail["got"], detail["first_diff"] = len(c.early), len(mine), firstDiff(c.early, mine)
					rec.Violation("concurrent:covert-data-mismatch:"+r.class, "bytes at the covert differ from the client's application bytes", detail)
				default:
					answered[c.reg]++
				}
			}
			if rec.WantSample() && c.style == "trickled" {
				rec.Sample(detail)
			}
		}
		for i, r := range regs {
			if r.sp.TT == pb.TransportType_Obfs4 && len(got[i]) < answered[i] {
				rec.Violation("concurrent:covert-not-dialled:Obfs4", "the station answered more obfs4 handshakes of this registration than it opened connections to its covert",
					map[string]interface{}{"round": round, "answered": answered[i], "covert_connections": len(got[i])})
			}
			if answered[i] > 0 {
				if used, tracked := s.rm.VerifUsed(r.reg); !tracked || !used {
					rec.Violation("concurrent:not-marked-used:"+r.class, "the registration was matched but not marked as used", map[string]interface{}{"round": round, "tracked": tracked, "used": used})
				}
			}
			r.cov.ln.Close()
		}
		rec.Count("rounds", 1)
		rec.Count("connections", len(conns))
	}
}
