//go:build verif

package main

// C08 at handler level – "an expired registration stops matching connections" must also hold for a connection
// that was accepted BEFORE the registration expired and is still in its identification phase when the sweep
// forgets the registration.
//
// The real handleNewTCPConn is driven with a scripted client connection that is fed in two steps: the first
// part of the client's genuine first flight (cut before / inside / one byte before the end of its tag, or
// nothing at all), then – while the handler waits for more – the registration is aged through the lib export
// shim and the real RemoveOldRegistrations runs, then the rest of the flight plus application bytes and EOF.
// Oracle: the covert address of every registration is a loopback listener that counts accepted connections.

import (
	"fmt"
	"net"
	"strings"
	"sync/atomic"
	"testing"
	"time"

	kit "github.com/refraction-networking/conjure/internal/verifkit"
	"github.com/refraction-networking/conjure/pkg/transports/wrapping/prefix"
	pb "github.com/refraction-networking/conjure/proto"
)

type c08Covert struct {
	ln      net.Listener
	accepts atomic.Int64 // connections accepted that were not the driver's own sentinel
	seen    atomic.Int64 // all accepted connections
}

func c08NewCovert(t testing.TB) *c08Covert {
	ln, err := net.Listen("tcp", "127.0.0.1:0")
	if err != nil {
		t.Fatalf("infrastructure: listen: %v", err)
	}
	c := &c08Covert{ln: ln}
	go func() {
		for {
			conn, err := ln.Accept()
			if err != nil {
				return
			}
			// the driver's sentinel announces itself with one byte; the station never writes before it reads
			// from the client, and the scripted client's application bytes never start with 0xFF
			conn.SetReadDeadline(time.Now().Add(200 * time.Millisecond))
			var b [1]byte
			n, _ := conn.Read(b[:])
			if !(n == 1 && b[0] == 0xFF) {
				c.accepts.Add(1)
			}
			c.seen.Add(1)
			conn.Close()
		}
	}()
	return c
}

// settle returns the number of station connections accepted so far.  Accepts are served in order, so once the
// driver's own sentinel connection has been seen, every connection the station completed earlier was counted.
func (c *c08Covert) settle() (int64, bool) {
	before := c.seen.Load()
	s, err := net.DialTimeout("tcp", c.ln.Addr().String(), 20*time.Second)
	if err != nil {
		return c.accepts.Load(), false
	}
	s.Write([]byte{0xFF})
	ok := vWaitFor(30*time.Second, func() bool { return c.seen.Load() > before })
	s.Close()
	return c.accepts.Load(), ok
}

type c08Transport struct {
	Name string
	TT   pb.TransportType
	ID   prefix.PrefixID
}

func (tr c08Transport) spec(secret []byte, phantom net.IP, covert string) vRegSpec {
	sp := vRegSpec{Secret: secret, TT: tr.TT, LibVer: 4, Phantom: phantom, Covert: covert}
	if tr.TT == pb.TransportType_Prefix {
		sp.Params = vPrefixParams(tr.ID, false, prefix.DefaultFlush)
	} else {
		sp.Params = &pb.GenericTransportParams{RandomizeDstPort: boolp(false)}
	}
	return sp
}

// tagSpan returns [from, to) of the bytes of the first flight that identify the registration.
func (tr c08Transport) tagSpan(flight []byte) (int, int) {
	switch tr.TT {
	case pb.TransportType_Min:
		return 0, 32
	case pb.TransportType_Prefix:
		return len(flight) - 64, len(flight)
	default: // obfs4: representative | padding | mark | MAC – the mark and the MAC end the handshake
		return len(flight) - 32, len(flight)
	}
}

type c08Case struct {
	N     int
	Tr    c08Transport
	Cut   string // accept (nothing sent yet) | before-tag | inside-tag | last-byte
	State string // unused | used
	Gap   string // none | below+sweep | beyond+sweep | beyond-nosweep
	Nb    c08Transport
}

func (c c08Case) String() string {
	return fmt.Sprintf("#%d %s cut=%s state=%s gap=%s neighbour=%s", c.N, c.Tr.Name, c.Cut, c.State, c.Gap, c.Nb.Name)
}

// c08WaitParked waits until the handler goroutine sits in the scripted conn's Read with nothing to read.
func c08WaitParked(bound time.Duration) bool {
	return vWaitFor(bound, func() bool {
		for _, g := range kit.InFunc(kit.Stacks(), "handleNewTCPConn") {
			if g.State != "sync.Cond.Wait" {
				continue
			}
			for _, f := range g.Frames {
				if strings.Contains(f, "(*ScriptConn).read") {
					return true
				}
			}
		}
		return false
	})
}

type c08ConnResult struct {
	returned   bool
	elapsed    time.Duration
	realTimout bool
	ops        []string
	gapRan     bool // c02ConnectReplyGap: the rendezvous inside the station's first Write was reached
}

// c08Connect presents flight+app to the real handler, first[:cut] before between() and the rest after it.
func c08Connect(s *vStation, phantom net.IP, port int, stream []byte, cut int, between func()) c08ConnResult {
	conn := kit.NewScriptConn("client", kit.TCPAddr(phantom.String(), 443), kit.TCPAddr("203.0.113.77", port), nil, kit.EndBlock)
	conn.MaxBlock = 120 * time.Second
	done := make(chan struct{})
	t0 := time.Now()
	go func() { s.vHandle(conn, phantom); close(done) }()
	if between != nil {
		if cut > 0 {
			conn.Feed(kit.Seg{Data: stream[:cut]})
			conn.WaitConsumed(30 * time.Second)
		}
		// the handler has looked at what it has and waits for more (or for the first byte)
		c08WaitParked(20 * time.Second)
		between()
	} else {
		cut = 0
	}
	conn.Feed(kit.Seg{Data: stream[cut:]})
	conn.SetAtEnd(kit.EndEOF) // the client has said all it had to say
	res := c08ConnResult{}
	select {
	case <-done:
		res.returned = true
	case <-time.After(90 * time.Second):
		conn.Close()
		select {
		case <-done:
		case <-time.After(30 * time.Second):
		}
	}
	res.elapsed = time.Since(t0)
	st := conn.State()
	res.realTimout = st.TerminalReadErr != nil && kit.IsTimeout(st.TerminalReadErr) && !st.VirtualFired
	res.ops = opsTail(conn)
	return res
}

func TestVerifC08Handler(t *testing.T) {
	rec := kit.NewRec("C08", "handler")
	defer rec.Close()
	rng := kit.Rand("c08-handler")

	trs := []c08Transport{{"min", pb.TransportType_Min, 0}, {"obfs4", pb.TransportType_Obfs4, 0}}
	ids := []prefix.PrefixID{prefix.Min, prefix.GetLong, prefix.TLSClientHello}
	if kit.Thorough() {
		ids = vAllPrefixIDs
	}
	for _, id := range ids {
		trs = append(trs, c08Transport{"prefix/" + id.Name(), pb.TransportType_Prefix, id})
	}
	reps := kit.Tier(1, 5)
	var cases []c08Case
	for r := 0; r < reps; r++ {
		for _, tr := range trs {
			for _, cut := range []string{"accept", "before-tag", "inside-tag", "last-byte"} {
				for _, state := range []string{"unused", "used"} {
					for _, gap := range []string{"none", "below+sweep", "beyond+sweep", "beyond-nosweep"} {
						cases = append(cases, c08Case{Tr: tr, Cut: cut, State: state, Gap: gap, Nb: trs[rng.Intn(len(trs))]})
					}
				}
			}
		}
	}
	rng.Shuffle(len(cases), func(i, j int) { cases[i], cases[j] = cases[j], cases[i] })

	judged := 0
	for n, cs := range cases {
		cs.N = n + 1
		rec.Case(cs.String())
		if c08HandlerCase(t, rec, rng, cs) {
			judged++
		}
	}
	if judged < len(cases)*9/10 {
		t.Fatalf("infrastructure: only %d of %d handler cases could be judged", judged, len(cases))
	}
}

func c08HandlerCase(t *testing.T, rec *kit.Rec, rng interface {
	Intn(int) int
	Read([]byte) (int, error)
}, cs c08Case) bool {
	s := vNewStation(t, fmt.Sprintf("c08h/%d", cs.N))
	phantom := net.IPv4(198, 18, byte(1+cs.N/250), byte(1+cs.N%250)).To4()
	cov, ncov := c08NewCovert(t), c08NewCovert(t)
	defer cov.ln.Close()
	defer ncov.ln.Close()
	label := cs.String()
	class := fmt.Sprintf("%s:%s", cs.Tr.TT, cs.State)
	detail := func(extra map[string]interface{}) map[string]interface{} {
		d := map[string]interface{}{"case": label}
		for k, v := range extra {
			d[k] = v
		}
		return d
	}
	incon := func(why string, extra map[string]interface{}) bool {
		rec.Inconclusive(why, detail(extra))
		rec.Count("not_judged", 1)
		return false
	}
	app := func(tt pb.TransportType, tag byte) []byte {
		if tt == pb.TransportType_Obfs4 {
			// an obfs4 client says nothing more until the station has answered its handshake (the station looks
			// for the mark and MAC at the tail of what it has received)
			return nil
		}
		b := make([]byte, 40+rng.Intn(200))
		rng.Read(b)
		b[0] = tag // never 0xFF (the sentinel)
		return b
	}

	// the registration under test
	sp := cs.Tr.spec(vSecret(rng), phantom, cov.ln.Addr().String())
	reg, err := s.vAdmit(sp)
	if err != nil {
		return incon("the registration was refused", map[string]interface{}{"err": err.Error()})
	}
	flight, err := s.vFlight(sp)
	if err != nil {
		return incon("client transport failed", map[string]interface{}{"err": err.Error()})
	}
	port := 41000
	full := func(spec vRegSpec, fl []byte, c *c08Covert, what string) (bool, bool) {
		port++
		before, _ := c.settle()
		r := c08Connect(s, phantom, port, append(append([]byte{}, fl...), app(spec.TT, 0x10)...), 0, nil)
		after, ok := c.settle()
		if !ok || !r.returned || r.realTimout {
			incon("a complete connection could not be judged ("+what+")", map[string]interface{}{"returned": r.returned, "real_timeout": r.realTimout, "ops": r.ops})
			return false, false
		}
		return after > before, true
	}
	if cs.State == "used" {
		// a first complete connection through the real handler puts it into the used state
		prox, ok := full(sp, flight, cov, "first use")
		if !ok {
			return false
		}
		if !prox {
			rec.Violation("handler:live-registration-not-proxied:"+class+":first-use", "a genuine connection for a fresh validated registration was not proxied", detail(nil))
			return true
		}
		if used, tracked := s.rm.VerifUsed(reg); !used || !tracked {
			rec.Violation("handler:not-marked-used:"+class, "a proxied connection did not mark its registration used", detail(map[string]interface{}{"used": used, "tracked": tracked}))
			return true
		}
		s.rm.VerifBackdate(350 * time.Minute) // 5 h 50 min old before the neighbour arrives
	}
	// the neighbour on the same phantom: registered later, used (so that it outlives every gap of this case)
	nsp := cs.Nb.spec(vSecret(rng), phantom, ncov.ln.Addr().String())
	nreg, err := s.vAdmit(nsp)
	if err != nil {
		return incon("the neighbour registration was refused", map[string]interface{}{"err": err.Error()})
	}
	nflight, err := s.vFlight(nsp)
	if err != nil {
		return incon("client transport failed (neighbour)", map[string]interface{}{"err": err.Error()})
	}
	if prox, ok := full(nsp, nflight, ncov, "neighbour first use"); !ok {
		return false
	} else if !prox {
		rec.Violation("handler:live-registration-not-proxied:"+fmt.Sprintf("%s", cs.Nb.TT)+":unused:neighbour-first-use", "a genuine connection for the neighbour registration was not proxied", detail(nil))
		return true
	}

	// where the client pauses
	from, to := cs.Tr.tagSpan(flight)
	cut := 0
	switch cs.Cut {
	case "accept":
		cut = 0
	case "before-tag":
		cut = from
		if cut == 0 {
			// the tag opens the flight (min): pausing before it is pausing after accept; count, do not repeat
			rec.Count("skipped:before-tag-equals-accept", 1)
			return true
		}
	case "inside-tag":
		cut = from + 1 + rng.Intn(to-from-2)
	case "last-byte":
		cut = to - 1
	}
	// what happens while the client pauses
	var age time.Duration
	sweep := false
	switch cs.Gap {
	case "below+sweep":
		age, sweep = 9*time.Minute, true // unused: 9 min
		if cs.State == "used" {
			age = 8 * time.Minute // 5 h 58 min
		}
	case "beyond+sweep", "beyond-nosweep":
		age, sweep = 11*time.Minute, cs.Gap == "beyond+sweep" // unused: 11 min
		if cs.State == "used" {
			age = 12 * time.Minute // 6 h 02 min
		}
	}
	var existsAfter, nExistsAfter bool
	var countAfter int
	between := func() {
		if age > 0 {
			s.rm.VerifBackdate(age)
		}
		if sweep {
			s.rm.RemoveOldRegistrations()
		}
		existsAfter, nExistsAfter = s.rm.RegistrationExists(reg), s.rm.RegistrationExists(nreg)
		countAfter = s.rm.CountRegistrations(phantom)
	}
	port++
	before, ok1 := cov.settle()
	nbefore, ok2 := ncov.settle()
	stream := append(append([]byte{}, flight...), app(sp.TT, 0x20)...)
	r := c08Connect(s, phantom, port, stream, cut, between)
	after, ok3 := cov.settle()
	nafter, ok4 := ncov.settle()
	if !(ok1 && ok2 && ok3 && ok4) {
		return incon("the covert listeners did not answer the driver's own probe", nil)
	}
	proxied := after > before
	d := detail(map[string]interface{}{"flight_len": len(flight), "tag": fmt.Sprintf("[%d,%d)", from, to), "cut": cut, "aged_by": age.String(), "swept": sweep,
		"manager_after_gap":  map[string]interface{}{"registration_exists": existsAfter, "neighbour_exists": nExistsAfter, "registrations_on_phantom": countAfter},
		"covert_connections": after - before, "neighbour_covert_connections": nafter - nbefore, "handler_returned": r.returned, "handler_elapsed": r.elapsed.String(), "ops_tail": r.ops})
	key := cs.Tr.Name + "/" + cs.Cut + "/" + cs.State + "/" + cs.Gap
	rec.Count("cases:"+cs.Tr.Name+"/"+cs.Cut+"/"+cs.Gap, 1)
	if nafter > nbefore {
		rec.Violation("handler:proxied-to-neighbour:"+class, "the connection was proxied to the covert address of another registration", d)
		return true
	}
	judged := true
	switch cs.Gap {
	case "none", "below+sweep":
		switch {
		case proxied:
			rec.Count("outcome:live-proxied", 1)
		case !r.returned || r.realTimout || r.elapsed > 4*time.Second:
			// the handler's own 5-10 s real-time deadline may have fired on a loaded machine
			judged = incon("a live registration's connection was not proxied, but real time may be the reason", d)
		default:
			rec.Violation("handler:live-registration-not-proxied:"+class+":"+cs.Gap, "the registration is within its lifetime but the connection that completed its tag was not proxied", d)
		}
		if !existsAfter {
			rec.Violation("handler:live-registration-forgotten:"+class+":"+cs.Gap, "the registration is within its lifetime but the manager no longer tracks it", d)
		}
	case "beyond+sweep":
		switch {
		case existsAfter:
			rec.Violation("handler:expired-still-tracked:"+class, "the registration is past its lifetime and a sweep ran, but the manager still tracks it", d)
		case proxied:
			rec.Violation("handler:swept-registration-still-matches:"+class,
				"the registration expired and was forgotten by a sweep while the connection was waiting for the rest of its tag; the connection still matched it and was proxied to the covert address", d)
		default:
			rec.Count("outcome:swept-not-proxied", 1)
		}
	case "beyond-nosweep":
		// the statement speaks of the state after a sweep: counted, not judged
		if proxied {
			rec.Count("outcome:expired-unswept-proxied", 1)
		} else {
			rec.Count("outcome:expired-unswept-not-proxied", 1)
		}
	}
	if !nExistsAfter {
		rec.Violation("handler:neighbour-lost:"+fmt.Sprintf("%s", cs.Nb.TT), "the neighbour registration (used, minutes old) disappeared", d)
	} else if judged {
		// the neighbour stays usable
		if prox, ok := full(nsp, nflight, ncov, "neighbour afterwards"); ok && !prox {
			rec.Violation("handler:neighbour-lost:"+fmt.Sprintf("%s", cs.Nb.TT), "the neighbour registration no longer matches its own connections", d)
		}
	}
	if judged {
		rec.Count("evaluations", 1)
		rec.Distinct("nontrivial", key)
		if cs.Gap == "beyond+sweep" && rec.WantSample() {
			rec.Sample(d)
		}
	}
	return judged
}
