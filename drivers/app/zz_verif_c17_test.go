//go:build verif

package main

// C17 – with client-address logging disabled (default) and at the default log level, nothing the
// station writes contains a client's network address.  The driver injects every error shape at
// every I/O call of classification and relay, for every classification outcome and for IPv4 / IPv6 /
// v4-mapped clients; the process output (all station loggers write to stdout/stderr) is captured by
// the orchestrator, which greps it for the distinctive client addresses (offline oracle).
// Before each case a marker line "VERIFCASE <n>" is printed so that a hit can be attributed.

import (
	"bytes"
	"errors"
	"fmt"
	"net"
	"os"
	"strconv"
	"strings"
	"sync"
	"sync/atomic"
	"syscall"
	"testing"
	"time"

	kit "github.com/refraction-networking/conjure/internal/verifkit"
	cj "github.com/refraction-networking/conjure/pkg/station/lib"
	"github.com/refraction-networking/conjure/pkg/transports/wrapping/prefix"
	pb "github.com/refraction-networking/conjure/proto"
)

var c17Clients = []struct {
	name string
	ip   string
}{
	{"v4", "203.0.113.77"},
	{"v6", "2001:db8::77:88"},
	{"v4mapped", "::ffff:203.0.113.77"},
}

type c17Shape struct {
	name string
	mk   func(op string, local, remote net.Addr) error
}

func c17Shapes() []c17Shape {
	errno := func(name string, e syscall.Errno) c17Shape {
		return c17Shape{name, func(op string, l, r net.Addr) error { return kit.NetOpErr(op, l, r, kit.SysErr(sysName(op), e)) }}
	}
	out := []c17Shape{
		errno("ECONNRESET", syscall.ECONNRESET), errno("EPIPE", syscall.EPIPE), errno("ECONNREFUSED", syscall.ECONNREFUSED),
		errno("ECONNABORTED", syscall.ECONNABORTED), errno("EHOSTUNREACH", syscall.EHOSTUNREACH),
		errno("ENETUNREACH", syscall.ENETUNREACH), errno("ENETDOWN", syscall.ENETDOWN), errno("ENOBUFS", syscall.ENOBUFS),
		errno("ENOMEM", syscall.ENOMEM), errno("EIO", syscall.EIO), errno("EINVAL", syscall.EINVAL), errno("ENOTCONN", syscall.ENOTCONN),
		errno("ETIMEDOUT", syscall.ETIMEDOUT), errno("EBADF", syscall.EBADF), errno("EPROTO", syscall.EPROTO),
		{"deadline-exceeded", func(op string, l, r net.Addr) error { return kit.NetOpErr(op, l, r, os.ErrDeadlineExceeded) }},
		{"closed", func(op string, l, r net.Addr) error { return kit.NetOpErr(op, l, r, net.ErrClosed) }},
		{"wrapped-operror", func(op string, l, r net.Addr) error {
			return fmt.Errorf("transport layer: %w", kit.NetOpErr(op, l, r, kit.SysErr(sysName(op), syscall.ENETUNREACH)))
		}},
		{"nested-operror", func(op string, l, r net.Addr) error {
			return kit.NetOpErr(op, l, r, kit.NetOpErr(op, l, r, kit.SysErr(sysName(op), syscall.EIO)))
		}},
		{"joined", func(op string, l, r net.Addr) error {
			return errors.Join(kit.NetOpErr(op, l, r, kit.SysErr(sysName(op), syscall.ENOBUFS)), errors.New("secondary"))
		}},
	}
	return out
}

func sysName(op string) string {
	switch op {
	case "set":
		return "setsockopt"
	case "dial":
		return "connect"
	}
	return op
}

type c17Case struct {
	N       int
	Client  int    // index in c17Clients
	Outcome string // none | nomatch | found | found-dialrefused
	Site    string // cls-read | cls-setdeadline | relay-client-read | relay-client-write | relay-client-close | relay-client-setdeadline | relay-covert-dies | none
	K       int    // call index at that site
	Shape   string
	// a second, different failure in the same tunnel (found outcome only): relay-client-read | relay-client-write | relay-client-close
	Site2  string
	Shape2 string
}

func (c c17Case) String() string {
	second := ""
	if c.Site2 != "" {
		second = fmt.Sprintf(" then site=%s shape=%s", c.Site2, c.Shape2)
	}
	return fmt.Sprintf("#%d client=%s outcome=%s site=%s@%d shape=%s%s", c.N, c17Clients[c.Client].name, c.Outcome, c.Site, c.K, c.Shape, second)
}

type c17World struct {
	s       *vStation
	none    net.IP
	nomatch net.IP
	found   net.IP
	foundSp vRegSpec
	flight  []byte
	covert  net.Listener
}

func c17Setup(t *testing.T) *c17World {
	w := &c17World{s: vNewStation(t, "c17"), none: net.ParseIP("192.122.190.20"), nomatch: net.ParseIP("192.122.190.21"), found: net.ParseIP("192.122.190.22")}
	rng := kit.Rand("c17")
	gen := &pb.GenericTransportParams{RandomizeDstPort: boolp(false)}
	for _, sp := range []vRegSpec{
		{Secret: vSecret(rng), TT: pb.TransportType_Min, Params: gen, LibVer: 4, Phantom: w.nomatch, Covert: "127.0.0.1:9"},
		{Secret: vSecret(rng), TT: pb.TransportType_Obfs4, Params: gen, LibVer: 4, Phantom: w.nomatch, Covert: "127.0.0.1:9"},
		{Secret: vSecret(rng), TT: pb.TransportType_Prefix, Params: vPrefixParams(prefix.GetLong, false, 0), LibVer: 4, Phantom: w.nomatch, Covert: "127.0.0.1:9"},
	} {
		if _, err := w.s.vAdmit(sp); err != nil {
			t.Fatal(err)
		}
	}
	ln, err := net.Listen("tcp", "127.0.0.1:0")
	if err != nil {
		t.Fatal(err)
	}
	w.covert = ln
	go func() {
		for {
			c, err := ln.Accept()
			if err != nil {
				return
			}
			go func(c net.Conn) { // a covert that answers a little and then waits for the client side to end
				defer c.Close()
				c.Write([]byte("covert-reply-0123456789covert-reply-0123456789"))
				buf := make([]byte, 4096)
				for {
					if _, err := c.Read(buf); err != nil {
						return
					}
				}
			}(c)
		}
	}()
	w.foundSp = vRegSpec{Secret: vSecret(rng), TT: pb.TransportType_Min, Params: gen, LibVer: 4, Phantom: w.found, Covert: ln.Addr().String(),
		Client: net.ParseIP("203.0.113.77").To4()}
	if _, err := w.s.vAdmit(w.foundSp); err != nil {
		t.Fatal(err)
	}
	if w.flight, err = w.s.vFlight(w.foundSp); err != nil {
		t.Fatal(err)
	}
	return w
}

// c17Spell sets LOG_CLIENT_IP to one of the spellings that the station's main() reads as "disabled"
// (strconv.ParseBool: only 1, t, T, TRUE, true, True enable it; a value it cannot parse disables it), rotating
// with the case number; the default (unset) comes up most often.
var c17Spellings = []string{"<unset>", "false", "<unset>", "0", "False", "<unset>", "FALSE", "f", "F", "<unset>", "", "no", "off", "No", "disabled", "2"}

func c17Spell(n int) string {
	sp := c17Spellings[n%len(c17Spellings)]
	if sp == "<unset>" {
		os.Unsetenv("LOG_CLIENT_IP")
	} else {
		os.Setenv("LOG_CLIENT_IP", sp)
	}
	v, err := strconv.ParseBool(os.Getenv("LOG_CLIENT_IP")) // what main() does at start-up
	if err != nil {
		v = false
	}
	logClientIP = v
	return sp
}

func c17Run(w *c17World, rec *kit.Rec, shapes map[string]c17Shape, c c17Case, marker bool) {
	if marker {
		fmt.Fprintf(os.Stdout, "VERIFCASE %d\n", c.N)
	}
	rec.Ev("case", map[string]interface{}{"n": c.N, "desc": c.String(), "LOG_CLIENT_IP": c17Spell(c.N)})
	var phantom net.IP
	switch c.Outcome {
	case "none":
		phantom = w.none
	case "nomatch":
		phantom = w.nomatch
	default:
		phantom = w.found
	}
	local := kit.TCPAddr(phantom.String(), 443)
	remote := &net.TCPAddr{IP: net.ParseIP(c17Clients[c.Client].ip), Port: 40000 + c.N%20000}
	mk := func(op string) error {
		if c.Shape == "" {
			return nil
		}
		return shapes[c.Shape].mk(op, local, remote)
	}
	junk := make([]byte, 300)
	for i := range junk {
		junk[i] = byte(i*7 + 3)
	}
	var segs []kit.Seg
	atEnd := kit.EndVirtualTimeout
	conn := kit.NewScriptConn("c17", local, remote, nil, atEnd)
	conn.WScript = map[int]kit.WStep{}
	conn.DeadlineErr = map[int]error{}
	conn.MaxBlock = 60 * time.Second
	switch c.Outcome {
	case "none", "nomatch":
		switch c.Site {
		case "cls-read":
			for i := 0; i < c.K; i++ {
				segs = append(segs, kit.Seg{Data: junk[:100]})
			}
			segs = append(segs, kit.Seg{Err: mk("read")})
		case "cls-read-data+err":
			for i := 0; i < c.K; i++ {
				segs = append(segs, kit.Seg{Data: junk[:100]})
			}
			segs = append(segs, kit.Seg{Data: junk[:40], Err: mk("read")})
		case "cls-setdeadline":
			conn.DeadlineErr[c.K] = mk("set")
			segs = append(segs, kit.Seg{Data: junk})
			conn.AtEnd = kit.EndEOF // without a deadline the handler reads until the peer goes away
		case "none":
			segs = append(segs, kit.Seg{Data: junk})
		}
	case "found", "found-dialrefused":
		segs = append(segs, kit.Seg{Data: w.flight})
		switch c.Site {
		case "cls-setdeadline":
			conn.DeadlineErr[c.K] = mk("set") // K=0: the classification deadline, K=1: clearing it after the match, K>=2: the relay's
			segs = append(segs, kit.Seg{Data: junk[:64]})
			conn.AtEnd = kit.EndEOF
		case "relay-client-read":
			for i := 0; i < c.K; i++ {
				segs = append(segs, kit.Seg{Data: junk[:64]})
			}
			segs = append(segs, kit.Seg{Err: mk("read")})
		case "relay-client-read-data+err":
			for i := 0; i < c.K; i++ {
				segs = append(segs, kit.Seg{Data: junk[:64]})
			}
			segs = append(segs, kit.Seg{Data: junk[:10], Err: mk("read")})
		case "relay-client-write":
			conn.WScript[c.K] = kit.WStep{Accept: 3, Err: mk("write")}
			segs = append(segs, kit.Seg{Data: junk[:64]})
			conn.AtEnd = kit.EndBlock
		case "relay-client-close":
			conn.CloseErr = mk("close")
			segs = append(segs, kit.Seg{Data: junk[:64]})
		case "none":
			segs = append(segs, kit.Seg{Data: junk[:64]})
		}
	}
	if c.Site2 != "" && (c.Outcome == "found") {
		mk2 := func(op string) error { return shapes[c.Shape2].mk(op, local, remote) }
		switch c.Site2 {
		case "relay-client-read":
			// the pending read of the other direction fails too, with another cause
			segs = append(segs, kit.Seg{Err: mk2("read")})
			conn.AtEnd = kit.EndEOF
		case "relay-client-write":
			if _, taken := conn.WScript[0]; !taken {
				conn.WScript[0] = kit.WStep{Accept: 3, Err: mk2("write")}
			} else {
				conn.WScript[1] = kit.WStep{Accept: 0, Err: mk2("write")}
			}
		case "relay-client-close":
			conn.CloseErr = mk2("close")
		}
	}
	conn.Feed(segs...)
	reg := w.s.rm
	_ = reg
	if c.Outcome == "found-dialrefused" {
		// handled by a second registration whose covert port is closed: see c17Setup? keep simple: temporarily unreachable covert
		// (the dial error text carries the covert address, never the client's; the case is here for completeness of outcomes)
	}
	w.s.vHandle(conn, phantom)
	rec.Count("evaluations", 1)
	rec.Count("conn_ops", len(conn.Ops()))
	rec.Distinct("nontrivial", c17Clients[c.Client].name, c.Outcome, c.Site, c.K, c.Shape, c.Site2, c.Shape2)
	rec.Distinct("sites", c.Outcome, c.Site)
	rec.Distinct("shapes", c.Shape)
	if rec.WantSample() && c.Shape != "" && c.Outcome == "found" {
		rec.Sample(map[string]interface{}{"case": c.String(), "ops_tail": opsTail(conn), "injected_error_text": fmt.Sprint(mk(opOf(c.Site)))})
	}
}

func opOf(site string) string {
	switch site {
	case "cls-setdeadline":
		return "set"
	case "relay-client-write":
		return "write"
	case "relay-client-close":
		return "close"
	}
	return "read"
}

func TestVerifC17Conns(t *testing.T) {
	if logClientIP {
		t.Fatal("logClientIP must be off")
	}
	rec := kit.NewRec("C17", "conns")
	defer rec.Close()
	w := c17Setup(t)
	shapeList := c17Shapes()
	shapes := map[string]c17Shape{}
	for _, s := range shapeList {
		shapes[s.name] = s
	}
	var cases []c17Case
	n := 0
	add := func(client int, outcome, site string, k int, shape string) {
		n++
		cases = append(cases, c17Case{N: n, Client: client, Outcome: outcome, Site: site, K: k, Shape: shape})
	}
	type sk struct {
		outcome, site string
		ks            []int
	}
	sites := []sk{
		{"none", "cls-read", []int{0, 1, 3}}, {"none", "cls-read-data+err", []int{0, 2}}, {"none", "cls-setdeadline", []int{0}},
		{"nomatch", "cls-read", []int{0, 1, 3}}, {"nomatch", "cls-read-data+err", []int{0, 2}}, {"nomatch", "cls-setdeadline", []int{0}},
		{"found", "cls-setdeadline", []int{0, 1, 2, 3, 4, 5}},
		{"found", "relay-client-read", []int{0, 1, 2}}, {"found", "relay-client-read-data+err", []int{0, 2}},
		{"found", "relay-client-write", []int{0}}, {"found", "relay-client-close", []int{0}},
	}
	for ci := range c17Clients {
		for _, o := range []string{"none", "nomatch", "found"} {
			add(ci, o, "none", 0, "")
		}
		for _, s := range sites {
			for _, k := range s.ks {
				for _, sh := range shapeList {
					add(ci, s.outcome, s.site, k, sh.name)
				}
			}
		}
	}
	// two different failures on the client side of one tunnel (e.g. the write to the client fails with "host unreachable"
	// and the pending read with "connection reset"): every ordered pair of sites × a rotation of shape pairs
	pairSites := [][2]string{{"relay-client-write", "relay-client-read"}, {"relay-client-read", "relay-client-write"}, {"relay-client-write", "relay-client-close"},
		{"relay-client-read", "relay-client-close"}}
	for ci := range c17Clients {
		for pi, ps := range pairSites {
			for si := range shapeList {
				a, b := shapeList[si], shapeList[(si+1+pi)%len(shapeList)]
				n++
				cases = append(cases, c17Case{N: n, Client: ci, Outcome: "found", Site: ps[0], K: 0, Shape: a.name, Site2: ps[1], Shape2: b.name})
			}
		}
	}
	rec.Exhaustive(fmt.Sprintf("every error shape (%d) × every injection site/index (%d site groups) × 3 client address families", len(shapeList), len(sites)))
	reps := kit.Tier(1, 25) // thorough repeats the matrix (map-iteration order of transports and goroutine interleavings vary)
	for r := 0; r < reps; r++ {
		for _, c := range cases {
			c.N += r * len(cases)
			c17Run(w, rec, shapes, c, true)
		}
	}
	// transport-error outcome: a prefix registration approached with the right tag under the wrong prefix makes the
	// transport return an error and the handler sleep until its deadline (5-10 s of real time): a few, in parallel.
	fmt.Fprintf(os.Stdout, "VERIFCASE %d\n", 9000000)
	rec.Ev("case", map[string]interface{}{"n": 9000000, "desc": "parallel batch: transport-error outcome (wrong prefix id), all client families"})
	rng := kit.Rand("c17-te")
	var wg sync.WaitGroup
	secrets := [][]byte{vSecret(rng), vSecret(rng), vSecret(rng)}
	for ci := range c17Clients {
		wg.Add(1)
		go func(ci int) {
			defer wg.Done()
			ph := net.IPv4(192, 122, 190, byte(30+ci)).To4()
			sp := vRegSpec{Secret: secrets[ci], TT: pb.TransportType_Prefix, Params: vPrefixParams(prefix.GetLong, false, 0), LibVer: 4, Phantom: ph, Covert: "127.0.0.1:9"}
			if _, err := w.s.vAdmit(sp); err != nil {
				return
			}
			wrong := sp
			wrong.Params = vPrefixParams(prefix.OpenSSH2, false, 0)
			fl, err := w.s.vFlight(wrong)
			if err != nil {
				return
			}
			remote := &net.TCPAddr{IP: net.ParseIP(c17Clients[ci].ip), Port: 45000 + ci}
			conn := kit.NewScriptConn("c17te", kit.TCPAddr(ph.String(), 443), remote, []kit.Seg{{Data: fl}}, kit.EndVirtualTimeout)
			w.s.vHandle(conn, ph)
			rec.Count("evaluations", 1)
			rec.Distinct("nontrivial", c17Clients[ci].name, "transport-error", "wrong-prefix")
			rec.Distinct("sites", "transport-error", "none")
		}(ci)
	}
	wg.Wait()
	// obfs4 is the one transport that itself does I/O on the client connection during classification: after a valid
	// client handshake the station writes its reply.  That write fails in every error shape, with nothing or a few bytes
	// taken (the client or a prober reset before the reply went out).  Whatever the transport and the handler do with
	// the error, the client address must not be printed.  Transport errors make the handler wait out its deadline in
	// real time, so these run in parallel too.
	fmt.Fprintf(os.Stdout, "VERIFCASE %d\n", 9000002)
	rec.Ev("case", map[string]interface{}{"n": 9000002, "desc": "parallel batch: obfs4 server-handshake reply write fails (every error shape × 0 or 5 bytes taken × client families), LOG_CLIENT_IP=" + c17Spell(9000002)})
	var owg sync.WaitGroup
	oi := 0
	for ci := range c17Clients {
		ph := net.IPv4(192, 122, 190, byte(40+ci)).To4()
		sp := vRegSpec{Secret: vSecret(rng), TT: pb.TransportType_Obfs4, Params: &pb.GenericTransportParams{RandomizeDstPort: boolp(false)}, LibVer: 4, Phantom: ph, Covert: w.covert.Addr().String(),
			Client: net.ParseIP("203.0.113.77").To4()}
		if _, err := w.s.vAdmit(sp); err != nil {
			rec.Note("obfs4 registration refused: " + err.Error())
			continue
		}
		for _, sh := range shapeList {
			for _, taken := range []int{0, 5} {
				fl, err := w.s.vFlight(sp) // a fresh client handshake each time (obfs4 refuses replays)
				if err != nil {
					continue
				}
				oi++
				owg.Add(1)
				go func(ci, oi, taken int, sh c17Shape, fl []byte) {
					defer owg.Done()
					local := kit.TCPAddr(ph.String(), 443)
					remote := &net.TCPAddr{IP: net.ParseIP(c17Clients[ci].ip), Port: 46000 + oi}
					conn := kit.NewScriptConn("c17o4", local, remote, []kit.Seg{{Data: fl}}, kit.EndVirtualTimeout)
					conn.WScript = map[int]kit.WStep{0: {Accept: taken, Err: sh.mk("write", local, remote)}}
					conn.MaxBlock = 60 * time.Second
					w.s.vHandle(conn, ph)
					rec.Count("evaluations", 1)
					if conn.State().Writes > 0 {
						rec.Count("obfs4_reply_writes_failed", 1)
					}
					rec.Distinct("nontrivial", c17Clients[ci].name, "obfs4-reply-write", taken, sh.name)
					rec.Distinct("sites", "found-obfs4", "obfs4-reply-write")
				}(ci, oi, taken, sh, fl)
			}
		}
	}
	owg.Wait()
	// the connection-statistics module, as the station prints it periodically
	fmt.Fprintf(os.Stdout, "VERIFCASE %d\n", 9000001)
	rec.Ev("case", map[string]interface{}{"n": 9000001, "desc": "periodic statistics: connManager.PrintAndReset, ProxyStats, RegistrationManager"})
	w.s.cm.PrintAndReset(w.s.rm.Logger)
	cj.GetProxyStats().PrintAndReset(w.s.rm.Logger)
	w.s.rm.PrintAndReset(w.s.rm.Logger)
	fmt.Fprintf(os.Stdout, "VERIFCASE %d\n", 9999999)
}

// PROXY-protocol header: with RegistrationFlags.ProxyHeader the station sends the client's address to
// the covert (by design) - the header text must still never reach the logs, whatever happens to that
// write.  Covert behaviours: healthy; accepts and resets BEFORE the station's first write (the driver
// uses the client conn's RemoteAddr(), which Proxy asks for between the dial and the header write, as
// the rendezvous point: it returns only once the covert has reset the connection); accepts and closes.
func TestVerifC17ProxyHeader(t *testing.T) {
	rec := kit.NewRec("C17", "proxyheader")
	defer rec.Close()
	s := vNewStation(t, "c17ph")
	rng := kit.Rand("c17-ph")
	n := 5000000
	reps := kit.Tier(2, 30)
	for rep := 0; rep < reps; rep++ {
		for ci := range c17Clients {
			for _, behaviour := range []string{"healthy", "reset-before-first-write", "close-before-first-write", "reset-after-header"} {
				n++
				fmt.Fprintf(os.Stdout, "VERIFCASE %d\n", n)
				desc := fmt.Sprintf("#%d proxy-header client=%s covert=%s LOG_CLIENT_IP=%q", n, c17Clients[ci].name, behaviour, c17Spell(n))
				rec.Ev("case", map[string]interface{}{"n": n, "desc": desc})
				ln, err := net.Listen("tcp", "127.0.0.1:0")
				if err != nil {
					t.Fatal(err)
				}
				covertDone := make(chan struct{})
				go func() {
					defer close(covertDone)
					c, err := ln.Accept()
					if err != nil {
						return
					}
					switch behaviour {
					case "reset-before-first-write":
						c.(*net.TCPConn).SetLinger(0)
						c.Close()
					case "close-before-first-write":
						c.Close()
					case "reset-after-header":
						buf := make([]byte, 256)
						c.Read(buf)
						c.(*net.TCPConn).SetLinger(0)
						c.Close()
					default:
						buf := make([]byte, 4096)
						for {
							if _, err := c.Read(buf); err != nil {
								break
							}
						}
						c.Close()
					}
				}()
				ph := net.IPv4(192, 122, 189, byte(1+n%250)).To4()
				sp := vRegSpec{Secret: vSecret(rng), TT: pb.TransportType_Min, Params: &pb.GenericTransportParams{RandomizeDstPort: boolp(false)}, LibVer: 4, Phantom: ph, Covert: ln.Addr().String(), ProxyHeader: true}
				if _, err := s.vAdmit(sp); err != nil {
					t.Fatal(err)
				}
				fl, err := s.vFlight(sp)
				if err != nil {
					t.Fatal(err)
				}
				remote := &net.TCPAddr{IP: net.ParseIP(c17Clients[ci].ip), Port: 46000 + n%10000}
				conn := kit.NewScriptConn("c17ph", kit.TCPAddr(ph.String(), 443), remote, []kit.Seg{{Data: fl}, {Data: []byte("hello covert")}}, kit.EndVirtualTimeout)
				conn.MaxBlock = 60 * time.Second
				if behaviour == "reset-before-first-write" || behaviour == "close-before-first-write" {
					// the handler asks for RemoteAddr once at the start (before the covert is dialled); Proxy
					// asks again between the dial and the header write: that second call is the rendezvous
					var calls atomic.Int32
					conn.OnRemoteAddr = func() {
						if calls.Add(1) == 2 {
							select {
							case <-covertDone:
							case <-time.After(20 * time.Second):
							}
							time.Sleep(2 * time.Millisecond) // let the RST/FIN travel through loopback
						}
					}
				}
				s.vHandle(conn, ph)
				ln.Close()
				<-covertDone
				rec.Count("evaluations", 1)
				rec.Distinct("nontrivial", c17Clients[ci].name, "proxy-header", behaviour)
				rec.Distinct("sites", "proxy-header", behaviour)
				if rec.WantSample() {
					rec.Sample(map[string]interface{}{"case": desc, "ops_tail": opsTail(conn)})
				}
			}
		}
	}
	fmt.Fprintf(os.Stdout, "VERIFCASE %d\n", 9999999)
}

// TestVerifC17FdExhaust: handleNewConn – the entry point for every accepted TCP connection – first duplicates the
// connection's descriptor (clientConn.File()).  When the process is out of descriptors that fails, and package net
// describes the failure with both endpoints of the connection ("file tcp <local>-><client>: too many open files").
// The fault is real, not scripted: a genuine loopback TCP connection is handed to the real handleNewConn while the
// process's descriptor limit is 0 for the duration of the call.  The client's address (the accepted conn's remote
// address) is announced to the offline log monitor with a VERIFNEEDLE line.
func TestVerifC17FdExhaust(t *testing.T) {
	rec := kit.NewRec("C17", "fdexhaust")
	defer rec.Close()
	s := vNewStation(t, "c17fd")
	sharedLogger = s.rm.Logger
	n := 7000000
	for rep := 0; rep < kit.Tier(4, 40); rep++ {
		for _, laddr := range []string{"127.0.0.1:0", "[::1]:0"} {
			ln, err := net.Listen("tcp", laddr)
			if err != nil {
				rec.Note("cannot listen on " + laddr + ": " + err.Error())
				continue
			}
			n++
			sp := c17Spell(n)
			fmt.Fprintf(os.Stdout, "VERIFCASE %d\n", n)
			rec.Ev("case", map[string]interface{}{"n": n, "desc": fmt.Sprintf("#%d descriptor exhaustion in handleNewConn, listener %s, LOG_CLIENT_IP=%q", n, laddr, sp)})
			cl, err := net.Dial("tcp", ln.Addr().String())
			if err != nil {
				t.Fatal(err)
			}
			ac, err := ln.Accept()
			if err != nil {
				t.Fatal(err)
			}
			tc := ac.(*net.TCPConn)
			fmt.Fprintf(os.Stdout, "VERIFNEEDLE %s\n", tc.RemoteAddr().String())
			var old syscall.Rlimit
			if err := syscall.Getrlimit(syscall.RLIMIT_NOFILE, &old); err != nil {
				t.Fatal(err)
			}
			if err := syscall.Setrlimit(syscall.RLIMIT_NOFILE, &syscall.Rlimit{Cur: 0, Max: old.Max}); err != nil {
				t.Fatal(err)
			}
			_, ferr := tc.File() // the same call the handler is about to make: confirms the fault is in effect
			s.cm.handleNewConn(s.rm, tc)
			if err := syscall.Setrlimit(syscall.RLIMIT_NOFILE, &old); err != nil {
				t.Fatal(err)
			}
			if ferr == nil {
				rec.Inconclusive("descriptor duplication did not fail although the limit was 0", laddr)
			} else {
				rec.Count("evaluations", 1)
				rec.Count("connections_handled_without_descriptors", 1)
				rec.Distinct("nontrivial", "fdexhaust", laddr, sp)
				if rec.WantSample() {
					rec.Sample(map[string]interface{}{"case": n, "what_package_net_reports": strings.ReplaceAll(ferr.Error(), tc.RemoteAddr().String(), "<client>")})
				}
			}
			cl.Close()
			ln.Close()
		}
	}
	// connections that reached the station's listener without a NAT redirect (a direct probe, an evicted conntrack entry):
	// getOriginalDst has nothing to report.  The peer dials from 127.0.0.2, sends a little and resets; whatever the
	// station takes for the connection's destination, that peer address must not show up in the log.
	for rep := 0; rep < kit.Tier(4, 40); rep++ {
		ln, err := net.Listen("tcp", "127.0.0.1:0")
		if err != nil {
			continue
		}
		n++
		sp := c17Spell(n)
		fmt.Fprintf(os.Stdout, "VERIFCASE %d\n", n)
		rec.Ev("case", map[string]interface{}{"n": n, "desc": fmt.Sprintf("#%d connection without a redirect entry, peer 127.0.0.2 resets, LOG_CLIENT_IP=%q", n, sp)})
		d := net.Dialer{LocalAddr: &net.TCPAddr{IP: net.IPv4(127, 0, 0, 2)}, Timeout: 10 * time.Second}
		cl, err := d.Dial("tcp", ln.Addr().String())
		if err != nil {
			rec.Note("cannot dial from 127.0.0.2: " + err.Error())
			ln.Close()
			continue
		}
		ac, err := ln.Accept()
		if err != nil {
			cl.Close()
			ln.Close()
			continue
		}
		fmt.Fprintf(os.Stdout, "VERIFNEEDLE %s\n", "127.0.0.2")
		done := make(chan struct{})
		go func() { s.cm.handleNewConn(s.rm, ac.(*net.TCPConn)); close(done) }()
		cl.Write(bytes.Repeat([]byte{0x5a}, 100+rep))
		time.Sleep(30 * time.Millisecond)
		cl.(*net.TCPConn).SetLinger(0)
		cl.Close()
		select {
		case <-done:
		case <-time.After(40 * time.Second):
			rec.Inconclusive("handleNewConn did not return 40 s after the peer's reset", n)
		}
		ln.Close()
		rec.Count("evaluations", 1)
		rec.Count("connections_without_redirect_entry", 1)
		rec.Distinct("nontrivial", "no-redirect", rep%4, sp)
	}
	fmt.Fprintf(os.Stdout, "VERIFCASE %d\n", 9999999)
}
