//go:build verif

package main

// C19 (side stage in package main) – connManager is the fifth stats module the station registers
// (main.go:150, verbose).  For configurations accepted by the station's real start-up sequence the
// driver replays seeded scripts of connection-state transitions and connecting-transport events on
// the real connManager, prints every module the way Stats.PrintStats does (PrintAndReset, twice),
// sweeps, reloads (main.go:176-191) and prints again.  Oracle: no panic (recover per step).
// At the end one station is wired through the real cj.Stat() registry exactly as main.go wires it.

import (
	"bytes"
	"fmt"
	golog "log"
	"os"
	"path/filepath"
	"testing"

	"github.com/refraction-networking/conjure/internal/conjurepath"
	kit "github.com/refraction-networking/conjure/internal/verifkit"
	"github.com/refraction-networking/conjure/pkg/phantoms"
	cj "github.com/refraction-networking/conjure/pkg/station/lib"
	"github.com/refraction-networking/conjure/pkg/station/liveness"
	"github.com/refraction-networking/conjure/pkg/station/log"
)

type verifC19App struct {
	conf *cj.Config
	cm   *connManager
	rm   *cj.RegistrationManager
	zi   *cj.ZMQIngester
	mode string
}

func verifC19AppMode(lc *liveness.Config) string {
	switch {
	case lc == nil || (lc.CacheDuration == "" && lc.CacheDurationNonLive == ""):
		return "uncached"
	case lc.CacheDurationNonLive == "":
		return "live-only"
	case lc.CacheDuration == "":
		return "nonlive-only"
	}
	return "both"
}

// verifC19AppStart is main.go:44-141 up to the stats registration.
func verifC19AppStart() (st *verifC19App, outcome string) {
	var conf *cj.Config
	var err error
	if pn := kit.C19Try(func() { conf, err = cj.ParseConfig() }); pn != nil {
		return nil, "panic:startup-parse"
	}
	if err != nil {
		return nil, "rejected:parse"
	}
	lvl := log.ErrorLevel
	if conf.LogLevel != "" {
		lvl, err = log.ParseLevel(conf.LogLevel)
		if err != nil || lvl == log.UnknownLevel {
			return nil, "rejected:log-level"
		}
	}
	log.SetLevel(lvl)
	cm := newConnManager(nil)
	if conf.RegConfig == nil {
		return nil, "panic:startup-no-regconfig"
	}
	conf.RegConfig.ConnectingStats = cm
	if pn := kit.C19Try(func() { _, err = liveness.New(conf.LivenessConfig()) }); pn != nil {
		return nil, "panic:startup-liveness"
	}
	if err != nil {
		return nil, "rejected:liveness"
	}
	var rm *cj.RegistrationManager
	if pn := kit.C19Try(func() { rm = cj.NewRegistrationManager(conf.RegConfig) }); pn != nil {
		return nil, "panic:startup-manager"
	}
	if rm == nil {
		return nil, "rejected:manager"
	}
	rm.Logger.SetOutput(&bytes.Buffer{})
	var key [32]byte
	copy(key[:], "verif-c19-zmq-private-key-32-byt")
	regChan := make(chan interface{}, 10000)
	var zi *cj.ZMQIngester
	if pn := kit.C19Try(func() { zi, err = cj.NewZMQIngest("ipc://@verif-c19-app", regChan, key, conf.ZMQConfig) }); pn != nil {
		return nil, "panic:startup-zmq"
	}
	if err != nil {
		return nil, "rejected:zmq"
	}
	return &verifC19App{conf: conf, cm: cm, rm: rm, zi: zi, mode: verifC19AppMode(conf.LivenessConfig())}, "accepted"
}

var verifC19ASNs = []uint{0, 1, 7922, 64512, 4294967295}
var verifC19CCs = []string{"", "US", "unk", "ZZ", "IR", "cn"}

// verifC19Traffic replays n seeded events on the real connManager.
func verifC19Traffic(cm *connManager, rng interface{ Intn(int) int }, n int) {
	trans := []func(uint, string, bool){
		cm.addCreated, cm.createdToDiscard, cm.createdToCheck, cm.createdToReset, cm.createdToTimeout, cm.createdToError, cm.createdToClose,
		cm.readToCheck, cm.readToTimeout, cm.readToReset, cm.readToError, cm.checkToCreated, cm.checkToRead, cm.checkToFound, cm.checkToError,
		cm.checkToDiscard, cm.discardToReset, cm.discardToTimeout, cm.discardToError, cm.discardToClose,
	}
	connecting := []func(uint, string, string){
		cm.AddCreatedConnecting, cm.AddCreatedToListenSuccessfulConnecting, cm.AddCreatedToDialSuccessfulConnecting, cm.AddCreatedToSuccessfulConnecting,
		cm.AddCreatedToTimeoutConnecting, cm.AddSuccessfulToDiscardedConnecting, cm.AddAuthFailConnecting, cm.AddOtherFailConnecting,
	}
	for i := 0; i < n; i++ {
		asn := verifC19ASNs[rng.Intn(len(verifC19ASNs))]
		cc := verifC19CCs[rng.Intn(len(verifC19CCs))]
		if rng.Intn(4) == 0 {
			connecting[rng.Intn(len(connecting))](asn, cc, "dtls")
		} else {
			trans[rng.Intn(len(trans))](asn, cc, rng.Intn(2) == 0)
		}
	}
}

func TestVerifC19ConnManager(t *testing.T) {
	rec := kit.NewRec("C19", "connmanager")
	defer rec.Close()
	dir := filepath.Join(kit.OutDir(), "c19-app-files")
	if err := os.MkdirAll(dir, 0o755); err != nil {
		t.Fatal(err)
	}
	b, err := os.ReadFile(filepath.Join(conjurepath.Root, "cmd/application/app_config.toml"))
	if err != nil {
		t.Fatal(err)
	}
	shipped := string(b)
	garbageDB := filepath.Join(dir, "not-a-database.mmdb")
	os.WriteFile(garbageDB, []byte("this is not a MaxMind database\n"), 0o644)
	var subPaths []string
	for _, f := range kit.C19SubnetFiles() {
		p := filepath.Join(dir, f.Name+".toml")
		os.WriteFile(p, []byte(f.Text), 0o644)
		if _, err := phantoms.SubnetsFromTomlFile(p); err == nil {
			subPaths = append(subPaths, p)
		}
	}
	if len(subPaths) < 3 {
		t.Fatalf("only %d loadable subnet files", len(subPaths))
	}
	cfgPath := filepath.Join(dir, "station.toml")
	os.Setenv("CJ_STATION_CONFIG", cfgPath)
	defer log.SetLevel(log.ErrorLevel)

	var buf bytes.Buffer
	rng := kit.Rand("c19-connmanager")
	nCases := kit.Tier(250, 6000)
	cases := []kit.C19Config{kit.C19Base(garbageDB), {Text: shipped, Class: "shipped", Desc: "shipped"}}
	var acceptedTexts []string
	var last *verifC19App

	printAll := func(st *verifC19App, cfgText, phase string) {
		logger := log.New(&buf, "[STATS] ", golog.Ldate|golog.Lmicroseconds)
		mods := []struct {
			name string
			f    func()
		}{
			{"zmq", func() { st.zi.PrintAndReset(logger) }},
			{"liveness", func() { st.rm.LivenessTester.PrintAndReset(logger) }},
			{"proxy", func() { cj.GetProxyStats().PrintAndReset(logger) }},
			{"regmanager", func() { st.rm.PrintAndReset(logger) }},
			{"connmanager", func() { st.cm.PrintAndReset(logger) }},
		}
		for _, m := range mods {
			buf.Reset()
			rec.Count("stats_prints", 1)
			if pn := kit.C19Try(m.f); pn != nil {
				sig := pn.Sig("stats:" + m.name)
				if m.name == "liveness" {
					sig += ":" + st.mode
				}
				rec.Violation(sig, fmt.Sprintf("PrintAndReset of the %s stats module panicked (%s) for an accepted configuration: %s", m.name, phase, pn.Val),
					map[string]interface{}{"module": m.name, "phase": phase, "liveness_mode": st.mode, "panic": pn, "config": cfgText})
			}
			if m.name == "connmanager" {
				rec.Count("connmanager_log_bytes", buf.Len())
			}
		}
	}

	for ci := 0; ci < nCases; ci++ {
		var cfg kit.C19Config
		if ci < len(cases) {
			cfg = cases[ci]
		} else {
			cfg = kit.C19Gen(rng, shipped, garbageDB, 0.04)
		}
		nEvents := []int{0, 1, 7, 60, 400}[rng.Intn(5)]
		rec.Case(map[string]interface{}{"case": ci, "class": cfg.Class, "desc": cfg.Desc, "config": cfg.Text, "events": nEvents})
		rec.Count("evaluations", 1)
		os.Setenv("PHANTOM_SUBNET_LOCATION", subPaths[rng.Intn(len(subPaths))])
		os.WriteFile(cfgPath, []byte(cfg.Text), 0o644)
		st, outcome := verifC19AppStart()
		rec.Count("startup."+outcome, 1)
		if st == nil {
			continue
		}
		last = st
		acceptedTexts = append(acceptedTexts, cfg.Text)
		rec.Distinct("nontrivial", cfg.Desc, nEvents)

		printAll(st, cfg.Text, "fresh")
		verifC19Traffic(st.cm, rng, nEvents)
		rec.Count("connmanager_events", nEvents)
		printAll(st, cfg.Text, "after-traffic")
		printAll(st, cfg.Text, "after-reset")
		if pn := kit.C19Try(func() { st.rm.RemoveOldRegistrations() }); pn != nil {
			rec.Violation(pn.Sig("sweep"), "RemoveOldRegistrations panicked for an accepted configuration: "+pn.Val, map[string]interface{}{"panic": pn, "config": cfg.Text})
		}

		// one SIGHUP with a file that this run already saw accepted, and a different subnets file
		re := acceptedTexts[rng.Intn(len(acceptedTexts))]
		os.WriteFile(cfgPath, []byte(re), 0o644)
		os.Setenv("PHANTOM_SUBNET_LOCATION", subPaths[rng.Intn(len(subPaths))])
		rec.Count("reload_steps", 1)
		pn := kit.C19Try(func() {
			newConf, err := cj.ParseConfig()
			if err != nil {
				return
			}
			st.rm.OnReload(newConf.RegConfig)
		})
		if pn != nil {
			rec.Violation(pn.Sig("reload")+":previously-accepted", "reloading a configuration that was accepted at start-up panicked: "+pn.Val,
				map[string]interface{}{"panic": pn, "running_config": cfg.Text, "reload_config": re})
			continue
		}
		verifC19Traffic(st.cm, rng, nEvents/2)
		printAll(st, cfg.Text, "after-reload")
		if ci%53 == 0 {
			rec.Sample(map[string]interface{}{"case": ci, "class": cfg.Class, "desc": cfg.Desc, "events": nEvents, "liveness_mode": st.mode})
		}
	}

	// the real registry, wired as main.go:146-150 wires it, for the last accepted station whose liveness
	// mode is not the one with the recorded printStats defect (a panic inside cj.Stat()'s own ticker
	// goroutine could not be recovered)
	if last != nil && last.mode != "live-only" {
		cj.Stat().AddStatsModule(last.zi, false)
		cj.Stat().AddStatsModule(last.rm.LivenessTester, false)
		cj.Stat().AddStatsModule(cj.GetProxyStats(), false)
		cj.Stat().AddStatsModule(last.rm, false)
		cj.Stat().AddStatsModule(last.cm, true)
		verifC19Traffic(last.cm, rng, 100)
		for i := 0; i < 2; i++ {
			for _, verbose := range []bool{false, true} {
				if pn := kit.C19Try(func() { cj.Stat().PrintStats(verbose) }); pn != nil {
					rec.Violation(pn.Sig("stats:registry"), "Stats.PrintStats panicked: "+pn.Val, map[string]interface{}{"verbose": verbose, "panic": pn})
				}
				rec.Count("registry_prints", 1)
			}
		}
	}
}
