//go:build verif

package apiregserver

// C12 at the HTTP layer – "told the client ⇒ told the stations".  The real handlers register /
// registerBidirectional of an APIRegServer built by NewAPIRegServer sit on a real RegProcessor
// (real constructors, subnet overrides armed, nested exclusions) whose ZMQ socket is a recorder with
// per-request fault plans (ETERM / EINVAL / EAGAIN / EINTR / ...; always, once, k times, short count).
// Oracle: a 2xx answer requires that the socket ACCEPTED a message (a failed send does not count), and
// for the bidirectional route that the body decodes to the phantom / port / params carried in the
// accepted message; when every send fails the status must not be 2xx.

import (
	"bytes"
	"crypto/ed25519"
	"errors"
	"fmt"
	"io"
	"math/rand"
	"net"
	"net/http/httptest"
	"os"
	"syscall"
	"testing"
	"time"

	zmq "github.com/pebbe/zmq4"
	logrus "github.com/sirupsen/logrus"
	"google.golang.org/protobuf/proto"
	"google.golang.org/protobuf/types/known/anypb"

	"github.com/refraction-networking/conjure/internal/conjurepath"
	kit "github.com/refraction-networking/conjure/internal/verifkit"
	"github.com/refraction-networking/conjure/pkg/core"
	"github.com/refraction-networking/conjure/pkg/metrics"
	"github.com/refraction-networking/conjure/pkg/phantoms"
	"github.com/refraction-networking/conjure/pkg/regserver/regprocessor"
	"github.com/refraction-networking/conjure/pkg/station/lib"
	"github.com/refraction-networking/conjure/pkg/transports/wrapping/min"
	"github.com/refraction-networking/conjure/pkg/transports/wrapping/obfs4"
	"github.com/refraction-networking/conjure/pkg/transports/wrapping/prefix"
	pb "github.com/refraction-networking/conjure/proto"
)

type verifC12Plan struct {
	Pattern, Errno string
	err            error
	failN          int
	short          bool
}

func (p verifC12Plan) class() string {
	if p.Errno == "EAGAIN" || p.Errno == "EINTR" {
		return "transient-error"
	}
	return "final-error"
}

var verifC12Errnos = []struct {
	name string
	err  error
}{
	{"ETERM", zmq.ETERM}, {"EINVAL", zmq.Errno(syscall.EINVAL)}, {"EAGAIN", zmq.Errno(syscall.EAGAIN)}, {"EINTR", zmq.Errno(syscall.EINTR)},
	{"EHOSTUNREACH", zmq.Errno(syscall.EHOSTUNREACH)}, {"generic", errors.New("send refused")},
}

func verifC12RandPlan(r *rand.Rand) verifC12Plan {
	if r.Intn(2) == 0 {
		return verifC12Plan{}
	}
	e := verifC12Errnos[r.Intn(len(verifC12Errnos))]
	p := verifC12Plan{Errno: e.name, err: e.err}
	switch x := r.Intn(20); {
	case x < 9:
		p.Pattern, p.failN = "always", -1
	case x < 13:
		p.Pattern, p.failN = "once", 1
	case x < 17:
		p.failN = []int{2, 3, 5}[r.Intn(3)]
		p.Pattern = fmt.Sprintf("k%d", p.failN)
	default:
		p.Pattern, p.Errno, p.err, p.short = "short", "none", nil, true
	}
	return p
}

// verifC12Sender: msgs holds only what the socket accepted.
type verifC12Sender struct {
	msgs             [][]byte
	plan             verifC12Plan
	attempts, failed int
}

func (s *verifC12Sender) reset(p verifC12Plan) { s.msgs, s.plan, s.attempts, s.failed = nil, p, 0, 0 }
func (s *verifC12Sender) SendBytes(b []byte, _ zmq.Flag) (int, error) {
	s.attempts++
	if s.plan.Pattern != "" && !s.plan.short && (s.plan.failN < 0 || s.attempts <= s.plan.failN) {
		s.failed++
		return -1, s.plan.err
	}
	s.msgs = append(s.msgs, append([]byte(nil), b...))
	if s.plan.short {
		return len(b) / 2, nil
	}
	return len(b), nil
}
func (s *verifC12Sender) Close() error { return nil }

func verifC12Subnet(cidr string, w float64, port uint32, tr string, id int) regprocessor.Subnet {
	var n regprocessor.Ipnet
	if err := n.UnmarshalText([]byte(cidr)); err != nil {
		panic(err)
	}
	return regprocessor.Subnet{CIDR: n, Weight: w, Port: port, Transport: tr, PrefixId: prefix.PrefixID(id)}
}

func verifC12RespDiff(a, b *pb.RegistrationResponse) string {
	switch {
	case a.GetIpv4Addr() != b.GetIpv4Addr():
		return "ipv4"
	case !bytes.Equal(a.GetIpv6Addr(), b.GetIpv6Addr()):
		return "ipv6"
	case a.GetDstPort() != b.GetDstPort() || (a != nil && a.DstPort != nil) != (b != nil && b.DstPort != nil):
		return "dst_port"
	case !proto.Equal(a.GetTransportParams(), b.GetTransportParams()):
		return "transport_params"
	}
	return ""
}

func TestVerifC12API(t *testing.T) {
	rec := kit.NewRec("C12", "api-layer")
	defer rec.Close()
	r := kit.Rand("c12-api")
	os.Setenv("PHANTOM_SUBNET_LOCATION", conjurepath.Root+"/pkg/station/lib/test/phantom_subnets.toml")
	lg := logrus.New()
	lg.SetOutput(io.Discard)
	met := metrics.NewMetrics(logrus.NewEntry(lg), 24*time.Hour)

	// the phantoms of the test subnet file live in 192.122.190.0/24 (and two /16s): nested exclusions inside it
	overrides := []regprocessor.Subnet{
		verifC12Subnet("10.1.1.0/24", 1, 443, "Min_Transport", 0), verifC12Subnet("10.1.2.0/28", 2, 443, "Min_Transport", 0),
		verifC12Subnet("10.2.1.0/24", 1, 80, "Prefix_Transport", 1), verifC12Subnet("10.2.2.0/30", 1.5, 22, "Prefix_Transport", 9),
	}
	exclusions := []regprocessor.Subnet{
		verifC12Subnet("192.122.190.64/26", 1, 80, "Min_Transport", 0), verifC12Subnet("192.122.190.0/24", 1, 80, "Min_Transport", 0),
		verifC12Subnet("192.122.190.80/28", 1, 80, "Prefix_Transport", 0),
	}
	excl := func(ip net.IP) bool {
		for _, e := range exclusions {
			if e.CIDR.IPNet.Contains(ip) {
				return true
			}
		}
		return false
	}

	refer, err := phantoms.SubnetsFromTomlFile(os.Getenv("PHANTOM_SUBNET_LOCATION"))
	if err != nil {
		t.Fatal(err)
	}

	n := kit.Tier(1500, 20000)
	for _, auth := range []bool{false, true} {
		var rp *regprocessor.RegProcessor
		var err error
		if auth {
			seed := make([]byte, ed25519.SeedSize)
			r.Read(seed)
			rp, err = regprocessor.NewRegProcessor("127.0.0.1", 0, ed25519.NewKeyFromSeed(seed), false, nil, met, true, overrides, exclusions, 100, 100)
		} else {
			rp, err = regprocessor.NewRegProcessorNoAuth("127.0.0.1", 0, met, true, overrides, exclusions, 100, 100)
		}
		if err != nil {
			t.Fatalf("cannot build the registrar (infrastructure): %v", err)
		}
		snd := &verifC12Sender{}
		rp.VerifC11SetSender(snd)
		for tt, tr := range map[pb.TransportType]lib.Transport{pb.TransportType_Min: min.Transport{}, pb.TransportType_Obfs4: obfs4.Transport{}, pb.TransportType_Prefix: prefix.DefaultSet()} {
			if err := rp.AddTransport(tt, tr); err != nil {
				t.Fatal(err)
			}
		}
		s, err := NewAPIRegServer(0, rp, &pb.ClientConf{Generation: proto.Uint32(957)}, lg, false, met)
		if err != nil {
			t.Fatal(err)
		}

		for i := 0; i < n; i++ {
			tt := []pb.TransportType{pb.TransportType_Min, pb.TransportType_Obfs4, pb.TransportType_Prefix}[r.Intn(3)]
			c2s := &pb.ClientToStation{Transport: &tt, ClientLibVersion: proto.Uint32(uint32(3 + r.Intn(2))), DecoyListGeneration: proto.Uint32([]uint32{1, 2, 957}[r.Intn(3)]),
				V4Support: proto.Bool(r.Intn(5) != 0), V6Support: proto.Bool(r.Intn(2) == 0), CovertAddress: proto.String("192.0.2.1:443")}
			if tt == pb.TransportType_Prefix {
				c2s.TransportParams, _ = anypb.New(&pb.PrefixTransportParams{PrefixId: proto.Int32(int32(r.Intn(10))), RandomizeDstPort: proto.Bool(r.Intn(2) == 0)})
			} else if r.Intn(2) == 0 {
				c2s.TransportParams, _ = anypb.New(&pb.GenericTransportParams{RandomizeDstPort: proto.Bool(r.Intn(2) == 0)})
			}
			if r.Intn(5) == 0 {
				c2s.DisableRegistrarOverrides = proto.Bool(true)
			}
			w := &pb.C2SWrapper{RegistrationPayload: c2s, SharedSecret: make([]byte, 32)}
			r.Read(w.SharedSecret)
			if r.Intn(3) == 0 { // forged registrar-only fields
				w.RegistrationResponse = &pb.RegistrationResponse{Ipv4Addr: proto.Uint32(0x0b0b0b0b), DstPort: proto.Uint32(1)}
				w.RegRespBytes = []byte{0x18, 0x50}
				w.RegRespSignature = bytes.Repeat([]byte{1}, 64)
			}
			body, _ := proto.Marshal(w)
			bd := r.Intn(4) != 0
			route := "register"
			if bd {
				route = "register-bidirectional"
			}
			plan := verifC12RandPlan(r)
			desc := map[string]interface{}{"route": route, "auth": auth, "transport": tt.String(), "fault": plan.Errno + "/" + plan.Pattern, "wrapper_hex": kit.Hex(body)}
			rec.CaseCheap(desc)
			snd.reset(plan)

			req := httptest.NewRequest("POST", "/"+route, bytes.NewReader(body))
			req.RemoteAddr = fmt.Sprintf("%d.%d.%d.%d:%d", 1+r.Intn(222), r.Intn(256), r.Intn(256), 1+r.Intn(254), 1024+r.Intn(60000))
			rw := httptest.NewRecorder()
			if bd {
				s.registerBidirectional(rw, req)
			} else {
				s.register(rw, req)
			}
			told := rw.Code >= 200 && rw.Code < 300
			rec.Count("evaluations", 1)
			rec.Count(fmt.Sprintf("status_%dxx", rw.Code/100), 1)
			rec.Distinct("nontrivial", route, auth, tt, plan.Errno, plan.Pattern, rw.Code, len(snd.msgs))
			if plan.Pattern != "" {
				rec.Count("send_fault_cases", 1)
			}
			if !told {
				continue
			}
			if len(snd.msgs) == 0 {
				sig := "api:told-client-but-no-message-accepted:" + route
				if plan.Pattern != "" {
					sig += ":" + plan.class()
				}
				rec.Violation(sig, fmt.Sprintf("the API answered %d although the socket accepted no message for the stations", rw.Code),
					map[string]interface{}{"send_attempts": snd.attempts, "failed_attempts": snd.failed, "fault": plan.Errno + "/" + plan.Pattern})
				continue
			}
			for _, b := range snd.msgs {
				fw := &pb.C2SWrapper{}
				if err := proto.Unmarshal(b, fw); err != nil {
					rec.Violation("api:forwarded-bytes-unparsable", "the accepted message is not a C2SWrapper", err.Error())
					continue
				}
				if !bd {
					if fw.RegistrationResponse != nil || len(fw.RegRespBytes) > 0 || len(fw.RegRespSignature) > 0 {
						rec.Violation("api:forged-fields-survive:unidirectional", "registrar-only fields in a forwarded unidirectional registration", nil)
					}
					continue
				}
				told := &pb.RegistrationResponse{}
				if err := proto.Unmarshal(rw.Body.Bytes(), told); err != nil {
					rec.Violation("api:body-unparsable", "the 200 body is not a RegistrationResponse", err.Error())
					continue
				}
				if d := verifC12RespDiff(told, fw.GetRegistrationResponse()); d != "" || fw.RegistrationResponse == nil {
					rec.Violation("api:returned-vs-forwarded:"+d, "the HTTP body differs from the response carried in the accepted message in "+d,
						map[string]string{"told": told.String(), "forwarded": fw.GetRegistrationResponse().String()})
				}
				if c2s.GetDisableRegistrarOverrides() && told.GetTransportParams() != nil {
					rec.Violation("api:overrides-though-disabled", "transport parameters sent to a client that disabled overrides", told.String())
				}
				// the client's own phantom (the API replaces an outdated generation by the server's, 957) must stay when excluded
				if v4 := told.GetIpv4Addr(); v4 != 0 && c2s.GetV4Support() {
					ip := net.IPv4(byte(v4>>24), byte(v4>>16), byte(v4>>8), byte(v4))
					keys, kerr := core.GenSharedKeys(uint(c2s.GetClientLibVersion()), w.SharedSecret, tt)
					if kerr == nil {
						if own, err := refer.Select(keys.ConjureSeed, 957, uint(c2s.GetClientLibVersion()), false); err == nil && own != nil {
							switch {
							case excl(*own.IP()) && !ip.Equal(*own.IP()):
								rec.Violation("api:excluded-phantom-replaced", "the client's own v4 phantom lies in an excluded subnet but the HTTP body carries another one",
									map[string]string{"own": own.IP().String(), "told": ip.String()})
							case excl(*own.IP()):
								rec.Count("own_phantom_in_exclusion_kept", 1)
							case !ip.Equal(*own.IP()):
								rec.Count("substituted", 1)
							}
						}
					}
				}
			}
		}
		if auth {
			zmq.AuthStop()
		}
	}
}
