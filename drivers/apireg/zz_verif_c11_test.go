//go:build verif

package apiregserver

// C11 – entry point (3): APIRegServer.register / registerBidirectional behind a real net/http
// server (httptest, loopback TCP, the same two routes ListenAndServe installs) in front of a real
// RegProcessor (authenticated constructor, override subnets, the registration server's four
// transports) whose ZMQ socket is a recorder.
//
// Oracle: EVERY exchange ends with a status line.  net/http recovers a handler panic itself and just
// closes the connection, so a panic shows at the client as "connection closed, no status"; the
// monitor then picks the panic out of the server's error log (matched by the client's port) to name
// the innermost repository frame.  A request that gets no answer within 30 s is retried alone with
// 60 s before a hang is reported.
//
// Input framing (so that a witness is self-contained and the fuzzer can vary everything):
//   In[0] = selector: bits 1-3 X-Forwarded-For variant, bits 4-7 request shape (0-11 POST with exact
//   Content-Length, 12 chunked, 13 GET, 14 Content-Length shorter than the body, 15 longer + half-close)
//   In[1:] = request body

import (
	"bufio"
	"bytes"
	"crypto/ed25519"
	"fmt"
	"io"
	golog "log"
	"math/rand"
	"net"
	"net/http"
	"net/http/httptest"
	"os"
	"strings"
	"sync"
	"sync/atomic"
	"syscall"
	"testing"
	"time"

	"github.com/gorilla/mux"
	zmq "github.com/pebbe/zmq4"
	logrus "github.com/sirupsen/logrus"
	"google.golang.org/protobuf/proto"

	"github.com/refraction-networking/conjure/internal/conjurepath"
	kit "github.com/refraction-networking/conjure/internal/verifkit"
	"github.com/refraction-networking/conjure/pkg/metrics"
	"github.com/refraction-networking/conjure/pkg/regserver/regprocessor"
	"github.com/refraction-networking/conjure/pkg/station/lib"
	"github.com/refraction-networking/conjure/pkg/transports/connecting/dtls"
	"github.com/refraction-networking/conjure/pkg/transports/wrapping/min"
	"github.com/refraction-networking/conjure/pkg/transports/wrapping/obfs4"
	"github.com/refraction-networking/conjure/pkg/transports/wrapping/prefix"
	pb "github.com/refraction-networking/conjure/proto"
)

type verifC11Sender struct {
	mu sync.Mutex
	n  int
}

func (s *verifC11Sender) SendBytes(b []byte, _ zmq.Flag) (int, error) {
	s.mu.Lock()
	s.n++
	s.mu.Unlock()
	return len(b), nil
}
func (s *verifC11Sender) Close() error { return nil }

// verifC11ErrLog captures net/http's error log ("http: panic serving ADDR: ..." + goroutine trace).
type verifC11ErrLog struct {
	mu     sync.Mutex
	byAddr map[string]string
	n      int
}

func (l *verifC11ErrLog) Write(p []byte) (int, error) {
	s := string(p)
	if i := strings.Index(s, "http: panic serving "); i >= 0 {
		rest := s[i+len("http: panic serving "):]
		if j := strings.Index(rest, ": "); j > 0 {
			l.mu.Lock()
			if l.byAddr == nil {
				l.byAddr = map[string]string{}
			}
			l.byAddr[rest[:j]] = rest[j+2:]
			l.n++
			l.mu.Unlock()
		}
	}
	return len(p), nil
}

func (l *verifC11ErrLog) take(addr string, wait time.Duration) (string, bool) {
	deadline := time.Now().Add(wait)
	for {
		l.mu.Lock()
		s, ok := l.byAddr[addr]
		if ok {
			delete(l.byAddr, addr)
		}
		l.mu.Unlock()
		if ok || time.Now().After(deadline) {
			return s, ok
		}
		time.Sleep(time.Millisecond)
	}
}

type verifC11API struct {
	s      *APIRegServer
	router *mux.Router
	srv    *httptest.Server
	addr   string
	elog   *verifC11ErrLog
	snd    *verifC11Sender
	rec    *kit.Rec
	pool   chan *verifC11Conn
	dead   atomic.Bool // the server stopped answering even a control request: stop sending
}

type verifC11Conn struct {
	c  net.Conn
	br *bufio.Reader
}

func verifC11Net(cidr string) regprocessor.Ipnet {
	var n regprocessor.Ipnet
	if err := n.UnmarshalText([]byte(cidr)); err != nil {
		panic(err)
	}
	return n
}

func verifC11APISetup(t testing.TB, listen bool) *verifC11API {
	// A server that sizes a buffer by the announced Content-Length would try to allocate gigabytes per
	// request; cap this process's address space so that such a defect ends THIS child ("fatal error: out
	// of memory", reported as a crash) instead of exhausting the machine the other checks run on.
	lim := syscall.Rlimit{Cur: 12 << 30, Max: 12 << 30}
	_ = syscall.Setrlimit(syscall.RLIMIT_AS, &lim)
	os.Setenv("PHANTOM_SUBNET_LOCATION", conjurepath.Root+"/pkg/station/lib/test/phantom_subnets.toml")
	lg := logrus.New()
	lg.SetOutput(io.Discard)
	lg.SetLevel(logrus.TraceLevel) // every log line of the handlers is formatted
	met := metrics.NewMetrics(logrus.NewEntry(lg), 24*time.Hour)
	seed := make([]byte, ed25519.SeedSize)
	kit.Rand("c11-registrar-key").Read(seed)
	overrides := []regprocessor.Subnet{
		{CIDR: verifC11Net("10.10.0.0/24"), Weight: 2, Port: 443, Transport: "Min_Transport"},
		{CIDR: verifC11Net("10.20.0.0/24"), Weight: 1.5, Port: 80, Transport: "Prefix_Transport", PrefixId: prefix.GetLong},
		{CIDR: verifC11Net("10.20.1.0/30"), Weight: 1, Port: 22, Transport: "Prefix_Transport", PrefixId: prefix.OpenSSH2},
	}
	rp, err := regprocessor.NewRegProcessor("127.0.0.1", 0, ed25519.NewKeyFromSeed(seed), false, nil, met, true, overrides, nil, 50, 50)
	if err != nil {
		t.Fatalf("cannot build the registrar (infrastructure): %v", err)
	}
	h := &verifC11API{snd: &verifC11Sender{}, elog: &verifC11ErrLog{}, pool: make(chan *verifC11Conn, 64)}
	rp.VerifC11SetSender(h.snd)
	for tt, tr := range map[pb.TransportType]lib.Transport{ // cmd/registration-server/main.go defaultTransports
		pb.TransportType_Min: min.Transport{}, pb.TransportType_Obfs4: obfs4.Transport{}, pb.TransportType_Prefix: prefix.DefaultSet(), pb.TransportType_DTLS: dtls.Transport{},
	} {
		if err := rp.AddTransport(tt, tr); err != nil {
			t.Fatal(err)
		}
	}
	// the server's ClientConf is the current generation of the subnet file (957): clients at 957 are up to
	// date, clients at 1 / 2 / 0 / absent are outdated and get the server's ClientConf
	cc := &pb.ClientConf{Generation: proto.Uint32(957), DecoyList: &pb.DecoyList{TlsDecoys: []*pb.TLSDecoySpec{{Hostname: proto.String("decoy.example")}}}}
	h.s, err = NewAPIRegServer(0, rp, cc, lg.WithField("registrar", "API"), true, met)
	if err != nil {
		t.Fatal(err)
	}
	h.router = mux.NewRouter() // the routes of ListenAndServe
	h.router.HandleFunc("/register", h.s.register)
	h.router.HandleFunc("/register-bidirectional", h.s.registerBidirectional)
	if listen {
		h.srv = httptest.NewUnstartedServer(h.router)
		h.srv.Config.ErrorLog = golog.New(h.elog, "", 0)
		h.srv.Start()
		h.addr = h.srv.Listener.Addr().String()
	}
	return h
}

var verifC11XFF = [][]string{nil, {"203.0.113.77"}, {"10.0.0.1, 203.0.113.77"}, {"garbage"}, {"198.51.100.1", "203.0.113.9, 127.0.0.1"}, {"2001:db8::5"}, {", ,"},
	{strings.Repeat("1.2.3.4, ", 200) + "5.6.7.8"}}

// verifRequest renders the request bytes for an input.
func verifC11Request(path string, in []byte) (req []byte, shape int, halfClose bool) {
	sel := byte(0)
	body := in
	if len(in) > 0 {
		sel, body = in[0], in[1:]
	}
	shape = int(sel >> 4)
	var b bytes.Buffer
	method := "POST"
	if shape == 13 {
		method = "GET"
	}
	fmt.Fprintf(&b, "%s %s HTTP/1.1\r\nHost: registrar.example\r\n", method, path)
	for _, v := range verifC11XFF[(sel>>1)&7] {
		fmt.Fprintf(&b, "X-Forwarded-For: %s\r\n", v)
	}
	switch shape {
	case 12:
		b.WriteString("Transfer-Encoding: chunked\r\n\r\n")
		for len(body) > 0 {
			n := len(body)
			if n > 37 {
				n = 37
			}
			fmt.Fprintf(&b, "%x\r\n", n)
			b.Write(body[:n])
			b.WriteString("\r\n")
			body = body[n:]
		}
		b.WriteString("0\r\n\r\n")
	case 14:
		fmt.Fprintf(&b, "Content-Length: %d\r\nConnection: close\r\n\r\n", len(body)/2)
		b.Write(body)
	case 15:
		fmt.Fprintf(&b, "Content-Length: %d\r\nConnection: close\r\n\r\n", len(body)+1+len(body)/3)
		b.Write(body)
		halfClose = true
	default:
		fmt.Fprintf(&b, "Content-Length: %d\r\n\r\n", len(body))
		b.Write(body)
	}
	return b.Bytes(), shape, halfClose
}

// verifExchange sends one request and reads the status line.  status 0 = the exchange ended
// without one.
func (h *verifC11API) verifExchange(req []byte, halfClose, fresh bool, wait time.Duration) (status int, local string, reused bool, err error) {
	var vc *verifC11Conn
	if !halfClose && !fresh {
		select {
		case vc = <-h.pool:
			reused = true
		default:
		}
	}
	if vc == nil {
		c, err := net.Dial("tcp", h.addr)
		if err != nil {
			return -1, "", false, err
		}
		vc = &verifC11Conn{c: c, br: bufio.NewReader(c)}
	}
	local = vc.c.LocalAddr().String()
	vc.c.SetDeadline(time.Now().Add(wait))
	if _, err = vc.c.Write(req); err != nil {
		// a pooled connection the server has closed meanwhile: not an observation about this request
		vc.c.Close()
		return -1, local, reused, err
	}
	if halfClose {
		vc.c.(*net.TCPConn).CloseWrite()
	}
	resp, err := http.ReadResponse(vc.br, nil)
	if err != nil {
		vc.c.Close()
		return 0, local, reused, err
	}
	_, cerr := io.Copy(io.Discard, resp.Body)
	resp.Body.Close()
	if cerr != nil || resp.Close || halfClose || vc.br.Buffered() > 0 {
		vc.c.Close()
	} else {
		select {
		case h.pool <- vc:
		default:
			vc.c.Close()
		}
	}
	return resp.StatusCode, local, reused, nil
}

// verifStillAnswers is the CONTROL after a request stayed unanswered: an ordinary POST on a fresh
// connection, which a healthy server answers (400 for this body).  If the control gets no answer within
// 30 s either, the one server of this run no longer serves: reported once with the stacks of the
// goroutines sitting in the registrar's handlers, and the run stops sending.
func (h *verifC11API) verifStillAnswers(after string) {
	if h.dead.Load() {
		return
	}
	req := []byte("POST /register HTTP/1.1\r\nHost: registrar.example\r\nContent-Length: 40\r\nConnection: close\r\n\r\n" + strings.Repeat("x", 40))
	status, _, _, err := h.verifExchange(req, false, true, 30*time.Second)
	if status > 0 {
		h.rec.Count("controls_answered_after_an_unanswered_request", 1)
		return
	}
	if !h.dead.CompareAndSwap(false, true) {
		return
	}
	gs := kit.InFunc(kit.Stacks(), "apiregserver.(*APIRegServer)", "regprocessor.(*RegProcessor)")
	sample := ""
	if len(gs) > 0 {
		sample = gs[0].Raw
	}
	h.rec.Violation("hang:api-server:no-longer-answers", "after an unanswered request ("+after+") an ordinary control request on a fresh connection got no answer within 30 s either: the server no longer serves",
		map[string]interface{}{"client_error": fmt.Sprint(err), "goroutines_in_handlers": len(gs), "sample_stack": sample})
}

func (h *verifC11API) verifExec(entry, path string) func(c *kit.C11Case) string {
	return func(c *kit.C11Case) string {
		if h.dead.Load() {
			return "not-sent(server no longer answers)"
		}
		req, shape, halfClose := verifC11Request(path, c.In)
		var status int
		var local string
		var err error
		var reused bool
		for try := 0; try < 4; try++ {
			status, local, reused, err = h.verifExchange(req, halfClose, try > 0, 30*time.Second)
			if status == 0 && reused {
				// a kept-alive connection may have been closed by the server for reasons of its own: only an
				// exchange on a fresh connection counts
				h.rec.Count("retried_on_fresh_connection", 1)
				continue
			}
			if status != -1 {
				break
			}
		}
		if status == -1 {
			panic(fmt.Sprintf("verif infrastructure: cannot reach the test server: %v", err))
		}
		if status == 0 {
			if ne, ok := err.(net.Error); ok && ne.Timeout() {
				// no answer in 30 s: once more, alone on a fresh connection, with 60 s
				status, local, _, err = h.verifExchange(req, halfClose, true, 60*time.Second)
				if status == 0 {
					if ne, ok := err.(net.Error); ok && ne.Timeout() {
						w := kit.C11Witness(c.In)
						w["entry"], w["request_first_line"] = entry, strings.SplitN(string(req), "\r\n", 2)[0]
						h.rec.Violation("hang:"+entry+":no-response-in-60s", "an HTTP registration request got no answer within 60 s (retried alone)", w)
						h.verifStillAnswers(entry)
						return "NO-ANSWER"
					}
				}
			}
		}
		if status == 0 {
			trace, found := h.elog.take(local, 3*time.Second)
			w := kit.C11Witness(c.In)
			w["entry"], w["kind"], w["client_error"] = entry, c.Kind, fmt.Sprint(err)
			w["request_first_line"] = strings.SplitN(string(req), "\r\n", 2)[0]
			// input class (part of the signature, so that another panic in the same function is a different finding)
			class := "undecodable-body"
			if len(c.In) > 0 {
				pw := &pb.C2SWrapper{}
				if proto.Unmarshal(c.In[1:], pw) == nil {
					class = "registration_payload-present"
					if pw.RegistrationPayload == nil {
						class = "registration_payload-absent"
					}
				}
			}
			w["input_class"] = class
			if found {
				frame := kit.C11FrameFromTrace(trace) + ":" + class
				first := strings.SplitN(trace, "\n", 2)[0]
				w["panic"], w["server_log"] = first, verifC11Trim(trace, 1500)
				h.rec.Violation("panic:"+entry+":"+frame, "HTTP exchange ended without a status line: the handler panicked ("+first+"), net/http recovered it and closed the connection", w)
			} else {
				h.rec.Violation("http-no-status:"+entry+":"+class, "HTTP exchange ended without a status line (connection closed / malformed response) and no handler panic was logged", w)
			}
			return "NO-STATUS"
		}
		_ = shape
		return fmt.Sprintf("status-%d", status)
	}
}

func verifC11Trim(s string, n int) string {
	if len(s) > n {
		return s[:n]
	}
	return s
}

func verifC11APIGen(r *rand.Rand, idx int) kit.C11Case {
	var c kit.C11Case
	switch x := r.Intn(20); {
	case x < 1: // below the server's minimum length
		c = kit.C11Case{In: kit.C11Random(r, 32), Kind: "short-body"}
	default:
		c = kit.C11WrapperInput(r, false)
	}
	sel := byte(r.Intn(256))
	switch x := r.Intn(100); {
	case x < 90:
		sel = sel&0x0f | byte(r.Intn(12))<<4 // plain POST
	case x < 94:
		sel = sel&0x0f | 12<<4
	case x < 97:
		sel = sel&0x0f | 13<<4
	case x < 99:
		sel = sel&0x0f | 14<<4
	default:
		sel = sel&0x0f | 15<<4
	}
	c.In = append([]byte{sel}, c.In...)
	return c
}

func TestVerifC11API(t *testing.T) {
	rec := kit.NewRec("C11", "registrar-http")
	defer rec.Close()
	h := verifC11APISetup(t, true)
	defer h.srv.Close()
	h.rec = rec
	n := kit.Tier(40000, 400000) // per endpoint; thorough is scaled down from 2 M (a TCP exchange per case)
	for _, e := range []struct{ entry, path string }{
		{"apiregserver.registerBidirectional", "/register-bidirectional"},
		{"apiregserver.register", "/register"},
	} {
		kit.C11Drive(rec, kit.C11Entry{Name: e.entry, N: n, Workers: 8, Budget: 200 * time.Second,
			Gen: verifC11APIGen, Exec: h.verifExec(e.entry, e.path), SampleEvery: 5000})
	}
	h.verifRawDrive(rec) // request framing over raw sockets, see zz_verif_c11_raw_test.go
	rec.Count("messages_handed_to_zmq", h.snd.n)
	rec.Count("handler_panics_logged_by_net_http", h.elog.n)
}

// The coverage-guided targets call the handlers directly (no sockets); what they find is re-run by
// the orchestrator through TestVerifC11API, i.e. over TCP.
func verifC11APIFuzz(f *testing.F, entry, path string) {
	h := verifC11APISetup(f, false)
	for _, s := range kit.C11Seeds(entry, 300, verifC11APIGen) {
		f.Add(s)
	}
	f.Fuzz(func(t *testing.T, b []byte) {
		p := kit.C11FuzzOne(entry, b, func() {
			sel := byte(0)
			body := b
			if len(b) > 0 {
				sel, body = b[0], b[1:]
			}
			method := "POST"
			if sel>>4 == 13 {
				method = "GET"
			}
			req := httptest.NewRequest(method, path, bytes.NewReader(body))
			switch sel >> 4 {
			case 12:
				req.ContentLength = -1
			case 14:
				req.ContentLength = int64(len(body) / 2)
			case 15: // the announced length is the client's to choose, independently of the body
				req.ContentLength = []int64{int64(len(body)) + 1, int64(len(body)) + 1000000, 1<<31 - 1, 1 << 31, 1 << 49, 1 << 62, 1<<63 - 1}[int(sel&0x0f)%7]
			}
			for _, v := range verifC11XFF[(sel>>1)&7] {
				req.Header.Add("X-Forwarded-For", v)
			}
			req.RemoteAddr = "203.0.113.50:40000"
			h.router.ServeHTTP(httptest.NewRecorder(), req)
		})
		if p != nil && os.Getenv("VERIF_C11_FUZZ_OUT") == "" {
			t.Fatalf("panic in %s: %s\n%v", p.Frame, p.Val, p.Stack)
		}
	})
}

func FuzzVerifC11APIBidirectional(f *testing.F) {
	verifC11APIFuzz(f, "apiregserver.registerBidirectional", "/register-bidirectional")
}
func FuzzVerifC11APIRegister(f *testing.F) { verifC11APIFuzz(f, "apiregserver.register", "/register") }
