//go:build verif

package apiregserver

// C11 – entry point (3), request FRAMING: raw-socket HTTP exchanges with the same real server
// (added after the round-3 seeded change C11-E was missed: the first API workload only sent requests
// whose Content-Length described the body, apart from a slightly longer / shorter one).
//
// The request bytes are written by the driver itself over a TCP connection, so the header varies
// independently of the body:
//   Content-Length  absent, 0, body-1, body+1, body+10^6, 2^31-1, 2^31, 2^62, 2^63-1, 2^63, 2^64, -1,
//                   "+5", "0x10", " 5", "5 ", duplicated with equal / different values, together with
//                   Transfer-Encoding: chunked
//   chunked bodies  valid, bad chunk size, huge chunk size announced, truncated
//   other           HTTP/1.0 without a length then close, Expect: 100-continue, body in pieces,
//                   half-close in the middle of the body, one oversized header, very many headers,
//                   GET with a huge Content-Length
// on both endpoints, with valid, invalid and too-short protobuf bodies.  After the last byte the
// client half-closes, so the server is never left waiting for bytes that will not come.
//
// Oracle: every exchange whose request line and headers were complete must end with a (final, i.e.
// non-1xx) status line – whether it comes from the handler or from net/http's own framing checks;
// a connection closed without one is a violation: panic:<entry>:<innermost repository frame>:<framing
// class> if net/http logged a recovered handler panic for this connection, http-no-status:… else.
// No answer within 30 s: retried alone with 60 s, then hang:…, else inconclusive.
//
// Input framing: In[0] = variant (index into verifC11RawVariants, modulo), In[1:] = body.

import (
	"bufio"
	"bytes"
	"fmt"
	"io"
	"math/rand"
	"net"
	"net/http"
	"strings"
	"sync/atomic"
	"time"

	kit "github.com/refraction-networking/conjure/internal/verifkit"
)

type verifC11RawVariant struct {
	name  string
	class string // part of the signature
	// build returns the pieces to write (a pause of 2 ms between them)
	build func(path string, body []byte) [][]byte
}

func verifC11RawCL(name, class string, cl func(n int) []string) verifC11RawVariant {
	return verifC11RawVariant{name, class, func(path string, body []byte) [][]byte {
		var b bytes.Buffer
		fmt.Fprintf(&b, "POST %s HTTP/1.1\r\nHost: registrar.example\r\n", path)
		for _, v := range cl(len(body)) {
			fmt.Fprintf(&b, "Content-Length:%s\r\n", v)
		}
		b.WriteString("\r\n")
		b.Write(body)
		return [][]byte{b.Bytes()}
	}}
}

func verifC11RawOne(v string) func(int) []string { return func(int) []string { return []string{" " + v} } }

func verifC11Chunked(body []byte, sz int) []byte {
	var b bytes.Buffer
	for len(body) > 0 {
		n := len(body)
		if n > sz {
			n = sz
		}
		fmt.Fprintf(&b, "%x\r\n", n)
		b.Write(body[:n])
		b.WriteString("\r\n")
		body = body[n:]
	}
	b.WriteString("0\r\n\r\n")
	return b.Bytes()
}

func verifC11RawHead(method, path, proto string, hdr ...string) string {
	s := fmt.Sprintf("%s %s %s\r\nHost: registrar.example\r\n", method, path, proto)
	for _, h := range hdr {
		s += h + "\r\n"
	}
	return s + "\r\n"
}

var verifC11RawVariants = []verifC11RawVariant{
	verifC11RawCL("cl-absent", "cl-absent", func(int) []string { return nil }),
	verifC11RawCL("cl=0", "cl-below-body", verifC11RawOne("0")),
	verifC11RawCL("cl=body-1", "cl-below-body", func(n int) []string { return []string{fmt.Sprintf(" %d", n-1)} }),
	verifC11RawCL("cl=body", "cl-exact", func(n int) []string { return []string{fmt.Sprintf(" %d", n)} }),
	verifC11RawCL("cl=body+1", "cl-exceeds-body", func(n int) []string { return []string{fmt.Sprintf(" %d", n+1)} }),
	verifC11RawCL("cl=body+10^6", "cl-exceeds-body", func(n int) []string { return []string{fmt.Sprintf(" %d", n+1000000)} }),
	verifC11RawCL("cl=2^31-1", "cl-exceeds-body", verifC11RawOne("2147483647")),
	verifC11RawCL("cl=2^31", "cl-exceeds-body", verifC11RawOne("2147483648")),
	verifC11RawCL("cl=2^49", "cl-exceeds-body", verifC11RawOne("562949953421312")),
	verifC11RawCL("cl=2^62", "cl-exceeds-body", verifC11RawOne("4611686018427387904")),
	verifC11RawCL("cl=2^63-1", "cl-exceeds-body", verifC11RawOne("9223372036854775807")),
	verifC11RawCL("cl=2^63", "cl-invalid", verifC11RawOne("9223372036854775808")),
	verifC11RawCL("cl=2^64", "cl-invalid", verifC11RawOne("18446744073709551616")),
	verifC11RawCL("cl=-1", "cl-invalid", verifC11RawOne("-1")),
	verifC11RawCL("cl=+5", "cl-invalid", verifC11RawOne("+5")),
	verifC11RawCL("cl=0x10", "cl-invalid", verifC11RawOne("0x10")),
	verifC11RawCL("cl=' 5'", "cl-below-body", func(int) []string { return []string{"  5"} }),
	verifC11RawCL("cl='5 '", "cl-below-body", func(int) []string { return []string{" 5 "} }),
	verifC11RawCL("cl-duplicate-equal", "cl-duplicate", func(n int) []string { return []string{fmt.Sprintf(" %d", n), fmt.Sprintf(" %d", n)} }),
	verifC11RawCL("cl-duplicate-different", "cl-duplicate", func(n int) []string { return []string{fmt.Sprintf(" %d", n), " 9223372036854775807"} }),
	verifC11RawCL("cl-list", "cl-duplicate", func(n int) []string { return []string{fmt.Sprintf(" %d, %d", n, n)} }),
	{"cl+chunked", "chunked", func(path string, body []byte) [][]byte {
		return [][]byte{append([]byte(verifC11RawHead("POST", path, "HTTP/1.1", "Content-Length: 4611686018427387904", "Transfer-Encoding: chunked")), verifC11Chunked(body, 50)...)}
	}},
	{"chunked-valid", "chunked", func(path string, body []byte) [][]byte {
		return [][]byte{append([]byte(verifC11RawHead("POST", path, "HTTP/1.1", "Transfer-Encoding: chunked")), verifC11Chunked(body, 31)...)}
	}},
	{"chunked-bad-size", "chunked", func(path string, body []byte) [][]byte {
		return [][]byte{append([]byte(verifC11RawHead("POST", path, "HTTP/1.1", "Transfer-Encoding: chunked")+"zz\r\n"), body...)}
	}},
	{"chunked-huge-size-announced", "chunked", func(path string, body []byte) [][]byte {
		return [][]byte{append([]byte(verifC11RawHead("POST", path, "HTTP/1.1", "Transfer-Encoding: chunked")+"7fffffffffffffff\r\n"), body...)}
	}},
	{"chunked-size-overflow", "chunked", func(path string, body []byte) [][]byte {
		return [][]byte{append([]byte(verifC11RawHead("POST", path, "HTTP/1.1", "Transfer-Encoding: chunked")+"ffffffffffffffffff\r\n"), body...)}
	}},
	{"chunked-truncated", "chunked", func(path string, body []byte) [][]byte {
		c := verifC11Chunked(body, 40)
		return [][]byte{append([]byte(verifC11RawHead("POST", path, "HTTP/1.1", "Transfer-Encoding: chunked")), c[:len(c)*2/3]...)}
	}},
	{"http/1.0-no-length", "cl-absent", func(path string, body []byte) [][]byte {
		return [][]byte{append([]byte(verifC11RawHead("POST", path, "HTTP/1.0")), body...)}
	}},
	{"http/1.0-huge-length", "cl-exceeds-body", func(path string, body []byte) [][]byte {
		return [][]byte{append([]byte(verifC11RawHead("POST", path, "HTTP/1.0", "Content-Length: 9223372036854775807")), body...)}
	}},
	{"expect-100-continue", "cl-exact", func(path string, body []byte) [][]byte {
		return [][]byte{[]byte(verifC11RawHead("POST", path, "HTTP/1.1", fmt.Sprintf("Content-Length: %d", len(body)), "Expect: 100-continue")), body}
	}},
	{"expect-100-continue-huge-length", "cl-exceeds-body", func(path string, body []byte) [][]byte {
		return [][]byte{[]byte(verifC11RawHead("POST", path, "HTTP/1.1", "Content-Length: 4611686018427387904", "Expect: 100-continue")), body}
	}},
	{"body-in-pieces", "cl-exact", func(path string, body []byte) [][]byte {
		out := [][]byte{[]byte(verifC11RawHead("POST", path, "HTTP/1.1", fmt.Sprintf("Content-Length: %d", len(body))))}
		for len(body) > 0 {
			n := 1 + len(body)/3
			out = append(out, body[:n])
			body = body[n:]
		}
		return out
	}},
	{"half-close-mid-body", "cl-exceeds-body", func(path string, body []byte) [][]byte {
		return [][]byte{append([]byte(verifC11RawHead("POST", path, "HTTP/1.1", fmt.Sprintf("Content-Length: %d", len(body)))), body[:len(body)/2]...)}
	}},
	{"oversized-header", "headers", func(path string, body []byte) [][]byte {
		return [][]byte{append([]byte(verifC11RawHead("POST", path, "HTTP/1.1", fmt.Sprintf("Content-Length: %d", len(body)), "X-Pad: "+strings.Repeat("p", 1<<20+4096))), body...)}
	}},
	{"very-many-headers", "headers", func(path string, body []byte) [][]byte {
		hs := []string{fmt.Sprintf("Content-Length: %d", len(body))}
		for i := 0; i < 3000; i++ {
			hs = append(hs, fmt.Sprintf("X-H%d: %d", i, i))
		}
		return [][]byte{append([]byte(verifC11RawHead("POST", path, "HTTP/1.1", hs...)), body...)}
	}},
	{"get-huge-length", "cl-exceeds-body", func(path string, body []byte) [][]byte {
		return [][]byte{append([]byte(verifC11RawHead("GET", path, "HTTP/1.1", "Content-Length: 9223372036854775807")), body...)}
	}},
	{"put-huge-length", "cl-exceeds-body", func(path string, body []byte) [][]byte {
		return [][]byte{append([]byte(verifC11RawHead("PUT", path, "HTTP/1.1", "Content-Length: 4611686018427387904")), body...)}
	}},
}

var verifC11RawSrc atomic.Uint32

// verifRawExchange writes the pieces, half-closes and reads up to the final status line.
func (h *verifC11API) verifRawExchange(pieces [][]byte, wait time.Duration) (status int, local string, err error) {
	// source addresses rotate over 127.0.0.2 … 127.0.0.250: every exchange needs a connection of its own
	// and the server closes first (TIME_WAIT), so one source address would run out of ports
	k := verifC11RawSrc.Add(1)
	d := net.Dialer{LocalAddr: &net.TCPAddr{IP: net.IPv4(127, 0, 0, byte(2+k%249))}, Timeout: 10 * time.Second}
	c, err := d.Dial("tcp", h.addr)
	if err != nil {
		return -1, "", err
	}
	defer c.Close()
	local = c.LocalAddr().String()
	c.SetDeadline(time.Now().Add(wait))
	for i, p := range pieces {
		if i > 0 {
			time.Sleep(2 * time.Millisecond)
		}
		if _, werr := c.Write(p); werr != nil {
			break // the server may answer and close before it has read everything (oversized headers): go on to read
		}
	}
	c.(*net.TCPConn).CloseWrite()
	br := bufio.NewReader(c)
	for {
		resp, rerr := http.ReadResponse(br, nil)
		if rerr != nil {
			return 0, local, rerr
		}
		if resp.StatusCode >= 200 {
			io.Copy(io.Discard, io.LimitReader(resp.Body, 1<<20))
			resp.Body.Close()
			return resp.StatusCode, local, nil
		}
		resp.Body.Close() // 1xx: the final response follows
	}
}

func (h *verifC11API) verifRawExec(entry, path string) func(c *kit.C11Case) string {
	return func(c *kit.C11Case) string {
		if h.dead.Load() {
			return "not-sent(server no longer answers)"
		}
		v := verifC11RawVariants[0]
		body := []byte(nil)
		if len(c.In) > 0 {
			v, body = verifC11RawVariants[int(c.In[0])%len(verifC11RawVariants)], c.In[1:]
		}
		pieces := v.build(path, body)
		var status int
		var local string
		var err error
		for try := 0; try < 3; try++ {
			if status, local, err = h.verifRawExchange(pieces, 30*time.Second); status != -1 {
				break
			}
			time.Sleep(50 * time.Millisecond)
		}
		if status == -1 {
			panic(fmt.Sprintf("verif infrastructure: cannot reach the test server: %v", err))
		}
		witness := func() map[string]interface{} {
			w := kit.C11Witness(c.In)
			w["entry"], w["kind"], w["framing_variant"], w["client_error"] = entry, c.Kind, v.name, fmt.Sprint(err)
			head := pieces[0]
			if i := bytes.Index(head, []byte("\r\n\r\n")); i >= 0 {
				head = head[:i]
			}
			w["request_head"] = verifC11Trim(string(head), 400)
			return w
		}
		if ne, ok := err.(net.Error); status == 0 && ok && ne.Timeout() {
			if status, local, err = h.verifRawExchange(pieces, 60*time.Second); status == 0 {
				if ne, ok := err.(net.Error); ok && ne.Timeout() {
					h.rec.Violation("hang:"+entry+":no-response-in-60s:"+v.class, "an HTTP registration request got no answer within 60 s (retried alone)", witness())
					h.verifStillAnswers(entry)
					return "NO-ANSWER"
				}
			}
		}
		if status == 0 {
			trace, found := h.elog.take(local, 3*time.Second)
			w := witness()
			if found {
				first := strings.SplitN(trace, "\n", 2)[0]
				w["panic"], w["server_log"] = first, verifC11Trim(trace, 1500)
				h.rec.Violation("panic:"+entry+":"+kit.C11FrameFromTrace(trace)+":"+v.class,
					"HTTP exchange ended without a status line: the handler panicked ("+first+"), net/http recovered it and closed the connection", w)
			} else {
				h.rec.Violation("http-no-status:"+entry+":"+v.class, "HTTP exchange with complete request line and headers ended without a status line and no handler panic was logged", w)
			}
			return "NO-STATUS"
		}
		return fmt.Sprintf("%s:status-%d", v.class, status)
	}
}

func verifC11RawGen(r *rand.Rand, idx int) kit.C11Case {
	var c kit.C11Case
	switch x := r.Intn(10); {
	case x < 1:
		c = kit.C11Case{In: kit.C11Random(r, 32), Kind: "short-body"}
	case x < 5: // a registration the server would accept
		w, _ := kit.C11Wrapper(r, false)
		c = kit.C11Case{In: kit.C11MarshalLoose(w), Kind: "pb"}
	default:
		c = kit.C11WrapperInput(r, false)
		c.Kind = strings.SplitN(c.Kind, ":", 2)[0]
	}
	v := idx % len(verifC11RawVariants) // every variant equally often
	c.Kind = verifC11RawVariants[v].name + "/" + c.Kind
	c.In = append([]byte{byte(v)}, c.In...)
	return c
}

func (h *verifC11API) verifRawDrive(rec *kit.Rec) {
	n := kit.Tier(3000, 60000) // per endpoint: every exchange is a TCP connection of its own
	for _, e := range []struct{ entry, path string }{
		{"apiregserver.registerBidirectional[raw framing]", "/register-bidirectional"},
		{"apiregserver.register[raw framing]", "/register"},
	} {
		kit.C11Drive(rec, kit.C11Entry{Name: e.entry, N: n, Workers: 16, Budget: 200 * time.Second,
			Gen: verifC11RawGen, Exec: h.verifRawExec(e.entry, e.path), SampleEvery: 499})
	}
}
