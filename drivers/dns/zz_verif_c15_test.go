//go:build verif

package dns

// C15 – DNS wire formats of the DNS registrar.  Monitors (all run the real NewName / WireFormat /
// MessageFromWireFormat / EncodeRDataTXT / DecodeRDataTXT):
//   txt       DecodeRDataTXT(EncodeRDataTXT(p)) == p for payload lengths 0..70000
//   names     every partition of a name into labels (label lengths 0..65, encoded length up to 258) is either refused by
//             NewName or survives Message{Question{name}} → WireFormat → MessageFromWireFormat unchanged
//   messages  generated messages (arbitrary sections, names sharing and nesting suffixes so that compression pointers and
//             chains of pointers occur, RR data up to and beyond 65535, section counts up to and beyond 65535):
//             WireFormat error, or MessageFromWireFormat(WireFormat(m)) == m
//   arbitrary decoders on arbitrary / mutated bytes must not panic, and what they decode must re-encode and decode to itself
// A value is only charged to the encoder if the package's own constructor accepted it (names go through NewName).

import (
	"bytes"
	"errors"
	"fmt"
	"math/rand"
	"runtime/debug"
	"strings"
	"testing"

	kit "github.com/refraction-networking/conjure/internal/verifkit"
)

func c15Try(f func()) (panicked bool, val interface{}, stack string) {
	defer func() {
		if r := recover(); r != nil {
			panicked, val, stack = true, r, string(debug.Stack())
		}
	}()
	f()
	return
}

// ---- comparison (nil and empty slices denote the same value on the wire) ---------------------------------------------

func c15NameEq(a, b Name) bool {
	if len(a) != len(b) {
		return false
	}
	for i := range a {
		if !bytes.Equal(a[i], b[i]) {
			return false
		}
	}
	return true
}

func c15RRDiff(sec string, a, b []RR) string {
	if len(a) != len(b) {
		return fmt.Sprintf("%s.count %d!=%d", sec, len(a), len(b))
	}
	for i := range a {
		switch {
		case !c15NameEq(a[i].Name, b[i].Name):
			return fmt.Sprintf("%s[%d].name %s != %s", sec, i, c15Short(a[i].Name.String()), c15Short(b[i].Name.String()))
		case a[i].Type != b[i].Type || a[i].Class != b[i].Class || a[i].TTL != b[i].TTL:
			return fmt.Sprintf("%s[%d].fixed-fields", sec, i)
		case !bytes.Equal(a[i].Data, b[i].Data):
			return fmt.Sprintf("%s[%d].data len %d vs %d", sec, i, len(a[i].Data), len(b[i].Data))
		}
	}
	return ""
}

// c15MsgDiff returns "" if the messages denote the same value, else (field class, description).
func c15MsgDiff(a, b *Message) (string, string) {
	if a.ID != b.ID || a.Flags != b.Flags {
		return "header", fmt.Sprintf("id/flags %04x/%04x != %04x/%04x", a.ID, a.Flags, b.ID, b.Flags)
	}
	if len(a.Question) != len(b.Question) {
		return "count", fmt.Sprintf("question.count %d!=%d", len(a.Question), len(b.Question))
	}
	for i := range a.Question {
		if !c15NameEq(a.Question[i].Name, b.Question[i].Name) {
			return "name", fmt.Sprintf("question[%d].name %s != %s", i, c15Short(a.Question[i].Name.String()), c15Short(b.Question[i].Name.String()))
		}
		if a.Question[i].Type != b.Question[i].Type || a.Question[i].Class != b.Question[i].Class {
			return "fixed-fields", fmt.Sprintf("question[%d] type/class", i)
		}
	}
	for _, s := range []struct {
		n    string
		x, y []RR
	}{{"answer", a.Answer, b.Answer}, {"authority", a.Authority, b.Authority}, {"additional", a.Additional, b.Additional}} {
		if d := c15RRDiff(s.n, s.x, s.y); d != "" {
			cls := "data"
			switch {
			case strings.Contains(d, ".count"):
				cls = "count"
			case strings.Contains(d, ".name"):
				cls = "name"
			case strings.Contains(d, "fixed-fields"):
				cls = "fixed-fields"
			}
			return cls, d
		}
	}
	return "", ""
}

func c15Short(s string) string {
	if len(s) > 120 {
		return s[:60] + "…" + s[len(s)-50:]
	}
	return s
}

func c15DescribeMsg(m *Message) map[string]interface{} {
	var names []string
	for _, q := range m.Question {
		names = append(names, c15Short(q.Name.String()))
	}
	rr := func(rs []RR) []string {
		var o []string
		for _, r := range rs {
			o = append(o, fmt.Sprintf("%s type=%d data=%dB", c15Short(r.Name.String()), r.Type, len(r.Data)))
		}
		return o
	}
	if len(names) > 20 {
		names = append(names[:20], fmt.Sprintf("…(%d)", len(m.Question)))
	}
	clip := func(s []string) []string {
		if len(s) > 20 {
			return append(s[:20], fmt.Sprintf("…(%d)", len(s)))
		}
		return s
	}
	return map[string]interface{}{"id": m.ID, "flags": m.Flags, "question": names, "answer": clip(rr(m.Answer)), "authority": clip(rr(m.Authority)), "additional": clip(rr(m.Additional))}
}

// ---- the message round-trip monitor -------------------------------------------------------------------------------------

// c15MaxLabels returns the largest number of labels of any name in m.  A name with L labels can make the decoder follow at
// most L compression pointers (every hop of a chain but the first passes at least one literal label), so messages whose
// names all have <= 10 labels can never need more pointers than the pinned decoder (limit 10) follows.
const c15SafeLabels = 10

func c15MaxLabels(m *Message) int {
	max := 0
	see := func(n Name) {
		if len(n) > max {
			max = len(n)
		}
	}
	for _, q := range m.Question {
		see(q.Name)
	}
	for _, rs := range [][]RR{m.Answer, m.Authority, m.Additional} {
		for _, r := range rs {
			see(r.Name)
		}
	}
	return max
}

// c15RoundTrip runs WireFormat and MessageFromWireFormat on m.  origin tags the signature: "generated" messages are built
// from NewName-accepted names by the driver, "redecoded" ones are what the real decoder produced from arbitrary bytes.
func c15RoundTrip(rec *kit.Rec, origin, desc string, m *Message) (ok bool) {
	rec.Count("evaluations", 1)
	var wire []byte
	var err error
	if pk, v, st := c15Try(func() { wire, err = m.WireFormat() }); pk {
		rec.Violation("dns:message:"+origin+":encoder-panic", "WireFormat panicked on a message whose names NewName accepted",
			map[string]interface{}{"case": desc, "message": c15DescribeMsg(m), "panic": fmt.Sprint(v), "stack": st})
		return false
	}
	if err != nil {
		rec.Count("rejected", 1)
		rec.Distinct("nontrivial", desc)
		rec.Distinct("reject_reasons", err.Error())
		return false
	}
	wireSnap := append([]byte(nil), wire...)
	var back Message
	var derr error
	if pk, v, st := c15Try(func() { back, derr = MessageFromWireFormat(wire) }); pk {
		rec.Violation("dns:message:"+origin+":decoder-panic-on-own-encoding", "MessageFromWireFormat panicked on bytes WireFormat produced",
			map[string]interface{}{"case": desc, "message": c15DescribeMsg(m), "wire": kit.HexN(wire, 64), "panic": fmt.Sprint(v), "stack": st})
		return false
	}
	if derr != nil {
		sig := "dns:message:" + origin + ":decoder-rejects-own-encoding"
		msg := "MessageFromWireFormat refused bytes that WireFormat produced without an error"
		if errors.Is(derr, ErrTooManyPointers) {
			// one signature for this defect whatever the origin or the depth
			// (the decoder's limit is part of the signature: a tree with another limit is another finding)
			sig = fmt.Sprintf("dns:message:compression-pointer-chain-longer-than-decoder-limit-%d", compressionPointerLimit)
			msg = "WireFormat compressed nested names into a chain of more compression pointers than MessageFromWireFormat is willing to follow"
		}
		rec.Violation(sig, msg, map[string]interface{}{"case": desc, "decode_error": derr.Error(), "max_labels_in_a_name": c15MaxLabels(m),
			"wire_len": len(wire), "wire": kit.HexN(wire, 96), "message": c15DescribeMsg(m)})
		return false
	}
	if !bytes.Equal(wire, wireSnap) {
		rec.Violation("dns:message:decoder-modifies-its-input", "MessageFromWireFormat changed the caller's buffer", map[string]interface{}{"case": desc, "first_wire_bytes": kit.HexN(wireSnap, 48)})
		copy(wire, wireSnap)
	}
	if back2, derr2 := MessageFromWireFormat(wire); derr2 != nil {
		rec.Violation("dns:message:second-decode-differs", "decoding the same bytes a second time fails", map[string]interface{}{"case": desc, "error": derr2.Error()})
	} else if cls, d := c15MsgDiff(&back, &back2); cls != "" {
		rec.Violation("dns:message:second-decode-differs", "decoding the same bytes twice gives two different messages", map[string]interface{}{"case": desc, "diff": d})
	}
	if cls, d := c15MsgDiff(m, &back); cls != "" {
		rec.Violation("dns:message:"+origin+":roundtrip-mismatch:"+cls, "MessageFromWireFormat(WireFormat(m)) != m",
			map[string]interface{}{"case": desc, "diff": d, "wire_len": len(wire), "wire": kit.HexN(wire, 96), "message": c15DescribeMsg(m)})
		return false
	}
	rec.Count("accepted_roundtrips", 1)
	rec.Distinct("nontrivial", desc)
	if bytes.Contains(wire, []byte{0xc0}) {
		rec.Count("wire_with_c0_byte", 1)
	}
	return true
}

// ---- generators ---------------------------------------------------------------------------------------------------------

// c15Label makes a label of n bytes; the alphabet includes what Name.String escapes and what its escapes look like.
func c15Label(rng *rand.Rand, n int) []byte {
	b := make([]byte, n)
	switch rng.Intn(6) {
	case 0: // host-like
		const a = "abcdefghijklmnopqrstuvwxyz0123456789-"
		for i := range b {
			b[i] = a[rng.Intn(len(a))]
		}
	case 1: // mixed case of a small alphabet: names differing only in case
		const a = "aAbB"
		for i := range b {
			b[i] = a[rng.Intn(len(a))]
		}
	case 2: // bytes that collide with the separator and the escape syntax of Name.String
		const a = ".\\x2e5cX-"
		for i := range b {
			b[i] = a[rng.Intn(len(a))]
		}
	case 3: // bytes that look like label-type / pointer prefixes and terminators
		a := []byte{0x00, 0xc0, 0xc1, 0x3f, 0x40, 0x80, 0xff, 0x0c}
		for i := range b {
			b[i] = a[rng.Intn(len(a))]
		}
	default:
		rng.Read(b)
	}
	return b
}

type c15NamePool struct {
	rng   *rand.Rand
	names []Name
	maxL  int // maximum labels per name (0 = only the 255-byte limit)
}

// next returns a NewName-accepted name: a fresh one, a repeat, a prefix-extension of a pooled name (nesting), a pooled
// name with one label changed in case or content (near miss for the compression cache), or a suffix of a pooled name.
func (p *c15NamePool) next(rec *kit.Rec) Name {
	for try := 0; try < 50; try++ {
		var labels [][]byte
		mode := p.rng.Intn(10)
		if len(p.names) == 0 {
			mode = 0
		}
		pick := func() Name { return p.names[p.rng.Intn(len(p.names))] }
		lab := func() []byte {
			n := 1 + p.rng.Intn(8)
			if p.rng.Intn(6) == 0 {
				n = 1 + p.rng.Intn(63)
			}
			return c15Label(p.rng, n)
		}
		switch mode {
		case 0, 1: // fresh
			k := p.rng.Intn(5)
			for i := 0; i < k; i++ {
				labels = append(labels, lab())
			}
		case 2: // repeat
			labels = append(labels, pick()...)
		case 3, 4, 5, 6: // extend in front (nesting → pointer to a name that itself ends in a pointer)
			base := pick()
			k := 1 + p.rng.Intn(2)
			for i := 0; i < k; i++ {
				labels = append(labels, lab())
			}
			labels = append(labels, base...)
		case 7: // suffix of a pooled name
			base := pick()
			if len(base) > 0 {
				labels = append(labels, base[p.rng.Intn(len(base)):]...)
			}
		case 8: // near miss: change the case of one label
			base := pick()
			for _, l := range base {
				labels = append(labels, append([]byte(nil), l...))
			}
			if len(labels) > 0 {
				i := p.rng.Intn(len(labels))
				if p.rng.Intn(2) == 0 {
					labels[i] = bytes.ToUpper(labels[i])
				} else {
					labels[i] = bytes.ToLower(labels[i])
				}
			}
		case 9: // near miss: split or join labels (same dotted text, different label structure)
			base := pick()
			for _, l := range base {
				labels = append(labels, append([]byte(nil), l...))
			}
			if len(labels) >= 2 && p.rng.Intn(2) == 0 {
				i := p.rng.Intn(len(labels) - 1)
				j := append(append(append([]byte(nil), labels[i]...), '.'), labels[i+1]...)
				labels = append(append(append([][]byte(nil), labels[:i]...), j), labels[i+2:]...)
			}
		}
		if p.maxL > 0 && len(labels) > p.maxL {
			labels = labels[len(labels)-p.maxL:]
		}
		var name Name
		var err error
		if pk, v, st := c15Try(func() { name, err = NewName(labels) }); pk {
			rec.Violation("dns:name:NewName-panic", "NewName panicked", map[string]interface{}{"labels": len(labels), "panic": fmt.Sprint(v), "stack": st})
			continue
		}
		if err != nil {
			rec.Count("generator_names_refused", 1)
			continue
		}
		if len(p.names) < 64 {
			p.names = append(p.names, name)
		} else {
			p.names[p.rng.Intn(len(p.names))] = name
		}
		return name
	}
	return Name{}
}

func c15GenMessage(rng *rand.Rand, rec *kit.Rec, maxLabels int, bigData bool) *Message {
	pool := &c15NamePool{rng: rng, maxL: maxLabels}
	m := &Message{ID: uint16(rng.Intn(65536)), Flags: uint16(rng.Intn(65536))}
	cnt := func() int {
		switch rng.Intn(4) {
		case 0:
			return 0
		case 1:
			return 1
		default:
			return rng.Intn(7)
		}
	}
	data := func() []byte {
		var n int
		switch r := rng.Intn(20); {
		case r < 6:
			n = 0
		case r < 14:
			n = rng.Intn(64)
		case r < 18:
			n = rng.Intn(1500)
		default:
			if bigData {
				n = []int{16000, 16383, 16384, 20000, 65534, 65535}[rng.Intn(6)]
			} else {
				n = rng.Intn(4000)
			}
		}
		if n == 0 && rng.Intn(2) == 0 {
			return nil
		}
		b := make([]byte, n)
		rng.Read(b)
		return b
	}
	for i, n := 0, cnt(); i < n; i++ {
		m.Question = append(m.Question, Question{Name: pool.next(rec), Type: uint16(rng.Intn(65536)), Class: uint16(rng.Intn(65536))})
	}
	for _, sec := range []*[]RR{&m.Answer, &m.Authority, &m.Additional} {
		for i, n := 0, cnt(); i < n; i++ {
			*sec = append(*sec, RR{Name: pool.next(rec), Type: uint16(rng.Intn(65536)), Class: uint16(rng.Intn(65536)), TTL: rng.Uint32(), Data: data()})
		}
	}
	return m
}

// ---- tests ----------------------------------------------------------------------------------------------------------------

func TestVerifC15TXT(t *testing.T) {
	rec := kit.NewRec("C15", "dns_txt")
	defer rec.Close()
	rng := kit.Rand("c15txt")
	var lens []int
	if kit.Thorough() {
		for n := 0; n <= 70000; n++ {
			lens = append(lens, n)
		}
		rec.Exhaustive("Encode/DecodeRDataTXT: every payload length 0..70000")
	} else {
		for n := 0; n <= 1100; n++ {
			lens = append(lens, n)
		}
		for n := 65000; n <= 66100; n++ {
			lens = append(lens, n)
		}
		for n := 1100; n <= 70000; n += 23 {
			lens = append(lens, n)
		}
		for k := 1; k*255 <= 70000; k++ { // every multiple of the chunk size and its neighbours
			lens = append(lens, k*255-1, k*255, k*255+1, k*256-1, k*256, k*256+1)
		}
		for i := 0; i < 300; i++ {
			lens = append(lens, rng.Intn(70001))
		}
		rec.Exhaustive("Encode/DecodeRDataTXT: every payload length 0..1100 and 65000..66100, every k*255±1 and k*256±1 up to 70000 (stride 23 + seeded lengths elsewhere)")
	}
	for _, n := range lens {
		if n > 70000 {
			continue
		}
		desc := fmt.Sprintf("txt len=%d", n)
		rec.CaseCheap(desc)
		rec.Count("evaluations", 1)
		p := make([]byte, n)
		for i := range p {
			p[i] = byte((i*73 + n + (i >> 8)) & 0xff)
		}
		if n%3 == 1 { // lengths-as-content: payload bytes that look like length octets
			for i := range p {
				p[i] = byte(255 - i%2)
			}
		}
		var enc, dec []byte
		var derr error
		if pk, v, st := c15Try(func() { enc = EncodeRDataTXT(p) }); pk {
			rec.Violation("dns:txt:encoder-panic", "EncodeRDataTXT panicked", map[string]interface{}{"case": desc, "panic": fmt.Sprint(v), "stack": st})
			continue
		}
		encSnap := append([]byte(nil), enc...)
		if pk, v, st := c15Try(func() { dec, derr = DecodeRDataTXT(enc) }); pk {
			rec.Violation("dns:txt:decoder-panic-on-own-encoding", "DecodeRDataTXT panicked on EncodeRDataTXT's output", map[string]interface{}{"case": desc, "panic": fmt.Sprint(v), "stack": st})
			continue
		}
		if !bytes.Equal(enc, encSnap) {
			rec.Violation("dns:txt:decoder-modifies-its-input", "DecodeRDataTXT changed the caller's buffer", map[string]interface{}{"case": desc})
			copy(enc, encSnap)
		}
		if dec2, derr2 := DecodeRDataTXT(enc); (derr2 == nil) != (derr == nil) || !bytes.Equal(dec2, dec) {
			rec.Violation("dns:txt:second-decode-differs", "decoding the same TXT-DATA twice gives two different results", map[string]interface{}{"case": desc})
		}
		if derr != nil || !bytes.Equal(dec, p) {
			d := map[string]interface{}{"case": desc, "encoded_len": len(enc), "encoded_head": kit.HexN(enc, 8)}
			if derr != nil {
				d["decode_error"] = derr.Error()
			} else {
				d["len_out"] = len(dec)
			}
			rec.Violation("dns:txt:roundtrip-mismatch", "DecodeRDataTXT(EncodeRDataTXT(p)) != p", d)
			continue
		}
		// the encoding must itself be TXT-DATA: one or more character-strings, none longer than 255 – implied by the
		// decoder accepting it; recorded, not judged
		rec.Count("accepted_roundtrips", 1)
		if n > 0 {
			rec.Distinct("nontrivial", desc)
		}
		if rec.WantSample() && (n == 255 || n == 256 || n == 65535) {
			rec.Sample(map[string]interface{}{"case": desc, "encoded_len": len(enc), "first_length_octet": enc[0], "decoded_equal": true})
		}
	}
	// decoder alone on arbitrary bytes
	for i, n := 0, kit.Tier(10000, 300000); i < n; i++ {
		b := make([]byte, rng.Intn(600))
		rng.Read(b)
		rec.CaseCheap("txt arbitrary " + kit.HexN(b, 8))
		if pk, v, st := c15Try(func() { DecodeRDataTXT(b) }); pk {
			rec.Violation("dns:txt:decoder-panic-on-arbitrary-bytes", "DecodeRDataTXT panicked", map[string]interface{}{"input": kit.HexN(b, 32), "panic": fmt.Sprint(v), "stack": st})
		}
		rec.Count("arbitrary_decodes", 1)
	}
}

// c15Partition splits total payload bytes into labels according to a scheme.
func c15Partition(rng *rand.Rand, scheme string, lens []int) [][]byte {
	var labels [][]byte
	for i, n := range lens {
		b := make([]byte, n)
		for j := range b {
			b[j] = "abcdefghijklmnopqrstuvwxyz"[(i+j)%26]
		}
		if scheme == "binary" {
			rng.Read(b)
		}
		labels = append(labels, b)
	}
	return labels
}

func TestVerifC15Names(t *testing.T) {
	rec := kit.NewRec("C15", "dns_names")
	defer rec.Close()
	rng := kit.Rand("c15names")

	run := func(kind string, lens []int, scheme string) {
		wire := 1
		for _, n := range lens {
			wire += 1 + n
		}
		desc := fmt.Sprintf("name %s labels=%s encoded_len=%d %s", kind, c15Lens(lens), wire, scheme)
		rec.CaseCheap(desc)
		labels := c15Partition(rng, scheme, lens)
		var name Name
		var err error
		if pk, v, st := c15Try(func() { name, err = NewName(labels) }); pk {
			rec.Count("evaluations", 1)
			rec.Violation("dns:name:NewName-panic", "NewName panicked", map[string]interface{}{"case": desc, "panic": fmt.Sprint(v), "stack": st})
			return
		}
		if err != nil {
			rec.Count("evaluations", 1)
			rec.Count("rejected", 1)
			rec.Distinct("nontrivial", desc)
			rec.Distinct("reject_reasons", strings.SplitN(err.Error(), ",", 2)[0])
			return
		}
		// NewName accepted: the name must now survive the message codec, alone and next to a name sharing its suffix
		m := &Message{ID: 0x1234, Flags: 0x0100, Question: []Question{{Name: name, Type: RRTypeTXT, Class: ClassIN}}}
		ok := c15RoundTripName(rec, desc, m)
		if ok && len(name) > 1 {
			m2 := &Message{ID: 1, Question: []Question{{Name: name[1:], Type: 1, Class: 1}, {Name: name, Type: 1, Class: 1}},
				Answer: []RR{{Name: name, Type: RRTypeTXT, Class: ClassIN, TTL: 60, Data: []byte{0}}}}
			c15RoundTripName(rec, desc+" +suffix-first", m2)
		}
	}

	// (1) a single label of every length 0..65, alone and in front of a suffix
	for n := 0; n <= 65; n++ {
		run("single", []int{n}, "ascii")
		run("single", []int{n}, "binary")
		run("before-suffix", []int{n, 7, 3}, "ascii")
		run("after-prefix", []int{5, n}, "ascii")
	}
	// (2) every encoded length 1..258 reached with the fewest labels (63-byte labels) and with 1-byte labels
	for wire := 2; wire <= 258; wire++ {
		rest := wire - 1
		var big []int
		for rest > 0 {
			l := rest - 1
			if l > 63 {
				l = 63
			}
			if l == 0 { // a lone length octet cannot be a label: borrow a byte from the previous label
				if len(big) == 0 {
					break
				}
				big[len(big)-1]--
				l = 1
			}
			big = append(big, l)
			rest -= 1 + l
		}
		if rest == 0 && len(big) > 0 {
			run("max-labels-63", big, "ascii")
			run("max-labels-63", big, "binary")
		}
		if (wire-1)%2 == 0 {
			ones := make([]int, (wire-1)/2)
			for i := range ones {
				ones[i] = 1
			}
			run("one-byte-labels", ones, "ascii")
		}
	}
	// (3) the shapes the requester produces: k labels of `chunk` bytes, a remainder, and a base domain
	for _, chunk := range []int{62, 63, 64} {
		for k := 0; k <= 4; k++ {
			for rem := 0; rem <= 63; rem += kit.Tier(3, 1) {
				for _, dom := range [][]int{{}, {1}, {1, 7, 3}, {20, 20}} {
					var lens []int
					for i := 0; i < k; i++ {
						lens = append(lens, chunk)
					}
					if rem > 0 {
						lens = append(lens, rem)
					}
					lens = append(lens, dom...)
					run(fmt.Sprintf("requester-shape-chunk%d", chunk), lens, "ascii")
				}
			}
		}
	}
	rec.Exhaustive("NewName: single labels of every length 0..65; every encoded name length 2..258 with maximal and with 1-byte labels; requester-shaped names with chunk 62/63/64")
	// (4) seeded partitions around the limits
	for i, n := 0, kit.Tier(1500, 60000); i < n; i++ {
		target := 200 + rng.Intn(60)
		var lens []int
		sum := 1
		for sum < target {
			l := 1 + rng.Intn(63)
			if rng.Intn(25) == 0 {
				l = []int{0, 64, 65}[rng.Intn(3)]
			}
			if rng.Intn(3) == 0 {
				l = 1 + rng.Intn(4)
			}
			lens = append(lens, l)
			sum += 1 + l
		}
		run("seeded", lens, []string{"ascii", "binary"}[rng.Intn(2)])
	}
}

func c15Lens(l []int) string {
	if len(l) > 12 {
		return fmt.Sprintf("%v…(%d labels)", l[:10], len(l))
	}
	return fmt.Sprint(l)
}

// c15RoundTripName is c15RoundTrip with signatures that say "NewName accepted it" (the name-level finding class).
func c15RoundTripName(rec *kit.Rec, desc string, m *Message) bool {
	rec.Count("evaluations", 1)
	var wire []byte
	var err error
	if pk, v, st := c15Try(func() { wire, err = m.WireFormat() }); pk {
		rec.Violation("dns:name:accepted-by-NewName-but-encoder-panics", "NewName accepted a name on which WireFormat panics",
			map[string]interface{}{"case": desc, "panic": fmt.Sprint(v), "stack": st})
		return false
	}
	if err != nil {
		rec.Violation("dns:name:accepted-by-NewName-but-encoder-errors", "NewName accepted a name that WireFormat refuses", map[string]interface{}{"case": desc, "error": err.Error()})
		return false
	}
	var back Message
	var derr error
	if pk, v, st := c15Try(func() { back, derr = MessageFromWireFormat(wire) }); pk {
		rec.Violation("dns:name:decoder-panic-on-own-encoding", "MessageFromWireFormat panicked on an encoded NewName-accepted name",
			map[string]interface{}{"case": desc, "panic": fmt.Sprint(v), "stack": st})
		return false
	}
	if derr != nil {
		rec.Violation("dns:name:accepted-by-NewName-but-undecodable", "a name NewName accepted is encoded without error into bytes the decoder refuses",
			map[string]interface{}{"case": desc, "decode_error": derr.Error(), "wire_len": len(wire), "wire_head": kit.HexN(wire, 24)})
		return false
	}
	if cls, d := c15MsgDiff(m, &back); cls != "" {
		rec.Violation("dns:name:roundtrip-mismatch:"+cls, "a name NewName accepted does not survive WireFormat → MessageFromWireFormat",
			map[string]interface{}{"case": desc, "diff": d, "wire_len": len(wire)})
		return false
	}
	rec.Count("accepted_roundtrips", 1)
	rec.Distinct("nontrivial", desc)
	if rec.WantSample() && strings.Contains(desc, "encoded_len=255 ") {
		rec.Sample(map[string]interface{}{"case": desc, "wire_len": len(wire), "decoded_equal": true})
	}
	return true
}

func TestVerifC15Messages(t *testing.T) {
	rec := kit.NewRec("C15", "dns")
	defer rec.Close()
	rng := kit.Rand("c15messages")

	// (A) generated messages whose names have at most c15SafeLabels (= the pinned decoder limit, 10) labels: pointer chains occur but can never be
	// longer than the decoder's limit, so every failure here is a defect other than the pointer-limit one
	nA := kit.Tier(2500, 150000)
	for i := 0; i < nA; i++ {
		m := c15GenMessage(rng, rec, c15SafeLabels, i%40 == 0)
		desc := fmt.Sprintf("messageA#%d q=%d an=%d ns=%d ar=%d maxlabels=%d", i, len(m.Question), len(m.Answer), len(m.Authority), len(m.Additional), c15MaxLabels(m))
		rec.CaseCheap(desc)
		ok := c15RoundTrip(rec, "generated", desc, m)
		if ok && rec.WantSample() && i > 10 && len(m.Answer) > 1 && len(m.Question) > 1 {
			rec.Sample(map[string]interface{}{"case": desc, "message": c15DescribeMsg(m), "decoded_equal": true})
		}
	}
	// (B) deterministic nesting: k questions, each name extending the previous one by one label in front
	for k := 1; k <= 40; k++ {
		for _, order := range []string{"short-first", "long-first"} {
			m := &Message{ID: uint16(k), Flags: 0x8400}
			var labels [][]byte
			var names []Name
			for j := 0; j < k; j++ {
				labels = append([][]byte{[]byte(fmt.Sprintf("n%d", j))}, labels...)
				n, err := NewName(append([][]byte(nil), labels...))
				if err != nil {
					t.Fatal(err)
				}
				names = append(names, n)
			}
			if order == "long-first" {
				for i, j := 0, len(names)-1; i < j; i, j = i+1, j-1 {
					names[i], names[j] = names[j], names[i]
				}
			}
			for _, n := range names {
				m.Question = append(m.Question, Question{Name: n, Type: RRTypeTXT, Class: ClassIN})
			}
			desc := fmt.Sprintf("nested k=%d %s", k, order)
			rec.Case(desc)
			c15RoundTrip(rec, "generated", desc, m)
		}
	}
	// (C) generated messages with unrestricted nesting (up to 127 labels per name)
	nC := kit.Tier(800, 40000)
	for i := 0; i < nC; i++ {
		m := c15GenMessage(rng, rec, 0, false)
		desc := fmt.Sprintf("messageC#%d q=%d an=%d ns=%d ar=%d maxlabels=%d", i, len(m.Question), len(m.Answer), len(m.Authority), len(m.Additional), c15MaxLabels(m))
		rec.CaseCheap(desc)
		c15RoundTrip(rec, "generated", desc, m)
	}
	// (D) representation limits of the RR and the header: data of 65534..65537 bytes, 65535 / 65536 entries in a section,
	// names repeated beyond offset 0x3fff (no pointer can reach them)
	root, _ := NewName(nil)
	nm, _ := NewName([][]byte{[]byte("t"), []byte("example"), []byte("com")})
	for _, n := range []int{65533, 65534, 65535, 65536, 65537, 70000, 131071, 131072} {
		m := &Message{ID: 7, Flags: 0x8400, Question: []Question{{Name: nm, Type: RRTypeTXT, Class: ClassIN}},
			Answer: []RR{{Name: nm, Type: RRTypeTXT, Class: ClassIN, TTL: 60, Data: bytes.Repeat([]byte{0xAB}, n)}, {Name: nm, Type: 1, Class: 1, Data: []byte{1}}}}
		desc := fmt.Sprintf("rdata len=%d", n)
		rec.Case(desc)
		c15RoundTrip(rec, "generated", desc, m)
	}
	for _, n := range []int{65534, 65535, 65536, 65537} {
		for sec := 0; sec < 4; sec++ {
			m := &Message{ID: 9}
			switch sec {
			case 0:
				m.Question = make([]Question, n)
				for i := range m.Question {
					m.Question[i] = Question{Name: root, Type: 1, Class: 1}
				}
			default:
				rrs := make([]RR, n)
				for i := range rrs {
					rrs[i] = RR{Name: root, Type: 1, Class: 1}
				}
				*[]*[]RR{nil, &m.Answer, &m.Authority, &m.Additional}[sec] = rrs
			}
			desc := fmt.Sprintf("section %d with %d entries", sec, n)
			rec.Case(desc)
			c15RoundTrip(rec, "generated", desc, m)
		}
	}
	for _, pad := range []int{16350, 16360, 16370, 16383, 16384, 16400, 40000} {
		m := &Message{ID: 11, Question: []Question{{Name: nm, Type: 1, Class: 1}},
			Answer: []RR{{Name: root, Type: 1, Class: 1, Data: make([]byte, pad)},
				{Name: Name{[]byte("late"), []byte("name")}, Type: 1, Class: 1}, {Name: Name{[]byte("x"), []byte("late"), []byte("name")}, Type: 1, Class: 1},
				{Name: Name{[]byte("late"), []byte("name")}, Type: 1, Class: 1}, {Name: nm, Type: 1, Class: 1}}}
		desc := fmt.Sprintf("names beyond offset 0x3fff pad=%d", pad)
		rec.Case(desc)
		c15RoundTrip(rec, "generated", desc, m)
	}

	// (E) decoder on arbitrary and on mutated bytes: no panic; what it decodes is a value the encoder must invert as well
	nE := kit.Tier(10000, 600000)
	for i := 0; i < nE; i++ {
		var b []byte
		if i%2 == 0 {
			m := c15GenMessage(rng, rec, 0, false)
			w, err := m.WireFormat()
			if err != nil || len(w) == 0 {
				continue
			}
			b = w
			for k := 0; k < 1+rng.Intn(3); k++ {
				switch rng.Intn(4) {
				case 0:
					b[rng.Intn(len(b))] ^= byte(1 << uint(rng.Intn(8)))
				case 1:
					b[rng.Intn(len(b))] = 0xc0
				case 2:
					b = b[:rng.Intn(len(b)+1)]
				case 3:
					if len(b) >= 12 {
						b[4+rng.Intn(8)] = byte(rng.Intn(3))
					}
				}
				if len(b) == 0 {
					break
				}
			}
		} else {
			b = make([]byte, rng.Intn(80))
			rng.Read(b)
			if len(b) >= 12 { // plausible counts so that sections are parsed
				for j := 4; j < 12; j += 2 {
					b[j], b[j+1] = 0, byte(rng.Intn(3))
				}
			}
		}
		rec.CaseCheap("arbitrary " + kit.HexN(b, 48))
		var msg Message
		var err error
		if pk, v, st := c15Try(func() { msg, err = MessageFromWireFormat(b) }); pk {
			rec.Violation("dns:message:decoder-panic-on-arbitrary-bytes", "MessageFromWireFormat panicked", map[string]interface{}{"input": kit.Hex(b), "panic": fmt.Sprint(v), "stack": st})
			continue
		}
		rec.Count("arbitrary_decodes", 1)
		if err == nil {
			rec.Count("arbitrary_decodes_ok", 1)
			c15RoundTrip(rec, "redecoded", "redecoded "+kit.HexN(b, 48), &msg)
		}
	}
}
