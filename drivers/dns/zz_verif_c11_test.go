//go:build verif

package dns

// C11 – entry point (7), DNS wire format:
//   dns.MessageFromWireFormat  arbitrary datagrams; whatever the parser returns (it returns the
//                              partially parsed message together with an error, and the responder
//                              goes on with it) is then rendered and re-encoded the way the
//                              responder and requester use it (Name.String, TrimSuffix, Opcode /
//                              Rcode, WireFormat, DecodeRDataTXT of TXT answers)
//   dns.DecodeRDataTXT         arbitrary RDATA
// Inputs: genuine queries / responses (names under and outside the domain, EDNS OPT, TXT answers,
// several questions, compressed names incl. pointer chains and loops) raw-mutated, with tampered
// counts and lengths, truncated, extended; random bytes; names made of compression pointers into EVERY
// offset of the message (kit.C11DNSPointerDatagram: header fields that themselves read as pointers /
// labels, cycles of length 1-3 through the header, loops in the RDATA of an earlier record).
// Oracle: no panic (recovered per case, reported with the input) + the per-input watchdog.

import (
	"math/rand"
	"os"
	"testing"

	kit "github.com/refraction-networking/conjure/internal/verifkit"
)

var verifC11Domain, _ = ParseName("r.example.com")

func verifC11ExecMsg(c *kit.C11Case) string {
	m, err := MessageFromWireFormat(append([]byte(nil), c.In...))
	out := "parsed"
	if err != nil {
		out = "error"
		if len(m.Question)+len(m.Answer)+len(m.Authority)+len(m.Additional) > 0 {
			out = "error+partial-message"
		}
	}
	_, _ = m.Opcode(), m.Rcode()
	for _, q := range m.Question {
		_ = q.Name.String()
		_, _ = q.Name.TrimSuffix(verifC11Domain)
	}
	for _, rrs := range [][]RR{m.Answer, m.Authority, m.Additional} {
		for _, rr := range rrs {
			_ = rr.Name.String()
			_, _ = rr.Name.TrimSuffix(verifC11Domain)
			if rr.Type == RRTypeTXT {
				_, _ = DecodeRDataTXT(rr.Data)
			}
		}
	}
	if b, err := m.WireFormat(); err == nil {
		_, _ = MessageFromWireFormat(b)
	}
	// the response the responder derives from the query's ID / Question
	resp := &Message{ID: m.ID, Flags: 0x8000, Question: m.Question}
	if len(m.Question) == 1 {
		resp.Answer = []RR{{Name: m.Question[0].Name, Type: m.Question[0].Type, Class: m.Question[0].Class, TTL: 60, Data: EncodeRDataTXT(c.In)}}
	}
	_, _ = resp.WireFormat()
	return out
}

func verifC11ExecTXT(c *kit.C11Case) string {
	if _, err := DecodeRDataTXT(append([]byte(nil), c.In...)); err != nil {
		return "error"
	}
	return "decoded"
}

func verifC11Label(r *rand.Rand) []byte {
	n := []int{1, 1, 3, 7, 20, 62, 63}[r.Intn(7)]
	b := make([]byte, n)
	const alpha = "abcdefghijklmnopqrstuvwxyz234567ABCDEFGHIJKLMNOPQRSTUVWXYZ"
	for i := range b {
		b[i] = alpha[r.Intn(len(alpha))]
	}
	if r.Intn(10) == 0 {
		r.Read(b)
	}
	return b
}

func verifC11Name(r *rand.Rand) Name {
	for {
		var labels [][]byte
		for i, n := 0, r.Intn(5); i < n; i++ {
			labels = append(labels, verifC11Label(r))
		}
		if r.Intn(4) != 0 {
			labels = append(labels, verifC11Domain...)
		}
		if n, err := NewName(labels); err == nil {
			return n
		}
	}
}

// verifC11Valid builds a genuine message.
func verifC11Valid(r *rand.Rand) []byte {
	m := &Message{ID: uint16(r.Intn(65536)), Flags: []uint16{0x0100, 0x0100, 0x8180, 0x8400, 0x0000, 0x7800, 0xffff}[r.Intn(7)]}
	for i, n := 0, []int{1, 1, 1, 0, 2, 3}[r.Intn(6)]; i < n; i++ {
		m.Question = append(m.Question, Question{Name: verifC11Name(r), Type: []uint16{RRTypeTXT, RRTypeTXT, 1, 2, 28, 255}[r.Intn(6)], Class: ClassIN})
	}
	if r.Intn(3) == 0 && len(m.Question) > 0 {
		data := make([]byte, r.Intn(700))
		r.Read(data)
		m.Answer = append(m.Answer, RR{Name: m.Question[0].Name, Type: RRTypeTXT, Class: ClassIN, TTL: 60, Data: EncodeRDataTXT(data)})
	}
	if r.Intn(5) == 0 {
		m.Authority = append(m.Authority, RR{Name: verifC11Name(r), Type: 2, Class: ClassIN, TTL: r.Uint32(), Data: []byte{1, 'a', 0}})
	}
	for i, n := 0, []int{1, 1, 0, 2}[r.Intn(4)]; i < n; i++ {
		m.Additional = append(m.Additional, RR{Name: Name{}, Type: RRTypeOPT, Class: []uint16{4096, 512, 0, 1232, 65535}[r.Intn(5)],
			TTL: []uint32{0, 0, 1 << 16, 0xff << 16, 0x8000}[r.Intn(5)], Data: []byte{}})
	}
	b, err := m.WireFormat()
	if err != nil {
		return []byte{0, 0, 1, 0, 0, 0, 0, 0, 0, 0, 0, 0}
	}
	return b
}

// verifC11Pointers builds a datagram whose question name consists of compression pointers:
// chains of a chosen length, forward and backward pointers, self-loops, pointers past the end.
func verifC11Pointers(r *rand.Rand) []byte {
	b := []byte{0x12, 0x34, 0x01, 0x00, 0, 1, 0, 0, 0, 0, 0, 0}
	switch r.Intn(5) {
	case 0: // self loop
		b = append(b, 0xc0, 12)
	case 1: // two-element loop
		b = append(b, 0xc0, 14, 0xc0, 12)
	case 2: // chain of n pointers ending in a label
		n := []int{1, 9, 10, 11, 12, 40}[r.Intn(6)]
		for i := 0; i < n; i++ {
			b = append(b, 0xc0, byte(12+2*(i+1)))
		}
		b = append(b, 1, 'a', 0)
	case 3: // pointer past the end / into the header
		b = append(b, 0xc0|byte(r.Intn(64)), byte(r.Intn(256)))
	default: // label then pointer back into the middle of it
		b = append(b, 5, 'a', 'b', 'c', 'd', 'e', 0xc0, byte(12+r.Intn(6)))
	}
	return append(b, 0, 16, 0, 1)
}

func verifC11GenMsg(r *rand.Rand, idx int) kit.C11Case {
	switch x := r.Intn(20); {
	case x < 3:
		return kit.C11Case{In: verifC11Valid(r), Kind: "genuine"}
	case x < 5:
		b := verifC11Pointers(r)
		if r.Intn(2) == 0 {
			b, _ = kit.C11Mutate(r, b, nil)
		}
		return kit.C11Case{In: b, Kind: "pointers"}
	case x < 6: // pointers into every offset of the message, the header bytes included (header fields that read as pointers / labels)
		b, k := kit.C11DNSPointerDatagram(r)
		if r.Intn(4) == 0 {
			b, _ = kit.C11Mutate(r, b, nil)
			k += "+mutated"
		}
		return kit.C11Case{In: b, Kind: k}
	case x < 8: // counts tampered
		b := verifC11Valid(r)
		i := 4 + 2*r.Intn(4)
		v := []uint16{0, 1, 2, 255, 65535}[r.Intn(5)]
		b[i], b[i+1] = byte(v>>8), byte(v)
		return kit.C11Case{In: b, Kind: "counts-tampered"}
	case x < 18:
		b, k := kit.C11Mutate(r, verifC11Valid(r), verifC11Valid(r))
		return kit.C11Case{In: b, Kind: k}
	}
	return kit.C11Case{In: kit.C11Random(r, 600), Kind: "random"}
}

func verifC11GenTXT(r *rand.Rand, idx int) kit.C11Case {
	if r.Intn(4) == 0 {
		return kit.C11Case{In: kit.C11Random(r, 600), Kind: "random"}
	}
	p := make([]byte, []int{0, 1, 254, 255, 256, 300, 511, 600}[r.Intn(8)])
	r.Read(p)
	enc := EncodeRDataTXT(p)
	if r.Intn(4) == 0 {
		return kit.C11Case{In: enc, Kind: "genuine"}
	}
	b, k := kit.C11Mutate(r, enc, nil)
	return kit.C11Case{In: b, Kind: k}
}

func TestVerifC11DNSWire(t *testing.T) {
	rec := kit.NewRec("C11", "dns-wire")
	defer rec.Close()
	n := kit.Tier(40000, 2000000)
	kit.C11Drive(rec, kit.C11Entry{Name: "dns.MessageFromWireFormat", N: n, Workers: 4, Gen: verifC11GenMsg, Exec: verifC11ExecMsg, SampleEvery: 5000})
	kit.C11Drive(rec, kit.C11Entry{Name: "dns.DecodeRDataTXT", N: n, Workers: 4, Gen: verifC11GenTXT, Exec: verifC11ExecTXT, SampleEvery: 5000})
}

func verifC11Fuzz(f *testing.F, entry string, gen func(r *rand.Rand, idx int) kit.C11Case, exec func(c *kit.C11Case) string) {
	for _, s := range kit.C11Seeds(entry, 300, gen) {
		f.Add(s)
	}
	f.Fuzz(func(t *testing.T, b []byte) {
		c := &kit.C11Case{In: b, Kind: "fuzz"}
		if p := kit.C11FuzzOne(entry, b, func() { exec(c) }); p != nil && os.Getenv("VERIF_C11_FUZZ_OUT") == "" {
			t.Fatalf("panic in %s: %s\n%v", p.Frame, p.Val, p.Stack)
		}
	})
}

func FuzzVerifC11DNSMessage(f *testing.F) {
	verifC11Fuzz(f, "dns.MessageFromWireFormat", verifC11GenMsg, verifC11ExecMsg)
}
func FuzzVerifC11DNSTXT(f *testing.F) { verifC11Fuzz(f, "dns.DecodeRDataTXT", verifC11GenTXT, verifC11ExecTXT) }
