//go:build verif

package liveness

// C19 (side stage) – the liveness tester is one of the stats modules the station prints every 5 s.
// The lib driver can only print it with empty caches (filling them needs network probes); here, in
// the package itself, the probe function is replaced by a script, so every liveness configuration
// that New accepts is printed empty AND populated, before and after cache clean-up.
//
// The space is small and enumerated completely: 8 durations × 5 capacities for the live cache ×
// the same for the non-live cache.

import (
	"bytes"
	"errors"
	"fmt"
	golog "log"
	"sync"
	"sync/atomic"
	"testing"

	kit "github.com/refraction-networking/conjure/internal/verifkit"
	"github.com/refraction-networking/conjure/pkg/station/log"
)

func verifC19LivenessMode(c *Config) string {
	switch {
	case c == nil || (c.CacheDuration == "" && c.CacheDurationNonLive == ""):
		return "uncached"
	case c.CacheDurationNonLive == "":
		return "live-only"
	case c.CacheDuration == "":
		return "nonlive-only"
	}
	return "both"
}

func TestVerifC19LivenessStats(t *testing.T) {
	rec := kit.NewRec("C19", "liveness-stats")
	defer rec.Close()

	durations := []string{"", "0s", "1ns", "90s", "2.0h", "-5m", "abc", "5"}
	caps := []int{0, 1, 3, -1, 100000}
	var buf bytes.Buffer
	log.SetLevel(log.InfoLevel)
	defer log.SetLevel(log.ErrorLevel)
	logger := log.New(&buf, "[STATS] ", golog.Ldate|golog.Lmicroseconds)

	run := func(c *Config, desc string) {
		rec.Case(map[string]interface{}{"liveness_config": desc})
		rec.Count("evaluations", 1)
		var tester Tester
		var err error
		if pn := kit.C19Try(func() { tester, err = New(c) }); pn != nil {
			// a start-up panic: the station never ran with this configuration
			rec.Count("startup_panics_not_charged", 1)
			return
		}
		if err != nil {
			rec.Count("rejected", 1)
			return
		}
		rec.Count("accepted", 1)
		mode := verifC19LivenessMode(c)
		rec.Distinct("nontrivial", desc)
		rec.Distinct("modes", mode)

		// scripted probe: addresses ending in an even digit are live
		n := 0
		probe := func(address string) (bool, error) {
			n++
			switch n % 4 {
			case 0:
				return true, ErrLiveHost
			case 1:
				return false, NotLive
			case 2:
				return true, errors.New("connection refused")
			}
			return false, fmt.Errorf("%w 750ms", NotLive)
		}
		switch tt := tester.(type) {
		case *CachedLivenessTester:
			tt.phantomIsLive = probe
		case *UncachedLivenessTester:
			tt.phantomIsLive = probe
		default:
			t.Fatalf("unknown tester type %T", tester)
		}

		print := func(phase string) {
			for _, op := range []struct {
				name string
				f    func()
			}{
				{"PrintStats", func() { tester.PrintStats(logger) }},
				{"PrintAndReset", func() { tester.PrintAndReset(logger) }},
				{"PrintAndReset", func() { tester.PrintAndReset(logger) }},
			} {
				buf.Reset()
				rec.Count("stats_prints", 1)
				if pn := kit.C19Try(op.f); pn != nil {
					rec.Violation(pn.Sig("stats:liveness")+":"+mode,
						fmt.Sprintf("%s of the liveness tester panicked (%s) for a configuration that liveness.New accepted: %s", op.name, phase, pn.Val),
						map[string]interface{}{"liveness_config": desc, "mode": mode, "phase": phase, "op": op.name, "panic": pn})
					return
				}
				if buf.Len() == 0 {
					rec.Count("silent_prints", 1)
				}
			}
		}
		print("empty")
		for i := 0; i < 9; i++ {
			addr := fmt.Sprintf("192.0.2.%d", i%6)
			if pn := kit.C19Try(func() { _, _ = tester.PhantomIsLive(addr, 443) }); pn != nil {
				rec.Count("probe_panics_not_charged", 1) // probing is not housekeeping (C18's ground)
			}
		}
		print("populated")
		if ct, ok := tester.(*CachedLivenessTester); ok {
			if pn := kit.C19Try(func() { ct.ClearExpiredCache() }); pn != nil {
				rec.Violation(pn.Sig("liveness-clear-expired")+":"+mode, "ClearExpiredCache panicked for an accepted configuration: "+pn.Val,
					map[string]interface{}{"liveness_config": desc, "mode": mode, "panic": pn})
			}
			print("after-clear-expired")
		}
		if pn := kit.C19Try(func() { tester.Reset() }); pn != nil {
			rec.Violation(pn.Sig("stats:liveness-reset")+":"+mode, "Reset panicked: "+pn.Val, map[string]interface{}{"liveness_config": desc, "panic": pn})
		}
	}

	run(nil, "nil config")
	for _, dl := range durations {
		for _, cl := range caps {
			for _, dn := range durations {
				for _, cn := range caps {
					c := &Config{CacheDuration: dl, CacheCapacity: cl, CacheDurationNonLive: dn, CacheCapacityNonLive: cn}
					desc := fmt.Sprintf("cache_expiration_time=%q cache_capacity=%d cache_expiration_nonlive=%q cache_capacity_nonlive=%d", dl, cl, dn, cn)
					run(c, desc)
					if cl == 3 && cn == 0 && (dl == "2.0h" || dl == "") && (dn == "90s" || dn == "") {
						rec.Sample(map[string]interface{}{"liveness_config": desc, "mode": verifC19LivenessMode(c)})
					}
				}
			}
		}
	}
	rec.Exhaustive(fmt.Sprintf("liveness configurations: %d durations × %d capacities for each of the two caches, each printed empty, populated and after clean-up", len(durations), len(caps)))
}

// TestVerifC19LivenessConcurrent – the liveness tester is reported by the station's statistics ticker
// while ingest workers probe through it.  One reporter goroutine (PrintStats / PrintAndReset), several
// probing goroutines (scripted probe, fresh addresses so both caches keep changing) and a cache
// clean-up goroutine run concurrently for a fixed number of operations; own child process, -race.
// Oracles: the process survives (orchestrator), no recoverable panic in a role, race reports in the
// liveness statistics code (orchestrator's race filter).
func TestVerifC19LivenessConcurrent(t *testing.T) {
	rec := kit.NewRec("C19", "liveness-concurrent")
	defer rec.Close()
	var sink bytes.Buffer
	var sinkMu sync.Mutex
	logger := log.New(writerFunc(func(p []byte) (int, error) { sinkMu.Lock(); sink.Reset(); sinkMu.Unlock(); return len(p), nil }), "[STATS] ", golog.Ldate|golog.Lmicroseconds)
	probes := kit.Tier(4000, 40000)
	configs := []*Config{
		nil,
		{CacheDuration: "2.0h", CacheDurationNonLive: "5m"},
		{CacheDuration: "2.0h"},
		{CacheDurationNonLive: "90s", CacheCapacity: 3, CacheCapacityNonLive: 3},
		{CacheDuration: "1ns", CacheCapacity: 1, CacheDurationNonLive: "0s", CacheCapacityNonLive: 100000},
	}
	for ci, c := range configs {
		desc := fmt.Sprintf("%+v", c)
		rec.Case(map[string]interface{}{"liveness_config": desc, "probes_per_goroutine": probes})
		rec.Count("evaluations", 1)
		tester, err := New(c)
		if err != nil {
			t.Fatalf("liveness.New(%s): %v", desc, err)
		}
		rec.Distinct("nontrivial", desc)
		probe := func(address string) (bool, error) {
			if len(address)%2 == 0 {
				return true, ErrLiveHost
			}
			return false, NotLive
		}
		switch tt := tester.(type) {
		case *CachedLivenessTester:
			tt.phantomIsLive = probe
		case *UncachedLivenessTester:
			tt.phantomIsLive = probe
		}
		role := func(name string, f func()) {
			if pn := kit.C19Try(f); pn != nil {
				rec.Violation(pn.Sig("liveness-concurrent:"+name)+":"+verifC19LivenessMode(c), "the "+name+" role panicked while the others were running: "+pn.Val,
					map[string]interface{}{"liveness_config": desc, "panic": pn})
			}
		}
		var others, rep sync.WaitGroup
		var done atomic.Bool
		for g := 0; g < 4; g++ {
			others.Add(1)
			go func(g int) {
				defer others.Done()
				role("probe", func() {
					for i := 0; i < probes; i++ {
						_, _ = tester.PhantomIsLive(fmt.Sprintf("192.0.%d.%d", (i/250+g*7)%256, i%(250+g)), 443)
					}
				})
			}(g)
		}
		if ct, ok := tester.(*CachedLivenessTester); ok {
			others.Add(1)
			go func() {
				defer others.Done()
				role("clear-expired", func() {
					for i := 0; i < probes/20; i++ {
						ct.ClearExpiredCache()
					}
				})
			}()
		}
		reports := 0
		rep.Add(1)
		go func() {
			defer rep.Done()
			role("reporter", func() {
				for !done.Load() || reports < 50 {
					tester.PrintStats(logger)
					tester.PrintAndReset(logger)
					reports++
				}
			})
		}()
		others.Wait()
		done.Store(true)
		rep.Wait()
		rec.Count("reports", reports)
		rec.Count("probes", 4*probes)
		if ci == 1 {
			rec.Sample(map[string]interface{}{"liveness_config": desc, "reports": reports, "probes": 4 * probes})
		}
	}
}

type writerFunc func(p []byte) (int, error)

func (f writerFunc) Write(p []byte) (int, error) { return f(p) }
