//go:build verif

package liveness

// C18, concurrent phase (e): the expiry clean-up runs CONCURRENTLY with re-measurements of exactly the
// phantoms it is cleaning up, followed by enough new phantoms to fill the bounded cache.
//
// One scenario = one tester built by the real New() with an LRU capacity C.  Two disjoint address sets X, Y of
// C addresses each alternate:
//
//	(quiescent)  the cache holds the verdicts of set X; all entries are back-dated by 2 x lifetime
//	(concurrent) one goroutine runs ClearExpiredCache(); W goroutines query their share of X (twice: the second
//	             query of an address may be answered from the cache, by the first one's fresh measurement)
//	(quiescent)  Len() <= C
//	(sequential) every address of Y is queried (all new: C insertions), then
//	(quiescent)  Len() <= C; every address the cache's map holds is queried: the distinct addresses answered
//	             from the cache with no probe in between are <= C
//
// Oracle (the statement's, nothing else): a cached answer for a needs a probe of a that returned that verdict
// less than lifetime ago (harness time: every probe of an earlier epoch is >= 2 x lifetime old, so only a probe
// of the current epoch that precedes the answer - same goroutine in the concurrent part - qualifies); any other
// answer probed exactly once, that address, and returns the probe's verdict; the bounded cache never holds
// (Len at quiescence) or serves (between two probes) more than C.  Real time only makes entries older; a
// scenario that takes longer than the guard is not judged.

import (
	"errors"
	"fmt"
	"math/rand"
	"net"
	"strconv"
	"sync"
	"testing"
	"time"

	kit "github.com/refraction-networking/conjure/internal/verifkit"
)

type verifC18SweepWorker struct {
	id       int
	nextLive bool
	calls    int
	callAddr string
	probed   map[string]int8 // this epoch: bit v set = a probe of the address returned verdict v
	hits     int
	probes   int
	viols    []verifC18Viol
	_        [64]byte
}

func TestVerifC18Sweep(t *testing.T) {
	rec := kit.NewRec("C18", "sweep")
	defer rec.Close()
	rng := kit.Rand("c18-sweep")
	capacity := kit.Tier(1500, 4000)
	rounds := kit.Tier(6, 20)
	const nworkers = 4
	const lifeStr = "60m"
	life := verifC18Life(lifeStr)

	sets := [2][]string{}
	for i := 0; i < capacity; i++ {
		sets[0] = append(sets[0], fmt.Sprintf("10.19.%d.%d", i/250, i%250))
		sets[1] = append(sets[1], fmt.Sprintf("2001:db8:19::%x", i+1))
	}
	cfgs := []verifC18Cfg{
		{DurLive: lifeStr, CapLive: capacity},
		{DurNon: lifeStr, CapNon: capacity},
		{DurLive: lifeStr, CapLive: capacity, DurNon: lifeStr, CapNon: capacity},
	}
	written := map[string]int{}
	for sc, cfg := range cfgs {
		hostLive := cfg.DurNon == "" // live-only: every host is live; otherwise every host is not live
		v := verifC18B2I(hostLive)
		vn := verifC18VName[v]
		rec.Case(map[string]interface{}{"phase": "sweep", "scenario": sc, "config": cfg.String(), "capacity": capacity, "rounds": rounds})
		tester, err := New(&Config{CacheDuration: cfg.DurLive, CacheCapacity: cfg.CapLive, CacheDurationNonLive: cfg.DurNon, CacheCapacityNonLive: cfg.CapNon})
		if err != nil {
			t.Fatalf("infrastructure: %v", err)
		}
		workers := make([]*verifC18SweepWorker, nworkers+1) // the last one is the sequential harness itself
		for i := range workers {
			workers[i] = &verifC18SweepWorker{id: i, probed: map[string]int8{}}
		}
		probe := func(address string) (bool, error) {
			h, p, e := net.SplitHostPort(address)
			pn, _ := strconv.Atoi(p)
			if e != nil || pn < verifC18BasePort || pn > verifC18BasePort+nworkers {
				panic("verif: probe called with an address no worker asked for: " + address)
			}
			w := workers[pn-verifC18BasePort]
			w.calls++
			w.callAddr = address
			w.probes++
			w.probed[h] |= 1 << uint(verifC18B2I(w.nextLive))
			return w.nextLive, nil
		}
		cached, err := verifC18Install(tester, probe)
		if err != nil || cached == nil {
			t.Fatalf("infrastructure: %v", err)
		}
		theCache := cached.ipCacheNonLive
		if hostLive {
			theCache = cached.ipCacheLive
		}
		report := func(sig, msg string, detail map[string]interface{}) {
			written[sig]++
			if written[sig] <= 5 {
				detail["phase"], detail["scenario"], detail["config"], detail["mode"] = "sweep", sc, cfg, cfg.verifMode()
				rec.Violation(sig, msg, detail)
			} else {
				rec.Violation(sig, msg, nil)
			}
		}
		boundSig := func(kind string) string {
			if v == 1 {
				return "bound:" + kind + ":live"
			}
			if cfg.CapLive == 0 {
				return "bound:" + kind + ":nonlive:live-capacity-unset"
			}
			return "bound:" + kind + ":nonlive:live-capacity-set"
		}
		// query runs one lookup on behalf of worker w and judges it against w's own probes of this epoch
		query := func(w *verifC18SweepWorker, addr string) (hit bool) {
			port := uint16(verifC18BasePort + w.id)
			w.nextLive = hostLive
			w.calls = 0
			before := w.probed[addr]
			gotLive, err := tester.PhantomIsLive(addr, port)
			if errors.Is(err, ErrCachedPhantom) {
				w.hits++
				gv := verifC18B2I(gotLive)
				if before&(1<<uint(gv)) == 0 {
					w.viols = append(w.viols, verifC18Viol{sig: "hit:stale:" + verifC18VName[gv], msg: fmt.Sprintf("%s answered from the cache as %s although every probe of it that returned %s is at least %v old (configured lifetime %v)", addr, verifC18VName[gv], verifC18VName[gv], 2*life, life)})
				}
				return true
			}
			want := net.JoinHostPort(addr, strconv.Itoa(int(port)))
			switch {
			case w.calls == 0:
				w.viols = append(w.viols, verifC18Viol{sig: "miss:no-probe", msg: "query for " + addr + " was not answered from the cache and did not probe"})
			case w.calls > 1:
				w.viols = append(w.viols, verifC18Viol{sig: "miss:probed-more-than-once", msg: fmt.Sprintf("query for %s probed %d times", addr, w.calls)})
			case w.callAddr != want:
				w.viols = append(w.viols, verifC18Viol{sig: "miss:probed-wrong-address", msg: fmt.Sprintf("query for %s probed %q", want, w.callAddr)})
			case gotLive != w.nextLive:
				w.viols = append(w.viols, verifC18Viol{sig: "miss:verdict-differs", msg: fmt.Sprintf("query for %s returned (%v, %v) but its probe returned %v", addr, gotLive, err, w.nextLive)})
			}
			return false
		}
		checkLen := func(round int, where string) {
			if n := theCache.Len(); n > capacity {
				report(boundSig("len"), fmt.Sprintf("the %s cache has a configured capacity of %d but holds %d entries at a quiescent point", vn, capacity, n), map[string]interface{}{"round": round, "where": where})
			}
		}
		flush := func(round int, where string) (hits, probes int) {
			for _, w := range workers {
				for _, vi := range w.viols {
					report(vi.sig, vi.msg, map[string]interface{}{"round": round, "where": where, "worker": w.id})
				}
				hits, probes = hits+w.hits, probes+w.probes
				w.viols, w.hits, w.probes = w.viols[:0], 0, 0
			}
			return
		}
		seq := workers[nworkers]
		base := time.Now()

		// the cache starts with the verdicts of set 0
		for _, a := range sets[0] {
			query(seq, a)
		}
		flush(-1, "initial fill")
		checkLen(-1, "after the initial fill")

		for round := 0; round < rounds; round++ {
			cur, other := sets[round%2], sets[(round+1)%2]
			// ---- quiescent: a new epoch - everything measured so far becomes 2 x lifetime older
			if err := verifC18Backdate(cached.ipCacheLive, 2*life); err != nil {
				t.Fatalf("infrastructure: %v", err)
			}
			if err := verifC18Backdate(cached.ipCacheNonLive, 2*life); err != nil {
				t.Fatalf("infrastructure: %v", err)
			}
			for _, w := range workers {
				for k := range w.probed {
					delete(w.probed, k)
				}
			}
			// ---- concurrent: clean-up against re-measurements of the same addresses
			perm := rng.Perm(len(cur))
			var wg sync.WaitGroup
			start := make(chan struct{})
			wg.Add(1)
			go func() {
				defer wg.Done()
				<-start
				cached.ClearExpiredCache()
			}()
			for wi := 0; wi < nworkers; wi++ {
				w := workers[wi]
				var mine []string
				for k := wi; k < len(perm); k += nworkers {
					mine = append(mine, cur[perm[k]])
				}
				wr := rand.New(rand.NewSource(rng.Int63()))
				wg.Add(1)
				go func() {
					defer wg.Done()
					<-start
					for pass := 0; pass < 2; pass++ {
						for _, a := range mine {
							query(w, a)
						}
						wr.Shuffle(len(mine), func(i, j int) { mine[i], mine[j] = mine[j], mine[i] })
					}
				}()
			}
			close(start)
			wg.Wait()
			// ---- quiescent
			if time.Since(base).Milliseconds() > verifC18MaxRealMs {
				rec.Inconclusive("sweep scenario took too long in real time; harness ages not trustworthy", map[string]interface{}{"scenario": sc})
				break
			}
			nh, np := flush(round, "clean-up concurrent with re-measurement")
			checkLen(round, "after clean-up concurrent with re-measurement of the cleaned addresses")
			// ---- sequential: a cache worth of other phantoms (the sequential part may legally be served
			// what any worker measured in this epoch)
			for _, w := range workers[:nworkers] {
				for k, b := range w.probed {
					seq.probed[k] |= b
				}
			}
			for _, a := range other {
				query(seq, a)
			}
			flush(round, "filling with new addresses")
			checkLen(round, "after clean-up concurrent with re-measurement, then "+strconv.Itoa(len(other))+" queries for other addresses")
			// ---- everything the cache still stores is asked for: how many does it serve with no probe in between?
			m, mu, err := verifC18Map(theCache)
			if err != nil || m == nil {
				t.Fatalf("infrastructure: %v", err)
			}
			mu.RLock()
			keys := make([]string, 0, len(m))
			for k := range m {
				keys = append(keys, k)
			}
			mu.RUnlock()
			served, worst := 0, 0
			for _, k := range keys {
				if query(seq, k) {
					served++
					if served > worst {
						worst = served
					}
				} else {
					served = 0
				}
			}
			if worst > capacity {
				report(boundSig("served"), fmt.Sprintf("%d distinct addresses were answered from the %s cache (capacity %d) with no probe in between", worst, vn, capacity), map[string]interface{}{"round": round})
			}
			h2, p2 := flush(round, "serving pass")
			checkLen(round, "after the serving pass")
			rec.Count("evaluations", 1)
			rec.Count("cache_hits_judged", nh+h2)
			rec.Count("probes_judged", np+p2)
			if nh > 0 && np > 0 {
				rec.Distinct("nontrivial", "sweep", sc, round, cfg.String())
			}
			if round == 0 {
				rec.Sample(map[string]interface{}{"phase": "sweep", "config": cfg, "capacity": capacity, "workers": nworkers, "concurrent_hits": nh, "concurrent_probes": np, "served_in_a_row": worst})
			}
		}
		rec.Distinct("configs", cfg.String())
	}
}
