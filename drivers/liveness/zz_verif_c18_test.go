//go:build verif

package liveness

// C18 – cached liveness verdicts are never stale or flipped; the cache is bounded.
//
// Monitor: the real testers built by the real New()/Init() from a Config, with the unexported probe
// function replaced by a scripted recorder.  Harness time is advanced by back-dating the cachedTime
// of every cached entry IN PLACE (all other fields of the entry are left as the code set them) while
// nothing else runs.  The age the code computes is therefore (harness age + real time elapsed since
// the entry was stored) >= harness age, so
//
//	harness age >= configured lifetime  =>  the entry must not be answered from the cache
//
// is exact and cannot be falsified by load (real time only makes entries older).  The other side
// (an entry that is dropped although harness age + real elapsed < lifetime) is legal ("a cache may
// always probe again") and is only counted.  Nothing sleeps.
//
// Reference (one-directional on hits):
//   - an answer carrying ErrCachedPhantom with verdict v for address a is legal only if the cache
//     for v is enabled, some probe of a returned v, and the LATEST such probe is younger than
//     lifetime(v) in harness time (if the latest is too old, every earlier one is too); in the
//     sequential phases additionally (white box) the entry that answered must have been produced
//     by a measurement whose verdict (the probe's bool, whatever error came with it) is v, and the
//     implementation's own LRU key set must still hold a (an evicted entry must not be served);
//   - any other answer must have called the probe exactly once, with that address, and must return
//     the verdict that probe call returned (an error other than the probe's is only counted);
//   - a cache with a configured capacity never reports Len() above it at a quiescent point, and
//     between two probes (only a probe result is ever inserted) it never serves more distinct
//     addresses than its capacity.
// A cache may always probe again: fewer hits than the reference would allow are never charged.
//
// All function / type names contain "verif" so that the orchestrator's race attribution never takes a
// harness frame for a repository frame.

import (
	"context"
	"errors"
	"fmt"
	"math/bits"
	"math/rand"
	"net"
	"runtime"
	"runtime/debug"
	"strconv"
	"strings"
	"sync"
	"syscall"
	"testing"
	"time"

	kit "github.com/refraction-networking/conjure/internal/verifkit"
)

const (
	verifC18Step = 20 * time.Minute
	// lifetimes of the enumerated configurations are whole multiples of the step: ages land EXACTLY on the
	// lifetime (must not be served any more), one step before it (well inside) and one step after it
	verifC18Short     = "40m"
	verifC18Long      = "60m"
	verifC18MaxRealMs = 5 * 60 * 1000 // a history that took longer than this in real time is not judged
	verifC18MaxAddrs  = 512
)

var verifC18Addrs = func() []string {
	// The phantom is whatever STRING the caller passes (the probe dials exactly that string): the alphabet
	// therefore holds, next to plain literals, spellings that are not plain IP literals - a zone-scoped
	// link-local IPv6 address (two different zones/hosts), an IPv4 spelling with a leading zero and a host
	// name.  All eight are different strings AND different addresses; the reference is per queried string
	// (no two entries are spellings of one address, so nothing is assumed about spellings sharing an entry).
	a := []string{"192.0.2.1", "fe80::18%eth0", "192.0.2.010", "198.51.100.4", "phantom-c18.example", "203.0.113.6", "fe80::19%eth1", "2001:db8::8"}
	for i := len(a); i < verifC18MaxAddrs; i++ {
		if i%3 == 0 {
			a = append(a, fmt.Sprintf("2001:db8:18::%x", i))
		} else {
			a = append(a, fmt.Sprintf("10.18.%d.%d", i/256, i%256))
		}
	}
	return a
}()

var verifC18AddrIdx = func() map[string]int {
	m := map[string]int{}
	for i, a := range verifC18Addrs {
		m[a] = i
	}
	return m
}()

var verifC18VName = [2]string{"nonlive", "live"}

// ---- configuration ------------------------------------------------------------------------------

type verifC18Cfg struct {
	DurLive string `json:"cache_expiration_time"`
	CapLive int    `json:"cache_capacity"`
	DurNon  string `json:"cache_expiration_nonlive"`
	CapNon  int    `json:"cache_capacity_nonlive"`
}

func (c verifC18Cfg) String() string {
	return fmt.Sprintf("{cache_expiration_time=%q cache_capacity=%d cache_expiration_nonlive=%q cache_capacity_nonlive=%d}", c.DurLive, c.CapLive, c.DurNon, c.CapNon)
}

func (c verifC18Cfg) verifMode() string {
	switch {
	case c.DurLive == "" && c.DurNon == "":
		return "uncached"
	case c.DurNon == "":
		return "live-only"
	case c.DurLive == "":
		return "nonlive-only"
	}
	return "both"
}

func verifC18Life(s string) time.Duration {
	if s == "" {
		return 0
	}
	d, err := time.ParseDuration(s)
	if err != nil {
		panic(err)
	}
	return d
}

// ---- scripted probe outcomes: the whole (verdict × error class) product -------------------------------

type verifC18Timeout struct{}

func (verifC18Timeout) Error() string   { return "i/o timeout" }
func (verifC18Timeout) Timeout() bool   { return true }
func (verifC18Timeout) Temporary() bool { return true }

type verifC18Outcome struct {
	live bool
	err  error
	name string
}

// The measured verdict is the probe's bool, whatever error value accompanies it.  (ErrCachedPhantom
// is never scripted: it is the marker of a cached answer.)
var verifC18Outcomes = []verifC18Outcome{
	{true, ErrLiveHost, "(true, ErrLiveHost)"},
	{true, fmt.Errorf("%w: verif", ErrLiveHost), "(true, wrapped ErrLiveHost)"},
	{true, &net.OpError{Op: "dial", Net: "tcp", Err: &verifC18SyscallError{"connect", syscall.ECONNREFUSED}}, "(true, dial: connection refused)"},
	{true, nil, "(true, nil)"},
	{true, NotLive, "(true, NotLive)"},
	{false, NotLive, "(false, NotLive)"},
	{false, fmt.Errorf("%w %v", NotLive, 750*time.Millisecond), "(false, wrapped NotLive)"},
	{false, nil, "(false, nil)"},
	{false, context.DeadlineExceeded, "(false, context.DeadlineExceeded)"},
	{false, errors.New(NotLive.Error()), "(false, errors.New(NotLive.Error()))"},
	{false, &net.OpError{Op: "dial", Net: "tcp", Err: verifC18Timeout{}}, "(false, dial: i/o timeout)"},
	{false, ErrLiveHost, "(false, ErrLiveHost)"},
}

// verifC18SyscallError is a harness-side ("verif") stand-in for *os.SyscallError (keeps the import list short).
type verifC18SyscallError struct {
	Syscall string
	Err     error
}

func (e *verifC18SyscallError) Error() string { return "verif " + e.Syscall + ": " + e.Err.Error() }
func (e *verifC18SyscallError) Unwrap() error { return e.Err }

var verifC18KindsOf = func() (k [2][]int) {
	for i, o := range verifC18Outcomes {
		k[verifC18B2I(o.live)] = append(k[verifC18B2I(o.live)], i)
	}
	return
}()

type verifC18Call struct {
	addr string
	live bool
	err  error
	kind int
}

func verifC18Install(t Tester, probe func(string) (bool, error)) (*CachedLivenessTester, error) {
	switch x := t.(type) {
	case *CachedLivenessTester:
		x.phantomIsLive = probe
		return x, nil
	case *UncachedLivenessTester:
		x.phantomIsLive = probe
		return nil, nil
	}
	return nil, fmt.Errorf("unknown tester type %T", t)
}

func verifC18Map(c cache) (map[string]*cacheElement, *sync.RWMutex, error) {
	switch x := c.(type) {
	case nil:
		return nil, nil, nil
	case *mapCache:
		if x == nil {
			return nil, nil, nil
		}
		return x.ipCache, &x.m, nil
	case *lruCache:
		if x == nil {
			return nil, nil, nil
		}
		return x.ipCache, &x.m, nil
	}
	return nil, nil, fmt.Errorf("unknown cache type %T", c)
}

// verifC18Backdate makes every entry of the cache d older: only cachedTime is changed, in place, under the
// cache's write lock.  It is only ever called while no query is running (sequential phases; at the barrier
// of the concurrent phase), so the lruCache's unlocked read of an element cannot overlap it.
func verifC18Backdate(c cache, d time.Duration) error {
	m, mu, err := verifC18Map(c)
	if err != nil || m == nil {
		return err
	}
	mu.Lock()
	for _, e := range m {
		e.cachedTime = e.cachedTime.Add(-d)
	}
	mu.Unlock()
	return nil
}

// verifC18Entry returns the element the cache holds for key (nil if none).
func verifC18Entry(c cache, key string) *cacheElement {
	m, mu, err := verifC18Map(c)
	if err != nil || m == nil {
		return nil
	}
	mu.RLock()
	e := m[key]
	mu.RUnlock()
	return e
}

func verifC18B2I(b bool) int {
	if b {
		return 1
	}
	return 0
}

// ---- sequential system under observation + reference ----------------------------------------------

type verifC18StepRec struct {
	Op     byte // 'q' 'a' 'c'
	Addr   int16
	Kind   int8 // scripted probe outcome (what the host would answer)
	Port   uint16
	D      time.Duration // advance
	Live   bool
	Hit    bool
	Probes int8
	LenL   int16 // Len() of the live cache after the op (-1 = no such cache)
	LenN   int16
}

type verifC18Viol struct {
	sig, msg string
	at       int
}

type verifC18Prod struct {
	ptr  *cacheElement
	live bool
	kind int8
}

type verifC18Bits [verifC18MaxAddrs / 64]uint64

func (b *verifC18Bits) verifSet(i int)      { b[i>>6] |= 1 << uint(i&63) }
func (b *verifC18Bits) verifHas(i int) bool { return b[i>>6]&(1<<uint(i&63)) != 0 }
func (b *verifC18Bits) verifCount() int {
	n := 0
	for _, w := range b {
		n += bits.OnesCount64(w)
	}
	return n
}

type verifC18Seq struct {
	cfg   verifC18Cfg
	t     Tester
	c     *CachedLivenessTester
	life  [2]time.Duration // [0]=non-live [1]=live: the configured lifetime (may be zero or negative: nothing is ever young enough)
	on    [2]bool          // caching of that verdict is configured (duration string not empty)
	capa  [2]int
	naddr int // addresses in play (the reference's tables are reset up to here)

	nextKind int
	calls    []verifC18Call

	now    time.Duration      // harness time
	last   [][2]time.Duration // harness time of the latest probe of address i that returned verdict v (-1: never)
	prod   [][2]verifC18Prod  // which measurement produced the entry that cache v holds for address i
	served [2]verifC18Bits    // addresses served from cache v since the last measurement (probe call)
	seen   verifC18Bits

	trace []verifC18StepRec
	viols []verifC18Viol
	start time.Time

	hits, probes, reprobes, hitWithProbe, errDiffers, earlyDrops int
}

func (s *verifC18Seq) verifProbe(address string) (bool, error) {
	o := verifC18Outcomes[s.nextKind]
	s.calls = append(s.calls, verifC18Call{addr: address, live: o.live, err: o.err, kind: s.nextKind})
	return o.live, o.err
}

// verifReset builds a fresh tester through the real constructor.
func (s *verifC18Seq) verifReset(cfg verifC18Cfg) error {
	t, err := New(&Config{CacheDuration: cfg.DurLive, CacheCapacity: cfg.CapLive, CacheDurationNonLive: cfg.DurNon, CacheCapacityNonLive: cfg.CapNon})
	if err != nil {
		return err
	}
	c, err := verifC18Install(t, s.verifProbe)
	if err != nil {
		return err
	}
	s.cfg, s.t, s.c = cfg, t, c
	s.life = [2]time.Duration{verifC18Life(cfg.DurNon), verifC18Life(cfg.DurLive)}
	s.on = [2]bool{cfg.DurNon != "", cfg.DurLive != ""}
	s.capa = [2]int{cfg.CapNon, cfg.CapLive}
	s.nextKind, s.calls = 0, s.calls[:0]
	s.now = 0
	if s.naddr == 0 {
		s.naddr = 8
	}
	if len(s.last) < s.naddr {
		s.last = make([][2]time.Duration, s.naddr)
		s.prod = make([][2]verifC18Prod, s.naddr)
	}
	for i := 0; i < s.naddr; i++ {
		s.last[i] = [2]time.Duration{-1, -1}
		s.prod[i] = [2]verifC18Prod{}
	}
	s.served = [2]verifC18Bits{}
	s.seen = verifC18Bits{}
	s.trace, s.viols = s.trace[:0], s.viols[:0]
	s.hits, s.probes, s.reprobes, s.hitWithProbe, s.errDiffers, s.earlyDrops = 0, 0, 0, 0, 0, 0
	s.start = time.Now()
	return nil
}

func (s *verifC18Seq) verifCacheOf(v int) cache {
	if s.c == nil {
		return nil
	}
	if v == 1 {
		return s.c.ipCacheLive
	}
	return s.c.ipCacheNonLive
}

func (s *verifC18Seq) verifViol(sig, msg string) {
	for _, v := range s.viols {
		if v.sig == sig {
			return // once per history and signature
		}
	}
	s.viols = append(s.viols, verifC18Viol{sig: sig, msg: msg, at: len(s.trace)})
}

// verifBoundSig names the bound that was broken and the configuration class it was broken in.
func (s *verifC18Seq) verifBoundSig(kind string, v int) string {
	if v == 1 {
		return "bound:" + kind + ":live"
	}
	if s.cfg.CapLive == 0 {
		return "bound:" + kind + ":nonlive:live-capacity-unset"
	}
	return "bound:" + kind + ":nonlive:live-capacity-set"
}

func (s *verifC18Seq) verifLens() (int16, int16) {
	l, n := int16(-1), int16(-1)
	if c := s.verifCacheOf(1); c != nil {
		l = int16(c.Len())
	}
	if c := s.verifCacheOf(0); c != nil {
		n = int16(c.Len())
	}
	return l, n
}

// verifAfter closes a step: records it and checks the size bound (the state is quiescent here).
func (s *verifC18Seq) verifAfter(st verifC18StepRec) {
	st.LenL, st.LenN = s.verifLens()
	s.trace = append(s.trace, st)
	lens := [2]int16{st.LenN, st.LenL}
	for v := 0; v < 2; v++ {
		if s.on[v] && s.capa[v] > 0 && int(lens[v]) > s.capa[v] {
			s.verifViol(s.verifBoundSig("len", v), fmt.Sprintf("the %s cache has a configured capacity of %d but holds %d entries at a quiescent point", verifC18VName[v], s.capa[v], lens[v]))
		}
	}
}

// verifQuery asks the tester about address ai; kind is what the host would answer if it were probed.
func (s *verifC18Seq) verifQuery(ai int, kind int, port uint16) {
	addr := verifC18Addrs[ai]
	s.nextKind = kind
	s.calls = s.calls[:0]
	// what the implementation's own LRU key sets hold right now (no recency update)
	inLRU := [2]int8{-1, -1}
	for v := 0; v < 2; v++ {
		if lc, ok := s.verifCacheOf(v).(*lruCache); ok && lc != nil && lc.lru != nil {
			inLRU[v] = int8(verifC18B2I(lc.lru.Contains(addr)))
		}
	}

	gotLive, err := s.t.PhantomIsLive(addr, port)

	hit := errors.Is(err, ErrCachedPhantom)
	st := verifC18StepRec{Op: 'q', Addr: int16(ai), Kind: int8(kind), Port: port, Live: gotLive, Hit: hit, Probes: int8(len(s.calls))}

	// the reference learns about every measurement that was taken, whoever asked for it
	for _, c := range s.calls {
		s.probes++
		s.served = [2]verifC18Bits{} // a measurement may insert (and evict): the served sets start over
		if h, _, e := net.SplitHostPort(c.addr); e == nil {
			if i, ok := verifC18AddrIdx[h]; ok && i < s.naddr {
				if s.seen.verifHas(i) {
					s.reprobes++
				}
				s.seen.verifSet(i)
				s.last[i][verifC18B2I(c.live)] = s.now
				// white box: an element that appeared for this address in either cache was produced by this measurement
				for v := 0; v < 2; v++ {
					if p := verifC18Entry(s.verifCacheOf(v), h); p != nil && p != s.prod[i][v].ptr {
						s.prod[i][v] = verifC18Prod{ptr: p, live: c.live, kind: int8(c.kind)}
					}
				}
			}
		}
	}

	if hit {
		s.hits++
		if len(s.calls) > 0 {
			s.hitWithProbe++
		}
		v := verifC18B2I(gotLive)
		vn := verifC18VName[v]
		var pr *verifC18Prod
		if p := verifC18Entry(s.verifCacheOf(v), addr); p != nil && p == s.prod[ai][v].ptr {
			pr = &s.prod[ai][v]
		}
		switch {
		case !s.on[v]:
			s.verifViol("hit:disabled-cache:"+vn, fmt.Sprintf("%s answered from the cache as %s although caching of %s verdicts is disabled", addr, vn, vn))
		case pr != nil && pr.live != gotLive:
			s.verifViol("hit:flipped:"+vn, fmt.Sprintf("%s answered from the cache as %s by an entry that was produced by a measurement whose verdict was %s (probe returned %s)",
				addr, vn, verifC18VName[verifC18B2I(pr.live)], verifC18Outcomes[pr.kind].name))
		case s.last[ai][v] < 0:
			s.verifViol("hit:unmeasured:"+vn, fmt.Sprintf("%s answered from the cache as %s although no probe of it ever returned %s", addr, vn, vn))
		case s.now-s.last[ai][v] >= s.life[v]:
			s.verifViol("hit:stale:"+vn, fmt.Sprintf("%s answered from the cache as %s although the latest probe that returned %s is %v old (configured lifetime %v)", addr, vn, vn, s.now-s.last[ai][v], s.life[v]))
		case inLRU[v] == 0:
			s.verifViol("hit:evicted:"+vn, fmt.Sprintf("%s answered from the %s cache although the cache's LRU no longer held it (evicted or removed)", addr, vn))
		}
		s.served[v].verifSet(ai)
		if s.capa[v] > 0 && s.on[v] && s.served[v].verifCount() > s.capa[v] {
			s.verifViol(s.verifBoundSig("served", v), fmt.Sprintf("%d distinct addresses were answered from the %s cache (capacity %d) with no probe in between", s.served[v].verifCount(), vn, s.capa[v]))
		}
	} else {
		want := net.JoinHostPort(addr, strconv.Itoa(int(port)))
		switch {
		case len(s.calls) == 0:
			s.verifViol("miss:no-probe", fmt.Sprintf("query for %s was not answered from the cache and did not probe", addr))
		case len(s.calls) > 1:
			s.verifViol("miss:probed-more-than-once", fmt.Sprintf("query for %s probed %d times", addr, len(s.calls)))
		case s.calls[0].addr != want:
			s.verifViol("miss:probed-wrong-address", fmt.Sprintf("query for %s probed %q", want, s.calls[0].addr))
		case gotLive != s.calls[0].live:
			s.verifViol("miss:verdict-differs", fmt.Sprintf("query for %s returned (%v, %v) but its probe returned (%v, %v)", addr, gotLive, err, s.calls[0].live, s.calls[0].err))
		case !errors.Is(err, s.calls[0].err):
			// the statement is about the verdict; an answer that drops or replaces the probe's error is
			// only counted (a correct implementation may wrap it, which errors.Is accepts)
			s.errDiffers++
		}
	}
	s.verifAfter(st)
}

func (s *verifC18Seq) verifAdvance(d time.Duration) error {
	s.now += d
	if s.c != nil {
		if err := verifC18Backdate(s.c.ipCacheLive, d); err != nil {
			return err
		}
		if err := verifC18Backdate(s.c.ipCacheNonLive, d); err != nil {
			return err
		}
	}
	s.verifAfter(verifC18StepRec{Op: 'a', D: d})
	return nil
}

func (s *verifC18Seq) verifClear() {
	if s.c != nil {
		s.c.ClearExpiredCache()
	}
	s.verifAfter(verifC18StepRec{Op: 'c'})
}

// verifTrace writes the first n steps out.
func (s *verifC18Seq) verifTrace(n int) []string {
	if n > len(s.trace) {
		n = len(s.trace)
	}
	out := make([]string, 0, n)
	for _, st := range s.trace[:n] {
		var l string
		switch st.Op {
		case 'q':
			res := "probed"
			if st.Hit {
				res = "CACHED"
			}
			if st.Probes != 1 && !st.Hit || st.Probes != 0 && st.Hit {
				res += fmt.Sprintf("(probe calls=%d)", st.Probes)
			}
			l = fmt.Sprintf("query(a%d=%s:%d, a probe would return %s) -> %s %s", st.Addr+1, verifC18Addrs[st.Addr], st.Port, verifC18Outcomes[st.Kind].name, res, verifC18VName[verifC18B2I(st.Live)])
		case 'a':
			l = fmt.Sprintf("advance %v", st.D)
		case 'c':
			l = "ClearExpiredCache()"
		}
		l += fmt.Sprintf("   [Len live=%d nonlive=%d]", st.LenL, st.LenN)
		out = append(out, strings.ReplaceAll(l, "=-1", "=n/a"))
	}
	return out
}

// verifShape abstracts a history to its response classes (3 bits per step, addresses dropped):
// first probe +/-, re-probe +/-, hit +/-, advance, clear.
func (s *verifC18Seq) verifShape() (code uint64, nontrivial bool) {
	var seen verifC18Bits
	for _, st := range s.trace {
		var c uint64
		switch st.Op {
		case 'q':
			switch {
			case st.Hit:
				c = 4 + uint64(verifC18B2I(st.Live))
				nontrivial = true
			case seen.verifHas(int(st.Addr)):
				c = 2 + uint64(verifC18B2I(st.Live))
				nontrivial = true
			default:
				c = uint64(verifC18B2I(st.Live))
			}
			seen.verifSet(int(st.Addr))
		case 'a':
			c = 6
		case 'c':
			c = 7
		}
		code = code<<3 | c
	}
	return code | uint64(len(s.trace))<<60, nontrivial
}

func verifC18PanicSite(stack string) string {
	for _, l := range strings.Split(stack, "\n") {
		if strings.HasPrefix(l, "github.com/refraction-networking/conjure/") && !strings.Contains(l, "erif") {
			l = strings.TrimPrefix(l, "github.com/refraction-networking/conjure/")
			if i := strings.LastIndex(l, "("); i > 0 {
				l = l[:i]
			}
			return l
		}
	}
	return "?"
}

// verifGuard runs f and turns a panic of the code under observation into a violation with the
// history so far as the witness.
func (s *verifC18Seq) verifGuard(f func() error) (err error) {
	defer func() {
		if p := recover(); p != nil {
			st := string(debug.Stack())
			s.verifViol("panic:"+verifC18PanicSite(st), fmt.Sprintf("panic during the history: %v", p))
		}
	}()
	return f()
}

type verifC18Reporter struct {
	rec     *kit.Rec
	mu      sync.Mutex
	written map[string]int
}

// verifFlush reports the pending violations of a finished history.
func (rp *verifC18Reporter) verifFlush(s *verifC18Seq, phase string, extra map[string]interface{}) {
	if len(s.viols) == 0 {
		return
	}
	if ms := time.Since(s.start).Milliseconds(); ms > verifC18MaxRealMs {
		rp.rec.Inconclusive("history took too long in real time; not judged", map[string]interface{}{"ms": ms, "config": s.cfg.String()})
		return
	}
	for _, v := range s.viols {
		rp.mu.Lock()
		rp.written[v.sig]++
		full := rp.written[v.sig] <= 5
		rp.mu.Unlock()
		var detail interface{}
		if full {
			n := v.at + 1
			tr := s.verifTrace(n)
			if len(tr) > 40 { // long histories: the beginning and the steps before the violation
				tr = append(append(append([]string{}, tr[:8]...), fmt.Sprintf("… %d steps …", len(tr)-28)), tr[len(tr)-20:]...)
			}
			d := map[string]interface{}{"phase": phase, "config": s.cfg, "mode": s.cfg.verifMode(), "history": tr,
				"harness": "advance = every cachedTime moved back by that much; lifetimes are as configured"}
			for k, x := range extra {
				d[k] = x
			}
			detail = d
		}
		rp.rec.Violation(v.sig, v.msg, detail)
	}
}

// verifC18Tally accumulates what the histories of one job observed (the recorder is shared and locked).
type verifC18Tally struct{ steps, hits, probes, reprobes, hwp, errd int }

func (s *verifC18Seq) verifTallyInto(t *verifC18Tally) {
	t.steps += len(s.trace)
	t.hits += s.hits
	t.probes += s.probes
	t.reprobes += s.reprobes
	t.hwp += s.hitWithProbe
	t.errd += s.errDiffers
}

func (t *verifC18Tally) verifCountInto(rec *kit.Rec) {
	rec.Count("steps_judged", t.steps)
	rec.Count("cache_hits_judged", t.hits)
	rec.Count("probes_judged", t.probes)
	rec.Count("reprobes_of_known_address", t.reprobes)
	rec.Count("hits_that_also_probed", t.hwp)
	rec.Count("misses_whose_error_is_not_the_probes", t.errd)
}

// ---- phase 1: every history up to length L ----------------------------------------------------------

// every one of these parses (time.ParseDuration) and is a configured, enabled cache
var verifC18NonPositive = []string{"0s", "0", "-5m", "-1ns", "1ns"}

func verifC18ExhaustiveCfgs() (full, shorter []verifC18Cfg) {
	S, L := verifC18Short, verifC18Long
	// live-only and non-live-only: map (0) and LRU capacities 1..3, both lifetimes
	for _, d := range []string{S, L} {
		for c := 0; c <= 3; c++ {
			full = append(full, verifC18Cfg{DurLive: d, CapLive: c})
			full = append(full, verifC18Cfg{DurNon: d, CapNon: c})
		}
	}
	// both caches, same capacity, the two lifetime assignments
	for _, p := range [][2]string{{S, L}, {L, S}} {
		for c := 0; c <= 3; c++ {
			full = append(full, verifC18Cfg{DurLive: p[0], CapLive: c, DurNon: p[1], CapNon: c})
		}
	}
	// no caching at all
	full = append(full, verifC18Cfg{})
	// one length shorter: different capacities for the two caches; a capacity also set for the disabled cache
	for _, p := range [][2]string{{S, L}, {L, S}} {
		for cl := 0; cl <= 3; cl++ {
			for cn := 0; cn <= 3; cn++ {
				if cl != cn {
					shorter = append(shorter, verifC18Cfg{DurLive: p[0], CapLive: cl, DurNon: p[1], CapNon: cn})
				}
			}
		}
	}
	for _, d := range []string{S, L} {
		for c := 1; c <= 3; c++ {
			shorter = append(shorter, verifC18Cfg{DurNon: d, CapNon: c, CapLive: c})
			shorter = append(shorter, verifC18Cfg{DurLive: d, CapLive: c, CapNon: c})
		}
	}
	// lifetimes that nothing can be younger than (zero, negative, in every string form the parser accepts) and 1 ns:
	// age >= 0 >= lifetime, so such a cache must never answer
	for _, d := range verifC18NonPositive {
		for _, c := range []int{0, 2} {
			shorter = append(shorter,
				verifC18Cfg{DurLive: d, CapLive: c},
				verifC18Cfg{DurNon: d, CapNon: c},
				verifC18Cfg{DurLive: d, CapLive: c, DurNon: S, CapNon: c},
				verifC18Cfg{DurLive: S, CapLive: c, DurNon: d, CapNon: c},
				verifC18Cfg{DurLive: d, CapLive: c, DurNon: d, CapNon: c})
		}
	}
	return
}

// alphabet: 0..5 = query(a1..a3 × host live / not live), 6 = advance one step, 7 = clear expired.
// The error that accompanies the verdict rotates through all scripted error classes with (history, step).
func verifC18ApplyOp(s *verifC18Seq, op int, mix int) error {
	switch {
	case op < 6:
		ks := verifC18KindsOf[verifC18B2I(op%2 == 0)]
		s.verifQuery(op/2, ks[mix%len(ks)], 443)
	case op == 6:
		return s.verifAdvance(verifC18Step)
	default:
		s.verifClear()
	}
	return nil
}

// verifC18Pool runs the jobs on 4 goroutines; each gets its own sequential system.
func verifC18Pool(t *testing.T, njobs int, run func(s *verifC18Seq, job int) error) {
	ch := make(chan int, njobs)
	for j := 0; j < njobs; j++ {
		ch <- j
	}
	close(ch)
	var wg sync.WaitGroup
	var mu sync.Mutex
	var infra error
	for w := 0; w < 4; w++ {
		wg.Add(1)
		go func() {
			defer wg.Done()
			s := &verifC18Seq{}
			for j := range ch {
				if err := run(s, j); err != nil {
					mu.Lock()
					infra = err
					mu.Unlock()
					return
				}
			}
		}()
	}
	wg.Wait()
	if infra != nil {
		t.Fatalf("infrastructure: %v", infra)
	}
}

func TestVerifC18Exhaustive(t *testing.T) {
	rec := kit.NewRec("C18", "histories")
	defer rec.Close()
	rp := &verifC18Reporter{rec: rec, written: map[string]int{}}
	maxLen := kit.Tier(6, 7)
	full, shorter := verifC18ExhaustiveCfgs()

	type job struct {
		cfg    verifC18Cfg
		maxLen int
	}
	var jobs []job
	for _, c := range full {
		jobs = append(jobs, job{c, maxLen})
	}
	for _, c := range shorter {
		jobs = append(jobs, job{c, maxLen - 1})
	}
	verifC18Pool(t, len(jobs), func(s *verifC18Seq, idx int) error {
		j := jobs[idx]
		s.naddr = 3
		rec.Case(map[string]interface{}{"phase": "exhaustive", "config": j.cfg.String(), "max_len": j.maxLen})
		shapes := map[uint64]struct{}{}
		var evals, hits, probes, reprobes, hwp, steps, errd int
		sampled := 0
		for L := 1; L <= j.maxLen; L++ {
			n := 1
			for i := 0; i < L; i++ {
				n *= 8
			}
			for h := 0; h < n; h++ {
				if err := s.verifReset(j.cfg); err != nil {
					return fmt.Errorf("config %v: %v", j.cfg, err)
				}
				err := s.verifGuard(func() error {
					x := h
					mix := h ^ h>>3 ^ h>>7 ^ L
					for i := 0; i < L; i++ {
						if e := verifC18ApplyOp(s, x%8, mix+i); e != nil {
							return e
						}
						x /= 8
					}
					return nil
				})
				if err != nil {
					return err
				}
				rp.verifFlush(s, "exhaustive", nil)
				evals++
				steps += len(s.trace)
				hits += s.hits
				probes += s.probes
				reprobes += s.reprobes
				hwp += s.hitWithProbe
				errd += s.errDiffers
				if code, nt := s.verifShape(); nt {
					shapes[code] = struct{}{}
					// a few written-out histories (a different one per configuration): full length, with a
					// cache hit, a re-probe of a known address and a time advance
					if L == j.maxLen && sampled < 1 && s.hits > 0 && s.reprobes > 0 && s.now > 0 && h%997 == (17+idx*131)%997 && idx%9 == 2 && rec.WantSample() {
						sampled++
						rec.Sample(map[string]interface{}{"phase": "exhaustive", "config": j.cfg, "history": s.verifTrace(L)})
					}
				}
			}
		}
		rec.Count("evaluations", evals)
		rec.Count("steps_judged", steps)
		rec.Count("cache_hits_judged", hits)
		rec.Count("probes_judged", probes)
		rec.Count("reprobes_of_known_address", reprobes)
		rec.Count("hits_that_also_probed", hwp)
		rec.Count("misses_whose_error_is_not_the_probes", errd)
		rec.Count("configs", 1)
		for code := range shapes {
			rec.Distinct("nontrivial", idx, code)
		}
		rec.Distinct("configs", j.cfg.String())
		return nil
	})
	rec.Exhaustive(fmt.Sprintf("every history of length 1..%d over {query(a1..a3) × host live/not-live, advance 20m, ClearExpiredCache} for %d configurations "+
		"(live-only / non-live-only / both × map and LRU capacity 1..3 × lifetimes 40m/60m = 2 and 3 steps, and uncached), and of length 1..%d for %d further configurations "+
		"(unequal capacities; capacity set for the disabled cache)", maxLen, len(full), maxLen-1, len(shorter)))
}

// ---- phase 1b: every probe outcome (verdict × error class), then every short continuation ----------------

// For every configuration, every pair (k1, k2) of scripted probe outcomes and every continuation of length
// 1..4 (quick) / 1..5 (thorough) over {query(a1), query(a2), advance 20m, ClearExpiredCache}: a1 is measured
// with outcome k1; every later probe answers with outcome k2.
func TestVerifC18Outcomes(t *testing.T) {
	rec := kit.NewRec("C18", "outcomes")
	defer rec.Close()
	rp := &verifC18Reporter{rec: rec, written: map[string]int{}}
	maxLen := kit.Tier(4, 5)
	full, shorter := verifC18ExhaustiveCfgs()
	cfgs := append(append([]verifC18Cfg{}, full...), shorter...)
	nk := len(verifC18Outcomes)
	verifC18Pool(t, len(cfgs), func(s *verifC18Seq, idx int) error {
		cfg := cfgs[idx]
		s.naddr = 2
		rec.Case(map[string]interface{}{"phase": "outcomes", "config": cfg.String()})
		type key struct {
			l1, l2 bool
			shape  uint64
		}
		shapes := map[key]struct{}{}
		evals := 0
		var tally verifC18Tally
		for k1 := 0; k1 < nk; k1++ {
			for k2 := 0; k2 < nk; k2++ {
				for L := 1; L <= maxLen; L++ {
					n := 1 << uint(2*L)
					for h := 0; h < n; h++ {
						if err := s.verifReset(cfg); err != nil {
							return fmt.Errorf("config %v: %v", cfg, err)
						}
						err := s.verifGuard(func() error {
							s.verifQuery(0, k1, 443)
							x := h
							for i := 0; i < L; i++ {
								switch x % 4 {
								case 0:
									s.verifQuery(0, k2, 443)
								case 1:
									s.verifQuery(1, k2, 443)
								case 2:
									if e := s.verifAdvance(verifC18Step); e != nil {
										return e
									}
								default:
									s.verifClear()
								}
								x /= 4
							}
							return nil
						})
						if err != nil {
							return err
						}
						rp.verifFlush(s, "outcomes", map[string]interface{}{"first_probe_outcome": verifC18Outcomes[k1].name, "later_probe_outcomes": verifC18Outcomes[k2].name})
						evals++
						s.verifTallyInto(&tally)
						if code, nt := s.verifShape(); nt {
							shapes[key{verifC18Outcomes[k1].live, verifC18Outcomes[k2].live, code}] = struct{}{}
						}
						if idx == 17 && k1 == 7 && k2 == 0 && L == maxLen && h == 0x48 && rec.WantSample() {
							rec.Sample(map[string]interface{}{"phase": "outcomes", "config": cfg, "history": s.verifTrace(L + 1)})
						}
					}
				}
				rec.Distinct("outcome_pairs", verifC18Outcomes[k1].name, verifC18Outcomes[k2].name)
			}
		}
		rec.Count("evaluations", evals)
		tally.verifCountInto(rec)
		rec.Count("configs", 1)
		for k := range shapes {
			rec.Distinct("nontrivial", idx, k.l1, k.l2, k.shape)
		}
		rec.Distinct("configs", cfg.String())
		return nil
	})
	var names []string
	for _, o := range verifC18Outcomes {
		names = append(names, o.name)
	}
	rec.Exhaustive(fmt.Sprintf("for %d configurations × every ordered pair of the %d probe outcomes %v: measure a1 with the first, then every continuation of length 1..%d over "+
		"{query(a1), query(a2) (a probe answers with the second outcome), advance 20m, ClearExpiredCache}", len(cfgs), nk, names, maxLen))
}

// ---- phase 1c: ages densely around the configured lifetime, many entries ----------------------------------

// fractions of the lifetime at which the entries are queried (plus the exact points L-1ns, L, L+1ns)
var verifC18Fractions = []float64{0.50, 0.90, 0.93, 0.95, 0.96, 0.97, 0.98, 0.99, 0.995, 0.999,
	1.0, 1.001, 1.005, 1.01, 1.015, 1.02, 1.025, 1.03, 1.035, 1.04, 1.045, 1.049, 1.05, 1.06, 1.08, 1.10, 1.50}

func TestVerifC18Boundary(t *testing.T) {
	rec := kit.NewRec("C18", "boundary")
	defer rec.Close()
	rp := &verifC18Reporter{rec: rec, written: map[string]int{}}
	n := kit.Tier(128, 512) // entries per (configuration, age)
	lifetimes := []string{"2s", "90s", "40m", "2h", "26h"}
	pairs := [][2]string{{"2s", "90s"}, {"90s", "2s"}, {"40m", "2h"}, {"2h", "40m"}, {"26h", "26h"}}
	var cfgs []verifC18Cfg
	for _, kind := range []int{0, n, n / 4} { // map, LRU that holds every entry, LRU that has to evict half of what it is given
		for _, L := range lifetimes {
			cfgs = append(cfgs, verifC18Cfg{DurLive: L, CapLive: kind}, verifC18Cfg{DurNon: L, CapNon: kind})
		}
		for _, p := range pairs {
			cfgs = append(cfgs, verifC18Cfg{DurLive: p[0], CapLive: kind, DurNon: p[1], CapNon: kind})
		}
		// lifetimes nothing can be younger than (and 1 ns): queried at ages 0 … 3 h
		for _, L := range verifC18NonPositive {
			cfgs = append(cfgs, verifC18Cfg{DurLive: L, CapLive: kind}, verifC18Cfg{DurNon: L, CapNon: kind},
				verifC18Cfg{DurLive: L, CapLive: kind, DurNon: L, CapNon: kind}, verifC18Cfg{DurLive: "40m", CapLive: kind, DurNon: L, CapNon: kind})
		}
	}
	var earlyMu sync.Mutex
	earlyByFrac := map[string]int{}
	verifC18Pool(t, len(cfgs), func(s *verifC18Seq, idx int) error {
		cfg := cfgs[idx]
		s.naddr = n
		rec.Case(map[string]interface{}{"phase": "boundary", "config": cfg.String(), "entries": n})
		// the ages: every fraction of every configured lifetime, and the exact points around it
		type age struct {
			d    time.Duration
			desc string
		}
		var ages []age
		seenAge := map[time.Duration]bool{}
		for v := 0; v < 2; v++ {
			L := [2]time.Duration{verifC18Life(cfg.DurNon), verifC18Life(cfg.DurLive)}[v]
			if [2]string{cfg.DurNon, cfg.DurLive}[v] == "" {
				continue
			}
			add := func(d time.Duration, desc string) {
				if d >= 0 && !seenAge[d] {
					seenAge[d] = true
					ages = append(ages, age{d, desc})
				}
			}
			if L <= time.Nanosecond {
				// every age is >= such a lifetime (harness age 0 against 1 ns is the one exception, and real time covers it or not: not charged)
				for _, d := range []time.Duration{0, 1, time.Second, 20 * time.Minute, time.Hour, 2*time.Hour - 1, 2 * time.Hour, 3 * time.Hour} {
					add(d, fmt.Sprintf("%v against the %s lifetime %v", d, verifC18VName[v], L))
				}
				continue
			}
			for _, f := range verifC18Fractions {
				add(time.Duration(float64(L)*f), fmt.Sprintf("%.3f × %s lifetime %v", f, verifC18VName[v], L))
			}
			add(L-1, fmt.Sprintf("%s lifetime %v - 1ns", verifC18VName[v], L))
			add(L, fmt.Sprintf("exactly the %s lifetime %v", verifC18VName[v], L))
			add(L+1, fmt.Sprintf("%s lifetime %v + 1ns", verifC18VName[v], L))
		}
		for ai, a := range ages {
			if err := s.verifReset(cfg); err != nil {
				return fmt.Errorf("config %v: %v", cfg, err)
			}
			var hitsAt, expectServable, early int
			err := s.verifGuard(func() error {
				// measure n addresses: the verdict alternates, the error class rotates
				for i := 0; i < n; i++ {
					ks := verifC18KindsOf[i%2]
					s.verifQuery(i, ks[(i/2+ai)%len(ks)], 443)
				}
				if e := s.verifAdvance(a.d); e != nil {
					return e
				}
				if ai%3 == 1 {
					s.verifClear() // a clean-up at this age must not change what may be served
				}
				// query them again, most recently stored first for the bounded LRU (so that the survivors are asked before they are pushed out)
				for i := n - 1; i >= 0; i-- {
					v := i % 2
					before := s.hits
					s.verifQuery(i, verifC18KindsOf[v][0], 443)
					if s.hits > before {
						hitsAt++
					} else if s.life[v] > 0 && (s.capa[v] == 0 || s.capa[v] >= n) && a.d+time.Since(s.start) < s.life[v] {
						// not served although even harness age + ALL real time since the tester was built is below the
						// configured lifetime, in a cache that cannot have evicted it: dropped early.  Legal; counted.
						early++
					}
					if s.life[v] > 0 && a.d < s.life[v] {
						expectServable++
					}
				}
				return nil
			})
			if err != nil {
				return err
			}
			s.earlyDrops = early
			rp.verifFlush(s, "boundary", map[string]interface{}{"age": a.d.String(), "age_is": a.desc, "entries": n})
			rec.Count("evaluations", 1)
			rec.Count("boundary_entries_judged", n)
			rec.Count("boundary_entries_dropped_before_configured_lifetime", early)
			rec.Count("boundary_entries_younger_than_lifetime", expectServable)
			rec.Count("boundary_entries_answered_from_cache", hitsAt)
			if early > 0 {
				earlyMu.Lock()
				earlyByFrac[a.desc] += early
				earlyMu.Unlock()
			}
			var tally verifC18Tally
			s.verifTallyInto(&tally)
			tally.verifCountInto(rec)
			if hitsAt > 0 || s.reprobes > 0 {
				rec.Distinct("nontrivial", cfg.String(), a.d)
			}
			if idx == 3 && (a.d == s.life[0] || a.d == s.life[0]-1) && rec.WantSample() {
				rec.Sample(map[string]interface{}{"phase": "boundary", "config": cfg, "entries": n, "age_of_every_entry": a.desc, "answered_from_cache": hitsAt, "probed_again": n - hitsAt,
					"first_steps": s.verifTrace(3), "last_steps": s.verifTrace(len(s.trace))[len(s.trace)-3:]})
			}
		}
		rec.Count("configs", 1)
		rec.Distinct("configs", cfg.String())
		return nil
	})
	if len(earlyByFrac) > 0 {
		rec.Note(fmt.Sprintf("entries dropped BEFORE the configured lifetime (legal, counted only), by age: %v", earlyByFrac))
	}
	rec.Exhaustive(fmt.Sprintf("%d configurations (map / LRU holding all / LRU holding half × live-only, non-live-only, both × lifetimes %v) × every age in %v × lifetime and L-1ns, L, L+1ns × %d entries each",
		len(cfgs), lifetimes, verifC18Fractions, n))
}

// ---- phase 2: random histories of length 200 over 8 addresses ------------------------------------------

func verifC18RandCfg(rng *rand.Rand, durs []string) verifC18Cfg {
	caps := []int{0, 0, 1, 2, 3, 4, 5, 7}
	var c verifC18Cfg
	for {
		c = verifC18Cfg{DurLive: durs[rng.Intn(len(durs))], DurNon: durs[rng.Intn(len(durs))], CapLive: caps[rng.Intn(len(caps))], CapNon: caps[rng.Intn(len(caps))]}
		if c.DurLive != "" || c.DurNon != "" || rng.Intn(20) == 0 {
			return c
		}
	}
}

func TestVerifC18Random(t *testing.T) {
	rec := kit.NewRec("C18", "random")
	defer rec.Close()
	rp := &verifC18Reporter{rec: rec, written: map[string]int{}}
	rng := kit.Rand("c18-random")
	n := kit.Tier(20000, 250000)
	const length = 200
	s := &verifC18Seq{naddr: 8}
	ports := []uint16{443, 443, 443, 80, 8443}
	durs := []string{"", "", verifC18Short, verifC18Long, verifC18Short, verifC18Long, "90s", "2h", "2s", "0s", "-5m", "0", "1ns"}
	for i := 0; i < n; i++ {
		cfg := verifC18RandCfg(rng, durs)
		hseed := rng.Int63()
		hr := rand.New(rand.NewSource(hseed))
		if i%1000 == 0 {
			rec.Case(map[string]interface{}{"phase": "random", "index": i, "config": cfg.String(), "history_seed": hseed})
		}
		if err := s.verifReset(cfg); err != nil {
			t.Fatalf("infrastructure: config %v: %v", cfg, err)
		}
		// each host has a state that flips now and then (a host that changes state is what makes flips visible)
		var host [8]bool
		for a := range host {
			host[a] = hr.Intn(2) == 0
		}
		naddr := 2 + hr.Intn(7) // 2..8 addresses in play
		pFlip := []float64{0, 0.05, 0.2, 0.5}[hr.Intn(4)]
		err := s.verifGuard(func() error {
			for k := 0; k < length; k++ {
				switch r := hr.Intn(100); {
				case r < 72:
					a := hr.Intn(naddr)
					if hr.Intn(3) == 0 && naddr > 3 {
						a = hr.Intn(3) // some addresses are hotter
					}
					if hr.Float64() < pFlip {
						host[a] = !host[a]
					}
					ks := verifC18KindsOf[verifC18B2I(host[a])]
					kind := ks[0]
					if hr.Intn(2) == 0 {
						kind = ks[hr.Intn(len(ks))]
					}
					s.verifQuery(a, kind, ports[hr.Intn(len(ports))])
				case r < 90:
					d := time.Duration([]int{1, 1, 1, 2, 3}[hr.Intn(5)]) * verifC18Step
					if hr.Intn(2) == 0 {
						// aim at the boundary: bring the latest measurement of some address to f × its lifetime
						a, v := hr.Intn(naddr), hr.Intn(2)
						if s.life[v] > 0 && s.last[a][v] >= 0 {
							f := verifC18Fractions[hr.Intn(len(verifC18Fractions))]
							target := time.Duration(float64(s.life[v])*f) + time.Duration(hr.Intn(3)-1)
							if cur := s.now - s.last[a][v]; target > cur {
								d = target - cur
							}
						}
					}
					if e := s.verifAdvance(d); e != nil {
						return e
					}
				default:
					s.verifClear()
				}
			}
			return nil
		})
		if err != nil {
			t.Fatalf("infrastructure: %v", err)
		}
		rp.verifFlush(s, "random", map[string]interface{}{"index": i, "history_seed": hseed})
		rec.Count("evaluations", 1)
		var tally verifC18Tally
		s.verifTallyInto(&tally)
		tally.verifCountInto(rec)
		if s.hits > 0 && s.reprobes > 0 {
			rec.Distinct("nontrivial", cfg.String(), hseed)
		}
		rec.Distinct("configs", cfg.String())
		if i < 2 {
			tr := s.verifTrace(length)
			rec.Sample(map[string]interface{}{"phase": "random", "config": cfg, "history_first_25_of_200": tr[:25]})
		}
	}
}

// ---- phase 3: concurrent queries (run under -race) -----------------------------------------------------

type verifC18CProbe struct {
	ai    int
	live  bool
	start int64 // monotonic ns since the scenario began, taken when the probe was entered
}

type verifC18CHit struct {
	ai   int
	live bool
	ret  int64 // monotonic ns, taken after PhantomIsLive returned
}

type verifC18Worker struct {
	id       int
	rng      *rand.Rand
	nextLive bool
	nextErr  error
	calls    int
	callAddr string
	probes   []verifC18CProbe
	hits     []verifC18CHit
	viols    []verifC18Viol
	queries  int
	_        [64]byte
}

const verifC18BasePort = 20000

func TestVerifC18Concurrent(t *testing.T) {
	rec := kit.NewRec("C18", "concurrent")
	defer rec.Close()
	rng := kit.Rand("c18-concurrent")
	scenarios := kit.Tier(40, 400)
	rounds := kit.Tier(16, 24)
	const nworkers = 8
	opsPerRound := kit.Tier(60, 120)
	written := map[string]int{}

	for sc := 0; sc < scenarios; sc++ {
		cfg := verifC18RandCfg(rng, []string{"", verifC18Short, verifC18Long, verifC18Short, verifC18Long, "0s", "-5m"})
		if sc < 11 { // make sure the small bounded LRUs and the mixed configurations are always there
			cfg = []verifC18Cfg{
				{DurLive: verifC18Short, CapLive: 1, DurNon: verifC18Long, CapNon: 1},
				{DurLive: verifC18Long, CapLive: 2, DurNon: verifC18Short, CapNon: 3},
				{DurLive: verifC18Short, DurNon: verifC18Long},
				{DurLive: verifC18Long, CapLive: 2},
				{DurNon: verifC18Short, CapNon: 2, CapLive: 2},
				{DurNon: verifC18Long, CapNon: 2},
				{DurLive: verifC18Short, CapLive: 3, DurNon: verifC18Long},
				{},
				{DurLive: "0s", DurNon: "0"},
				{DurLive: "-5m", CapLive: 2, DurNon: verifC18Short, CapNon: 2},
				{DurNon: "0s", CapNon: 3},
			}[sc]
		}
		naddr := 2 + rng.Intn(5)
		rec.Case(map[string]interface{}{"phase": "concurrent", "scenario": sc, "config": cfg.String(), "addresses": naddr})
		tester, err := New(&Config{CacheDuration: cfg.DurLive, CacheCapacity: cfg.CapLive, CacheDurationNonLive: cfg.DurNon, CacheCapacityNonLive: cfg.CapNon})
		if err != nil {
			t.Fatalf("infrastructure: %v", err)
		}
		workers := make([]*verifC18Worker, nworkers)
		for i := range workers {
			workers[i] = &verifC18Worker{id: i, rng: rand.New(rand.NewSource(rng.Int63()))}
		}
		base := time.Now()
		// the probe runs on the calling worker's goroutine; the worker is recognised by the port, so
		// the harness shares no memory between workers (no harness-made happens-before edges, no harness races)
		probe := func(address string) (bool, error) {
			start := int64(time.Since(base))
			h, p, e := net.SplitHostPort(address)
			pn, _ := strconv.Atoi(p)
			if e != nil || pn < verifC18BasePort || pn >= verifC18BasePort+nworkers {
				panic("verif: probe called with an address no worker asked for: " + address)
			}
			w := workers[pn-verifC18BasePort]
			w.calls++
			w.callAddr = address
			if ai, ok := verifC18AddrIdx[h]; ok {
				w.probes = append(w.probes, verifC18CProbe{ai: ai, live: w.nextLive, start: start})
			}
			for i := w.rng.Intn(3); i > 0; i-- {
				runtime.Gosched() // a probe takes a while: let others in between lookup and store
			}
			return w.nextLive, w.nextErr
		}
		cached, err := verifC18Install(tester, probe)
		if err != nil {
			t.Fatalf("infrastructure: %v", err)
		}
		life := [2]time.Duration{verifC18Life(cfg.DurNon), verifC18Life(cfg.DurLive)}
		capa := [2]int{cfg.CapNon, cfg.CapLive}
		on := [2]bool{cfg.DurNon != "", cfg.DurLive != ""}
		boundSig := func(v int) string {
			if v == 1 {
				return "bound:len:live"
			}
			if cfg.CapLive == 0 {
				return "bound:len:nonlive:live-capacity-unset"
			}
			return "bound:len:nonlive:live-capacity-set"
		}

		// per address and verdict: for each round, the earliest entry stamp of a probe that returned the verdict
		type roundProbe struct {
			t     int   // harness time (steps) of the round
			first int64 // earliest probe entry in that round
		}
		var hist [8][2][]roundProbe
		now := 0
		var host [8]bool
		report := func(sig, msg string, detail map[string]interface{}) {
			written[sig]++
			if written[sig] <= 5 {
				detail["phase"], detail["scenario"], detail["config"], detail["mode"] = "concurrent", sc, cfg, cfg.verifMode()
				rec.Violation(sig, msg, detail)
			} else {
				rec.Violation(sig, msg, nil)
			}
		}

		for round := 0; round < rounds; round++ {
			for a := 0; a < naddr; a++ {
				if rng.Intn(5) == 0 {
					host[a] = !host[a]
				}
			}
			hostNow := host // copied; read-only during the round
			var wg sync.WaitGroup
			for _, w := range workers {
				w.probes, w.hits, w.viols, w.queries = w.probes[:0], w.hits[:0], w.viols[:0], 0
				wg.Add(1)
				go func(w *verifC18Worker) {
					defer wg.Done()
					port := uint16(verifC18BasePort + w.id)
					for k := 0; k < opsPerRound; k++ {
						switch r := w.rng.Intn(100); {
						case r < 86:
							ai := w.rng.Intn(naddr)
							addr := verifC18Addrs[ai]
							w.nextLive = hostNow[ai]
							if w.rng.Intn(10) == 0 {
								w.nextLive = !w.nextLive // the host answers differently to this one probe
							}
							// the error that accompanies the verdict: any scripted class (read-only table)
							ks := verifC18KindsOf[verifC18B2I(w.nextLive)]
							w.nextErr = verifC18Outcomes[ks[w.rng.Intn(len(ks))]].err
							w.calls = 0
							gotLive, err := tester.PhantomIsLive(addr, port)
							ret := int64(time.Since(base))
							w.queries++
							if errors.Is(err, ErrCachedPhantom) {
								w.hits = append(w.hits, verifC18CHit{ai: ai, live: gotLive, ret: ret})
							} else {
								want := net.JoinHostPort(addr, strconv.Itoa(int(port)))
								switch {
								case w.calls == 0:
									w.viols = append(w.viols, verifC18Viol{sig: "miss:no-probe", msg: "query for " + addr + " was not answered from the cache and did not probe"})
								case w.calls > 1:
									w.viols = append(w.viols, verifC18Viol{sig: "miss:probed-more-than-once", msg: fmt.Sprintf("query for %s probed %d times", addr, w.calls)})
								case w.callAddr != want:
									w.viols = append(w.viols, verifC18Viol{sig: "miss:probed-wrong-address", msg: fmt.Sprintf("query for %s probed %q", want, w.callAddr)})
								case gotLive != w.nextLive:
									w.viols = append(w.viols, verifC18Viol{sig: "miss:verdict-differs", msg: fmt.Sprintf("query for %s returned (%v, %v) but its probe returned (%v, %v)", addr, gotLive, err, w.nextLive, w.nextErr)})
								}
							}
						case r < 94:
							if cached != nil {
								cached.ClearExpiredCache()
							}
						default:
							if cached != nil {
								if cached.ipCacheLive != nil {
									_ = cached.ipCacheLive.Len()
								}
								if cached.ipCacheNonLive != nil {
									_ = cached.ipCacheNonLive.Len()
								}
							}
						}
					}
				}(w)
			}
			wg.Wait()
			// ---- quiescent: judge the round
			if time.Since(base).Milliseconds() > verifC18MaxRealMs {
				rec.Inconclusive("scenario took too long in real time; harness ages not trustworthy", map[string]interface{}{"scenario": sc})
				break
			}
			nh, np := 0, 0
			for _, w := range workers {
				for _, p := range w.probes {
					np++
					h := &hist[p.ai][verifC18B2I(p.live)]
					if n := len(*h); n > 0 && (*h)[n-1].t == now {
						if p.start < (*h)[n-1].first {
							(*h)[n-1].first = p.start
						}
					} else {
						*h = append(*h, roundProbe{t: now, first: p.start})
					}
				}
			}
			for _, w := range workers {
				for _, v := range w.viols {
					report(v.sig, v.msg, map[string]interface{}{"round": round, "worker": w.id})
				}
				for _, h := range w.hits {
					nh++
					v := verifC18B2I(h.live)
					vn := verifC18VName[v]
					addr := verifC18Addrs[h.ai]
					if !on[v] {
						report("hit:disabled-cache:"+vn, fmt.Sprintf("%s answered from the cache as %s although caching of %s verdicts is disabled", addr, vn, vn), map[string]interface{}{"round": round})
						continue
					}
					legal, ever := false, false
					for i := len(hist[h.ai][v]) - 1; i >= 0; i-- {
						rp := hist[h.ai][v][i]
						if rp.first >= h.ret {
							continue // measured only after the answer was given
						}
						ever = true
						if time.Duration(now-rp.t)*verifC18Step < life[v] {
							legal = true
						}
						break // older rounds are older still
					}
					switch {
					case legal:
					case !ever:
						report("hit:unmeasured:"+vn, fmt.Sprintf("%s answered from the cache as %s although no probe of it had returned %s before the answer", addr, vn, vn), map[string]interface{}{"round": round, "harness_time": time.Duration(now) * verifC18Step})
					default:
						report("hit:stale:"+vn, fmt.Sprintf("%s answered from the cache as %s although every probe that returned %s is older than the lifetime %v", addr, vn, vn, life[v]), map[string]interface{}{"round": round, "harness_time": time.Duration(now) * verifC18Step})
					}
				}
			}
			if cached != nil {
				cs := [2]cache{cached.ipCacheNonLive, cached.ipCacheLive}
				for v := 0; v < 2; v++ {
					if cs[v] != nil && on[v] && capa[v] > 0 {
						if n := cs[v].Len(); n > capa[v] {
							report(boundSig(v), fmt.Sprintf("the %s cache has a configured capacity of %d but holds %d entries at a quiescent point", verifC18VName[v], capa[v], n), map[string]interface{}{"round": round})
						}
					}
				}
			}
			rec.Count("evaluations", 1)
			rec.Count("cache_hits_judged", nh)
			rec.Count("probes_judged", np)
			q := 0
			for _, w := range workers {
				q += w.queries
			}
			rec.Count("queries", q)
			if nh > 0 && np > 0 {
				rec.Distinct("nontrivial", sc, round, cfg.String())
			}
			if sc < 2 && round == 1 {
				rec.Sample(map[string]interface{}{"phase": "concurrent", "config": cfg, "round": round, "workers": nworkers, "ops_per_worker": opsPerRound, "addresses": naddr,
					"cache_hits": nh, "probes": np, "harness_time": (time.Duration(now) * verifC18Step).String()})
			}
			// ---- still quiescent: let harness time pass
			k := []int{0, 1, 1, 2, 3}[rng.Intn(5)]
			if k > 0 && cached != nil {
				now += k
				if err := verifC18Backdate(cached.ipCacheLive, time.Duration(k)*verifC18Step); err != nil {
					t.Fatalf("infrastructure: %v", err)
				}
				if err := verifC18Backdate(cached.ipCacheNonLive, time.Duration(k)*verifC18Step); err != nil {
					t.Fatalf("infrastructure: %v", err)
				}
			}
		}
		rec.Distinct("configs", cfg.String())
	}
}

// ---- phase 4: two OVERLAPPING lookups for one address whose probes disagree ----------------------------------

// Two lookups for the same address are gated inside the scripted probe so that both have missed before either
// stores; one probe answers not-live, the other live (the host came up / went down in between); the probes
// are released one after the other (both orders), each lookup returning - and therefore storing - before the
// next is released.  The address then sits in both caches.  Follow-up lookups (sequential, at harness ages
// 0, 20m, 40m, ...) are judged by the usual rules (a cached answer needs a measurement of that verdict younger than
// its lifetime) and, when the LIVE measurement completed no earlier than the non-live one, by:
//
//	while that live verdict is in force (harness age < live lifetime) and the live cache still holds the entry,
//	a lookup must not be answered as cached NOT-live   (sig hit:nonlive-over-later-live)
//
// The mirror case (the non-live measurement completed last) carries no such demand: the code prefers the live
// verdict by design (a live phantom must not be used), and both verdicts were measured within their lifetimes.
func TestVerifC18Overlap(t *testing.T) {
	rec := kit.NewRec("C18", "overlap")
	defer rec.Close()
	reps := kit.Tier(5, 50)
	type variant struct {
		firstLive   bool // verdict the probe of lookup #1 (the one that enters the probe first) returns; lookup #2 gets the opposite
		releaseLive bool // which probe is released (and whose lookup completes) first
	}
	var cfgs []verifC18Cfg
	for _, p := range [][2]string{{verifC18Short, verifC18Long}, {verifC18Long, verifC18Short}, {verifC18Short, verifC18Short}, {"2h", "90s"}} {
		for _, c := range []int{0, 4} {
			cfgs = append(cfgs, verifC18Cfg{DurLive: p[0], CapLive: c, DurNon: p[1], CapNon: c})
		}
	}
	written := map[string]int{}
	for rep := 0; rep < reps; rep++ {
		for ci, cfg := range cfgs {
			for vi, va := range []variant{{false, false}, {false, true}, {true, false}, {true, true}} {
				for _, withClear := range []bool{false, true} {
					ai := (rep + ci + vi) % 8
					addr := verifC18Addrs[ai]
					desc := map[string]interface{}{"phase": "overlap", "config": cfg, "address": addr, "lookup1_probe_returns_live": va.firstLive,
						"probe_released_first_returns_live": va.releaseLive, "clear_expired_between_followups": withClear}
					rec.Case(desc)
					tester, err := New(&Config{CacheDuration: cfg.DurLive, CacheCapacity: cfg.CapLive, CacheDurationNonLive: cfg.DurNon, CacheCapacityNonLive: cfg.CapNon})
					if err != nil {
						t.Fatalf("infrastructure: %v", err)
					}
					type gate struct {
						entered chan struct{}
						release chan struct{}
						live    bool
					}
					gates := map[string]*gate{} // by port
					mk := func(port string, live bool) *gate {
						g := &gate{entered: make(chan struct{}), release: make(chan struct{}), live: live}
						gates[port] = g
						return g
					}
					g1, g2 := mk("30001", va.firstLive), mk("30002", !va.firstLive)
					gated := true
					var seqLive bool // outcome of un-gated (follow-up) probes
					var seqCalls int
					probe := func(address string) (bool, error) {
						if !gated {
							seqCalls++
							return seqLive, verifC18Outcomes[verifC18KindsOf[verifC18B2I(seqLive)][0]].err
						}
						_, p, _ := net.SplitHostPort(address)
						g := gates[p]
						close(g.entered)
						<-g.release
						return g.live, verifC18Outcomes[verifC18KindsOf[verifC18B2I(g.live)][0]].err
					}
					cached, err := verifC18Install(tester, probe)
					if err != nil || cached == nil {
						t.Fatalf("infrastructure: %v", err)
					}
					type res struct {
						live bool
						err  error
					}
					r1, r2 := make(chan res, 1), make(chan res, 1)
					watchdog := time.After(60 * time.Second)
					go func() { l, e := tester.PhantomIsLive(addr, 30001); r1 <- res{l, e} }()
					stuck := false
					select {
					case <-g1.entered:
					case <-watchdog:
						stuck = true
					}
					if !stuck {
						go func() { l, e := tester.PhantomIsLive(addr, 30002); r2 <- res{l, e} }()
						select {
						case <-g2.entered:
						case <-watchdog:
							stuck = true
						}
					}
					if stuck {
						// the second lookup never reached its probe while the first was inside its own (a tester that
						// serialises lookups): the situation cannot arise there; nothing is concluded
						rec.Inconclusive("overlapping lookups did not both reach the probe", desc)
						select {
						case <-g1.entered:
							close(g1.release)
						default:
						}
						continue
					}
					// both lookups have missed and sit inside their probes; release one, let its lookup return (it has stored), then the other
					first, second, rf, rs := g1, g2, r1, r2
					if g1.live != va.releaseLive {
						first, second, rf, rs = g2, g1, r2, r1
					}
					close(first.release)
					a := <-rf
					close(second.release)
					b := <-rs
					report := func(sig, msg string, extra map[string]interface{}) {
						written[sig]++
						if written[sig] <= 5 {
							d := map[string]interface{}{}
							for k, v := range desc {
								d[k] = v
							}
							for k, v := range extra {
								d[k] = v
							}
							rec.Violation(sig, msg, d)
						} else {
							rec.Violation(sig, msg, nil)
						}
					}
					if a.live != first.live || errors.Is(a.err, ErrCachedPhantom) {
						report("miss:verdict-differs", fmt.Sprintf("overlapping lookup returned (%v, %v) but its probe returned %v", a.live, a.err, first.live), nil)
					}
					if b.live != second.live || errors.Is(b.err, ErrCachedPhantom) {
						report("miss:verdict-differs", fmt.Sprintf("overlapping lookup returned (%v, %v) but its probe returned %v", b.live, b.err, second.live), nil)
					}
					liveLast := second.live // the live measurement completed no earlier than the non-live one
					gated = false
					life := [2]time.Duration{verifC18Life(cfg.DurNon), verifC18Life(cfg.DurLive)}
					var age time.Duration
					var trace []string
					nh := 0
				followups:
					for step := 0; step < 8; step++ {
						for q := 0; q < 2; q++ {
							seqLive = (step+q)%2 == 0
							seqCalls = 0
							liveHeld := verifC18Entry(cached.ipCacheLive, addr) != nil
							gotLive, err := tester.PhantomIsLive(addr, 443)
							if !errors.Is(err, ErrCachedPhantom) {
								trace = append(trace, fmt.Sprintf("age %v: lookup -> probed %s", age, verifC18VName[verifC18B2I(gotLive)]))
								if seqCalls != 1 || gotLive != seqLive {
									report("miss:verdict-differs", fmt.Sprintf("follow-up lookup returned (%v, %v) after %d probe calls answering %v", gotLive, err, seqCalls, seqLive), map[string]interface{}{"followups": trace})
								}
								break followups // a new measurement: the situation under observation is over
							}
							nh++
							v := verifC18B2I(gotLive)
							trace = append(trace, fmt.Sprintf("age %v: lookup -> CACHED %s", age, verifC18VName[v]))
							switch {
							case age >= life[v]:
								report("hit:stale:"+verifC18VName[v], fmt.Sprintf("%s answered from the cache as %s although the probe that returned %s is %v old (configured lifetime %v)", addr, verifC18VName[v], verifC18VName[v], age, life[v]),
									map[string]interface{}{"followups": trace})
							case !gotLive && liveLast && age < life[1] && liveHeld:
								report("hit:nonlive-over-later-live", fmt.Sprintf("%s answered from the cache as NOT live although a probe that completed after the not-live one measured it live %v ago (live lifetime %v) and the live cache holds that entry",
									addr, age, life[1]), map[string]interface{}{"followups": trace})
							}
						}
						if withClear {
							cached.ClearExpiredCache()
						}
						age += verifC18Step
						if err := verifC18Backdate(cached.ipCacheLive, verifC18Step); err != nil {
							t.Fatalf("infrastructure: %v", err)
						}
						if err := verifC18Backdate(cached.ipCacheNonLive, verifC18Step); err != nil {
							t.Fatalf("infrastructure: %v", err)
						}
					}
					rec.Count("evaluations", 1)
					rec.Count("cache_hits_judged", nh)
					rec.Count("probes_judged", 3)
					if liveLast {
						rec.Count("overlaps_where_the_live_measurement_completed_last", 1)
					}
					if nh > 0 {
						rec.Distinct("nontrivial", cfg.String(), va.firstLive, va.releaseLive, withClear, ai)
					}
					if rep == 0 && ci == 0 && !withClear {
						rec.Sample(map[string]interface{}{"case": desc, "followups": trace})
					}
				}
			}
		}
	}
}
