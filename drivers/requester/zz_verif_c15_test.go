//go:build verif

package requester

// C15 – the requester's side of the DNS channel, in-package (the error returned by the real `send` is visible here, whereas
// the public API only logs it):
//   send      DNSPacketConn.send(p) for every raw packet length 0..300 × base domains: either an error, or exactly one datagram
//             that the real dns.MessageFromWireFormat parses into one TXT question whose name is <base32(p) in labels>.<domain>;
//             the reference for the inverse is RFC 4648 base32 (what the responder applies), the labels are taken from the
//             real decoder's output
//   chunks    chunks(p, n) concatenates back to p, every chunk is non-empty and at most n bytes
//   answers   dnsResponsePayload on answers built with the real dns package (EncodeRDataTXT → RR → WireFormat →
//             MessageFromWireFormat): payload lengths 0..4000, answer name in the case the query used or 0x20-randomised

import (
	"bytes"
	"encoding/base32"
	"fmt"
	"net"
	"runtime/debug"
	"testing"
	"time"

	kit "github.com/refraction-networking/conjure/internal/verifkit"
	"github.com/refraction-networking/conjure/pkg/registrars/dns-registrar/dns"
)

func c15Try(f func()) (panicked bool, val interface{}, stack string) {
	defer func() {
		if r := recover(); r != nil {
			panicked, val, stack = true, r, string(debug.Stack())
		}
	}()
	f()
	return
}

type c15Sink struct{ writes [][]byte }

func (c *c15Sink) Write(p []byte) (int, error) {
	c.writes = append(c.writes, append([]byte(nil), p...))
	return len(p), nil
}
func (c *c15Sink) Read(p []byte) (int, error)         { select {} }
func (c *c15Sink) Close() error                       { return nil }
func (c *c15Sink) LocalAddr() net.Addr                { return &net.UDPAddr{IP: net.IPv4(127, 0, 0, 1), Port: 1} }
func (c *c15Sink) RemoteAddr() net.Addr               { return &net.UDPAddr{IP: net.IPv4(127, 0, 0, 1), Port: 53} }
func (c *c15Sink) SetDeadline(t time.Time) error      { return nil }
func (c *c15Sink) SetReadDeadline(t time.Time) error  { return nil }
func (c *c15Sink) SetWriteDeadline(t time.Time) error { return nil }

var c15Std32 = base32.StdEncoding.WithPadding(base32.NoPadding)

func c15Domains() []string {
	return []string{"t.example.com", "a", "T.Example.COM", ".", "registration-channel-with-a-long-base-domain.example-operator.org",
		"x." + string(bytes.Repeat([]byte("y"), 63)) + "." + string(bytes.Repeat([]byte("z"), 63)) + ".example"}
}

func TestVerifC15Send(t *testing.T) {
	rec := kit.NewRec("C15", "requester")
	defer rec.Close()
	rng := kit.Rand("c15send")

	for _, dom := range c15Domains() {
		domain, err := dns.ParseName(dom)
		if err != nil {
			t.Fatal(err)
		}
		domWire := 1
		for _, l := range domain {
			domWire += 1 + len(l)
		}
		c := &DNSPacketConn{domain: domain} // send uses nothing else
		for n := 0; n <= 300; n++ {
			for fill := 0; fill < 3; fill++ {
				p := make([]byte, n)
				switch fill {
				case 0:
					rng.Read(p)
				case 2:
					for i := range p {
						p[i] = 0xff
					}
				}
				enc := c15Std32.EncodedLen(n)
				fits := enc+(enc+62)/63+domWire <= 255
				desc := fmt.Sprintf("send domain=%q rawlen=%d fill=%d fits_name=%v", dom, n, fill, fits)
				rec.CaseCheap(desc)
				rec.Count("evaluations", 1)
				sink := &c15Sink{}
				var serr error
				if pk, v, st := c15Try(func() { serr = c.send(sink, p) }); pk {
					rec.Violation("requester:send:panic", "send panicked", map[string]interface{}{"case": desc, "panic": fmt.Sprint(v), "stack": st})
					continue
				}
				if serr != nil {
					rec.Count("rejected", 1)
					rec.Distinct("nontrivial", desc)
					rec.Distinct("reject_reasons", fmt.Sprintf("%.40s", serr.Error()))
					if fits {
						rec.Count("rejected_although_fits_a_name", 1)
					}
					if len(sink.writes) != 0 {
						rec.Violation("requester:send:error-after-sending", "send returned an error although it had put a datagram on the wire", map[string]interface{}{"case": desc, "error": serr.Error()})
					}
					continue
				}
				if len(sink.writes) != 1 {
					rec.Violation("requester:send:datagram-count", "send returned nil but did not write exactly one datagram", map[string]interface{}{"case": desc, "writes": len(sink.writes)})
					continue
				}
				wire := sink.writes[0]
				q, perr := dns.MessageFromWireFormat(wire)
				if perr != nil {
					rec.Violation("requester:send:query-not-parsable", "the query send produced is refused by MessageFromWireFormat", map[string]interface{}{"case": desc, "error": perr.Error(), "wire": kit.HexN(wire, 64)})
					continue
				}
				bad := ""
				var got []byte
				switch {
				case len(q.Question) != 1:
					bad = fmt.Sprintf("%d questions", len(q.Question))
				case q.Question[0].Type != dns.RRTypeTXT:
					bad = "question type is not TXT"
				case q.Flags&0x8000 != 0:
					bad = "QR bit set on a query"
				default:
					prefix, ok := q.Question[0].Name.TrimSuffix(domain)
					if !ok {
						bad = "name does not end in the base domain"
						break
					}
					text := bytes.ToUpper(bytes.Join(prefix, nil))
					got = make([]byte, c15Std32.DecodedLen(len(text)))
					k, derr := c15Std32.Decode(got, text)
					if derr != nil {
						bad = "labels are not base32: " + derr.Error()
						break
					}
					got = got[:k]
					if !bytes.Equal(got, p) {
						bad = fmt.Sprintf("labels decode to %d bytes %s, sent %d bytes %s", len(got), kit.HexN(got, 12), len(p), kit.HexN(p, 12))
					}
				}
				if bad != "" {
					rec.Violation("requester:send:roundtrip-mismatch", "the query name does not carry the packet: "+bad, map[string]interface{}{"case": desc, "wire_len": len(wire), "wire": kit.HexN(wire, 64)})
					continue
				}
				rec.Count("accepted_roundtrips", 1)
				if n > 0 {
					rec.Distinct("nontrivial", desc)
				}
				if !fits {
					rec.Note("carried although the reference arithmetic says it cannot fit: " + desc)
				}
				if rec.WantSample() && n == 98 {
					rec.Sample(map[string]interface{}{"case": desc, "wire_len": len(wire), "qname_labels": len(q.Question[0].Name), "decoded_equal": true})
				}
			}
		}
	}
	rec.Exhaustive("send: every raw packet length 0..300 × 3 fills × 6 base domains")

	// chunks
	for n := 0; n <= 400; n++ {
		for _, sz := range []int{1, 2, 62, 63, 64, 255} {
			p := make([]byte, n)
			rng.Read(p)
			desc := fmt.Sprintf("chunks len=%d size=%d", n, sz)
			rec.CaseCheap(desc)
			rec.Count("evaluations", 1)
			var cs [][]byte
			if pk, v, st := c15Try(func() { cs = chunks(p, sz) }); pk {
				rec.Violation("requester:chunks:panic", "chunks panicked", map[string]interface{}{"case": desc, "panic": fmt.Sprint(v), "stack": st})
				continue
			}
			ok := bytes.Equal(bytes.Join(cs, nil), p)
			for _, ch := range cs {
				if len(ch) == 0 || len(ch) > sz {
					ok = false
				}
			}
			if !ok {
				rec.Violation("requester:chunks:roundtrip-mismatch", "chunks does not split p into non-empty pieces of at most n bytes that concatenate to p", map[string]interface{}{"case": desc})
				continue
			}
			rec.Count("accepted_roundtrips", 1)
			if n > 0 {
				rec.Distinct("nontrivial", desc)
			}
		}
	}

	// answers
	domain, _ := dns.ParseName("t.example.com")
	for _, n := range c15AnswerLens() {
		for _, nameCase := range []string{"as-sent", "0x20-randomised"} {
			p := make([]byte, n)
			rng.Read(p)
			desc := fmt.Sprintf("answer len=%d name=%s", n, nameCase)
			rec.CaseCheap(desc)
			rec.Count("evaluations", 1)
			labels := [][]byte{[]byte("mfrggzdfmztwq2lk"), []byte("t"), []byte("example"), []byte("com")}
			if nameCase == "0x20-randomised" { // recursive resolvers may return the name in another case
				for _, l := range labels {
					for i := range l {
						if rng.Intn(2) == 0 {
							l[i] = bytes.ToUpper(l[i : i+1])[0]
						}
					}
				}
			}
			qname, err := dns.NewName(labels)
			if err != nil {
				t.Fatal(err)
			}
			m := &dns.Message{ID: uint16(n), Flags: 0x8400, Question: []dns.Question{{Name: qname, Type: dns.RRTypeTXT, Class: dns.ClassIN}},
				Answer:     []dns.RR{{Name: qname, Type: dns.RRTypeTXT, Class: dns.ClassIN, TTL: 60, Data: dns.EncodeRDataTXT(p)}},
				Additional: []dns.RR{{Name: dns.Name{}, Type: dns.RRTypeOPT, Class: 4096, Data: []byte{}}}}
			wire, err := m.WireFormat()
			if err != nil {
				rec.Count("rejected", 1)
				continue
			}
			back, err := dns.MessageFromWireFormat(wire)
			if err != nil {
				continue // charged by the dns driver
			}
			var got []byte
			if pk, v, st := c15Try(func() { got = dnsResponsePayload(&back, domain) }); pk {
				rec.Violation("requester:answer:panic", "dnsResponsePayload panicked", map[string]interface{}{"case": desc, "panic": fmt.Sprint(v), "stack": st})
				continue
			}
			if !bytes.Equal(got, p) {
				rec.Violation("requester:answer:roundtrip-mismatch", "dnsResponsePayload does not return the bytes carried in the TXT answer", map[string]interface{}{"case": desc, "got_len": len(got)})
				continue
			}
			rec.Count("accepted_roundtrips", 1)
			if n > 0 {
				rec.Distinct("nontrivial", desc)
			}
		}
	}
}

func c15AnswerLens() []int {
	var out []int
	for n := 0; n <= 1300; n++ {
		out = append(out, n)
	}
	for n := 1300; n <= 4000; n += kit.Tier(13, 1) {
		out = append(out, n)
	}
	return out
}
