//go:build verif

package main

// C13 – monitor 3: the registrar's real main() with its SIGHUP loop (main.go), driven in-process.
//
// The phantom-subnet "file" is a FIFO, a fresh one per reload (the location is re-read from the environment
// by every reload): a reload that opens it blocks in its parse step until the harness writes the content,
// so the harness knows exactly when a reload has begun and decides when it ends.  That makes "a SIGHUP
// arrives while a reload is running" a logical event instead of a lucky timing.
//
// Oracles
//   - every answer of the API registrar (dual-stack bidirectional requests run all the way through) lies
//     wholly in one published subnet set;
//   - a SIGHUP that was sent after the running reload had begun must be followed by another reload: when the
//     signal goroutine is observed idle (parked on its channel, os/signal's loop idle too) on 40 consecutive
//     stack scans and no reload has begun since that SIGHUP, the request was lost (re-confirmed after 3 more
//     seconds before it is reported);
//   - once everything is quiet, fresh requests are answered from the set that was published last.
// A SIGHUP burst sent *before* a reload was seen to begin is not judged for loss (the runtime legitimately
// coalesces signals into its one-slot channel); it only adds variety.

import (
	"bytes"
	"encoding/binary"
	"fmt"
	"io"
	"net"
	"net/http"
	"os"
	"path/filepath"
	"strings"
	"sync"
	"sync/atomic"
	"syscall"
	"testing"
	"time"

	kit "github.com/refraction-networking/conjure/internal/verifkit"
	pb "github.com/refraction-networking/conjure/proto"
	"google.golang.org/protobuf/proto"
)

type c13Set struct {
	name   string
	v4, v6 *net.IPNet
}

func c13MkSet(i int) c13Set {
	_, n4, e4 := net.ParseCIDR(fmt.Sprintf("10.%d.%d.0/24", i/250, i%250)) // thousands of distinct sets in the thorough tier
	_, n6, e6 := net.ParseCIDR(fmt.Sprintf("fd00:%x::/64", i))
	if e4 != nil || e6 != nil {
		panic(fmt.Sprint("harness: cannot build subnet set ", i, ": ", e4, e6))
	}
	return c13Set{fmt.Sprintf("S%d", i), n4, n6}
}

// generation 1153 is the generation of testdata/ClientConf; a set is published for every generation rolled out so far
func (s c13Set) toml(gens []uint32) string {
	out := "\n[Networks]\n"
	for _, g := range gens {
		out += fmt.Sprintf("    [Networks.%d]\n        Generation = %d\n        [[Networks.%d.WeightedSubnets]]\n            Weight = 1\n            RandomizeDstPort = true\n            Subnets = [\"%s\", \"%s\"]\n", g, g, g, s.v4, s.v6)
	}
	return out
}

type c13Harness struct {
	dir     string
	k       int // index of the FIFO the next reload will open
	apiPort int
	mu      sync.Mutex
	sets    []c13Set // every set published so far
	gens    []uint32 // generations rolled out so far (the subnet file keeps the older ones, as in production)
	ccPath  string   // the ClientConf file the registrar reads at every reload
	ccBase  *pb.ClientConf
	counter atomic.Uint32
}

// content is what the subnet file holds for set s at this moment
func (h *c13Harness) content(s c13Set) string {
	h.mu.Lock()
	defer h.mu.Unlock()
	return s.toml(h.gens)
}

// rollOut writes a ClientConf of the next generation (atomically, as an operator's tooling would) and adds the
// generation to what every subnet file published from now on contains
func (h *c13Harness) rollOut() (uint32, error) {
	h.mu.Lock()
	defer h.mu.Unlock()
	g := h.gens[len(h.gens)-1] + 1
	cc := proto.Clone(h.ccBase).(*pb.ClientConf)
	cc.Generation = proto.Uint32(g)
	b, err := proto.Marshal(cc)
	if err != nil {
		return 0, err
	}
	if err := os.WriteFile(h.ccPath+".tmp", b, 0o600); err != nil {
		return 0, err
	}
	if err := os.Rename(h.ccPath+".tmp", h.ccPath); err != nil {
		return 0, err
	}
	h.gens = append(h.gens, g)
	return g, nil
}

func (h *c13Harness) fifo(k int) string {
	return filepath.Join(h.dir, fmt.Sprintf("subnets_%04d.toml", k))
}

func (h *c13Harness) arm() error {
	if err := syscall.Mkfifo(h.fifo(h.k), 0o600); err != nil {
		return err
	}
	return os.Setenv("PHANTOM_SUBNET_LOCATION", h.fifo(h.k))
}

// tryServe reports whether a reload has opened the current FIFO; if so it returns the write end and arms the next one.
func (h *c13Harness) tryServe() *os.File {
	fd, err := syscall.Open(h.fifo(h.k), syscall.O_WRONLY|syscall.O_NONBLOCK, 0)
	if err != nil {
		return nil
	}
	w := os.NewFile(uintptr(fd), h.fifo(h.k))
	h.k++
	if err := h.arm(); err != nil {
		panic(err)
	}
	return w
}

func (h *c13Harness) waitServe(bound time.Duration) *os.File {
	deadline := time.Now().Add(bound)
	for {
		if w := h.tryServe(); w != nil {
			return w
		}
		if time.Now().After(deadline) {
			return nil
		}
		time.Sleep(2 * time.Millisecond)
	}
}

func (h *c13Harness) publish() c13Set {
	h.mu.Lock()
	defer h.mu.Unlock()
	s := c13MkSet(len(h.sets) + 1)
	h.sets = append(h.sets, s)
	return s
}

func (h *c13Harness) latest() c13Set {
	h.mu.Lock()
	defer h.mu.Unlock()
	return h.sets[len(h.sets)-1]
}

// register sends one dual-stack bidirectional registration; it returns the name of the set the answer lies in,
// "mixed:<v4 set>/<v6 set>" when the two addresses come from different sets, or an error.
func (h *c13Harness) register() (string, error) { return h.registerGen(1153) }

func (h *c13Harness) registerGen(gen uint32) (string, error) {
	tr := pb.TransportType_Min
	secret := make([]byte, 32)
	binary.BigEndian.PutUint32(secret, h.counter.Add(1))
	secret[31] = 0x13
	body, err := proto.Marshal(&pb.C2SWrapper{SharedSecret: secret, RegistrationPayload: &pb.ClientToStation{
		Transport: &tr, DecoyListGeneration: proto.Uint32(gen), CovertAddress: proto.String("192.0.2.1:443"),
		V4Support: proto.Bool(true), V6Support: proto.Bool(true), ClientLibVersion: proto.Uint32(4)}})
	if err != nil {
		return "", err
	}
	client := http.Client{Timeout: 20 * time.Second}
	r, err := client.Post(fmt.Sprintf("http://127.0.0.1:%d/register-bidirectional", h.apiPort), "application/octet-stream", bytes.NewReader(body))
	if err != nil {
		return "", err
	}
	defer r.Body.Close()
	raw, err := io.ReadAll(r.Body)
	if err != nil {
		return "", err
	}
	if r.StatusCode != http.StatusOK {
		return "", fmt.Errorf("HTTP %d %s", r.StatusCode, bytes.TrimSpace(raw))
	}
	resp := &pb.RegistrationResponse{}
	if err := proto.Unmarshal(raw, resp); err != nil {
		return "", err
	}
	ip4 := make(net.IP, 4)
	binary.BigEndian.PutUint32(ip4, resp.GetIpv4Addr())
	ip6 := net.IP(resp.GetIpv6Addr())
	s4, s6 := "?", "?"
	h.mu.Lock()
	for _, s := range h.sets {
		if s.v4.Contains(ip4) {
			s4 = s.name
		}
		if len(ip6) == net.IPv6len && s.v6.Contains(ip6) {
			s6 = s.name
		}
	}
	h.mu.Unlock()
	if s4 != s6 || s4 == "?" {
		return fmt.Sprintf("mixed:%s(%v)/%s(%v)", s4, ip4, s6, ip6), nil
	}
	return s4, nil
}

// idle: the goroutine main() started for signals is parked on its channel and os/signal's loop is waiting for the runtime.
func c13SignalPathIdle() (idle bool, found bool, state string) {
	gs := kit.Stacks()
	var sig, loop *kit.Goroutine
	for i := range gs {
		g := &gs[i]
		for _, f := range g.Frames {
			if c13IsSignalClosure(f) && sig == nil {
				sig = g
			}
			if strings.HasPrefix(f, "os/signal.loop") && loop == nil {
				loop = g
			}
		}
	}
	if sig == nil || loop == nil {
		return false, false, ""
	}
	innermost := ""
	if len(sig.Frames) > 0 {
		innermost = sig.Frames[0]
	}
	state = sig.State + "@" + innermost + " / signal.loop:" + loop.State
	idle = sig.State == "chan receive" && c13IsSignalClosure(innermost) && loop.State == "syscall"
	return idle, true, state
}

// in a test binary package main carries its import path: …/cmd/regserver.main.func1
func c13IsSignalClosure(frame string) bool {
	return strings.HasPrefix(frame, "main.main.func") || strings.Contains(frame, "/regserver.main.func")
}

func c13FreePort(t *testing.T) int {
	l, err := net.Listen("tcp", "127.0.0.1:0")
	if err != nil {
		t.Fatal(err)
	}
	defer l.Close()
	return l.Addr().(*net.TCPAddr).Port
}

func TestVerifC13Sighup(t *testing.T) {
	rec := kit.NewRec("C13", "sighup")
	defer rec.Close()
	rng := kit.Rand("c13-sighup")
	h := &c13Harness{dir: filepath.Join(kit.OutDir(), "c13sighup")}
	if err := os.MkdirAll(h.dir, 0o755); err != nil {
		t.Fatal(err)
	}
	keyPath := filepath.Join(h.dir, "privkey")
	if err := os.WriteFile(keyPath, bytes.Repeat([]byte{7}, 64), 0o600); err != nil {
		t.Fatal(err)
	}
	ccBytes, err := os.ReadFile("testdata/ClientConf")
	if err != nil {
		t.Fatal(err)
	}
	h.ccBase = &pb.ClientConf{}
	if err := proto.Unmarshal(ccBytes, h.ccBase); err != nil {
		t.Fatal(err)
	}
	h.gens = []uint32{h.ccBase.GetGeneration()}
	if h.gens[0] != 1153 {
		t.Fatalf("testdata/ClientConf has generation %d, the driver assumes 1153", h.gens[0])
	}
	h.ccPath = filepath.Join(h.dir, "ClientConf")
	if err := os.WriteFile(h.ccPath, ccBytes, 0o600); err != nil {
		t.Fatal(err)
	}
	ccPath := h.ccPath
	h.apiPort = c13FreePort(t)
	zmqPort := c13FreePort(t)
	confPath := filepath.Join(h.dir, "reg_config.toml")
	conf := fmt.Sprintf("api_port = %d\nzmq_port = %d\nzmq_bind_addr = \"127.0.0.1\"\nzmq_privkey_path = %q\nzmq_auth_type = \"NULL\"\nclientconf_path = %q\nlog_level = \"error\"\nlog_metrics_interval = 3600\nenforce_subnet_overrides = false\n",
		h.apiPort, zmqPort, keyPath, ccPath)
	if err := os.WriteFile(confPath, []byte(conf), 0o600); err != nil {
		t.Fatal(err)
	}
	os.Setenv("CJ_REGISTRAR_CONFIG", confPath)
	if err := h.arm(); err != nil {
		t.Fatal(err)
	}
	os.Args = append(os.Args, "-api-only")

	// start-up: the initial load reads the first published set
	first := h.publish()
	go main()
	w := h.waitServe(60 * time.Second)
	if w == nil {
		rec.Inconclusive("the registrar never opened its subnet file at start-up", nil)
		return
	}
	w.WriteString(h.content(first))
	w.Close()
	up := false
	for deadline := time.Now().Add(60 * time.Second); time.Now().Before(deadline); time.Sleep(20 * time.Millisecond) {
		if got, err := h.register(); err == nil && got == first.name {
			up = true
			break
		}
	}
	if !up {
		rec.Inconclusive("the registrar did not come up answering from the first set", nil)
		return
	}

	// background load all the way through
	var stop atomic.Bool
	var bg sync.WaitGroup
	var answered atomic.Int64
	for g := 0; g < 3; g++ {
		bg.Add(1)
		go func() {
			defer bg.Done()
			for !stop.Load() {
				got, err := h.register()
				switch {
				case err != nil:
					rec.Violation("request-failed-during-sighup-reloads", "a well-formed request to the running registrar failed while reloads were signalled", map[string]interface{}{"err": err.Error()})
				case strings.HasPrefix(got, "mixed:"):
					rec.Violation("mixed-subnet-sets:api", "an answer of the running registrar does not lie wholly in one published subnet set", map[string]interface{}{"answer": got})
				default:
					rec.Distinct("nontrivial", "answered-from", got)
				}
				answered.Add(1)
				rec.Count("evaluations", 1)
				time.Sleep(time.Millisecond)
			}
		}()
	}
	defer func() { stop.Store(true); bg.Wait(); rec.Count("background_requests_answered", int(answered.Load())) }()

	hup := func(n int) {
		for i := 0; i < n; i++ {
			if err := syscall.Kill(os.Getpid(), syscall.SIGHUP); err != nil {
				t.Fatal(err)
			}
			if d := rng.Intn(4); d > 0 && i+1 < n {
				time.Sleep(time.Duration(d) * time.Millisecond)
			}
		}
	}
	// quiesce serves every reload that begins (with the set published last) until the signal path has been idle on
	// 40 consecutive scans; it returns how many reloads began and the name of the set the last one was given.
	quiesce := func() (began int, lastServed string, ok bool) {
		idleRuns := 0
		for deadline := time.Now().Add(3 * time.Minute); time.Now().Before(deadline); {
			if w := h.tryServe(); w != nil {
				s := h.latest()
				w.WriteString(h.content(s))
				w.Close()
				began++
				lastServed = s.name
				idleRuns = 0
				continue
			}
			idle, found, _ := c13SignalPathIdle()
			if !found {
				return began, lastServed, false
			}
			if idle {
				idleRuns++
				if idleRuns >= 40 {
					return began, lastServed, true
				}
			} else {
				idleRuns = 0
			}
			time.Sleep(25 * time.Millisecond)
		}
		return began, lastServed, false
	}

	// waitReload waits for a reload to begin after a SIGHUP; it gives up early, with a reason, when the goroutine that
	// main() started for signals no longer exists ("gone") or when the whole signal path has been idle on 80
	// consecutive scans, 2 s ("idle": the signal was ignored)
	waitReload := func() (*os.File, string) {
		idleRuns, goneRuns := 0, 0
		for deadline := time.Now().Add(60 * time.Second); time.Now().Before(deadline); time.Sleep(25 * time.Millisecond) {
			if w := h.tryServe(); w != nil {
				return w, ""
			}
			idle, found, _ := c13SignalPathIdle()
			switch {
			case !found:
				idleRuns = 0
				if goneRuns++; goneRuns >= 40 {
					return nil, "gone"
				}
			case idle:
				goneRuns = 0
				if idleRuns++; idleRuns >= 80 {
					return nil, "idle"
				}
			default:
				idleRuns, goneRuns = 0, 0
			}
		}
		return nil, "timeout"
	}
	type scen struct {
		before, during int
		rollout        bool // the reload also rolls out a new ClientConf generation
		bad            bool // the subnet file is unparseable at the moment of this reload (it must change nothing)
	}
	base := []scen{{1, 0, false, false}, {1, 1, false, false}, {1, 0, false, true}, {1, 0, true, false}, {1, 2, false, false}, {1, 3, false, false}, {1, 0, false, true}, {2, 1, true, false}, {2, 1, false, false},
		{3, 2, false, false}, {2, 0, false, false}, {1, 1, true, false}}
	reps := kit.Tier(2, 25)
	lost := 0
	for r := 0; r < reps && lost < 2; r++ {
		for _, sc := range base {
			label := fmt.Sprintf("sighups-before-reload=%d sighups-during-reload=%d rollout=%v unparseable=%v", sc.before, sc.during, sc.rollout, sc.bad)
			rec.CaseCheap(label)
			h.mu.Lock()
			oldGen := h.gens[len(h.gens)-1]
			h.mu.Unlock()
			if sc.rollout {
				if _, err := h.rollOut(); err != nil {
					t.Fatal(err)
				}
			}
			if sc.bad {
				// the operator's file is cut short at the moment of this reload: the reload must fail, change nothing, and
				// the registrar must go on serving SIGHUPs afterwards (the following scenarios depend on it)
				keep := h.latest()
				hup(1)
				w, why := waitReload()
				if w == nil {
					_, _, st := c13SignalPathIdle()
					if why == "timeout" {
						rec.Inconclusive("no reload began within the bound after a SIGHUP", map[string]interface{}{"scenario": label, "signal_path": st})
						continue
					}
					lost++
					rec.Violation("sighup:no-reload-after-signal:"+why, "a SIGHUP sent to the running registrar did not start a reload (signal goroutine "+why+")", map[string]interface{}{"scenario": label, "signal_path": st})
					continue
				}
				w.WriteString("\n[Networks]\n    [Networks.1153\n        Generation = 11")
				w.Close()
				if _, _, ok := quiesce(); !ok {
					if _, found, st := c13SignalPathIdle(); !found {
						lost++
						rec.Violation("sighup:handler-goroutine-gone-after-failed-reload", "after a reload of an unparseable subnet file the goroutine that serves SIGHUP no longer exists: later reloads can never happen",
							map[string]interface{}{"scenario": label, "signal_path": st})
					} else {
						rec.Inconclusive("the signal path could not be observed idle after a failed reload", label)
					}
					continue
				}
				rec.Count("evaluations", 1)
				rec.Count("reloads_of_unparseable_files", 1)
				rec.Distinct("nontrivial", label)
				for i := 0; i < 3; i++ {
					got, err := h.register()
					if err != nil {
						rec.Violation("request-failed-after-failed-reload", "a request failed after a reload of an unparseable subnet file", map[string]interface{}{"scenario": label, "err": err.Error()})
					} else if got != keep.name && got != h.latest().name {
						rec.Violation("set-changed-by-failed-reload", "a reload of an unparseable subnet file changed the set in use", map[string]interface{}{"scenario": label, "answered_from": got, "in_effect_before": keep.name})
					}
				}
				continue
			}
			x := h.publish()
			hup(sc.before)
			w1, why := waitReload()
			if w1 == nil {
				_, _, st := c13SignalPathIdle()
				if why == "timeout" {
					rec.Inconclusive("no reload began within the bound after a SIGHUP sent to an idle registrar", map[string]interface{}{"scenario": label, "signal_path": st})
					continue
				}
				lost++
				rec.Violation("sighup:no-reload-after-signal:"+why, "a SIGHUP sent to the running registrar did not start a reload (signal goroutine "+why+")", map[string]interface{}{"scenario": label, "signal_path": st})
				continue
			}
			served := x
			if sc.during > 0 {
				// the operator publishes again and signals while reload #1 is still in its parse step
				y := h.publish()
				hup(sc.during)
				time.Sleep(100 * time.Millisecond) // let the signals reach the registrar's channel (sensitivity only, not soundness)
				_ = y
			}
			if sc.rollout {
				// while the reload is held: clients of the base generation and of the generation that was current until now
				// must keep being answered (whatever order the registrar applies the parts of a reload in)
				for i := 0; i < 4; i++ {
					for _, g := range []uint32{1153, oldGen} {
						got, err := h.registerGen(g)
						rec.Count("requests_during_a_held_rollout", 1)
						if err != nil {
							rec.Violation("request-failed-during-generation-rollout", "while a reload that rolls out a new ClientConf generation was running, a client of an older generation was refused",
								map[string]interface{}{"scenario": label, "client_generation": g, "err": err.Error()})
						} else if strings.HasPrefix(got, "mixed:") {
							rec.Violation("mixed-subnet-sets:api", "an answer of the running registrar does not lie wholly in one published subnet set", map[string]interface{}{"answer": got})
						}
					}
				}
			}
			w1.WriteString(h.content(served)) // reload #1 ends with what it had begun to read
			w1.Close()
			began, lastServed, ok := quiesce()
			if !ok {
				_, found, st := c13SignalPathIdle()
				rec.Inconclusive("the signal path could not be observed idle (goroutine not found or never quiet)", map[string]interface{}{"scenario": label, "found": found, "signal_path": st})
				continue
			}
			rec.Count("reloads_begun", 1+began)
			rec.Count("evaluations", 1)
			rec.Distinct("nontrivial", label, began)
			want := h.latest()
			if sc.during > 0 && began == 0 {
				// re-confirm before reporting: nothing may begin in 3 more seconds either
				time.Sleep(3 * time.Second)
				if w := h.tryServe(); w != nil {
					w.WriteString(h.content(want))
					w.Close()
					rec.Inconclusive("a reload began only after the signal path had looked idle for a second", map[string]interface{}{"scenario": label})
					quiesce()
					continue
				}
				_, _, st := c13SignalPathIdle()
				lost++
				rec.Violation("sighup-lost:no-reload-after-signal-during-reload", "a SIGHUP sent while a reload was running was not followed by another reload: the registrar keeps the set that reload had read",
					map[string]interface{}{"scenario": label, "sighups_sent_during_the_reload": sc.during, "signal_path": st, "published_last": want.name, "set_in_effect": served.name})
				// bring the registrar back in step for the next scenario
				hup(1)
				if w := h.waitServe(60 * time.Second); w != nil {
					w.WriteString(h.content(want))
					w.Close()
				}
				quiesce()
				continue
			}
			if began > 0 && lastServed != want.name {
				rec.Inconclusive("harness: the last reload was not given the latest set", label)
				continue
			}
			// quiet now: fresh requests must be answered from the set published last
			h.mu.Lock()
			newest := h.gens[len(h.gens)-1]
			h.mu.Unlock()
			for i := 0; i < 3; i++ {
				got, err := h.registerGen([]uint32{1153, oldGen, newest}[i])
				if err != nil {
					rec.Violation("request-failed-after-sighup-reloads", "a request failed after the signalled reloads completed", map[string]interface{}{"scenario": label, "err": err.Error()})
				} else if got != want.name {
					rec.Violation("stale-set-after-sighup", "all signalled reloads completed and the registrar is idle, yet a request is not answered from the set published last",
						map[string]interface{}{"scenario": label, "answered_from": got, "published_last": want.name})
				}
			}
			if rec.WantSample() {
				rec.Sample(map[string]interface{}{"scenario": label, "reloads_begun_after_the_first": began, "set_in_effect": want.name})
			}
		}
	}
}
