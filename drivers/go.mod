module verifdrivers

go 1.22
