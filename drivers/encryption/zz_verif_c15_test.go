//go:build verif

package encryption

// C15 – the encryption layer of the DNS registrar's exchange, at function level (no sockets):
//   keytext   DecodeKey(hex(k)) == k and ReadKey(hex(k) [+"\n"]) == k for generated keys; key texts of another length must be
//             refused or returned unchanged, never truncated or padded
//   noise     with NewConfig() configured exactly through this package's API (initiator: PeerStatic = PubkeyFromPrivkey(priv);
//             responder: StaticKeypair{priv, PubkeyFromPrivkey(priv)}): the request payload written by the initiator's handshake
//             message is what the responder's ReadMessage returns, and the response encrypted under the responder's returned
//             cipher state is what the initiator's returned cipher state decrypts – for payload lengths 0..65535+ in both
//             directions (a length the handshake cannot carry must be an error) and for many key pairs
//             (GeneratePrivkey, clamped / unclamped / extreme scalars)

import (
	"bytes"
	"encoding/hex"
	"fmt"
	mrand "math/rand"
	"runtime/debug"
	"strings"
	"testing"

	"github.com/flynn/noise"
	kit "github.com/refraction-networking/conjure/internal/verifkit"
)

func c15Try(f func()) (panicked bool, val interface{}, stack string) {
	defer func() {
		if r := recover(); r != nil {
			panicked, val, stack = true, r, string(debug.Stack())
		}
	}()
	f()
	return
}

func TestVerifC15KeyText(t *testing.T) {
	rec := kit.NewRec("C15", "keytext")
	defer rec.Close()
	rng := kit.Rand("c15keytext")
	n := kit.Tier(2000, 50000)
	for i := 0; i < n; i++ {
		klen := KeyLen
		if i%4 == 3 { // wrong lengths, incl. neighbours of the right one and lengths beyond ReadKey's 100-byte window
			klen = []int{0, 1, 16, 31, 33, 49, 50, 51, 64, 100}[rng.Intn(10)]
		}
		k := make([]byte, klen)
		rng.Read(k)
		switch i % 9 {
		case 0:
			for j := range k {
				k[j] = 0
			}
		case 1:
			for j := range k {
				k[j] = 0xff
			}
		}
		text := hex.EncodeToString(k)
		if i%5 == 0 {
			text = strings.ToUpper(text)
		}
		for _, via := range []string{"DecodeKey", "ReadKey", "ReadKey+newline"} {
			desc := fmt.Sprintf("%s keylen=%d upper=%v", via, klen, i%5 == 0)
			rec.CaseCheap(desc)
			rec.Count("evaluations", 1)
			var got []byte
			var err error
			pk, v, st := c15Try(func() {
				switch via {
				case "DecodeKey":
					got, err = DecodeKey(text)
				case "ReadKey":
					got, err = ReadKey(strings.NewReader(text))
				default:
					got, err = ReadKey(strings.NewReader(text + "\n"))
				}
			})
			if pk {
				rec.Violation("keytext:panic", "the key decoder panicked", map[string]interface{}{"case": desc, "panic": fmt.Sprint(v), "stack": st})
				continue
			}
			if klen != KeyLen {
				// a text of another length may be refused (the pinned code does) or, conceivably, accepted as it is;
				// what it must never be is truncated or padded to some other key
				if err == nil && !bytes.Equal(got, k) {
					rec.Violation("keytext:wrong-length-key-altered", "a key text of an unexpected length was accepted and yielded a different key (truncated or padded)",
						map[string]interface{}{"case": desc, "text_len": len(text), "got_len": len(got)})
				} else if err == nil {
					rec.Count("accepted_roundtrips", 1)
				} else {
					rec.Count("rejected", 1)
					rec.Distinct("nontrivial", desc)
				}
				continue
			}
			if err != nil {
				rec.Violation("keytext:decoder-rejects-valid-key-text", "the hex text of a KeyLen-byte key was refused", map[string]interface{}{"case": desc, "error": err.Error()})
				continue
			}
			if !bytes.Equal(got, k) {
				rec.Violation("keytext:roundtrip-mismatch", "decoded key differs from the key that was written", map[string]interface{}{"case": desc, "want": kit.Hex(k), "got": kit.Hex(got)})
				continue
			}
			rec.Count("accepted_roundtrips", 1)
			rec.Distinct("nontrivial", desc, kit.Hex(k[:4]))
		}
	}
}

type c15Keys struct {
	kind string
	priv []byte
}

func c15NoiseKeys(rng *mrand.Rand, n int) []c15Keys {
	var out []c15Keys
	for i := 0; i < n; i++ {
		switch i % 5 {
		case 0:
			k, err := GeneratePrivkey()
			if err != nil {
				panic(err)
			}
			out = append(out, c15Keys{"GeneratePrivkey", k})
		case 1:
			k := make([]byte, 32)
			rng.Read(k)
			out = append(out, c15Keys{"random-unclamped", k})
		case 2:
			k := make([]byte, 32)
			rng.Read(k)
			k[0] &= 248
			k[31] &= 127
			k[31] |= 64
			out = append(out, c15Keys{"random-clamped", k})
		case 3:
			out = append(out, c15Keys{"all-ff", bytes.Repeat([]byte{0xff}, 32)})
		case 4:
			k := make([]byte, 32)
			k[0] = byte(1 + rng.Intn(200))
			out = append(out, c15Keys{"tiny-scalar", k})
		}
	}
	return out
}

func TestVerifC15Noise(t *testing.T) {
	rec := kit.NewRec("C15", "encryption")
	defer rec.Close()
	rng := kit.Rand("c15noise")

	keys := c15NoiseKeys(rng, kit.Tier(10, 100))
	// GeneratePrivkey / PubkeyFromPrivkey agree with the DH function the Noise suite uses
	for i := 0; i < kit.Tier(50, 1000); i++ {
		pair, err := noise.DH25519.GenerateKeypair(rng)
		if err != nil {
			t.Fatal(err)
		}
		rec.Count("evaluations", 1)
		var pub []byte
		if pk, v, st := c15Try(func() { pub = PubkeyFromPrivkey(pair.Private) }); pk {
			rec.Violation("encryption:pubkey-panic", "PubkeyFromPrivkey panicked on a generated private key", map[string]interface{}{"panic": fmt.Sprint(v), "stack": st})
			continue
		}
		if !bytes.Equal(pub, pair.Public) {
			rec.Violation("encryption:pubkey-mismatch", "PubkeyFromPrivkey disagrees with the suite's DH key pair", map[string]interface{}{"priv": kit.Hex(pair.Private)})
			continue
		}
		rec.Count("accepted_roundtrips", 1)
		rec.Distinct("nontrivial", "pubkey", kit.Hex(pair.Private[:6]))
	}

	// request payload lengths: every length 0..400 for the first key pair (the range a DNS name can carry and well beyond),
	// then the limits of the handshake message (65535 total, so 65535-48 payload) and seeded lengths
	type lenPair struct{ req, resp int }
	var cases []lenPair
	for n := 0; n <= 400; n++ {
		cases = append(cases, lenPair{n, (n * 7) % 1300})
	}
	for _, n := range []int{1000, 4096, 16383, 16384, 65535 - 49, 65535 - 48, 65535 - 47, 65534, 65535, 65536, 70000} {
		cases = append(cases, lenPair{n, 10}, lenPair{10, n})
	}
	for i, n := 0, kit.Tier(300, 6000); i < n; i++ {
		cases = append(cases, lenPair{rng.Intn(300), rng.Intn(5000)})
	}
	for ci, c := range cases {
		ks := keys[:1]
		if ci%16 == 0 || kit.Thorough() && ci%2 == 0 {
			ks = keys
		}
		for _, k := range ks {
			c15NoiseCase(rec, rng, k, c.req, c.resp)
		}
	}
	rec.Exhaustive("Noise N request payload: every length 0..400 plus the handshake limit 65535-48±1")
}

func c15NoiseCase(rec *kit.Rec, rng *mrand.Rand, k c15Keys, reqLen, respLen int) {
	desc := fmt.Sprintf("noise key=%s:%s req=%d resp=%d", k.kind, kit.HexN(k.priv, 4), reqLen, respLen)
	rec.CaseCheap(desc)
	rec.Count("evaluations", 1)
	req := make([]byte, reqLen)
	rng.Read(req)
	resp := make([]byte, respLen)
	rng.Read(resp)

	var pub []byte
	if pk, v, st := c15Try(func() { pub = PubkeyFromPrivkey(k.priv) }); pk {
		rec.Violation("encryption:pubkey-panic", "PubkeyFromPrivkey panicked", map[string]interface{}{"case": desc, "panic": fmt.Sprint(v), "stack": st})
		return
	}
	ic := NewConfig()
	ic.Initiator = true
	ic.PeerStatic = pub
	rc := NewConfig()
	rc.Initiator = false
	rc.StaticKeypair = noise.DHKey{Private: k.priv, Public: pub}

	var msg, gotReq, encResp, gotResp, msgSnap, encRespSnap []byte
	var iRecv, rSend *noise.CipherState
	var stage string
	var err error
	pk, v, st := c15Try(func() {
		stage = "initiator-handshake"
		var ih, rh *noise.HandshakeState
		if ih, err = noise.NewHandshakeState(ic); err != nil {
			return
		}
		if msg, iRecv, _, err = ih.WriteMessage(nil, req); err != nil {
			return
		}
		stage = "responder-handshake"
		if rh, err = noise.NewHandshakeState(rc); err != nil {
			return
		}
		msgSnap = append([]byte(nil), msg...)
		if gotReq, rSend, _, err = rh.ReadMessage(nil, msg); err != nil {
			return
		}
		stage = "responder-encrypt"
		if encResp, err = rSend.Encrypt(nil, nil, resp); err != nil {
			return
		}
		stage = "initiator-decrypt"
		encRespSnap = append([]byte(nil), encResp...)
		gotResp, err = iRecv.Decrypt(nil, nil, encResp)
	})
	if pk {
		rec.Violation("encryption:noise:panic:"+stage, "the Noise exchange panicked", map[string]interface{}{"case": desc, "panic": fmt.Sprint(v), "stack": st})
		return
	}
	if err != nil {
		switch stage {
		case "initiator-handshake", "responder-encrypt":
			// the encoder refused the value: acceptable (e.g. "noise: message is too long")
			rec.Count("rejected", 1)
			rec.Distinct("nontrivial", desc)
			rec.Distinct("reject_reasons", stage+": "+err.Error())
		default:
			rec.Violation("encryption:noise:decoder-rejects-own-encoding:"+stage, "a message the peer produced without error is refused by the matching decoder",
				map[string]interface{}{"case": desc, "error": err.Error(), "handshake_len": len(msg), "response_len": len(encResp)})
		}
		return
	}
	if !bytes.Equal(msg, msgSnap) || !bytes.Equal(encResp, encRespSnap) {
		rec.Violation("encryption:noise:decoder-modifies-its-input", "decrypting changed the caller's ciphertext buffer",
			map[string]interface{}{"case": desc, "handshake_unchanged": bytes.Equal(msg, msgSnap), "response_unchanged": bytes.Equal(encResp, encRespSnap)})
		return
	}
	// the same handshake message read by a second responder state (a retransmitted query) must give the same request
	if rh2, err := noise.NewHandshakeState(rc); err == nil {
		if again, _, _, err := rh2.ReadMessage(nil, msg); err != nil || !bytes.Equal(again, req) {
			rec.Violation("encryption:noise:second-decode-differs", "reading the same handshake message a second time fails or gives another request", map[string]interface{}{"case": desc, "error": fmt.Sprint(err)})
			return
		}
	}
	if !bytes.Equal(gotReq, req) {
		rec.Violation("encryption:noise:request-mismatch", "the responder's decrypted request differs from what the initiator sent", map[string]interface{}{"case": desc})
		return
	}
	if !bytes.Equal(gotResp, resp) {
		rec.Violation("encryption:noise:response-mismatch", "the initiator's decrypted response differs from what the responder encrypted", map[string]interface{}{"case": desc})
		return
	}
	rec.Count("accepted_roundtrips", 1)
	if reqLen+respLen > 0 {
		rec.Distinct("nontrivial", desc)
	}
	if rec.WantSample() && reqLen > 30 && respLen > 30 {
		rec.Sample(map[string]interface{}{"case": desc, "handshake_len": len(msg), "encrypted_response_len": len(encResp), "both_directions_equal": true})
	}
}
