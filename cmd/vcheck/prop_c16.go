package main

import (
	"strings"
	"time"
)

func init() {
	// a race report is attributed to C16 only if one of the two racing ACCESSES is made by code of
	// pkg/dtls itself (not by the driver, not inside pion with pkg/dtls merely further up the stack)
	inDTLS := func(r RaceReport) bool {
		for i, st := range r.Stacks {
			if i >= 2 {
				break
			}
			if len(st) > 0 && strings.Contains(st[0], "refraction-networking/conjure/pkg/dtls.") && !strings.Contains(st[0], "erif") {
				return true
			}
		}
		return false
	}
	register(&Prop{
		ID: "C16", Level: "exploration", Floor: 1500,
		Rule: "evaluations = executed cases over five monitors: (a) creds: one secret (or secret pair) per case, credentials derived twice and compared field by field, plus real handshakes " +
			"(net.Pipe and loopback UDP) for equal / different secret pairs; (b) listener (-race): one case per session actor group of a batch of 2..32 concurrent Dial/AcceptWithContext " +
			"sessions on one real Listener over loopback UDP (roles: pair, early dialer, duplicate accept, cancelled/expired accept at five logical points, unregistered dialer), plus one case per " +
			"batch for the registration maps; (b2) intruder (-race): one case per forged certificate list (12 kinds x replayed/fresh ClientHello random) presented by a peer without the secret - built only from what a recording relay saw of a genuine session - to a pending AcceptWithContext, to ServerWithContext, and as forged acceptor to ClientWithContext/DialWithContext, each listener attempt followed by a genuine control dial on the same pending Accept; " +
			"(c) stream: one case = (stack, max message size, message-size/heartbeat sequence, stream ending, read-size sequence, reader mode), 'messages then " +
			"error' cases on the server stack repeated 20x with the reader started only after the receive loop has closed; exhaustive for max size 3 and sequences up to length 2 (quick) / 4 " +
			"(thorough), seeded otherwise; (c2) deadline: one case per real session established with context.WithTimeout(1.5 s) (net.Pipe, UDP sockets, Listener; straight and deployed DTLS/SCTP role assignment; deadline on both / one end) that must still carry tagged data both ways after that deadline passed; " +
			"(c3) sustained: one case per session (in-memory msgStream pair and real pion SCTP over net.Pipe / UDP below the real heartbeat + SCTPConn layers, heartbeat intervals scaled to 400 ms / 1200 ms) in which the SCTP opener, the acceptor or both write without a pause (or in bursts with pauses around Interval/4 and Interval) for more than 3 heartbeat timeouts, followed by a silence-plus-swallowed-heartbeats control; " +
			"(d) flow: one case per scripted slow-network scenario, the bound is asserted inside every stream.Write; (e) heartbeat: one case per loss scenario; (e2) heartbeat credit: one case per (heartbeats per interval 3/10/30, " +
			"healthy intervals, loss variant) in which the loss follows a healthy phase with several heartbeats per interval, same bound as (e); (b3) recycled (-race): one evaluation per AcceptWithContext for a fresh secret nobody dials, issued right after " +
			"AcceptWithContext calls on the same listener were cancelled by a relay at swept offsets around the completion of their handshake - it must never return a connection. " +
			"distinct_nontrivial: (b2) attempts that reached the peer's certificate verification (listener attempts: and whose control succeeded); (b) established sessions whose tag exchange ran in both directions, and batches with at least one cancellation; (c) case descriptors with >= 2 data messages " +
			"reaching the reader and a heartbeat, a terminal error or a read smaller than a message; (d) scenarios in which at least one write had to wait; (e) scenarios in which at least " +
			"one heartbeat was consumed before the loss; (e2) scenarios whose healthy phase was consumed in full without a premature close; (b3) the run, if both race outcomes (accept cancelled / accept won) occurred",
		Assumptions: []string{
			"the scripted stream stands in for pion's sctp.Stream behind the msgStream interface (one message per Read, io.ErrShortBuffer with n=0 for an oversize message, low-threshold callback on a downward crossing exactly as pion's onBufferReleased)",
			"real handshakes may fail or time out on a loaded machine: a failed handshake with matching secrets is retried and then recorded as inconclusive, never as a violation; only cross-delivery, leaked registrations, a disturbed first registration and a COMPLETED handshake without a matching secret are violations",
			"heartbeat loss is the one wall-clock verdict: bound = 2 intervals + 5 s (50x nominal), a miss is re-run once with doubled slack before it counts; fidelity scenarios run with the default 30 s interval and are not judged if they took more than 15 s",
			"flow-control bound asserted: buffered + len <= writeMax + writeMax/2 (a waiting writer may be released by one stale wake-up token; see NOTES_c16.md for the derivation)",
		},
		Stages: []Stage{
			{Name: "stream", Pkg: "./pkg/dtls", Run: "^TestVerifC16(Sustained|Deadline|Stream|Flow|Heartbeat|Creds|Handshake)", Drivers: []string{"dtls"}, TimeoutQ: 10 * time.Minute, TimeoutT: 40 * time.Minute},
			{Name: "listener-race", Pkg: "./pkg/dtls", Run: "^TestVerifC16Listener", Drivers: []string{"dtls"}, Race: true, RaceFilter: inDTLS, TimeoutQ: 10 * time.Minute, TimeoutT: 40 * time.Minute},
			{Name: "real", Pkg: "./pkg/dtls", Run: "^TestVerifC16Real", Drivers: []string{"dtls"}, ThoroughOnly: true, TimeoutT: 40 * time.Minute},
		},
	})
}
