package main

import (
	"bufio"
	"encoding/json"
	"fmt"
	"os"
	"path/filepath"
	"regexp"
	"strings"
	"time"
)

// textual forms of the distinctive client / registrant addresses used by the C17 drivers
var c17Needles = []string{"203.0.113.77", "2001:db8::77:88", "2001:0db8:0000", "2001:db8:0:0:0:0:77:88", "cb00714d", "CB00714D"}

var (
	c17Date = regexp.MustCompile(`\d{4}/\d{2}/\d{2} \d{2}:\d{2}:\d{2}(\.\d+)?`)
	c17IP   = regexp.MustCompile(`\[?[0-9a-fA-F:.]*(\d+\.\d+\.\d+\.\d+|[0-9a-fA-F]+:[0-9a-fA-F:]+)\]?(:\d+)?`)
	c17Hex  = regexp.MustCompile(`\b[0-9a-f]{12,}\b`)
	c17Num  = regexp.MustCompile(`\d+`)
)

// c17Normalize turns a log line into a signature that is stable across runs: timestamps, addresses,
// hex ids and numbers are replaced by placeholders.
func c17Normalize(l string) string {
	l = c17Date.ReplaceAllString(l, "")
	l = c17Hex.ReplaceAllString(l, "H")
	l = c17IP.ReplaceAllString(l, "A")
	l = c17Num.ReplaceAllString(l, "N")
	l = strings.Join(strings.Fields(l), " ")
	if len(l) > 110 {
		l = l[:110]
	}
	return l
}

var c17Trail = regexp.MustCompile(`((transport layer: )?(\w+ tcp A?(->)?\[?)*)$`)

// c17Site identifies the log call site: the text before the leaked address, normalised, without the
// operation-error preamble ("read tcp local->"), shortened to head+tail.
func c17Site(line, needle string) string {
	i := strings.Index(line, needle)
	pre := line[:i]
	pre = c17Date.ReplaceAllString(pre, "")
	pre = c17Hex.ReplaceAllString(pre, "H")
	pre = c17IP.ReplaceAllString(pre, "A")
	pre = c17Num.ReplaceAllString(pre, "N")
	pre = strings.Join(strings.Fields(pre), " ")
	pre = strings.TrimRight(pre, "[")
	pre = strings.TrimSpace(c17Trail.ReplaceAllString(pre, ""))
	if len(pre) > 130 {
		pre = pre[:60] + "…" + pre[len(pre)-60:]
	}
	return pre
}

func c17Post(rc *RunCtx) {
	// case number -> descriptor, from the drivers' event logs
	desc := map[string]map[int]string{}
	evs, _ := filepath.Glob(filepath.Join(rc.Work, "*.out", "C17.*.jsonl"))
	for _, f := range evs {
		stage := strings.SplitN(filepath.Base(filepath.Dir(f)), ".", 2)[0]
		if desc[stage] == nil {
			desc[stage] = map[int]string{}
		}
		fh, err := os.Open(f)
		if err != nil {
			continue
		}
		sc := bufio.NewScanner(fh)
		sc.Buffer(make([]byte, 1<<20), 64<<20)
		for sc.Scan() {
			var e struct {
				K      string `json:"k"`
				Msg    string `json:"msg"`
				Detail struct {
					N    int    `json:"n"`
					Desc string `json:"desc"`
				} `json:"detail"`
			}
			if json.Unmarshal(sc.Bytes(), &e) == nil && e.K == "ev" && e.Msg == "case" {
				desc[stage][e.Detail.N] = e.Detail.Desc
			}
		}
		fh.Close()
	}
	outs, _ := filepath.Glob(filepath.Join(rc.Work, "*.stdout"))
	var lines, bytesN, markers int64
	for _, f := range outs {
		stage := strings.SplitN(filepath.Base(f), ".", 2)[0]
		fh, err := os.Open(f)
		if err != nil {
			continue
		}
		sc := bufio.NewScanner(fh)
		sc.Buffer(make([]byte, 1<<20), 64<<20)
		cur := -1
		sawEnd := false
		needles := append([]string{}, c17Needles...)
		for sc.Scan() {
			l := sc.Text()
			lines++
			bytesN += int64(len(l)) + 1
			if strings.HasPrefix(l, "VERIFNEEDLE ") {
				// a driver working with real sockets announces the client address of its next case
				needles = append(needles, strings.TrimSpace(strings.TrimPrefix(l, "VERIFNEEDLE ")))
				continue
			}
			if strings.HasPrefix(l, "VERIFCASE ") {
				fmt.Sscanf(l, "VERIFCASE %d", &cur)
				markers++
				if cur == 9999999 {
					sawEnd = true
				}
				continue
			}
			for _, n := range needles {
				if strings.Contains(l, n) {
					sig := "log-leak:" + c17Site(l, n)
					show := l
					if len(show) > 400 {
						show = show[:400]
					}
					rc.Violations = append(rc.Violations, Violation{Sig: sig, Msg: "a client address reached the station's log output: " + show, Stage: stage, Mon: "log-grep",
						Detail: map[string]interface{}{"line": show, "needle": n, "case": desc[stage][cur], "case_n": cur}})
					break
				}
			}
		}
		fh.Close()
		if !sawEnd && rc.Only == "" {
			rc.Errors = append(rc.Errors, fmt.Sprintf("stage %s: end-of-run marker missing in captured output (output not complete)", stage))
		}
	}
	rc.addCount("log_lines_scanned", lines)
	rc.addCount("log_bytes_scanned", bytesN)
	rc.addCount("case_markers_seen", markers)
	if lines < 10 && rc.Only == "" {
		rc.Errors = append(rc.Errors, "captured process output is (almost) empty: the monitor observed nothing")
	}
}

func init() {
	register(&Prop{
		ID: "C17", Level: "fault_enumeration", Floor: 500,
		Rule: "a case = (client address family ∈ {v4, v6, v4-mapped}, classification outcome ∈ {no registration, no transport, found, transport error}, injection site = k-th Read / SetDeadline / Write / Close of classification or relay, " +
			"error shape ∈ {15 errnos, deadline exceeded, closed, wrapped / nested / joined operation errors}); errors are shaped exactly as package net shapes them at that call (Source/Addr as net sets them). " +
			"The whole matrix is enumerated; a second sub-workload drives registration ingest to every outcome with distinctive registrant addresses. The deciding oracle is offline: grep of everything the child process wrote for every textual form of the client addresses. distinct_nontrivial = distinct matrix cells executed",
		Assumptions: []string{
			"all station loggers write to the process's stdout/stderr (checked: log.New(os.Stdout…) / os.Stderr); LOG_CLIENT_IP unset; log level at the station's default (Error, which by the station's level order also prints Info)",
			"SetDeadline errors are injected in the shape package net gives them (they carry only the local address); a both-endpoint text at SetDeadline cannot come from the network stack and is not injected",
			"only the client's / registrant's address is searched for; phantom, covert and station addresses may appear",
		},
		Stages: []Stage{
			{Name: "conns", Dir: "cmd/application", Pkg: ".", Run: "^TestVerifC17Conns$", Drivers: []string{"app"}, Exports: []string{"lib"}, TimeoutQ: 6 * time.Minute, TimeoutT: 60 * time.Minute},
			{Name: "proxyheader", Dir: "cmd/application", Pkg: ".", Run: "^TestVerifC17ProxyHeader$", Drivers: []string{"app"}, Exports: []string{"lib"}, TimeoutQ: 6 * time.Minute, TimeoutT: 60 * time.Minute},
			{Name: "fdexhaust", Dir: "cmd/application", Pkg: ".", Run: "^TestVerifC17FdExhaust$", Drivers: []string{"app"}, Exports: []string{"lib"}, TimeoutQ: 6 * time.Minute, TimeoutT: 30 * time.Minute},
			{Name: "ingest", Pkg: "./pkg/station/lib", Run: "^TestVerifC17Ingest$", Drivers: []string{"lib"}, Exports: []string{"cdtls"}, TimeoutQ: 6 * time.Minute, TimeoutT: 60 * time.Minute},
			// the relay handed connections that offer what *net.TCPConn offers (scripted, and real loopback sockets); same overlay as ingest (shared build)
			{Name: "relay", Pkg: "./pkg/station/lib", Run: "^TestVerifC17Relay$", Drivers: []string{"lib"}, Exports: []string{"cdtls"}, TimeoutQ: 6 * time.Minute, TimeoutT: 60 * time.Minute},
		},
		Post: c17Post,
	})
}
