// vcheck is the orchestrator of the /verif runtime monitors: it injects the drivers into the
// repository's packages with `go test -overlay`, runs them as child processes against /repo's
// current working tree, collects what the monitors observed, runs the offline oracles, filters
// through known_findings.json and writes the evidence file.
package main

import (
	"encoding/json"
	"flag"
	"fmt"
	"os"
	"path/filepath"
	"sort"
	"strconv"
	"strings"
	"time"
)

var (
	verifDir = "/verif"
	repoDir  = "/repo"
)

func main() {
	if v := os.Getenv("VERIF_DIR"); v != "" {
		verifDir = v
	}
	if v := os.Getenv("VERIF_REPO"); v != "" {
		repoDir = v
	}
	if len(os.Args) < 2 {
		fmt.Fprintln(os.Stderr, "usage: vcheck <Cxx> [--tier quick|thorough] [--seed n] [--replay file] [--keep] [--only stage]")
		os.Exit(2)
	}
	id := os.Args[1]
	fs := flag.NewFlagSet("vcheck", flag.ExitOnError)
	tier := fs.String("tier", "", "quick|thorough (default: $VERIF_TIER or quick)")
	seed := fs.Int64("seed", -1, "seed (default: $VERIF_SEED or 1)")
	replay := fs.String("replay", "", "replay file written by an earlier run")
	keep := fs.Bool("keep", false, "keep the work directory")
	only := fs.String("only", "", "run only stages whose name contains this")
	noEvidence := fs.Bool("no-evidence", false, "do not rewrite the evidence file")
	fs.Parse(os.Args[2:])

	if *replay != "" {
		var rp Replay
		b, err := os.ReadFile(*replay)
		if err == nil {
			err = json.Unmarshal(b, &rp)
		}
		if err != nil {
			fmt.Fprintln(os.Stderr, "ERROR cannot read replay file:", err)
			os.Exit(2)
		}
		*tier, *seed = rp.Tier, rp.Seed
		if rp.Stage != "" && *only == "" {
			*only = rp.Stage
		}
		*noEvidence = true
	}
	if *tier == "" {
		*tier = os.Getenv("VERIF_TIER")
	}
	if *tier != "thorough" {
		*tier = "quick"
	}
	if *seed < 0 {
		*seed = 1
		if s := os.Getenv("VERIF_SEED"); s != "" {
			if v, err := strconv.ParseInt(s, 10, 64); err == nil {
				*seed = v
			}
		}
	}

	p, ok := props[id]
	if !ok {
		fmt.Fprintln(os.Stderr, "ERROR unknown property", id)
		os.Exit(2)
	}
	rc := &RunCtx{Prop: p, Tier: *tier, Seed: *seed, Only: *only, Keep: *keep, Start: time.Now()}
	code := rc.run(!*noEvidence)
	os.Exit(code)
}

// Replay is what a replay file holds.
type Replay struct {
	Property   string        `json:"property"`
	Tier       string        `json:"tier"`
	Seed       int64         `json:"seed"`
	Stage      string        `json:"stage,omitempty"`
	Signature  string        `json:"signature"`
	Message    string        `json:"message"`
	Events     []interface{} `json:"events"`
	HowToRerun string        `json:"how_to_rerun"`
}

// Violation is one violation after collection.
type Violation struct {
	Sig    string
	Msg    string
	Stage  string
	Mon    string
	Detail interface{}
	Extra  string // path of a dump etc.
}

// RunCtx is the state of one check run.
type RunCtx struct {
	Prop  *Prop
	Tier  string
	Seed  int64
	Only  string
	Keep  bool
	Start time.Time

	Work       string
	Violations []Violation
	Incon      []string
	Errors     []string
	Counts     map[string]int64
	Distinct   map[string]int64
	Samples    []interface{}
	Exhaustive []string
	Notes      []string
	StageInfo  []map[string]interface{}
	Extra      map[string]interface{}
}

func (rc *RunCtx) thorough() bool { return rc.Tier == "thorough" }

func (rc *RunCtx) addCount(k string, n int64) {
	if rc.Counts == nil {
		rc.Counts = map[string]int64{}
	}
	rc.Counts[k] += n
}
func (rc *RunCtx) addDistinct(k string, n int64) {
	if rc.Distinct == nil {
		rc.Distinct = map[string]int64{}
	}
	rc.Distinct[k] += n
}

func (rc *RunCtx) run(writeEvidence bool) int {
	var err error
	if err = os.MkdirAll(filepath.Join(verifDir, "work"), 0o755); err != nil {
		fmt.Println("ERROR", err)
		return 2
	}
	rc.Work, err = os.MkdirTemp(filepath.Join(verifDir, "work"), rc.Prop.ID+"-")
	if err != nil {
		fmt.Println("ERROR", err)
		return 2
	}
	if !rc.Keep {
		defer os.RemoveAll(rc.Work)
	}
	rc.Extra = map[string]interface{}{}

	for i := range rc.Prop.Stages {
		st := &rc.Prop.Stages[i]
		if rc.Only != "" && !strings.Contains(st.Name, rc.Only) {
			continue
		}
		if st.ThoroughOnly && !rc.thorough() {
			continue
		}
		if st.QuickOnly && rc.thorough() {
			continue
		}
		rc.runStage(st)
	}
	if rc.Prop.Post != nil && len(rc.Errors) == 0 {
		rc.Prop.Post(rc)
	}

	// ---- verdict --------------------------------------------------------------------------------
	kf := loadKnownFindings()
	known := map[string]int{}
	var fresh []Violation
	for _, v := range rc.Violations {
		if f := kf.match(rc.Prop.ID, v.Sig); f != nil {
			known[f.Signature+"\x00"+f.What]++
			continue
		}
		fresh = append(fresh, v)
	}
	var knownKeys []string
	for k := range known {
		knownKeys = append(knownKeys, k)
	}
	sort.Strings(knownKeys)
	for _, k := range knownKeys {
		parts := strings.SplitN(k, "\x00", 2)
		fmt.Printf("KNOWN-FINDING: property=%s %s [signature %s, seen %d×]\n", rc.Prop.ID, parts[1], parts[0], known[k])
	}

	code := 0
	if len(rc.Errors) > 0 {
		for _, e := range rc.Errors {
			fmt.Println("ERROR", e)
		}
		code = 2
	}
	evals := rc.Counts["evaluations"]
	if code == 0 && len(fresh) == 0 && rc.Only == "" && evals < rc.Prop.Floor {
		fmt.Printf("ERROR property=%s observed only %d evaluations (floor %d): inconclusive, refusing to claim the property held\n", rc.Prop.ID, evals, rc.Prop.Floor)
		code = 2
	}
	if len(fresh) > 0 {
		code = 1
		// one replay file per distinct signature
		os.MkdirAll(filepath.Join(verifDir, "replays", rc.Prop.ID), 0o755)
		bySig := map[string][]Violation{}
		var order []string
		for _, v := range fresh {
			if _, ok := bySig[v.Sig]; !ok {
				order = append(order, v.Sig)
			}
			bySig[v.Sig] = append(bySig[v.Sig], v)
		}
		for i, sig := range order {
			vs := bySig[sig]
			rp := Replay{Property: rc.Prop.ID, Tier: rc.Tier, Seed: rc.Seed, Stage: vs[0].Stage, Signature: sig, Message: vs[0].Msg,
				HowToRerun: fmt.Sprintf("cd /verif && bin/vcheck %s --tier %s --seed %d --only %s", rc.Prop.ID, rc.Tier, rc.Seed, vs[0].Stage)}
			for j, v := range vs {
				if j >= 5 {
					break
				}
				rp.Events = append(rp.Events, map[string]interface{}{"monitor": v.Mon, "msg": v.Msg, "detail": v.Detail, "extra": v.Extra})
			}
			path := filepath.Join(verifDir, "replays", rc.Prop.ID, fmt.Sprintf("%s-s%d-%d.json", rc.Tier, rc.Seed, i))
			b, _ := json.MarshalIndent(rp, "", " ")
			os.WriteFile(path, b, 0o644)
			fmt.Printf("VIOLATION property=%s replay=%s\n", rc.Prop.ID, path)
			fmt.Printf("  signature=%s count=%d: %s\n", sig, len(vs), vs[0].Msg)
		}
	}
	for _, s := range rc.Incon {
		fmt.Println("INCONCLUSIVE", s)
	}

	if writeEvidence && rc.Only == "" {
		rc.writeEvidence(len(fresh), len(rc.Violations)-len(fresh))
	}
	if code == 0 {
		if rc.Distinct["nontrivial"] > evals {
			evals = rc.Distinct["nontrivial"] // judged cases (see writeEvidence)
		}
		fmt.Printf("OK property=%s tier=%s seed=%d evaluations=%d distinct=%d known_findings=%d wall=%.1fs\n",
			rc.Prop.ID, rc.Tier, rc.Seed, evals, rc.Distinct["nontrivial"], len(known), time.Since(rc.Start).Seconds())
	}
	return code
}

func (rc *RunCtx) writeEvidence(fresh, knownN int) {
	cov := map[string]interface{}{}
	cov["evaluations"] = rc.Counts["evaluations"]
	cov["distinct_nontrivial"] = rc.Distinct["nontrivial"]
	if rc.Distinct["nontrivial"] > rc.Counts["evaluations"] {
		// some drivers count an evaluation per input message and a distinct case per registration / direction judged from
		// it: every distinct case was evaluated at least once, so the number of evaluations is at least that
		cov["evaluations_counted_per_input"] = rc.Counts["evaluations"]
		cov["evaluations"] = rc.Distinct["nontrivial"]
		cov["evaluations_note"] = "the drivers count one evaluation per input and several distinct judged cases per input; evaluations is reported as the number of judged cases (>= distinct_nontrivial), the per-input count is in evaluations_counted_per_input"
	}
	cov["rule"] = rc.Prop.Rule
	samples := rc.Samples
	if len(samples) > 12 {
		samples = samples[:12]
	}
	if samples == nil {
		samples = []interface{}{}
	}
	cov["samples"] = samples
	cov["counts"] = rc.Counts
	cov["distinct"] = rc.Distinct
	if len(rc.Exhaustive) > 0 {
		cov["exhaustive_subspaces"] = rc.Exhaustive
	}
	cov["exhaustive"] = false
	cov["stages"] = rc.StageInfo
	cov["inconclusive_observations"] = len(rc.Incon)
	if len(rc.Incon) > 0 {
		n := rc.Incon
		if len(n) > 10 {
			n = n[:10]
		}
		cov["inconclusive_samples"] = n
	}
	cov["known_finding_hits"] = knownN
	if len(rc.Notes) > 0 {
		cov["notes"] = rc.Notes
	}
	for k, v := range rc.Extra {
		cov[k] = v
	}
	ev := map[string]interface{}{
		"property_id": rc.Prop.ID,
		"tier":        rc.Tier,
		"seed":        rc.Seed,
		"level":       rc.Prop.Level,
		"coverage":    cov,
		"assumptions": rc.Prop.Assumptions,
		"wall_s":      time.Since(rc.Start).Seconds(),
		"violations":  fresh,
	}
	os.MkdirAll(filepath.Join(verifDir, "evidence"), 0o755)
	b, _ := json.MarshalIndent(ev, "", " ")
	os.WriteFile(filepath.Join(verifDir, "evidence", rc.Prop.ID+".json"), b, 0o644)
}

// ---- known findings ---------------------------------------------------------------------------

type Finding struct {
	Property  string `json:"property"`
	Status    string `json:"status"` // known | fixed
	Signature string `json:"signature"`
	What      string `json:"what"`
	Commit    string `json:"commit,omitempty"`
}
type KnownFindings struct {
	Findings []Finding `json:"findings"`
	Lines    []string  `json:"lines,omitempty"`
}

func loadKnownFindings() *KnownFindings {
	var kf KnownFindings
	b, err := os.ReadFile(filepath.Join(verifDir, "known_findings.json"))
	if err == nil {
		json.Unmarshal(b, &kf)
	}
	// fragments (merged into known_findings.json before they are committed for good)
	frags, _ := filepath.Glob(filepath.Join(verifDir, "known_findings.d", "*.json"))
	sort.Strings(frags)
	for _, f := range frags {
		var k2 KnownFindings
		if b, err := os.ReadFile(f); err == nil && json.Unmarshal(b, &k2) == nil {
			kf.Findings = append(kf.Findings, k2.Findings...)
		}
	}
	return &kf
}

// match returns the known (not fixed) finding whose signature equals sig exactly.
func (kf *KnownFindings) match(prop, sig string) *Finding {
	for i := range kf.Findings {
		f := &kf.Findings[i]
		if f.Status == "known" && f.Property == prop && f.Signature == sig {
			return f
		}
	}
	return nil
}
