package main

import (
	"fmt"
	"strings"
	"time"
)

func init() {
	// race reports are attributed to C14 only if one of the two racing accesses runs inside the selection code of
	// pkg/phantoms (a frame of that package that is not driver code)
	inPhantoms := func(r RaceReport) bool {
		for i, st := range r.Stacks {
			if i >= 2 {
				break
			}
			for _, f := range st {
				if strings.Contains(f, "refraction-networking/conjure/pkg/phantoms.") && !strings.Contains(f, "erif") {
					return true
				}
			}
		}
		return false
	}
	register(&Prop{
		ID: "C14", Level: "exploration", Floor: 40000,
		Rule: "an evaluation = one selection by the real code (PhantomIPSelector.Select for lib versions 0-4, SelectPhantom, or one offset through " +
			"selectAddrFromSubnetOffset) judged by the online oracles (well-formed / family / containment via net/netip / randomisation flag / panic); " +
			"distinct_nontrivial = distinct (configuration, path, generation, family, seed) cases in which the code returned an address or panicked " +
			"(an error return is allowed by the property and is counted separately) plus distinct small subnets whose offsets were enumerated completely; " +
			"serial repeats, alias checks and concurrent re-executions (2-32 goroutines, also under -race) are counted in their own counters",
		Assumptions: []string{
			"a subnet written as an IPv4-mapped IPv6 prefix (::ffff:a.b.c.d/n, n>=96) may be served either as that IPv6 subnet or as the IPv4 subnet a.b.c.d/(n-96); both readings are accepted",
			"with overlapping subnets the chosen subnet is not observable from the address: port randomisation is accepted if ANY containing subnet's group allows it",
			"error returns are always allowed (the property permits failing with an error); which group a weighted draw picks is not asserted here (C01 pins it)",
			"concurrent impurity is probabilistic: a run without mismatches does not show their absence; race reports come only from interleavings that happened",
		},
		Stages: []Stage{
			{Name: "select", Pkg: "./pkg/phantoms", Run: "^TestVerifC14Select$", Drivers: []string{"phantoms"}, TimeoutQ: 10 * time.Minute, TimeoutT: 40 * time.Minute},
			{Name: "offsets", Pkg: "./pkg/phantoms", Run: "^TestVerifC14Offsets$", Drivers: []string{"phantoms"}, TimeoutQ: 10 * time.Minute, TimeoutT: 40 * time.Minute},
			{Name: "concurrent-race", Pkg: "./pkg/phantoms", Run: "^TestVerifC14Concurrent$", Drivers: []string{"phantoms"}, Race: true, RaceFilter: inPhantoms,
				TimeoutQ: 10 * time.Minute, TimeoutT: 40 * time.Minute},
		},
		Post: func(rc *RunCtx) {
			if rc.Only != "" {
				return
			}
			for _, v := range rc.Violations {
				if strings.HasPrefix(v.Sig, "crash:") || strings.HasPrefix(v.Sig, "hang:") {
					return // a stage died (that is reported as a violation); its counters are incomplete by construction
				}
			}
			// the containment oracle only has something to judge when the code returns addresses
			if a, n := rc.Counts["select.outcome_address"], rc.Counts["select.evaluations"]; n > 0 && a*5 < n {
				rc.Errors = append(rc.Errors, fmt.Sprintf("C14: only %d of %d selections returned an address; the containment oracle observed too little (inconclusive)", a, n))
			}
			if rc.Counts["concurrent.concurrent_selections"] == 0 || rc.Counts["offsets.subnets"] == 0 {
				rc.Errors = append(rc.Errors, "C14: a stage observed nothing")
			}
		},
	})
}
