package main

import "time"

func init() {
	register(&Prop{
		ID: "C06", Level: "exploration", Floor: 20000,
		Rule: "decision monitor: a case = (covert string, policy); it is non-trivial when the string has host:port structure with a decimal 16-bit port " +
			"(so the verdict depended on policy / resolver, not on syntax alone); distinct_nontrivial = distinct (string, policy) pairs of that kind. " +
			"e2e monitor: a case = one registration pushed through parseRegMessage + ingestRegistration (+ Proxy when it became valid) with loopback listeners " +
			"on permitted and forbidden addresses; distinct = (scenario kind, policy mode, registration source, v4/v6 split, flags variant of the message: none / empty / prescanned / proxy_header / use_TIL+upload_only+dark_decoy / all – every e2e class builds its messages with a rotating RegistrationFlags variant, every (kind, policy mode, variant) at least once); further e2e classes: histories of one secret with different coverts " +
			"and back-dated records, admitted literal without listener (failure path of Proxy), and registrations on connecting transports (mock + real DTLS transport, Connect succeeds) " +
			"whose sessions ingest itself hands to Proxy – per (policy, covert class, source) the evidence counts cases, successful Connects and observed Proxy runs. " +
			"reloaddiff monitor: a case = (reload step of a configuration chain, covert): the reloaded manager's decision is compared with a manager freshly started from the new file; " +
			"per (reload kind, covert class) the evidence counts decisions and decisions that changed across the reload. " +
			"reloadrace monitor: a case = one distinguishing literal compared with a freshly started manager at a quiet point after a back-to-back pair of reloads under spinning checkers",
		Assumptions: []string{
			"policy entries are canonical CIDRs / valid regexps (malformed entries are C19's subject); no v4-mapped IPv6 CIDRs are generated",
			"'inside a subnet' is judged on the address net.Dial connects to: v4-mapped literals are unmapped, zones are dropped",
			"names are answered by an in-process scripted DNS server through Go's pure resolver (PreferGo); libc resolver behaviour (inet_aton spellings) is not exercised",
			"listener accept order (marker connection) is used to decide that no further connection arrived; a late accept would only hide a violation, never create one",
		},
		Stages: []Stage{
			{Name: "decision", Pkg: "./pkg/station/lib", Run: "^TestVerifC06Decision$", Drivers: []string{"lib"}, Exports: []string{"cdtls"}, TimeoutQ: 10 * time.Minute, TimeoutT: 40 * time.Minute},
			{Name: "reload", Pkg: "./pkg/station/lib", Run: "^TestVerifC06ReloadConsistency$", Drivers: []string{"lib"}, Exports: []string{"cdtls"}, Race: true, TimeoutQ: 10 * time.Minute, TimeoutT: 40 * time.Minute,
				RaceFilter: func(r RaceReport) bool { return r.Has("station/lib.") }},
			{Name: "reloaddiff", Pkg: "./pkg/station/lib", Run: "^TestVerifC06ReloadDifferential$", Drivers: []string{"lib"}, Exports: []string{"cdtls"}, TimeoutQ: 10 * time.Minute, TimeoutT: 40 * time.Minute},
			{Name: "reloadrace", Pkg: "./pkg/station/lib", Run: "^TestVerifC06ReloadQuietPoint$", Drivers: []string{"lib"}, Exports: []string{"cdtls"}, TimeoutQ: 10 * time.Minute, TimeoutT: 40 * time.Minute},
			{Name: "e2e", Pkg: "./pkg/station/lib", Run: "^TestVerifC06EndToEnd$", Drivers: []string{"lib"}, Exports: []string{"cdtls"}, TimeoutQ: 10 * time.Minute, TimeoutT: 40 * time.Minute},
		},
	})
}
